/-
Helper lemmas for the `testResults` accumulator model (`Model/AssertSeq.lean`).
-/
import ConfModel.Model.AssertSeq
namespace ConfModel.AssertSeq
open ConfModel.Assert

theorem get_set_same {β : Type} (s : Store β) (n : String) (o : β) : get (set s n o) n = some o := by
  simp [set, get]

theorem get_set_other {β : Type} (s : Store β) (n m : String) (o : β) (h : m ≠ n) :
    get (set s m o) n = get s n := by
  simp [set, get, h]

theorem startAll_other (n : String) : ∀ (ns : List String) (o : Store Outcome), ns.contains n = false →
    get (startAll o ns) n = get o n := by
  intro ns
  induction ns with
  | nil => intro o _; rfl
  | cons m ms ih =>
    intro o h
    simp only [List.contains_cons, Bool.or_eq_false_iff, beq_eq_false_iff_ne, ne_eq] at h
    rw [startAll, ih _ h.2, get_set_other _ _ _ _ (fun e => h.1 e.symm)]

theorem remainingAll_present (n : String) (x : Outcome) : ∀ (ns : List String) (o : Store Outcome),
    get o n = some x → get (remainingAll o ns) n = some x := by
  intro ns
  induction ns with
  | nil => intro o h; exact h
  | cons m ms ih =>
    intro o h
    rw [remainingAll]
    apply ih
    cases hm : get o m with
    | some _ => exact h
    | none =>
      have : m ≠ n := by intro e; subst e; rw [h] at hm; cases hm
      simp only []
      rw [get_set_other _ _ _ _ this]; exact h

/-- a call that does not write `n` leaves a present outcome of `n` as it is -/
theorem step_keeps (g : Int) (n : String) (x : Outcome) (s : State) (c : Call)
    (hw : c.writes n = false) (h : get s.outcomes n = some x) : get (step g s c).outcomes n = some x := by
  cases c with
  | assert m st other e a =>
    simp only [Call.writes, decide_eq_false_iff_not] at hw
    simp only [step]; rw [get_set_other _ _ _ _ hw]; exact h
  | failed m =>
    simp only [Call.writes, decide_eq_false_iff_not] at hw
    simp only [step]; rw [get_set_other _ _ _ _ hw]; exact h
  | neither m =>
    simp only [Call.writes, decide_eq_false_iff_not] at hw
    simp only [step]; rw [get_set_other _ _ _ _ hw]; exact h
  | setup m =>
    simp only [Call.writes, decide_eq_false_iff_not] at hw
    simp only [step]; rw [get_set_other _ _ _ _ hw]; exact h
  | start ns =>
    simp only [Call.writes] at hw
    simp only [step]; rw [startAll_other n ns _ hw]; exact h
  | remaining ns => simp only [step]; exact remainingAll_present n x ns _ h
  | sideband m msg => simp only [step]; exact h

theorem foldl_keeps (g : Int) (n : String) (x : Outcome) : ∀ (post : List Call) (s : State),
    (∀ c ∈ post, c.writes n = false) → get s.outcomes n = some x →
    get (post.foldl (step g) s).outcomes n = some x := by
  intro post
  induction post with
  | nil => intro s _ h; exact h
  | cons c cs ih =>
    intro s hw h
    rw [List.foldl_cons]
    exact ih _ (fun c' hc' => hw c' (List.mem_cons_of_mem _ hc')) (step_keeps g n x s c (hw c (List.mem_cons_self ..)) h)

/-- side-band entries only come from `recordSideband` calls -/
theorem step_sideband_none (g : Int) (n : String) (s : State) (c : Call)
    (hc : c.isSidebandFor n = false) (h : get s.sideband n = none) : get (step g s c).sideband n = none := by
  cases c with
  | sideband m msg =>
    simp only [Call.isSidebandFor, decide_eq_false_iff_not] at hc
    simp only [step]; rw [get_set_other _ _ _ _ hc]; exact h
  | _ => simp only [step]; exact h

theorem foldl_sideband_none (g : Int) (n : String) : ∀ (cs : List Call) (s : State),
    (∀ c ∈ cs, c.isSidebandFor n = false) → get s.sideband n = none →
    get (cs.foldl (step g) s).sideband n = none := by
  intro cs
  induction cs with
  | nil => intro s _ h; exact h
  | cons c cs ih =>
    intro s hc h
    rw [List.foldl_cons]
    exact ih _ (fun c' hc' => hc c' (List.mem_cons_of_mem _ hc')) (step_sideband_none g n s c (hc c (List.mem_cons_self ..)) h)

/-- without a side-band entry for `n`, `processSidebandInfoLocked` leaves `n` alone -/
theorem processSideband_other (n : String) (o : Store Outcome) : ∀ (sb : Store String),
    get sb n = none → get (processSideband o sb) n = get o n := by
  intro sb
  induction sb with
  | nil => intro _; rfl
  | cons p older ih =>
    obtain ⟨m, msg⟩ := p
    intro h
    simp only [get] at h
    by_cases hm : m = n
    · simp [hm] at h
    · simp only [hm, if_false] at h
      simp only [processSideband]
      rw [get_set_other _ _ _ _ hm]; exact ih h

end ConfModel.AssertSeq
