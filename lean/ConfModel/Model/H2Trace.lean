/-
C15 — traces, events and the trace builder as used by the HTTP/2 connection tracer
(internal/tracer/tracer.go `Trace`, `Event`s; internal/tracer/builder.go `builder.add`).
Timestamps (event offsets) are not modelled.
-/
import ConfModel.Model.H2Block
namespace ConfModel.H2

/-- error classes that can end up in a trace of the HTTP/2 connection tracer -/
inductive Err
  | none
  | stream (id code : Nat)     -- http2.StreamError{StreamID, Code}
  | conn (code : Nat)          -- http2.ConnectionError(code)
  | io (tag : String)          -- error returned by the inner conn's Read/Write (identified by tag)
  | closed (tag : String)      -- "socket closed" (tag = inner Close error, "" if nil)
deriving DecidableEq, Repr, Inhabited

/-- `isRetryable`: REFUSED_STREAM (7) on the stream, or GOAWAY with NO_ERROR (0) -/
def Err.retryable : Err → Bool
  | .stream _ c => c == 7
  | .conn c => c == 0
  | _ => false

structure Env where
  flags : Nat
  len : Nat
deriving DecidableEq, Repr, Inhabited

abbrev Fields := List (String × String)

inductive Ev
  | reqStart
  | reqData (env : Option Env) (len idx : Nat)
  | reqEnd (err : Err)
  | respStart (fields : Fields)
  | respData (env : Option Env) (len idx : Nat)
  | respEos (content : Bytes)
  | respEnd (err : Err)
  | canceled
deriving DecidableEq, Repr, Inhabited

structure Trace where
  name : String                      -- TestName
  req : Fields                       -- decoded fields of the request HEADERS (makeRequest)
  reqTrailers : Option Fields        -- Request.Trailer
  resp : Option Fields               -- Response (makeResponse), none = nil
  respTrailers : Option Fields       -- Response.Trailer
  err : Err
  events : List Ev
deriving DecidableEq, Repr, Inhabited

def Trace.empty : Trace :=
  { name := "", req := [], reqTrailers := none, resp := none, respTrailers := none, err := .none, events := [] }

structure Builder where
  trace : Trace
  reqCount : Nat
  respCount : Nat
deriving DecidableEq, Repr, Inhabited

/-- `getAndClearLocked`: subsequent adds are ignored (TestName = "") -/
def Builder.clear (b : Builder) : Builder := { b with trace := Trace.empty }

def Builder.push (b : Builder) (e : Ev) : Builder :=
  { b with trace := { b.trace with events := b.trace.events ++ [e] } }

/-- `builder.add`; the index of data events is assigned here. Returns the finished trace
(handed to `collector.Complete`) if the event finishes the operation. -/
def Builder.add (b : Builder) (ev : Ev) : Builder × Option Trace :=
  if b.trace.name = "" then (b, none) else
  match ev with
  | .reqData env len _ =>
    ({ (b.push (.reqData env len b.reqCount)) with reqCount := b.reqCount + 1 }, none)
  | .reqEnd e =>
    let b1 : Builder := { b with trace := { b.trace with err := if b.trace.err = .none then e else b.trace.err } }
    let b2 := b1.push (.reqEnd e)
    if e = .none then (b2, none) else (b2.clear, some b2.trace)
  | .respStart f =>
    ({ b with trace := { b.trace with resp := some f } }.push (.respStart f), none)
  | .respData env len _ =>
    ({ (b.push (.respData env len b.respCount)) with respCount := b.respCount + 1 }, none)
  | .respEnd e =>
    let b1 : Builder := { b with trace := { b.trace with err := if b.trace.err = .none then e else b.trace.err } }
    let b2 := b1.push (.respEnd e)
    (b2.clear, some b2.trace)
  | .canceled =>
    -- context.Canceled is not produced by the connection tracer's own events; the error class
    -- of a cancelled trace that has no earlier error is modelled as io "canceled"
    let b1 : Builder := { b with trace := { b.trace with err := if b.trace.err = .none then .io "canceled" else b.trace.err } }
    let b2 := b1.push .canceled
    (b2.clear, some b2.trace)
  | e => (b.push e, none)

/-- fold `add` over events, collecting finished traces -/
def Builder.addAll (b : Builder) : List Ev → Builder × List Trace
  | [] => (b, [])
  | e :: es =>
    let r := b.add e
    let r2 := Builder.addAll r.1 es
    (r2.1, r.2.toList ++ r2.2)

end ConfModel.H2
