/-
C05 — Each selected permutation is executed exactly once against a matching server.
Theorems about the dispatch plan (`Model/Run.lean`) and the server life-cycle bookkeeping.
The goroutine interleavings of the real runner are covered by proof only at the level of
this bookkeeping automaton (any number of batch threads, any schedule); the real runner is
observed with recording peers by the correspondence run.
-/
import ConfModel.Lemmas.Run
import ConfModel.Lemmas.ClientPipe
import ConfModel.Lemmas.ClientWait
import ConfModel.Props.C08
import ConfModel.Props.C04
namespace ConfModel.Props.C05
open ConfModel.Run ConfModel.Trie ConfModel.Glob

private theorem count_filter' {α} [BEq α] [LawfulBEq α] (q : α → Bool) (l : List α) (p : α) :
    (l.filter q).count p = if q p then l.count p else 0 := by
  induction l with
  | nil => simp
  | cons x xs ih =>
    simp only [List.filter_cons]
    by_cases hx : q x = true
    · simp only [hx, if_true, List.count_cons, ih]
      by_cases hp : q p = true
      · simp [hp]
      · have : (x == p) = false := by
          cases hxp : x == p
          · rfl
          · have := eq_of_beq hxp; subst this; exact absurd hx hp
        simp [hp, this]
    · simp only [hx, Bool.false_eq_true, if_false, ih, List.count_cons]
      by_cases hp : q p = true
      · have : (x == p) = false := by
          cases hxp : x == p
          · rfl
          · have := eq_of_beq hxp; subst this; exact absurd hp hx
        simp [hp, this]
      · simp [hp]

private theorem count_batchFor (perms : List Perm) (run skip : Node) (i : Inst) (p : Perm) :
    (batchFor perms run skip i).count p =
      if p.inst = i ∧ accept run skip p.name = true then perms.count p else 0 := by
  simp only [batchFor, count_filter']
  by_cases h1 : accept run skip p.name = true <;> by_cases h2 : p.inst = i <;> simp [h1, h2]

private theorem plan_cons (perms : List Perm) (run skip : Node) (i : Inst) (is : List Inst) :
    ((plan perms run skip (i :: is)).flatMap (·.2)) =
      batchFor perms run skip i ++ (plan perms run skip is).flatMap (·.2) := by
  simp only [plan, List.filterMap_cons]
  by_cases he : (batchFor perms run skip i).isEmpty = true
  · simp only [he, if_true]
    have : batchFor perms run skip i = [] := by simpa using he
    simp [this]
  · simp [he]

/-- Exactly once: with the server instances listed without repetition, every permutation is
handed out as often as it occurs in the library if it passes the run/skip filter and its
instance is among the instances served, and not at all otherwise.  (The library's names are
unique, so "as often as it occurs" is once.) -/
theorem plan_count (perms : List Perm) (run skip : Node) (insts : List Inst) (hn : insts.Nodup) (p : Perm) :
    ((plan perms run skip insts).flatMap (·.2)).count p =
      if accept run skip p.name = true ∧ p.inst ∈ insts then perms.count p else 0 := by
  induction insts with
  | nil => simp [plan]
  | cons i is ih =>
    have hn' := (List.nodup_cons.mp hn)
    rw [plan_cons, List.count_append, count_batchFor, ih hn'.2]
    by_cases ha : accept run skip p.name = true
    · by_cases hi : p.inst = i
      · have : p.inst ∉ is := by rw [hi]; exact hn'.1
        simp [ha, hi, this, hn'.1]
      · by_cases hm : p.inst ∈ is <;> simp [ha, hi, hm]
    · simp [ha]

/-- Exactly once, in the words of the property: when the library holds every permutation once
(C07 `names_unique`: full names are pairwise distinct, so the list has no duplicates) and the
server instances are listed without repetition, every selected permutation whose instance is
served is handed out exactly once, and every other permutation never. -/
theorem plan_exactly_once (perms : List Perm) (run skip : Node) (insts : List Inst)
    (hp : perms.Nodup) (hn : insts.Nodup) (p : Perm) (hmem : p ∈ perms) :
    ((plan perms run skip insts).flatMap (·.2)).count p =
      if accept run skip p.name = true ∧ p.inst ∈ insts then 1 else 0 := by
  have hone : ∀ (l : List Perm), l.Nodup → p ∈ l → l.count p = 1 := by
    intro l
    induction l with
    | nil => intro _ h; simp at h
    | cons x xs ih =>
      intro hnd hm
      have hx := List.nodup_cons.mp hnd
      by_cases hxp : x = p
      · subst hxp
        have : xs.count x = 0 := List.count_eq_zero_of_not_mem hx.1
        simp [List.count_cons, this]
      · have hm' : p ∈ xs := by
          rcases List.mem_cons.mp hm with h | h
          · exact absurd h.symm hxp
          · exact h
        have hbeq : (x == p) = false := by simpa using hxp
        simp [List.count_cons, hbeq, ih hx.2 hm']
  rw [plan_count perms run skip insts hn p, hone perms hp hmem]

/-- a permutation of a batch was selected by the filter in the sense of glob semantics (C08) -/
theorem plan_selected (perms : List Perm) (run skip : Node) (insts : List Inst) (i : Inst) (b : List Perm)
    (hb : (i, b) ∈ plan perms run skip insts) (p : Perm) (hp : p ∈ b) :
    p ∈ perms ∧ p.inst = i ∧ b ≠ [] ∧
      (run = [] ∨ ∃ q ∈ run, globMatch q p.name = true) ∧ ¬ ∃ q ∈ skip, globMatch q p.name = true := by
  simp only [plan, List.mem_filterMap] at hb
  obtain ⟨j, _, hj⟩ := hb
  by_cases he : (batchFor perms run skip j).isEmpty = true
  · simp [he] at hj
  · simp only [he] at hj
    simp only [Bool.false_eq_true, if_false, Option.some.injEq, Prod.mk.injEq] at hj
    obtain ⟨rfl, rfl⟩ := hj
    simp only [batchFor, List.mem_filter, beq_iff_eq] at hp
    obtain ⟨⟨h1, h2⟩, h3⟩ := hp
    refine ⟨h1, h2, ?_, (ConfModel.Props.C08.accept_iff run skip p.name).mp h3⟩
    intro hnil; rw [hnil] at he; simp at he

/-- every server batch is addressed to the instance of each of its cases, and no server is
started for an empty batch -/
theorem batch_matches_instance (perms : List Perm) (run skip : Node) (insts : List Inst) (i : Inst) (b : List Perm)
    (hb : (i, b) ∈ plan perms run skip insts) : b ≠ [] ∧ ∀ p ∈ b, p.inst = i := by
  constructor
  · cases b with
    | nil =>
      simp only [plan, List.mem_filterMap] at hb
      obtain ⟨j, _, hj⟩ := hb
      by_cases he : (batchFor perms run skip j).isEmpty = true
      · simp [he] at hj
      · simp only [he, Bool.false_eq_true, if_false, Option.some.injEq, Prod.mk.injEq] at hj
        rw [hj.2] at he; simp at he
    | cons _ _ => simp
  · intro p hp; exact (plan_selected perms run skip insts i b hb p hp).2.1

/-- Never more than `max` permits are held — hence never more than `max` servers alive — in
any state reached by any schedule of any number of batch threads. -/
theorem bounded_servers (max n : Nat) (sched : List Nat) :
    let s := runSchedule max (List.replicate n PC.idle) sched
    aliveCount s ≤ max ∧ holdingCount s ≤ max := by
  have key : ∀ (sched : List Nat) (s : List PC), holdingCount s ≤ max → holdingCount (runSchedule max s sched) ≤ max := by
    intro sched
    induction sched with
    | nil => intro s h; exact h
    | cons i is ih =>
      intro s h
      simp only [runSchedule]
      cases hs : stepThread max s i with
      | none => exact ih s h
      | some s' => exact ih s' (step_inv max s s' i h hs)
  have h0 : holdingCount (List.replicate n PC.idle) ≤ max := by
    have : holdingCount (List.replicate n PC.idle) = 0 := by
      simp [holdingCount, List.filter_replicate, PC.holds]
    omega
  intro s
  exact ⟨Nat.le_trans (alive_le_holding _) (key sched _ h0), key sched _ h0⟩

/-- No deadlock in the bookkeeping: while some batch thread has not finished, some step is
enabled (provided at least one server may run). -/
theorem progress (max : Nat) (hmax : 0 < max) (s : List PC) (i : Nat) (pc : PC)
    (hi : s[i]? = some pc) (hnd : pc ≠ .done) : ∃ j, (stepThread max s j).isSome = true := by
  by_cases hh : ∃ (j : Nat) (pcj : PC), s[j]? = some pcj ∧ pcj.holds = true
  · obtain ⟨j, pcj, hj, hhold⟩ := hh
    refine ⟨j, ?_⟩
    cases pcj <;> simp_all [stepThread, PC.holds]
  · -- nobody holds a permit: the unfinished thread is idle and can acquire
    have hnone : holdingCount s = 0 := by
      simp only [holdingCount, List.length_eq_zero_iff, List.filter_eq_nil_iff]
      intro x hx
      obtain ⟨k, hk, rfl⟩ := List.mem_iff_getElem.mp hx
      intro hhold
      exact hh ⟨k, s[k], by simp [hk], hhold⟩
    have hidle : pc = .idle := by
      cases pc with
      | idle => rfl
      | done => exact absurd rfl hnd
      | holding => exact absurd ⟨i, _, hi, rfl⟩ hh
      | alive => exact absurd ⟨i, _, hi, rfl⟩ hh
      | stopped => exact absurd ⟨i, _, hi, rfl⟩ hh
    subst hidle
    exact ⟨i, by simp [stepThread, hi, hnone, hmax]⟩

/-! ### the dispatching loop and its exits: every started server is stopped when the run ends -/

/-- **Every started server is stopped when `run()` leaves the dispatching closure** — on the regular
way out and on the early return (the client under test was found gone while other batches were
still in flight): for any number of batches, any `--max-servers`, any schedule of dispatcher and
batch threads and any moment at which the client dies, in a state in which the closure has returned
no server is alive and no permit is held; and nothing changes afterwards. -/
theorem returned_all_stopped (max n : Nat) (evs : List Ev) :
    let s := execSys max (initSys n) evs
    s.disp = .returned → aliveCount s.threads = 0 ∧ holdingCount s.threads = 0 := by
  intro s hr
  have hinv : RetInv (initSys n) := by intro h; simp [initSys] at h
  exact allDone_counts _ (execSys_retInv max evs _ hinv hr)

/-- the bound of `bounded_servers` for the dispatching system (the dispatcher acquires, the batch
thread releases): never more than `max` servers alive, whatever the schedule and the client's fate -/
theorem dispatch_bounded (max n : Nat) (evs : List Ev) :
    let s := execSys max (initSys n) evs
    aliveCount s.threads ≤ max ∧ holdingCount s.threads ≤ max := by
  intro s
  have h0 : holdingCount (initSys n).threads ≤ max := by
    have : holdingCount (List.replicate n PC.idle) = 0 := by
      simp [holdingCount, PC.holds]
    simp only [initSys]; omega
  have h := execSys_holding max evs _ h0
  exact ⟨Nat.le_trans (alive_le_holding _) h, h⟩

/-- **The run terminates** (at the level of the bookkeeping): in every reachable state in which the
closure has not returned, the dispatcher or a batch thread can move — the early return never leaves
the dispatcher waiting for a thread that cannot finish, nor a thread waiting for a permit. -/
theorem dispatch_progress (max n : Nat) (hmax : 0 < max) (evs : List Ev) :
    let s := execSys max (initSys n) evs
    s.disp ≠ .returned → ∃ e, e ≠ Ev.clientDies ∧ (stepSys max s e).isSome = true := by
  intro s hr
  have hn0 : NextInv (initSys n) := by
    intro j _ hlen
    simp only [initSys, List.length_replicate] at hlen
    simp [initSys, hlen]
  have hn : NextInv s := execSys_nextInv max evs _ hn0
  cases hd : s.disp with
  | returned => exact absurd hd hr
  | draining =>
    by_cases hall : allDone s.threads = true
    · exact ⟨.dispatch, by simp, by simp [stepSys, stepDisp, hd, hall]⟩
    · obtain ⟨j, pc, hj, hh⟩ := exists_holding_of_not_allDone s.threads (by simpa using hall)
      exact ⟨.thread j, by simp, stepBatch_some_of_holds max s j pc hj hh⟩
  | looping =>
    by_cases hlt : s.next < s.threads.length
    · have hidle := hn s.next (Nat.le_refl _) hlt
      by_cases hc : holdingCount s.threads < max
      · refine ⟨.dispatch, by simp, ?_⟩
        have hst : stepThread max s.threads s.next = some (s.threads.set s.next .holding) := by
          simp [stepThread, hidle, hc]
        cases hup : s.clientUp <;> simp [stepSys, stepDisp, hd, hlt, hst, hup]
      · obtain ⟨j, pc, hj, hh⟩ := exists_holding s.threads (by omega)
        exact ⟨.thread j, by simp, stepBatch_some_of_holds max s j pc hj hh⟩
    · exact ⟨.dispatch, by simp, by simp [stepSys, stepDisp, hd, hlt]⟩

/-! ### the start-up handshake -/

/-- **Whichever way a server reads its request, the handshake of the batch runner gets its
response**: not at all, exactly the one length-prefixed message, or everything up to the end of
its input — the runner has written the request *and closed the server's stdin* before it waits.  So
a server that starts properly is never recorded as a set-up failure for the way it reads, and its
permutations are handed to the client. -/
theorem handshake_any_reader (need : SrvRead) : handshake need runnerHandshake = true := by
  cases need <;> rfl

/-- the order matters: waiting for the response before closing the input starves the server that
reads to the end of its input (and only that one) -/
theorem handshake_close_before_await :
    handshake .eof [.write, .await, .close] = false ∧ handshake .msg [.write, .await, .close] = true ∧
    handshake .blind [.await, .write, .close] = true ∧ handshake .msg [.await, .write, .close] = false := by
  decide

/-! ### the run terminates: what a batch thread waits for on its way from "server started" to "server ended"

The dispatching system above takes for granted that a batch thread, once its server is up, gets
to the point where it stops it.  On that way the batch hands its permutations to the client —
`sendRequest`, a write into the client's stdin while it holds `sendMu` — and then waits for its
`sync.WaitGroup`.  Two things keep it from waiting for ever. -/

/-- **A write to a client process that is gone comes back.**  The client under test is an OS
process (`runCommand`); it may exit at any moment — before it has read anything, between two
requests, in the middle of one.  In every state reached by any interleaving of the sender, os/exec's
copier, the goroutine that waits for the process and the process itself: once the process has
exited, a sender that is still inside its writes is not left alone — some step of the runner's own
goroutines is enabled (the write is taken by the copier, the copier fails with EPIPE and stops,
`cmd.Wait()` returns, the waiting goroutine **closes the read end of the stdin pipe**, the write
fails).  (`closeSend` cannot help: it needs `sendMu`, which the sender holds.) -/
theorem send_to_exited_client_returns (cfg : ClientPipe.Cfg) (hc : cfg.closeOnExit = true) (writes : Nat)
    (evs : List ClientPipe.Ev) :
    let s := ClientPipe.run cfg (ClientPipe.init cfg writes) evs
    s.procUp = false → ClientPipe.senderOut s = false →
      ∃ e, e.internal = true ∧ (ClientPipe.step cfg s e).isSome = true := by
  intro s hp ho
  have hinv : ClientPipe.PInv cfg s := ClientPipe.pinv_run cfg evs _ (ClientPipe.pinv_init cfg writes)
  have hw : 0 < s.toWrite := by
    simp only [ClientPipe.senderOut, beq_eq_false_iff_ne, ne_eq] at ho; omega
  obtain ⟨e, he, hen⟩ := ClientPipe.progress_after_exit cfg hc s hinv hp hw
  exact ⟨e, ClientPipe.own_internal e he, hen⟩

/-- … and no livelock: every step of the runner's own goroutines on that path lowers the measure
`ClientPipe.mu` (four per outstanding `Write`, plus what the copier and the waiting goroutine have
left to do). -/
theorem pipe_steps_terminate (cfg : ClientPipe.Cfg) (s s' : ClientPipe.St) (e : ClientPipe.Ev)
    (hi : e.internal = true) (hs : ClientPipe.step cfg s e = some s') : ClientPipe.mu s' < ClientPipe.mu s :=
  ClientPipe.internal_step_lt cfg s s' e hi hs

/-- Together: from any reachable state in which the client process has exited, letting the runner's
own goroutines run (`settle`: `mu s` rounds suffice) gets the sender out of `sendRequest` — whatever
the client had read, however many writes were outstanding. -/
theorem sender_returns_after_exit (cfg : ClientPipe.Cfg) (hc : cfg.closeOnExit = true) (writes : Nat)
    (evs : List ClientPipe.Ev) :
    let s := ClientPipe.run cfg (ClientPipe.init cfg writes) evs
    s.procUp = false → ClientPipe.senderOut (ClientPipe.settle cfg s (ClientPipe.mu s)) = true := by
  intro s hp
  have hinv : ClientPipe.PInv cfg s := ClientPipe.pinv_run cfg evs _ (ClientPipe.pinv_init cfg writes)
  have := ClientPipe.settle_out cfg hc (ClientPipe.mu s) s hinv hp (Nat.le_refl _)
  simp [ClientPipe.senderOut, this]

/-- What the closing of the stdin pipe on exit is for: without it, a client that exits while a
request is being written leaves the sender blocked for ever — the copier is gone after its first
EPIPE, `cmd.Wait()` has returned, and not a single step is enabled any more, of anybody
(`closeSend` waits for the sender's `sendMu`): the batch never stops its server and `run()` never
returns. -/
theorem exit_must_close_stdin :
    (ClientPipe.run ClientPipe.withoutClose (ClientPipe.init ClientPipe.withoutClose 2) [.pExit, .wHand, .cEpipe, .wDone, .wClose]).procUp = false ∧
    ClientPipe.senderOut (ClientPipe.run ClientPipe.withoutClose (ClientPipe.init ClientPipe.withoutClose 2) [.pExit, .wHand, .cEpipe, .wDone, .wClose]) = false ∧
    (∀ e : ClientPipe.Ev, ClientPipe.step ClientPipe.withoutClose
      (ClientPipe.run ClientPipe.withoutClose (ClientPipe.init ClientPipe.withoutClose 2) [.pExit, .wHand, .cEpipe, .wDone, .wClose]) e = none) ∧
    ClientPipe.senderOut (ClientPipe.settle ClientPipe.code
      (ClientPipe.run ClientPipe.code (ClientPipe.init ClientPipe.code 2) [.pExit, .wHand, .cEpipe, .wDone]) 4) = true := by
  refine ⟨by decide, by decide, fun e => by cases e <;> decide, by decide⟩

/-- **The `WaitGroup` of a batch is released.**  Several batches share the client runner; batch
`ids` (any list of `sendRequest` calls) counts up before each of its sends and is counted down by
the completion callback, or by itself when the send is refused.  In every terminal state of the
runner (output reader finished — for whatever reason: end of output, unknown or duplicate answer,
garbage, time-out —, every started send returned), reached by **any** interleaving of any number of
concurrent senders with the reader and any client behaviour, the counter is back at zero:
`wg.Wait()` passes, the batch goes on to stop its server.  This rests on the reader shutting the
send side (`closeSend`, which waits for `sendMu`) **before** it fails what is still pending: no send
registers after the sweep (C10 `exactly_once`). -/
theorem batch_wait_released (names : Nat → ClientRunner.Name) (evs : List ClientRunner.Event) (ids : List Nat)
    (ht : ClientRunner.Spec.Terminal (ClientRunner.run names ClientRunner.init evs)) :
    ClientRunner.batchWaitPasses (ClientRunner.run names ClientRunner.init evs) ids = true := by
  have := ClientRunner.wg_eq names _ (ClientRunner.reachable_inv names evs) ht ids
  simp [ClientRunner.batchWaitPasses, this]

/-- … and it never goes negative on the way (a negative `WaitGroup` counter panics): at any moment
of any run no request has been counted down more often than up. -/
theorem batch_wait_counter_sound (names : Nat → ClientRunner.Name) (evs : List ClientRunner.Event) (ids : List Nat) :
    ClientRunner.wgDones (ClientRunner.run names ClientRunner.init evs) ids ≤
      ClientRunner.wgAdds (ClientRunner.run names ClientRunner.init evs) ids :=
  ClientRunner.wg_le names _ (ClientRunner.reachable_inv names evs) ids

/-! ### the bound as the command line sets it -/

/-- **`--port P` means one server at a time.**  For every invocation the command line accepts with a
non-zero `--port` (whatever `--max-servers` defaults to; an explicit value above one is refused:
C04 `port_with_more_servers_refused`), the dispatching system runs with ONE permit: in any state
reached by any schedule of any number of batches, at most one server is alive — two reference
servers never compete for port P. -/
theorem cli_port_one_server_at_a_time (a : Cli.Args) (p : Cli.Plan) (h : Cli.run a = .proceed p) (hp : a.port ≠ 0)
    (n : Nat) (evs : List Ev) : aliveCount (execSys p.maxServers (initSys n) evs).threads ≤ 1 := by
  have h1 := ConfModel.Props.C04.port_implies_single_server a p h hp
  have := (dispatch_bounded p.maxServers n evs).1
  omega

/-- **Without a port the bound is the `--max-servers` given, or its default**: never more servers
alive than the flag's value. -/
theorem cli_servers_bounded (a : Cli.Args) (p : Cli.Plan) (h : Cli.run a = .proceed p) (hp : a.port = 0)
    (n : Nat) (evs : List Ev) : aliveCount (execSys p.maxServers (initSys n) evs).threads ≤ a.maxServers := by
  have h1 := (ConfModel.Props.C04.no_port_keeps_max_servers a p h hp).1
  have := (dispatch_bounded p.maxServers n evs).1
  omega

/-! ### gRPC-peer permutations go out under their marked names -/

/-- **Shape of a marked name.**  A full name is `prefix ++ simple` (suite, axis components, then the
components of the test's own name); its marked name is the prefix, the marker as ONE component,
then the simple name: the marker sits immediately before the ENDING that is the simple name —
wherever else the same components occur (test `a` of suite `a`, test `TLS`, a test named like its
suite): the first `prefix.length` components are untouched and what follows the marker is the simple
name. -/
theorem marked_name_shape (pre simple : List String) (m : String) :
    markName (pre ++ simple) simple m = pre ++ m :: simple ∧
    (markName (pre ++ simple) simple m).take pre.length = pre ∧
    (markName (pre ++ simple) simple m).drop (pre.length + 1) = simple ∧
    (markName (pre ++ simple) simple m)[pre.length]? = some m := by
  rw [markName_shape]
  refine ⟨rfl, by simp, by simp, by simp⟩

/-- **The marked name determines the permutation**: two permutations whose names do not contain the
marker as a component and whose marked names are equal have the same prefix and the same simple name
— hence the same full name. -/
theorem marked_name_injective (p1 s1 p2 s2 : List String) (m : String)
    (h1 : m ∉ p1 ++ s1) (h2 : m ∉ p2 ++ s2)
    (h : markName (p1 ++ s1) s1 m = markName (p2 ++ s2) s2 m) : p1 = p2 ∧ s1 = s2 :=
  markName_inj p1 s1 p2 s2 m h1 h2 h

/-- **A library without duplicates has marked names without duplicates, none of which is a plain
name**: with pairwise distinct full names (C07 `names_unique`) that do not contain the marker, the
gRPC-peer permutations get pairwise distinct names, different from every plain name — so the
duplicate-name refusal of the client runner (`duplicates_refused`) never drops one of them, and every
one can be selected by a pattern of its own. -/
theorem marked_names_distinct (m : String) (lib : List (List String × List String))
    (hn : (lib.map (fun e => e.1 ++ e.2)).Nodup) (hm : ∀ e ∈ lib, m ∉ e.1 ++ e.2) :
    (lib.map (fun e => markName (e.1 ++ e.2) e.2 m)).Nodup ∧
    ∀ e ∈ lib, markName (e.1 ++ e.2) e.2 m ∉ lib.map (fun e => e.1 ++ e.2) := by
  refine ⟨marked_nodup m lib hn hm, ?_⟩
  intro e _ hmem
  obtain ⟨e', he', heq⟩ := List.mem_map.mp hmem
  have : m ∈ e'.1 ++ e'.2 := by rw [heq, markName_shape]; simp
  exact hm e' he' this

/-- Why it must be the ENDING: cutting the full name where the simple name occurs FIRST maps all
permutations of test `a` in suite `a` (and of a test named like an axis component) onto one name. -/
theorem marker_before_last_occurrence :
    markAtFirst ["a", "HTTPVersion:1", "TLS:false", "a"] ["a"] grpcServerMarker =
      markAtFirst ["a", "HTTPVersion:2", "TLS:false", "a"] ["a"] grpcServerMarker ∧
    markName ["a", "HTTPVersion:1", "TLS:false", "a"] ["a"] grpcServerMarker = ["a", "HTTPVersion:1", "TLS:false", grpcServerMarker, "a"] ∧
    markName ["a", "HTTPVersion:2", "TLS:false", "a"] ["a"] grpcServerMarker = ["a", "HTTPVersion:2", "TLS:false", grpcServerMarker, "a"] ∧
    markAtFirst ["S", "TLS:false", "x", "TLS:false"] ["TLS:false"] grpcServerMarker = ["S", grpcServerMarker, "TLS:false"] ∧
    markAtFirst ["S", "TLS:false", "x"] ["x"] grpcServerMarker = markName ["S", "TLS:false", "x"] ["x"] grpcServerMarker := by decide

/-! ### whose certificate (the "matching server" also means: the certificate handed to the client is
the one the addressed server presents) -/

/-- Whatever server a started batch has — the reference server, with or without the operator's key
pair; a server under test that takes the credentials it is sent or makes its own — the certificate
every request of the batch carries is the one the server presents, and there is one exactly when the
instance uses TLS.  (`silent`, the server that reports nothing under TLS: the batch is not started.) -/
theorem handed_cert_is_served {α : Type} (k : SrvKind) (opFile : Option α) (runner fresh : α) (i : Inst) (sc : SrvCert α)
    (h : batchCert k opFile runner fresh i = some sc) :
    handedCert sc = sc.served ∧ (handedCert sc).isSome = i.tls := by
  unfold batchCert at h
  cases k <;> cases ht : i.tls <;> cases opFile <;>
    simp [serverCert, refServerCert, credsFor, ht] at h <;> subst h <;> simp [handedCert]

/-- … for both sources of the reference server's key pair: with the operator's files the client is
handed (and the server presents) the operator's certificate, without them the runner's. -/
theorem reference_cert_source {α : Type} (opFile : Option α) (runner fresh : α) (i : Inst) (ht : i.tls = true) :
    ∃ sc, batchCert .reference opFile runner fresh i = some sc ∧
      handedCert sc = some (opFile.getD runner) ∧ sc.served = some (opFile.getD runner) := by
  cases opFile <;> simp [batchCert, serverCert, refServerCert, credsFor, ht, handedCert]

/-- The same over the plan: every permutation of every batch that is started is handed to the client
with the certificate its batch's server presents — a certificate exactly when the permutation's own
instance uses TLS (composition with `batch_matches_instance`). -/
theorem batch_cert_matches_instance {α : Type} (perms : List Perm) (run skip : Node) (insts : List Inst) (i : Inst) (b : List Perm)
    (hb : (i, b) ∈ plan perms run skip insts) (k : SrvKind) (opFile : Option α) (runner fresh : α) (sc : SrvCert α)
    (h : batchCert k opFile runner fresh i = some sc) :
    ∀ p ∈ b, handedCert sc = sc.served ∧ (handedCert sc).isSome = p.inst.tls := by
  intro p hp
  have hi := (batch_matches_instance perms run skip insts i b hb).2 p hp
  rw [hi]
  exact handed_cert_is_served k opFile runner fresh i sc h

/-- Witness: the report must come from the listener's key pair.  A reference server that lists its
listener's choices file-first but its report credentials-first is the same server without the
operator's files and another one with them: the client is handed the runner's certificate while the
server presents the operator's. -/
theorem report_must_follow_listener :
    refReportCredsFirst true (none : Option String) (some "runner") "fresh" = refServerCert true none (some "runner") "fresh" ∧
    refServerCert true (some "operator") (some "runner") "fresh" = some "operator" ∧
    refReportCredsFirst true (some "operator") (some "runner") "fresh" = some "runner" := by decide

/-! Non-vacuity. -/
private def pa : Perm := ⟨["S", "a"], ⟨1, 1, false, false⟩⟩
private def pb : Perm := ⟨["S", "b"], ⟨2, 2, false, false⟩⟩
example : plan [pa, pb] [["S", "*"]] [["**", "b"]] [⟨1, 1, false, false⟩, ⟨2, 2, false, false⟩] =
    [(⟨1, 1, false, false⟩, [pa])] := by decide
example : runSchedule 1 (List.replicate 2 PC.idle) [0, 1, 0, 0, 1, 0, 1] = [.done, .holding] := by decide
example : [pa, pb].Nodup ∧ ((plan [pa, pb] [] [] [⟨1, 1, false, false⟩, ⟨2, 2, false, false⟩]).flatMap (·.2)).count pb = 1 := by decide

/-- three batches, two permits, the client dies while batches 0 and 1 are in flight: the dispatcher
takes the early return as soon as ONE permit is free, drains, and returns only after thread 1 (whose
server is slow to stop) is done; batch 2 is never spawned -/
example :
    let evs : List Ev := [.dispatch, .dispatch, .thread 0, .thread 1, .clientDies, .thread 0, .thread 0,
      .dispatch, .dispatch, .thread 1, .dispatch, .thread 1, .dispatch]
    (execSys 2 (initSys 3) (evs.take 9)).disp = .draining ∧ aliveCount (execSys 2 (initSys 3) (evs.take 9)).threads = 1 ∧
    (execSys 2 (initSys 3) (evs.take 11)).disp = .draining ∧
    (execSys 2 (initSys 3) evs).disp = .returned ∧ (execSys 2 (initSys 3) evs).threads = [.done, .done, .idle] := by decide
example : (execSys 2 (initSys 3) (fairSchedule 3 7 none)).disp = .returned ∧
    (execSys 2 (initSys 3) (fairSchedule 3 7 none)).threads = [.done, .done, .done] ∧
    (execSys 2 (initSys 3) (fairSchedule 3 7 (some 1))).disp = .returned := by decide

/-- `send_to_exited_client_returns` / `sender_returns_after_exit`: the client exits after the length
prefix of a request was handed over, the body is outstanding: process down, sender inside, a step
enabled; four rounds get the sender out (with an error) -/
example : let s := ClientPipe.run ClientPipe.code (ClientPipe.init ClientPipe.code 2) [.wHand, .pExit]
    ClientPipe.code.closeOnExit = true ∧ s.procUp = false ∧ ClientPipe.senderOut s = false ∧ ClientPipe.mu s = 8 ∧
    (ClientPipe.settle ClientPipe.code s 8).failed = true ∧ ClientPipe.senderOut (ClientPipe.settle ClientPipe.code s 8) = true := by decide
/-- `pipe_steps_terminate` on a concrete step: the copier's EPIPE lowers the measure from 8 to 6 -/
example : ClientPipe.Ev.cEpipe.internal = true ∧
    (ClientPipe.step ClientPipe.code (ClientPipe.run ClientPipe.code (ClientPipe.init ClientPipe.code 2) [.wHand, .pExit]) .cEpipe).map ClientPipe.mu = some 6 := by decide
/-- a client that lives and reads: both writes of a request get through, nothing fails -/
example : let s := ClientPipe.run ClientPipe.code (ClientPipe.init ClientPipe.code 2) [.wHand, .cPush, .wHand, .cPush, .pRead]
    ClientPipe.senderOut s = true ∧ s.failed = false ∧ s.room = 15 := by decide

/-- `batch_wait_released`: two batches ([0] and [1, 2]) on one runner; batch 0's sender is in the
write (holds `sendMu`), batch 1's sender has passed its first check and waits for the lock; the
client answers a name nobody asked for and goes on reading.  The reader aborts, waits for `sendMu`,
request 1 still registers and is written — and is failed by the sweep that comes AFTER `closeSend`;
request 2 is refused.  Terminal, both WaitGroups at zero. -/
private def twoBatches : List ClientRunner.Event :=
  [.sStart 0, .sLock 0, .sRegister 0, .sStart 1, .rRecv 99, .rLookup, .rSetErr, .rTerminate, .rAbort,
   .sWriteOk 0, .sLock 1, .sRegister 1, .sWriteOk 1, .sStart 2, .rCloseSend, .rDrain, .rDone]
example : let s := ClientRunner.run (fun i => 10 + i) ClientRunner.init twoBatches
    s.rpc = .done ∧ s.spc 0 = .ret .ok ∧ s.spc 1 = .ret .ok ∧ s.spc 2 = .ret (.err .fail) ∧
    ClientRunner.Spec.cbsOf s 0 = [none] ∧ ClientRunner.Spec.cbsOf s 1 = [none] ∧
    ClientRunner.wgAdds s [1, 2] = 2 ∧ ClientRunner.wgDones s [1, 2] = 2 ∧
    ClientRunner.batchWaitPasses s [0] = true ∧ ClientRunner.batchWaitPasses s [1, 2] = true := by decide

/-- `cli_port_one_server_at_a_time` / `cli_servers_bounded`: `--mode client --port 8080 -- client` is
accepted with one permit although --max-servers is left at 4; `--mode both -- c ---- s` keeps 4 -/
example : Cli.run { mode := "client", command := ["client"], port := 8080, portGiven := true } =
      .proceed { client := ["client"], server := [], maxServers := 1, parallel := 64 } ∧
    Cli.run { mode := "both", command := ["c", "----", "s"] } =
      .proceed { client := ["c"], server := ["s"], maxServers := 4, parallel := 64 } := by decide

/-- `marked_name_injective` / `marked_names_distinct`: a library in which the test's name repeats
itself: suite `a` with tests `a` and `a/a`, two HTTP versions -/
private def libA : List (List String × List String) :=
  [(["a", "HTTPVersion:1"], ["a"]), (["a", "HTTPVersion:2"], ["a"]), (["a", "HTTPVersion:1"], ["a", "a"]), (["a", "HTTPVersion:2"], ["a", "a"])]
example : (libA.map (fun e => e.1 ++ e.2)).Nodup ∧ (∀ e ∈ libA, grpcServerMarker ∉ e.1 ++ e.2) ∧
    libA.map (fun e => markName (e.1 ++ e.2) e.2 grpcServerMarker) =
      [["a", "HTTPVersion:1", grpcServerMarker, "a"], ["a", "HTTPVersion:2", grpcServerMarker, "a"],
       ["a", "HTTPVersion:1", grpcServerMarker, "a", "a"], ["a", "HTTPVersion:2", grpcServerMarker, "a", "a"]] := by decide

/-- `handed_cert_is_served` / `reference_cert_source` / `batch_cert_matches_instance`: a TLS instance
served by the reference server with the operator's key pair and without, by a server that makes its
own, a plaintext instance, and the batch that is not started -/
example :
    batchCert .reference (some "operator") "runner" "fresh" ⟨1, 2, true, true⟩ = some ⟨some "operator", some "operator"⟩ ∧
    batchCert .reference none "runner" "fresh" ⟨1, 2, true, false⟩ = some ⟨some "runner", some "runner"⟩ ∧
    batchCert .echo (some "operator") "runner" "fresh" ⟨1, 2, true, false⟩ = some ⟨some "runner", some "runner"⟩ ∧
    batchCert .own (some "operator") "runner" "fresh" ⟨1, 2, true, false⟩ = some ⟨some "fresh", some "fresh"⟩ ∧
    batchCert .reference (some "operator") "runner" "fresh" ⟨1, 2, false, false⟩ = some ⟨none, none⟩ ∧
    batchCert .silent none "runner" "fresh" ⟨1, 2, true, false⟩ = none := by decide
private def pt : Perm := ⟨["T", "a"], ⟨1, 2, true, false⟩⟩
example : (⟨1, 2, true, false⟩, [pt]) ∈ plan [pa, pt] [] [] [⟨1, 1, false, false⟩, ⟨1, 2, true, false⟩] := by decide

/-! ### The instance of a permutation is a function of its config case, not of the suite's template -/

/-- whatever the suite's request template carries in `server_tls_cert` / `client_tls_creds`, the
instance read off the expanded request is the same -/
theorem instance_ignores_template (c : CfgCase) (t₁ t₂ : Tmpl) :
    instOfReq c (expandTmpl c t₁) = instOfReq c (expandTmpl c t₂) := by
  simp [expandTmpl]

/-- … namely the config case's own: TLS exactly when the case uses TLS, client certificates exactly
when it uses TLS and the suite relies on them -/
theorem instance_is_config_case (c : CfgCase) (t : Tmpl) :
    instOfReq c (expandTmpl c t) = cfgInst c := by
  cases c with
  | mk p v tls certs => cases tls <;> cases certs <;> simp [expandTmpl, instOfReq, cfgInst]

/-- the expanded request carries a certificate placeholder exactly under TLS and credentials only under TLS -/
theorem expanded_request_fields (c : CfgCase) (t : Tmpl) :
    (expandTmpl c t).cert = c.tls ∧ (expandTmpl c t).creds = (c.tls && c.certs) := by
  cases c with
  | mk p v tls certs => cases tls <;> cases certs <;> simp [expandTmpl]

/-- a permutation whose instance is read off the expanded request is only ever planned in the batch of
its config case's instance, whatever the template carried -/
theorem planned_under_config_instance (perms : List Perm) (run skip : Node) (insts : List Inst) (i : Inst) (ps : List Perm)
    (h : (i, ps) ∈ plan perms run skip insts) (name : List String) (c : CfgCase) (t : Tmpl)
    (hp : (⟨name, instOfReq c (expandTmpl c t)⟩ : Perm) ∈ ps) : i = cfgInst c := by
  have := (batch_matches_instance perms run skip insts i ps h).2 _ hp
  rw [← instance_is_config_case c t]; exact this.symm

/-- witness: with set-without-clear the instance depends on the template — a plaintext config case whose
template carries a certificate and credentials lands under a TLS instance with client certificates -/
theorem set_without_clear_depends_on_template :
    ∃ (c : CfgCase) (t₁ t₂ : Tmpl), instOfReq c (expandTmplSetOnly c t₁) ≠ instOfReq c (expandTmplSetOnly c t₂) := by
  exact ⟨⟨1, 1, false, false⟩, ⟨false, false⟩, ⟨true, true⟩, by decide⟩

/-- `instance_ignores_template` / `instance_is_config_case` / `set_without_clear_depends_on_template`:
a plaintext case and a TLS case without client certificates, template empty and template full -/
example :
    instOfReq ⟨1, 1, false, false⟩ (expandTmpl ⟨1, 1, false, false⟩ ⟨true, true⟩) = ⟨1, 1, false, false⟩ ∧
    instOfReq ⟨1, 2, true, false⟩ (expandTmpl ⟨1, 2, true, false⟩ ⟨true, true⟩) = ⟨1, 2, true, false⟩ ∧
    instOfReq ⟨1, 2, true, true⟩ (expandTmpl ⟨1, 2, true, true⟩ ⟨false, false⟩) = ⟨1, 2, true, true⟩ ∧
    instOfReq ⟨1, 1, false, false⟩ (expandTmplSetOnly ⟨1, 1, false, false⟩ ⟨true, true⟩) = ⟨1, 1, true, true⟩ ∧
    instOfReq ⟨1, 2, true, false⟩ (expandTmplSetOnly ⟨1, 2, true, false⟩ ⟨false, true⟩) = ⟨1, 2, true, true⟩ ∧
    nameTLS ["S", "HTTPVersion:1", "TLS:false", "TLS:true"] = some false := by decide
/-- `planned_under_config_instance`: a TLS case whose template is full, planned beside a plaintext permutation -/
private def ptm : Perm := ⟨["T", "a"], instOfReq ⟨1, 2, true, false⟩ (expandTmpl ⟨1, 2, true, false⟩ ⟨true, true⟩)⟩
example : (cfgInst ⟨1, 2, true, false⟩, [ptm]) ∈ plan [pa, ptm] [] [] [⟨1, 1, false, false⟩, ⟨1, 2, true, false⟩] := by decide

end ConfModel.Props.C05
