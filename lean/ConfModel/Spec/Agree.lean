/-
Specification of property C03: when does a reported result *agree* with the expected one, in the
words of the statement.  `Agree` is a conjunction of named clauses; each clause is stated by
bounded quantification over positions, so it is decidable and the driver evaluates exactly this
definition.  `canon` (what "joined or split on commas" means) is the code's canonicalisation; its
declarative content is the lemma `canon_join` in `Props/C03.lean`.
Core Lean only.
-/
import ConfModel.Model.Assert
namespace ConfModel.Agree
open ConfModel.Assert

/-- every expected entry has an actual entry of the same name (up to case) whose values are
equal after canonicalisation; further actual entries are allowed -/
def Subsumed (exp act : List Header) : Prop :=
  ∀ h ∈ exp, ∃ h' ∈ act, lower h'.name = lower h.name ∧ canon h.values = canon h'.values

/-- both absent, or the echoed timeout lies in `[max 0 (t - grace), t]` -/
def TimeoutAgree (grace : Int) (exp act : Option Int) : Prop :=
  match exp, act with
  | none, none => True
  | some t, some u => max 0 (t - grace) ≤ u ∧ u ≤ t
  | _, _ => False

/-- echoed request information: the echoed requests are the expected ones, in order; for the first
(or only) response also headers, timeout and — when both sides list any — query parameters -/
def ReqInfoAgree (grace : Int) (first : Bool) (e a : ReqInfo) : Prop :=
  (first = true →
    Subsumed e.headers a.headers ∧ TimeoutAgree grace e.timeoutMs a.timeoutMs ∧
    (e.queryParams ≠ [] → a.queryParams ≠ [] → Subsumed e.queryParams a.queryParams)) ∧
  a.requests = e.requests

/-- same number of payloads; at every index the same bytes and agreeing request information -/
def PayloadsAgree (grace : Int) (e a : List Payload) : Prop :=
  a.length = e.length ∧
  ∀ x ∈ (e.zip a).zipIdx,
    x.1.2.data = x.1.1.data ∧
    ReqInfoAgree grace (x.2 == 0) (x.1.1.reqInfo.getD .empty) (x.1.2.reqInfo.getD .empty)

def DetailAgree (grace : Int) (e a : Detail) : Prop :=
  match e, a with
  | .reqInfo er, .reqInfo ar => ReqInfoAgree grace true er ar
  | e, a => e = a

/-- both absent; or both present with the expected or another allowed code, the message equal
when one is specified, the same number of details and agreeing details at every index -/
def ErrorAgree (grace : Int) (other : List Nat) (e a : Option Err) : Prop :=
  match e, a with
  | none, none => True
  | some e, some a =>
    (e.code = a.code ∨ a.code ∈ other) ∧
    (∀ m, e.message = some m → m = a.message.getD "") ∧
    e.details.length = a.details.length ∧
    ∀ x ∈ e.details.zip a.details, DetailAgree grace x.1 x.2
  | _, _ => False

/-- a unary or client-stream error without payloads: headers and trailers may arrive merged -/
def Mergeable (st : StreamType) (e : Result) : Prop :=
  e.payloads = [] ∧ e.error ≠ none ∧ (st = .unary ∨ st = .clientStream)

/-- all values given for a name (up to case), in order -/
def valuesOf (hs : List Header) (n : String) : List Val :=
  (hs.filter (fun h => lower h.name = n)).flatMap (·.values)

/-- headers and trailers as one bag of metadata: for every name that occurs (a name occurring
twice yields the same entry twice), the header values then the trailer values -/
def mergedBag (hs ts : List Header) : List Header :=
  ((hs ++ ts).map (fun h => lower h.name)).map (fun n => { name := n, values := valuesOf hs n ++ valuesOf ts n })

def MetadataAgree (st : StreamType) (e a : Result) : Prop :=
  (Subsumed e.headers a.headers ∧ Subsumed e.trailers a.trailers) ∨
  (Mergeable st e ∧
    (Subsumed (mergedBag e.headers e.trailers) a.headers ∨ Subsumed (mergedBag e.headers e.trailers) a.trailers))

/-- equal when both sides report one -/
def StatusAgree (e a : Option Int) : Prop :=
  ∀ x y, e = some x → a = some y → x = y

/-- The reported result agrees with the expected one up to the documented leniencies. -/
def Agree (grace : Int) (st : StreamType) (other : List Nat) (e a : Result) : Prop :=
  ErrorAgree grace other e.error a.error ∧ PayloadsAgree grace e.payloads a.payloads ∧
  MetadataAgree st e a ∧ StatusAgree e.httpStatus a.httpStatus

/-! ### Well-formedness: names inside one header list are distinct up to case -/

def NamesDistinct (hs : List Header) : Prop := (hs.map (fun h => lower h.name)).Nodup

def ReqInfoWF (ri : ReqInfo) : Prop := NamesDistinct ri.headers ∧ NamesDistinct ri.queryParams

def DetailWF : Detail → Prop
  | .reqInfo ri => ReqInfoWF ri
  | .other _ => True

/-- the reported result lists every header / trailer / query-parameter name once (up to case);
the expected response headers do too (`mergeHeaders` overwrites a repeated header name) -/
def WellFormed (e a : Result) : Prop :=
  NamesDistinct e.headers ∧ NamesDistinct a.headers ∧ NamesDistinct a.trailers ∧
  (∀ p ∈ a.payloads, ReqInfoWF (p.reqInfo.getD .empty)) ∧
  (∀ err, a.error = some err → ∀ d ∈ err.details, DetailWF d)

/-! ### decidability (the driver evaluates `decide (Agree …)`) -/

instance (exp act : List Header) : Decidable (Subsumed exp act) := by unfold Subsumed; exact inferInstance
instance (g : Int) (e a : Option Int) : Decidable (TimeoutAgree g e a) := by
  unfold TimeoutAgree; split <;> exact inferInstance
instance (g : Int) (f : Bool) (e a : ReqInfo) : Decidable (ReqInfoAgree g f e a) := by
  unfold ReqInfoAgree; exact inferInstance
instance (g : Int) (e a : List Payload) : Decidable (PayloadsAgree g e a) := by
  unfold PayloadsAgree; exact inferInstance
instance (g : Int) (e a : Detail) : Decidable (DetailAgree g e a) := by
  unfold DetailAgree; split <;> exact inferInstance
instance (g : Int) (o : List Nat) (e a : Option Err) : Decidable (ErrorAgree g o e a) := by
  unfold ErrorAgree
  split
  · exact inferInstance
  · next e a =>
    cases hm : e.message with
    | none => exact decidable_of_iff ((e.code = a.code ∨ a.code ∈ o) ∧ e.details.length = a.details.length ∧
        ∀ x ∈ e.details.zip a.details, DetailAgree g x.1 x.2) (by simp)
    | some m => exact decidable_of_iff ((e.code = a.code ∨ a.code ∈ o) ∧ m = a.message.getD "" ∧
        e.details.length = a.details.length ∧ ∀ x ∈ e.details.zip a.details, DetailAgree g x.1 x.2) (by simp)
  · exact inferInstance
instance (st : StreamType) (e : Result) : Decidable (Mergeable st e) := by unfold Mergeable; exact inferInstance
instance (st : StreamType) (e a : Result) : Decidable (MetadataAgree st e a) := by
  unfold MetadataAgree; exact inferInstance
instance (e a : Option Int) : Decidable (StatusAgree e a) := by
  unfold StatusAgree
  cases e with
  | none => exact isTrue (by simp)
  | some x => cases a with
    | none => exact isTrue (by simp)
    | some y => exact decidable_of_iff (x = y) (by simp)
instance (g : Int) (st : StreamType) (o : List Nat) (e a : Result) : Decidable (Agree g st o e a) := by
  unfold Agree; exact inferInstance

instance (hs : List Header) : Decidable (NamesDistinct hs) := by unfold NamesDistinct; exact inferInstance
instance (ri : ReqInfo) : Decidable (ReqInfoWF ri) := by unfold ReqInfoWF; exact inferInstance
instance (d : Detail) : Decidable (DetailWF d) := by unfold DetailWF; split <;> exact inferInstance
instance (e a : Result) : Decidable (WellFormed e a) := by
  unfold WellFormed
  cases h : a.error with
  | none => exact decidable_of_iff (NamesDistinct e.headers ∧ NamesDistinct a.headers ∧ NamesDistinct a.trailers ∧
      (∀ p ∈ a.payloads, ReqInfoWF (p.reqInfo.getD .empty))) (by simp)
  | some err => exact decidable_of_iff (NamesDistinct e.headers ∧ NamesDistinct a.headers ∧ NamesDistinct a.trailers ∧
      (∀ p ∈ a.payloads, ReqInfoWF (p.reqInfo.getD .empty)) ∧ ∀ d ∈ err.details, DetailWF d) (by simp)

end ConfModel.Agree
