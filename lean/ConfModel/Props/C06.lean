/-
C06 — Config expansion equals the declarative feature/include/exclude specification.
Property theorems only; helper lemmas live in `ConfModel.Lemmas.Config`.
All statements hold for every `Config`: every list of versions, protocols, codecs, compressions
and stream types (including duplicates and the proto zero values), every tri-state of the seven
support flags and any number of include/exclude entries with any fields omitted.
-/
import ConfModel.Lemmas.Config
namespace ConfModel.Props.C06
open ConfModel.Config

/-- Headline: the computed set is exactly  features ∪ includes ∖ excludes. -/
theorem parseConfig_mem_iff (cfg : Config) (f : Sup) (cs : List Case)
    (hf : resolveFeatures cfg.features = .ok f) (h : parseConfig cfg = .ok cs) (k : Case) :
    k ∈ cs ↔ ((InFeatures f k ∨ ∃ e ∈ cfg.includes, Matches f e k) ∧
              ¬ ∃ e ∈ cfg.excludes, Matches f e k) := by
  unfold parseConfig at h
  rw [hf] at h
  simp only at h
  split at h
  · exact absurd h (by simp)
  rename_i withInc hinc
  split at h
  · exact absurd h (by simp)
  rename_i cs' hexc
  split at h
  · exact absurd h (by simp)
  injection h with h; subst h
  rw [mem_removeExcludes f _ _ _ _ hexc k, mem_addIncludes f _ _ _ _ hinc k, mem_features]

/-- non-vacuity: a configuration with one include and one exclude entry -/
def exampleCfg : Config :=
  { features := { versions := [.v1], protocols := [.connect], codecs := [.proto], comps := [.identity],
                  sts := [.unary], h2c := none, tls := some false, certs := none, trailers := none,
                  halfH1 := none, get := some false, limit := some false },
    includes := [⟨.v2, .grpc, .unspec, .unspec, .unspec, none, none, none⟩],
    excludes := [⟨.v1, .unspec, .unspec, .unspec, .unspec, none, none, none⟩] }

example : (parseConfig exampleCfg).toOption.map List.length = some 1 := by decide
example : resolveFeatures exampleCfg.features = .ok (resolved exampleCfg.features) := by rfl
example : Specified (resolved exampleCfg.features) exampleCfg.includes exampleCfg.excludes
    ⟨.v2, .grpc, .proto, .identity, .unary, false, false, false, false, .unspec⟩ := by decide

/-- Every returned case is internally possible. -/
theorem parseConfig_possible (cfg : Config) (f : Sup) (cs : List Case)
    (hf : resolveFeatures cfg.features = .ok f) (h : parseConfig cfg = .ok cs) (k : Case)
    (hk : k ∈ cs) : Possible f k := by
  rcases ((parseConfig_mem_iff cfg f cs hf h k).1 hk).1 with h1 | ⟨e, _, h2⟩
  · exact h1.2.2.2.2.2.2.2.2.2
  · exact h2.2.2.2.2.2.2.2.2.2

section corollaries
variable (cfg : Config) (f : Sup) (cs : List Case)
  (hf : resolveFeatures cfg.features = .ok f) (h : parseConfig cfg = .ok cs) (k : Case) (hk : k ∈ cs)
include hf h hk

/-- gRPC only over HTTP/2 -/
theorem grpc_only_http2 : k.p = .grpc → k.v = .v2 := (parseConfig_possible cfg f cs hf h k hk).1
/-- HTTP/3 only with TLS -/
theorem http3_only_tls : k.v = .v3 → k.tls = true := (parseConfig_possible cfg f cs hf h k hk).2.1
/-- cleartext HTTP/2 only with H2C support -/
theorem cleartext_http2_only_h2c : k.v = .v2 → k.tls = false → f.h2c = true :=
  (parseConfig_possible cfg f cs hf h k hk).2.2.1
/-- client certificates only with TLS -/
theorem certs_only_tls : k.certs = true → k.tls = true := (parseConfig_possible cfg f cs hf h k hk).2.2.2.1
/-- no full-duplex over HTTP/1.1 -/
theorem no_full_duplex_http1 : k.s = .full → k.v ≠ .v1 := (parseConfig_possible cfg f cs hf h k hk).2.2.2.2.1
/-- half-duplex over HTTP/1.1 only if declared -/
theorem half_duplex_http1_declared : k.s = .half → k.v = .v1 → f.halfH1 = true :=
  (parseConfig_possible cfg f cs hf h k hk).2.2.2.2.2.1
/-- GET only with Connect (and only when supported) -/
theorem get_only_connect : k.get = true → k.p = .connect ∧ f.get = true :=
  (parseConfig_possible cfg f cs hf h k hk).2.2.2.2.2.2.1
/-- the connect-version mode of a parsed case is always unspecified -/
theorem cvm_unspecified : k.cvm = .unspec := by
  rcases ((parseConfig_mem_iff cfg f cs hf h k).1 hk).1 with h1 | ⟨e, _, h2⟩
  · exact h1.2.2.2.2.2.2.2.2.1
  · exact h2.2.2.2.2.2.2.2.2.1
end corollaries

/-- The resolved features are the documented defaults (flags default to "supported" except
client certificates and half-duplex over HTTP/1.1; omitted lists default as documented, given
lists and flags are kept). -/
theorem resolveFeatures_defaults (fs : Features) (f : Sup) (h : resolveFeatures fs = .ok f) :
    f = defaults fs ∧ Defaulted fs f := by
  have := resolveFeatures_ok fs f h
  subst this
  exact ⟨rfl, defaulted_defaults fs⟩

example : resolveFeatures exampleCfg.features = .ok (defaults exampleCfg.features) := by rfl

/-- `resolveFeatures` errs exactly on the documented contradictions of a feature set. -/
theorem features_error_iff (fs : Features) :
    (∃ x, resolveFeatures fs = .error x) ↔ Contradictory fs (defaults fs) :=
  resolveFeatures_error_iff fs

/-- `resolveCase` errs exactly on the documented contradictions of an entry (in particular not
on `use_tls_client_certs: false`, finding F17). -/
theorem entry_error_iff (f : Sup) (e : Entry) :
    (∃ x, resolveCase f e = .error x) ↔ EntryContradictory f e :=
  resolveCase_error_iff f e

/-- Contradictory or empty configurations are rejected with an error, and only those. -/
theorem parseConfig_error_iff (cfg : Config) : (∃ x, parseConfig cfg = .error x) ↔ Rejected cfg := by
  unfold Rejected
  constructor
  · rintro ⟨x, hx⟩
    unfold parseConfig at hx
    cases hf : resolveFeatures cfg.features with
    | error y => exact Or.inl ((resolveFeatures_error_iff _).1 ⟨y, hf⟩)
    | ok f =>
      have hfd := resolveFeatures_ok _ _ hf
      subst hfd
      rw [hf] at hx
      simp only at hx
      cases hinc : addIncludes (defaults cfg.features) 0 cfg.includes (computeCases (defaults cfg.features) [] [] []) with
      | error y =>
        obtain ⟨e, he, hc⟩ := (addIncludes_error_iff _ _ _ _).1 ⟨y, hinc⟩
        exact Or.inr (Or.inl ⟨e, List.mem_append_left _ he, hc⟩)
      | ok withInc =>
        rw [hinc] at hx
        simp only at hx
        cases hexc : removeExcludes (defaults cfg.features) 0 cfg.excludes withInc with
        | error y =>
          obtain ⟨e, he, hc⟩ := (removeExcludes_error_iff _ _ _ _).1 ⟨y, hexc⟩
          exact Or.inr (Or.inl ⟨e, List.mem_append_right _ he, hc⟩)
        | ok cs =>
          rw [hexc] at hx
          simp only at hx
          cases cs with
          | cons a t => simp at hx
          | nil =>
            refine Or.inr (Or.inr ?_)
            rw [List.eq_nil_iff_forall_not_mem]
            intro k hk
            have := (mem_specSet _ _ _ k).1 hk
            have h2 : k ∈ ([] : List Case) := by
              rw [mem_removeExcludes _ _ _ _ _ hexc k, mem_addIncludes _ _ _ _ _ hinc k, mem_features]
              exact this
            simp at h2
  · intro h
    rcases parseConfig_stages cfg with he | ⟨cs, hok, hf, hne, hmem⟩
    · exact he
    · exfalso
      rcases h with h | ⟨e, he, hc⟩ | h
      · obtain ⟨x, hx⟩ := (resolveFeatures_error_iff _).2 h
        rw [hf] at hx; injection hx
      · unfold parseConfig at hok
        rw [hf] at hok
        simp only at hok
        rcases List.mem_append.1 he with he | he
        · obtain ⟨x, hx⟩ := (addIncludes_error_iff (defaults cfg.features) cfg.includes 0
            (computeCases (defaults cfg.features) [] [] [])).2 ⟨e, he, hc⟩
          rw [hx] at hok; simp at hok
        · cases hinc : addIncludes (defaults cfg.features) 0 cfg.includes (computeCases (defaults cfg.features) [] [] []) with
          | error y => rw [hinc] at hok; simp at hok
          | ok withInc =>
            rw [hinc] at hok
            obtain ⟨x, hx⟩ := (removeExcludes_error_iff (defaults cfg.features) cfg.excludes 0 withInc).2 ⟨e, he, hc⟩
            simp only at hok
            rw [hx] at hok; simp at hok
      · cases cs with
        | nil => exact hne rfl
        | cons a t =>
          have : a ∈ specSet (defaults cfg.features) cfg.includes cfg.excludes :=
            (mem_specSet _ _ _ a).2 ((hmem a).1 (by simp))
          rw [h] at this; simp at this

example : Rejected { exampleCfg with excludes := Entry.wildcard :: exampleCfg.includes } :=
  (parseConfig_error_iff _).1 ⟨.zeroCases, by rfl⟩

/-- On an accepted configuration the result is, as a set, the brute-force enumeration
`specSet` that the correspondence check evaluates on the implementation's output (so the
driver's `holds` predicate and `parseConfig_mem_iff` speak about the same set). -/
theorem parseConfig_eq_specSet (cfg : Config) (cs : List Case) (h : parseConfig cfg = .ok cs) :
    ¬ Rejected cfg ∧ ∀ k, k ∈ cs ↔ k ∈ specSet (defaults cfg.features) cfg.includes cfg.excludes := by
  constructor
  · intro hr
    obtain ⟨x, hx⟩ := (parseConfig_error_iff cfg).2 hr
    rw [h] at hx; injection hx
  · intro k
    rcases parseConfig_stages cfg with ⟨x, hx⟩ | ⟨cs', hok, _, _, hmem⟩
    · rw [h] at hx; injection hx
    · rw [h] at hok; injection hok with hok; subst hok
      rw [mem_specSet]; exact hmem k

/-- The specified set is enumerated completely by `specSet` (nothing outside the candidate
universe of the brute-force evaluation can be specified). -/
theorem specSet_complete (f : Sup) (inc exc : List Entry) (k : Case) :
    k ∈ specSet f inc exc ↔ Specified f inc exc k := mem_specSet f inc exc k

/-- The expansion is a product in codec and compression: whether a case is produced depends on
the listed codecs / compressions only through "its codec is listed, its compression is listed".
(This is what justifies fixing both lists to one value in the exhaustive correspondence domains.) -/
theorem computeCases_factor (f : Sup) (tl ce li : List Bool) (k : Case) :
    k ∈ computeCases f tl ce li ↔
      k.c ∈ f.codecs ∧ k.z ∈ f.comps ∧
      k ∈ computeCases { f with codecs := [k.c], comps := [k.z] } tl ce li := by
  simp only [mem_computeCases, List.mem_singleton, true_and]
  constructor
  · rintro ⟨a1, a2, a3, a4, a5, a6, a7, a8, a9, a10⟩
    exact ⟨a3, a4, a1, a2, a5, a6, a7, a8, a9, a10⟩
  · rintro ⟨a3, a4, a1, a2, a5, a6, a7, a8, a9, a10⟩
    exact ⟨a1, a2, a3, a4, a5, a6, a7, a8, a9, a10⟩

/-- the shipped reference configuration (testing/reference-impls-config.yaml) -/
def referenceCfg : Config :=
  { features := { versions := [.v1, .v2, .v3], protocols := [.connect, .grpc, .grpcWeb], codecs := [.proto, .json],
                  comps := [.identity, .gzip, .br, .zstd, .deflate, .snappy], sts := [],
                  h2c := none, tls := none, certs := some true, trailers := none, halfH1 := some true,
                  get := none, limit := none },
    includes := [], excludes := [] }

example : ¬ Rejected exampleCfg :=
  (parseConfig_eq_specSet exampleCfg
    [⟨.v2, .grpc, .proto, .identity, .unary, false, false, false, false, .unspec⟩] (by rfl)).1

set_option maxRecDepth 100000 in
example : (parseConfig referenceCfg).toOption.map List.length = some 3024 := by decide

end ConfModel.Props.C06
