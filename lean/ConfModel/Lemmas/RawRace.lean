/-
Helper lemmas for the concurrent arbitration theorems of `Props/C17.lean`.
-/
import ConfModel.Lemmas.RawBody
import ConfModel.Spec.RawRace
namespace ConfModel.RawRace
open ConfModel.RawBody ConfModel.RawBodySpec ConfModel.RawRaceSpec

/-- a schedule of critical sections of the code is a sequential order of operations -/
theorem mrun_ops (m : MSt) (l : List Op) :
    (mrun m (l.map .op)).1.s = (run m.s l).1 ∧ (mrun m (l.map .op)).2 = (run m.s l).2 := by
  induction l generalizing m with
  | nil => simp [mrun, run]
  | cons o t ih =>
    have h := ih { m with s := (step m.s o).1 }
    simp only [List.map_cons, mrun, mstep, run]
    exact ⟨h.1, by rw [h.2]⟩

theorem handlerEvents_interleaving {hs rs l : List Op} (hi : Interleaving hs rs l)
    (hr : ∀ o ∈ rs, evOf o = none) : handlerEvents l = handlerEvents hs := by
  induction hi with
  | nil => rfl
  | left _ ih => simp only [handlerEvents, List.filterMap_cons] at *; rw [ih hr]
  | @right y xs ys l _ ih =>
    have hy : evOf y = none := hr y (by simp)
    have := ih (fun o ho => hr o (by simp [ho]))
    simp only [handlerEvents, List.filterMap_cons, hy] at *
    exact this

theorem lastRaw_interleaving {hs rs l : List Op} (hi : Interleaving hs rs l)
    (hh : ∀ o ∈ hs, isHandler o = true) : lastRaw l = lastRaw rs := by
  induction hi with
  | nil => rfl
  | @left x xs ys l _ ih =>
    have hx : isHandler x = true := hh x (by simp)
    have := ih (fun o ho => hh o (by simp [ho]))
    cases x with
    | setRaw r => simp [isHandler, evOf] at hx
    | write b => simpa [lastRaw] using this
    | writeHeader c => simpa [lastRaw] using this
    | flush => simpa [lastRaw] using this
  | @right y xs ys l _ ih =>
    have := ih hh
    cases y <;> simp [lastRaw, this]

theorem lastRaw_setRaws (rs : List Raw) : lastRaw (rs.map .setRaw) = rs.getLast? := by
  induction rs with
  | nil => rfl
  | cons r t ih =>
    simp only [List.map_cons, lastRaw, ih, List.getLast?_cons]
    cases t.getLast? <;> simp

end ConfModel.RawRace
