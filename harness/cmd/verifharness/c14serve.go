package main

// C14 — TracingHandler behind REAL net/http servers (HTTP/1.1 and HTTP/2), with handlers that send the
// response body the ways net/http offers besides Write: io.Copy from sources without WriteTo (which
// uses the ResponseWriter's io.ReaderFrom when the writer — or a wrapper — exposes one), a direct
// ReadFrom, sources that fail with a non-EOF error part-way after which the handler carries on with
// Write, http.Flusher, http.ResponseController (which finds the optional interfaces through Unwrap).
// Op "serve": one exchange against a fresh server, once with and once without tracing; judged on
// the bytes the client RECEIVED.

import (
	"bytes"
	"encoding/json"
	"errors"
	"fmt"
	"io"
	"net/http"
	"net/http/httptest"
	"time"

	"connectrpc.com/conformance/internal/tracer"
	"connectrpc.com/conformance/internal/verifharness/gen"
)

type c14SAct struct {
	K      string `json:"k"`                // w | copy | readfrom | flush | rcflush
	D      string `json:"d,omitempty"`      // hex: the bytes written / the bytes the source delivers
	Pieces []int  `json:"pieces,omitempty"` // sizes of the source's Reads
	Fail   bool   `json:"fail,omitempty"`   // the source ends with a non-EOF error instead of io.EOF
}

type c14ServeIn struct {
	H2      bool      `json:"h2"`
	Req     c14Side   `json:"req"`  // headers + reads[0] = the request body
	Resp    c14Side   `json:"resp"` // headers of the response
	Actions []c14SAct `json:"actions"`
}

type c14ServeRun struct {
	Received string   `json:"received"` // hex: the response body the client read
	Status   int      `json:"status"`
	Saw      []string `json:"saw"` // what the handler got back from each action
	ClientOK bool     `json:"clientOK"`
}

type c14ServeOut struct {
	Events      []string    `json:"events"`
	Completions int         `json:"completions"`
	Traced      c14ServeRun `json:"traced"`
	Plain       c14ServeRun `json:"plain"`
}

var errC14Src = errors.New("verif: scripted source error")

// c14Src is a source without WriteTo: io.Copy has to go through the destination.
type c14Src struct {
	data   []byte
	pieces []int
	fail   bool
}

func (s *c14Src) Read(p []byte) (int, error) {
	if len(s.data) == 0 {
		if s.fail {
			return 0, errC14Src
		}
		return 0, io.EOF
	}
	n := len(s.data)
	if len(s.pieces) > 0 {
		if s.pieces[0] > 0 && s.pieces[0] < n {
			n = s.pieces[0]
		}
		s.pieces = s.pieces[1:]
	}
	if n > len(p) {
		n = len(p)
	}
	copy(p, s.data[:n])
	s.data = s.data[n:]
	return n, nil
}

func init() {
	gen.RegisterOp("c14", "serve", func(_ *gen.Ctx, raw json.RawMessage) any {
		in := gen.Into[c14ServeIn](raw)
		return c14Serve(&in)
	})
}

func c14ServeOnce(in *c14ServeIn, coll tracer.Collector) c14ServeRun {
	var run c14ServeRun
	run.Saw = []string{}
	cls := func(err error) string {
		switch {
		case err == nil:
			return "nil"
		case errors.Is(err, errC14Src):
			return "src"
		default:
			return "other"
		}
	}
	var handler http.Handler = http.HandlerFunc(func(w http.ResponseWriter, r *http.Request) {
		_, _ = io.ReadAll(r.Body)
		for k, v := range in.Resp.headers() {
			w.Header()[k] = v
		}
		for _, a := range in.Actions {
			data := c14Unhex([]string{a.D})[0]
			src := &c14Src{data: data, pieces: append([]int{}, a.Pieces...), fail: a.Fail}
			switch a.K {
			case "w":
				n, err := w.Write(data)
				run.Saw = append(run.Saw, fmt.Sprintf("w:%d:%s", n, cls(err)))
			case "copy":
				n, err := io.Copy(w, src)
				run.Saw = append(run.Saw, fmt.Sprintf("copy:%d:%s", n, cls(err)))
			case "readfrom":
				if rf, ok := w.(io.ReaderFrom); ok {
					n, err := rf.ReadFrom(src)
					run.Saw = append(run.Saw, fmt.Sprintf("copy:%d:%s", n, cls(err)))
				} else {
					n, err := io.Copy(w, src)
					run.Saw = append(run.Saw, fmt.Sprintf("copy:%d:%s", n, cls(err)))
				}
			case "flush":
				if f, ok := w.(http.Flusher); ok {
					f.Flush()
				}
			case "rcflush":
				run.Saw = append(run.Saw, "rcflush:"+cls(http.NewResponseController(w).Flush()))
			}
		}
	})
	if coll != nil {
		handler = tracer.TracingHandler(handler, coll)
	}
	srv := httptest.NewUnstartedServer(handler)
	if in.H2 {
		srv.EnableHTTP2 = true
		srv.StartTLS()
	} else {
		srv.Start()
	}
	defer srv.Close()
	body := []byte{}
	if len(in.Req.Reads) > 0 {
		body = c14Unhex(in.Req.Reads[:1])[0]
	}
	req, err := http.NewRequest(http.MethodPost, srv.URL+"/svc/Method", bytes.NewReader(body))
	if err != nil {
		return run
	}
	for k, v := range in.Req.headers() {
		req.Header[k] = v
	}
	req.Header.Set("X-Test-Case-Name", "verif/serve")
	resp, err := srv.Client().Do(req)
	if err != nil {
		return run
	}
	defer resp.Body.Close()
	got, err := io.ReadAll(resp.Body)
	run.ClientOK = err == nil
	run.Received = gen.Hex(got)
	run.Status = resp.StatusCode
	return run
}

func c14Serve(in *c14ServeIn) c14ServeOut {
	var out c14ServeOut
	coll := &tracer.VerifCollector{}
	out.Traced = c14ServeOnce(in, coll)
	for i := 0; i < 5000 && coll.Count() == 0; i++ {
		time.Sleep(time.Millisecond)
	}
	out.Completions = coll.Count()
	out.Events = []string{}
	if len(coll.Traces) > 0 {
		out.Events = tracer.VerifBodyEvents(coll.Traces[0])
	}
	out.Plain = c14ServeOnce(in, nil)
	return out
}

// c14ServeCases: the generator of op "serve".
func c14ServeCases(c *gen.Ctx) {
	r, e := c.R, c.E
	msgs := [][]byte{c14Env(0, []byte("hello")), c14Env(1, []byte("ab")), c14Env(0, nil), c14Env(2, []byte(`{"a":1}`)), c14Env(0, r.Bytes(40))}
	cts := []string{"application/connect+proto", "application/grpc-web+proto", "application/grpc", "application/proto", "application/json"}
	n := 60
	if c.Thorough() {
		n = 600
	}
	for i := 0; i < n; i++ {
		var in c14ServeIn
		in.H2 = i%2 == 1
		in.Req.CT, in.Req.Reads = cts[i%len(cts)], []string{gen.Hex(append(append([]byte{}, msgs[i%3]...), msgs[(i+1)%3][:r.Intn(5)]...))}
		in.Req.Ending, in.Req.Post = "eof", []string{}
		in.Resp.CT, in.Resp.Reads, in.Resp.Post = cts[(i/2)%len(cts)], []string{}, []string{}
		// the response body: a few messages, possibly cut, distributed over the actions
		var body []byte
		for m := 0; m < 1+r.Intn(4); m++ {
			body = append(body, gen.Pick(r, msgs)...)
		}
		if r.Chance(1, 4) {
			body = body[:r.Intn(len(body)+1)]
		}
		in.Actions = []c14SAct{}
		for len(body) > 0 {
			k := 1 + r.Intn(len(body))
			if r.Chance(1, 2) && k > 9 {
				k = 1 + r.Intn(9)
			}
			part := body[:k]
			body = body[k:]
			a := c14SAct{D: gen.Hex(part)}
			switch r.Intn(5) {
			case 0, 1:
				a.K = "copy"
			case 2:
				a.K = "readfrom"
			default:
				a.K = "w"
			}
			if a.K != "w" {
				for rest := len(part); rest > 0; {
					p := 1 + r.Intn(rest)
					a.Pieces = append(a.Pieces, p)
					rest -= p
				}
				// the source fails after delivering its bytes (possibly none); the handler carries on
				a.Fail = r.Chance(1, 2)
				e.Count("serve:copy-source-fails:" + fmt.Sprint(a.Fail))
			}
			in.Actions = append(in.Actions, a)
			if r.Chance(1, 4) {
				in.Actions = append(in.Actions, c14SAct{K: gen.Pick(r, []string{"flush", "rcflush"})})
			}
		}
		if r.Chance(1, 6) {
			// a source that fails before delivering anything
			in.Actions = append(in.Actions, c14SAct{K: "copy", Fail: true}, c14SAct{K: "w", D: gen.Hex(c14Env(2, []byte("{}")))})
		}
		c14Do(c, "serve", in)
		if in.H2 {
			e.Count("serve:http2")
		} else {
			e.Count("serve:http1")
		}
	}
}
