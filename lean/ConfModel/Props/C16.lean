/-
C16 — Trace hand-off delivers each call's trace exactly once to the right waiter.
Property theorems only; helper lemmas live in `ConfModel.Lemmas.Handoff` and
`ConfModel.Lemmas.HandoffGlue`.
The statements quantify over *all* operation sequences (any number of names, waiters, steps);
every operation is atomic, as each runs under the tracer's / builder's mutex, so "any
interleaving of any number of goroutines" is "any sequence".
-/
import ConfModel.Lemmas.Handoff
import ConfModel.Lemmas.HandoffGlue
import ConfModel.Lemmas.HandoffRetry
import ConfModel.Lemmas.HandoffInit
import ConfModel.Lemmas.HandoffAsync
namespace ConfModel.Props.C16
open ConfModel ConfModel.Handoff

section slots
open TracerSlots

/-- After `Init n`, as long as the slot is neither re-initialised nor cleared, a waiter on `n`
obtains precisely the first trace completed for `n` — whether that completion happened before
the wait began (`mid`: the Await returns it at once) or after (`post`: the Await blocks, and a
later join returns it); without any completion it is still waiting.  Everything else
(`pre`, other names, other waiters, completions of unknown names, …) is arbitrary. -/
theorem await_gets_first (pre mid post : List Op) (n : Name) (w : Nat)
    (hidle : (exec init (pre ++ [.init n] ++ mid)).1.waiters w = none)
    (hslot : ∀ o ∈ mid ++ post, touches n o = false)
    (hw : ∀ o ∈ post, usesWaiter w o = false) :
    let s1 := (exec init (pre ++ [.init n] ++ mid)).1
    let s2 := (step s1 (.await w n)).1
    let s3 := (exec s2 post).1
    (step s1 (.await w n)).2 = [match firstComplete n mid with | some t => .trace t | none => .waiting] ∧
    (firstComplete n mid = none →
      (step s3 (.join w)).2 = [match firstComplete n post with | some t => .trace t | none => .waiting]) := by
  intro s1 s2 s3
  -- the slot allocated by `init n`
  have hwf0 : WF (exec init pre).1 := wf_exec pre init wf_init
  let s0 := (step (exec init pre).1 (.init n)).1
  have hwf1 : WF s0 := wf_step _ _ hwf0
  let g := (exec init pre).1.nextGen
  have ht0 : s0.traces n = some g := by show upd _ n (some g) n = some g; simp
  have hr0 : s0.results g = .pending := by show upd _ g Res.pending g = .pending; simp
  have hs1 : s1 = (exec s0 mid).1 := by
    show (exec init (pre ++ [.init n] ++ mid)).1 = _
    rw [exec_append, exec_append]; rfl
  have hmid := exec_slot n g mid s0 hwf1 ht0 (fun o ho => hslot o (by simp [ho]))
  rw [← hs1, hr0, foldl_advance_pending] at hmid
  have hwfs1 : WF s1 := by rw [hs1]; exact wf_exec mid s0 hwf1
  constructor
  · show [awaitObs s1 w n] = _
    have hidle' : s1.waiters w = none := hidle
    simp only [awaitObs, hidle', hmid.1, hmid.2]
    cases firstComplete n mid <;> simp
  · intro hnone
    rw [hnone] at hmid
    -- the waiter now waits on g
    have hs2w : s2.waiters w = some g := by
      show awaitWaiters s1 w n w = some g
      have hidle' : s1.waiters w = none := hidle
      simp [awaitWaiters, awaitTarget, hidle', hmid.1, hmid.2]
    have hs2t : s2.traces n = some g := hmid.1
    have hs2r : s2.results g = .pending := hmid.2
    have hwfs2 : WF s2 := wf_step s1 _ hwfs1
    have hpost := exec_slot n g post s2 hwfs2 hs2t (fun o ho => hslot o (by simp [ho]))
    rw [hs2r, foldl_advance_pending] at hpost
    have hw3 : s3.waiters w = some g := by
      show (exec s2 post).1.waiters w = some g
      rw [exec_waiter w post s2 hw, hs2w]
    show [joinObs s3 w] = _
    have hr3 : s3.results g = _ := hpost.2
    simp only [joinObs, hw3, hr3]
    cases firstComplete n post <;> simp

/-- The runner's consumer (`testResults.fetchTrace`, modelled by `collects`: the waiter's Await
begins after `pre ++ [init n] ++ mid`, `report()` joins it after `post`).  As long as the slot
is neither re-initialised nor cleared, the waiter hands on precisely the first trace completed
for `n` in `mid ++ post` — and is still blocked exactly when there is none — which is also what
the history-based expectation `collectSpec` (the check's predicate) says. -/
theorem runner_collects_first (pre mid post : List Op) (n : Name) (w : Nat)
    (hidle : (exec init (pre ++ [.init n] ++ mid)).1.waiters w = none)
    (hslot : ∀ o ∈ mid ++ post, touches n o = false)
    (hw : ∀ o ∈ post, usesWaiter w o = false) :
    collects w n (pre ++ [.init n] ++ mid) post
        = (firstComplete n (mid ++ post), (firstComplete n (mid ++ post)).isNone) ∧
    collectSpec n (pre ++ [.init n] ++ mid) post
        = (firstComplete n (mid ++ post), (firstComplete n (mid ++ post)).isNone) := by
  have h := await_gets_first pre mid post n w hidle hslot hw
  simp only at h
  obtain ⟨h1, h2⟩ := h
  constructor
  · unfold collects
    simp only []
    rw [h1, firstComplete_append]
    cases hm : firstComplete n mid with
    | some t => simp
    | none =>
      have h2' := h2 hm
      simp only []
      rw [h2']
      cases hp : firstComplete n post <;> simp
  · unfold collectSpec
    rw [epochMid_init_mid n pre mid (fun o ho => hslot o (by simp [ho])),
      sameEpoch_noTouch n post (fun o ho => hslot o (by simp [ho]))]
    cases hf : firstComplete n (mid ++ post) <;> simp [hf]

/-- … in particular it does not matter when the wait begins: a waiter started right after the
outcome was recorded (before the operations `m2`) and one started only after them collect the
same trace — a completion is never lost because it came "too early" or "too late". -/
theorem runner_collects_any_start (pre m1 m2 post : List Op) (n : Name) (w : Nat)
    (hidle1 : (exec init (pre ++ [.init n] ++ m1)).1.waiters w = none)
    (hidle2 : (exec init (pre ++ [.init n] ++ (m1 ++ m2))).1.waiters w = none)
    (hslot : ∀ o ∈ m1 ++ m2 ++ post, touches n o = false)
    (hw : ∀ o ∈ m2 ++ post, usesWaiter w o = false) :
    collects w n (pre ++ [.init n] ++ m1) (m2 ++ post) = collects w n (pre ++ [.init n] ++ (m1 ++ m2)) post := by
  rw [(runner_collects_first pre m1 (m2 ++ post) n w hidle1 (by simpa [List.append_assoc] using hslot) hw).1,
    (runner_collects_first pre (m1 ++ m2) post n w hidle2 (by simpa [List.append_assoc] using hslot)
      (fun o ho => hw o (by simp [ho]))).1]
  simp [List.append_assoc]

/-- non-vacuity: completed before the outcome, between outcome and report, never -/
example : collects 1 "a" [.init "a", .complete "a" 7, .complete "a" 8] [] = (some 7, false) ∧
    collects 1 "a" [.init "a"] [.complete "b" 5, .complete "a" 7, .complete "a" 8] = (some 7, false) ∧
    collects 1 "a" [.init "a"] [.complete "b" 5] = (none, true) ∧
    collectSpec "a" [.init "a"] [.clear "a", .complete "a" 7] = (none, true) ∧
    collectSpec "a" [.init "a", .clear "a"] [.complete "a" 7] = (none, false) := by decide

/-- non-vacuity: late completion; the second completion and the other waiter change nothing -/
example : (exec init [.init "b", .init "a", .await 1 "a", .complete "b" 5, .await 2 "b",
      .complete "a" 7, .complete "a" 8, .join 1]).2 =
    [[.none], [.none], [.waiting], [.none], [.trace 5], [.none], [.none], [.trace 7]] := by decide

/-- Completing a name that is unknown, was cleared, or is already completed changes nothing. -/
theorem complete_noop (s : St) (n : Name) (t : Nat)
    (h : s.traces n = none ∨ ∃ g t', s.traces n = some g ∧ s.results g = .done t') :
    step s (.complete n t) = (s, [.none]) := by
  show ({ s with results := completeResults s n t }, [Obs.none]) = (s, [Obs.none])
  have : completeResults s n t = s.results := by
    unfold completeResults
    rcases h with h | ⟨g, t', hg, hr⟩
    · rw [h]
    · rw [hg]; simp [hr]
  rw [this]

/-- the three situations of the statement, in terms of the history:
never initialised / cleared ⇒ the map has no entry … -/
theorem no_slot_of_history (ops : List Op) (n : Name) (h : slotLive n false ops = false) :
    (exec init ops).1.traces n = none := by
  have key : ∀ (ops : List Op) (s : St), ((exec s ops).1.traces n).isSome = slotLive n (s.traces n).isSome ops := by
    intro ops
    induction ops with
    | nil => intro s; rfl
    | cons o os ih =>
      intro s
      simp only [exec, slotLive, List.foldl_cons]
      rw [ih]
      congr 1
      cases o with
      | init m =>
        show (upd s.traces m (some s.nextGen) n).isSome = _
        by_cases e : m = n
        · subst e; simp
        · have : ¬ (m == n) = true := by simpa using e
          rw [upd_other _ _ _ _ (Ne.symm e)]; simp [this]
      | clear m =>
        show (upd s.traces m none n).isSome = _
        by_cases e : m = n
        · subst e; simp
        · have : ¬ (m == n) = true := by simpa using e
          rw [upd_other _ _ _ _ (Ne.symm e)]; simp [this]
      | complete m t => rfl
      | await w m => rfl
      | join w => rfl
      | peek w => rfl
      | ctx w => rfl
  have := key ops init
  rw [show (init.traces n).isSome = false from rfl, h] at this
  cases hx : (exec init ops).1.traces n with
  | none => rfl
  | some g => rw [hx] at this; simp at this

/-- … and a second completion finds the slot completed. -/
theorem complete_twice (s : St) (n : Name) (t1 t2 : Nat) :
    step (step s (.complete n t1)).1 (.complete n t2) = ((step s (.complete n t1)).1, [.none]) := by
  apply complete_noop
  cases hn : s.traces n with
  | none => left; exact hn
  | some g =>
    right
    show ∃ g' t', s.traces n = some g' ∧ completeResults s n t1 g' = .done t'
    refine ⟨g, ?_⟩
    rw [completeResults_at s n t1 g hn]
    cases hr : s.results g with
    | pending => exact ⟨t1, hn, rfl⟩
    | done t' => exact ⟨t', hn, rfl⟩

example : (exec init [.init "a", .clear "a", .complete "a" 1, .complete "zz" 2, .await 1 "a", .await 1 "zz"]).2 =
    [[.none], [.none], [.none], [.none], [.err], [.err]] := by decide

/-- Waiting on a never-initialised or cleared name fails immediately: the Await returns the
error in its locked section and the waiter does not block. -/
theorem await_fails_fast (s : St) (n : Name) (w : Nat) (hn : s.traces n = none) (hw : s.waiters w = none) :
    (step s (.await w n)).2 = [.err] ∧ (step s (.await w n)).1.waiters w = none := by
  constructor
  · show [awaitObs s w n] = _
    simp [awaitObs, hw, hn]
  · show awaitWaiters s w n w = none
    simp [awaitWaiters, awaitTarget, hw, hn]

theorem await_fails_fast_history (ops : List Op) (n : Name) (w : Nat)
    (h : slotLive n false ops = false) (hw : (exec init ops).1.waiters w = none) :
    (step (exec init ops).1 (.await w n)).2 = [.err] :=
  (await_fails_fast _ n w (no_slot_of_history ops n h) hw).1

/-- A wait never outlives its context: once the context is done the Await has returned
(with the trace or the context's error), whatever happened before. -/
theorem await_bounded (s : St) (w : Nat) :
    (step s (.ctx w)).1.waiters w = none ∧ Obs.waiting ∉ (step s (.ctx w)).2 := by
  constructor
  · show upd s.waiters w none w = none; simp
  · show Obs.waiting ∉ ctxObs s w
    unfold ctxObs
    cases s.waiters w with
    | none => simp
    | some g => simp only []; cases s.results g <;> simp

/-- at every position of every script: what an idle waiter's Await observes is determined by the
history alone -/
theorem await_obs_history (pre : List Op) (n : Name) (w : Nat) (hidle : (exec init pre).1.waiters w = none) :
    (step (exec init pre).1 (.await w n)).2 =
      [match epochMid n pre with
        | none => .err
        | some mid => match firstComplete n mid with | some t => .trace t | none => .waiting] := by
  have h := hist_of_history pre n
  show [awaitObs (exec init pre).1 w n] = _
  cases hem : epochMid n pre with
  | none => rw [hem] at h; simp [awaitObs, hidle, h]
  | some mid =>
    rw [hem] at h
    obtain ⟨g, hg, hr⟩ := h
    cases hf : firstComplete n mid <;> simp [awaitObs, hidle, hg, hr, hf, resOf]


/-- On EVERY script — any names, waiters, re-initialisations, clears, completions, joins and
cancellations in any order — the state machine allows at every position exactly the observations
that the history-based specification `specObs` allows (the predicate the check evaluates on the
real Tracer's output): the outcome of every Await is a function of the history of
Init/Clear/Complete alone. -/
theorem exec_eq_spec (ops : List Op) : (exec init ops).2 = specObs ops := by
  have := exec_spec_go ops [] [] init wf_init hist_init rel_init
  simpa [specObs] using this


/-- the history-based expectation used by the check's predicate and the state machine agree on
a script that exercises re-initialisation, clearing, late and early completion (the check
compares the two on every generated script as well) -/
example :
    let ops : List Op := [.init "b", .init "a", .await 1 "a", .complete "b" 5, .await 2 "b", .complete "a" 7,
      .complete "a" 8, .join 1, .clear "a", .await 1 "a", .init "a", .await 1 "a", .init "a", .complete "a" 9, .ctx 1]
    specObs ops = (exec init ops).2 := by decide

end slots

section builder
open Builder

/-- Each traced operation hands its trace to the collector at most once — exactly once when
the operation is named and a finishing event or `build` occurs — and the delivered events are
exactly those added up to and including the first finishing one: nothing added afterwards is
recorded.  `ops` is any interleaving of the adds/builds of any number of goroutines. -/
theorem builder_once (named : Bool) (ops : List Op) :
    (exec (init named) ops).2 = deliveries named ops := by
  cases named
  · simp [deliveries, init, (exec_dead ops ⟨false, [], 0, 0⟩ rfl).1]
  · have := exec_live ops [] 0 0
    simp only [init, deliveries, Bool.true_and, this, List.nil_append]

theorem at_most_once (named : Bool) (ops : List Op) : (exec (init named) ops).2.length ≤ 1 := by
  rw [builder_once]; unfold deliveries; split <;> simp

/-- the server middleware defers `build()`: exactly one delivery for a named operation -/
theorem handler_completes_once (ops : List Op) :
    (exec (init true) (ops ++ [.build])).2.length = 1 := by
  rw [builder_once]; simp [deliveries, isCloser]

/-- the client middleware: exactly one delivery as soon as the transport fails, the response
body ends or the request is cancelled -/
theorem roundtrip_completes_once (ops : List Op) (h : ∃ k id, Op.add k id ∈ ops ∧ k.finishes = true) :
    (exec (init true) ops).2.length = 1 := by
  rw [builder_once]
  obtain ⟨k, id, hm, hk⟩ := h
  have : ops.any isCloser = true := List.any_eq_true.mpr ⟨_, hm, by simpa [isCloser] using hk⟩
  simp [deliveries, this]

/-- nothing after the first closer is recorded: the kept events depend only on the operations
up to it -/
theorem nothing_after_close (a b : List Op) (c : Op) (hc : isCloser c = true)
    (ha : ∀ o ∈ a, isCloser o = false) : kept (a ++ c :: b) = kept (a ++ [c]) := by
  induction a with
  | nil =>
    cases c with
    | build => rfl
    | add k id => simp [isCloser] at hc; simp [kept, hc]
  | cons o os ih =>
    have ho := ha o (by simp)
    cases o with
    | build => simp [isCloser] at ho
    | add k id =>
      simp [isCloser] at ho
      simp only [List.cons_append, kept, ho, Bool.false_eq_true, if_false]
      rw [ih (fun o' ho' => ha o' (by simp [ho']))]

example : (exec (init true) [.add .reqData 1, .add .reqEnd 2, .add .respStart 3, .add .respData 4,
      .add .cancel 5, .add .respData 6, .add .respEnd 7, .build]).2 =
    [[⟨.reqData, 1, some 0⟩, ⟨.reqEnd, 2, none⟩, ⟨.respStart, 3, none⟩, ⟨.respData, 4, some 0⟩, ⟨.cancel, 5, none⟩]] := by
  decide

end builder

/-! ### the glue around the slots (1): the reference client's per-call hand-off
`wireTracer.Complete` → `setWireTrace` → `examineWireDetails` (wire_details.go) -/
section wire
open WireHandoff HandoffGlue

/-- On EVERY script over any number of calls — the wait of a call begins, its context is done,
its trace is completed, its grace period ends, in any order — the state machine of the hand-off
shows at every position exactly what the history-based specification `specObs` allows (the
predicate the check evaluates on the real `examineWireDetails`).  `specObs` never looks at the
context events. -/
theorem wire_exec_eq_spec (bare : List Nat) (ops : List Op) :
    (exec (init bare) ops).2 = specObs bare ops :=
  exec_spec_go bare ops (init bare) [] [] (rel_init bare)

/-- A trace completed before the grace period ends is delivered to the waiter of its call,
exactly once: the examination of a prepared call `k` that begins after `pre` returns the first
trace completed for `k` in `pre` at once; otherwise it waits, and after `post` — which may
contain anything but operations of this waiter: completions and waits of other calls, context
events of every call including `k` — it has obtained the first trace completed for `k` in
`post`, is still waiting if there is none, and gives up ("not found") only when its grace period
ends without one.  After the delivery the wait is over (nothing is delivered twice). -/
theorem wire_delivers_within_grace (bare : List Nat) (pre post : List Op) (k : Nat)
    (hk : bare.contains k = false)
    (hidle : ((exec (init bare) pre).1.calls k).waiting = false)
    (hw : ∀ o ∈ post, usesWaiter k o = false) :
    let s1 := (exec (init bare) pre).1
    let s3 := (exec (step s1 (.begin k)).1 post).1
    (step s1 (.begin k)).2 = (match firstTrace k pre with | some t => .trace t | none => .waiting) ∧
    (firstTrace k pre = none →
      (step s3 (.join k)).2 = (match firstTrace k post with | some t => .trace t | none => .waiting) ∧
      (step s3 (.grace k)).2 = (match firstTrace k post with | some t => .trace t | none => .notFound) ∧
      (∀ t, firstTrace k post = some t → (step (step s3 (.join k)).1 (.join k)).2 = .idle)) := by
  intro s1 s3
  have hk' : ¬ k ∈ bare := by simpa using hk
  have hwr1 : (s1.calls k).wrapped = true := by
    show ((exec (init bare) pre).1.calls k).wrapped = true
    rw [exec_wrapped]; simp [init, hk']
  have hav1 : (s1.calls k).avail = firstTrace k pre := by
    show ((exec (init bare) pre).1.calls k).avail = _
    rw [exec_avail pre _ k (by simp [init, hk'])]; simp [init]
  have hidle' : (s1.calls k).waiting = false := hidle
  constructor
  · cases hf : firstTrace k pre with
    | some t => rw [hf] at hav1; simp [step, hidle', hwr1, hav1]
    | none => rw [hf] at hav1; simp [step, hidle', hwr1, hav1]
  · intro hnone
    rw [hnone] at hav1
    have hs2 : (step s1 (.begin k)).1 = ⟨upd s1.calls k { s1.calls k with waiting := true }⟩ := by
      simp [step, hidle', hwr1, hav1]
    have hwr3 : (s3.calls k).wrapped = true := by
      show ((exec (step s1 (.begin k)).1 post).1.calls k).wrapped = true
      rw [exec_wrapped, step_wrapped]; exact hwr1
    have hav3 : (s3.calls k).avail = firstTrace k post := by
      show ((exec (step s1 (.begin k)).1 post).1.calls k).avail = _
      rw [exec_avail post _ k (by rw [step_wrapped]; exact hwr1), hs2]
      simp [hav1]
    have hwt3 : (s3.calls k).waiting = true := by
      show ((exec (step s1 (.begin k)).1 post).1.calls k).waiting = true
      rw [exec_waiting post _ k hw, hs2]; simp
    refine ⟨?_, ?_, ?_⟩
    · cases hf : firstTrace k post with
      | some t => rw [hf] at hav3; simp [step, hwt3, hav3]
      | none => rw [hf] at hav3; simp [step, hwt3, hav3]
    · cases hf : firstTrace k post with
      | some t => rw [hf] at hav3; simp [step, hwt3, hav3]
      | none => rw [hf] at hav3; simp [step, hwt3, hav3]
    · intro t hf
      rw [hf] at hav3
      have : (step s3 (.join k)).1 = ⟨upd s3.calls k { s3.calls k with waiting := false }⟩ := by
        simp [step, hwt3, hav3]
      rw [this]
      simp [step]

/-- non-vacuity: the context of call 0 is done before its wait begins and the trace is completed
only afterwards (the grace period's very purpose); call 1 completes in between -/
example :
    let pre : List Op := [.ctxDone 0, .begin 1]
    let post : List Op := [.complete 1 8, .ctxDone 0, .join 1, .complete 0 7]
    ((exec (init []) pre).1.calls 0).waiting = false ∧ (∀ o ∈ post, usesWaiter 0 o = false) ∧
    firstTrace 0 pre = none ∧ firstTrace 0 post = some 7 ∧
    (exec (init []) (pre ++ [.begin 0] ++ post ++ [.join 0, .join 0])).2 =
      [.none, .waiting, .waiting, .none, .none, .trace 8, .none, .trace 7, .idle] := by decide

/-- … whatever the state of the call's context: removing every context event from a script
changes none of the other observations. -/
theorem wire_ctx_irrelevant (bare : List Nat) (ops : List Op) :
    dropCtxObs ops (exec (init bare) ops).2 = (exec (init bare) (ops.filter (fun o => !isCtx o))).2 := by
  rw [wire_exec_eq_spec, wire_exec_eq_spec]
  exact specGo_filter_ctx bare ops [] [] [] (fun _ => rfl)

example : dropCtxObs [.ctxDone 0, .begin 0, .ctxDone 0, .complete 0 7, .join 0]
      (exec (init []) [.ctxDone 0, .begin 0, .ctxDone 0, .complete 0 7, .join 0]).2 =
    [.waiting, .none, .trace 7] := by decide

/-- … to the right waiter: a completion for another call changes nothing for call `k` -/
theorem wire_right_waiter (s : St) (j k t : Nat) (h : j ≠ k) :
    (step s (.complete j t)).1.calls k = s.calls k :=
  step_other s _ k h

/-- giving up is only possible when the grace period ends: no other operation makes a pending
wait return without its trace -/
theorem wire_gives_up_only_at_grace (s : St) (o : Op) (h : (step s o).2 = .notFound) :
    ∃ k, o = .grace k ∧ (s.calls k).waiting = true ∧ (s.calls k).avail = none := by
  cases o with
  | begin k =>
    simp only [step] at h
    split at h
    · simp at h
    · split at h
      · simp at h
      · split at h <;> simp at h
  | ctxDone k => simp [step] at h
  | complete k t =>
    simp only [step] at h
    split at h
    · simp at h
    · split at h <;> simp at h
  | grace k =>
    refine ⟨k, rfl, ?_⟩
    simp only [step] at h
    split at h
    · rename_i hwt
      refine ⟨hwt, ?_⟩
      cases ha : (s.calls k).avail with
      | none => rfl
      | some t => rw [ha] at h; simp at h
    · simp at h
  | join k =>
    simp only [step] at h
    split at h
    · split at h <;> simp at h
    · simp at h
  | peek k =>
    simp only [step] at h
    split at h
    · split at h <;> simp at h
    · simp at h

example : (step (exec (init []) [.ctxDone 0, .begin 0]).1 (.grace 0)).2 = .notFound := by decide

end wire

/-! ### the glue around the slots (2): the server-side middleware hands over a final trace
(`TracingHandler`, `tracingResponseWriter.tryFinish / setTrailers`, `builder.add`) -/
section handler
open HandlerTrace HandoffGlue

/-- Every handler call — whatever the handler does: headers, trailers announced or prefixed,
writes that fail, request-body errors, cancellation, a panic — hands exactly one trace to the
collector. -/
theorem handler_delivers_once (acts : List Act) : (run acts).delivered.length = 1 := by
  unfold run finish
  have h := once_runActs acts init once_init
  have h1 := tryFinish_closed (if (runActs init acts).2 = true then Closer.respEndPanic else Closer.respEnd) _ h
  rw [close_of_not_live _ _ (by rw [close_of_not_live _ _ h1.1]; exact h1.1), close_of_not_live _ _ h1.1]
  exact h1.2

/-- The trace handed over is final, for EVERY handler script — including operations that are
ended early by the request side (`readErr`, `closeReq`) or by cancellation at any point, before
or after the response has started: what the consumer of a delivered trace sees when everything
is over is what it saw at the moment of completion.  Completion is the last write: the trailers
are copied into the response object only while the builder still holds the trace
(`builder.whileBuilding`, the repair of finding F28), and after the hand-off nothing the trace
refers to is written. -/
theorem handler_trace_final (acts : List Act) :
    ∀ d ∈ (run acts).delivered, viewAtEnd (run acts) d = d.snap :=
  inv_fin (run acts) (inv_run acts)

/-- … in the form the check evaluates: the list of deliveries as seen at the end equals the
list of copies taken at completion, and there is exactly one. -/
theorem handler_trace_is_final (acts : List Act) :
    isFinal (run acts) = true ∧ (run acts).delivered.length = 1 := by
  refine ⟨?_, handler_delivers_once acts⟩
  unfold isFinal finalView atCompletion
  have h := handler_trace_final acts
  have : (run acts).delivered.map (viewAtEnd (run acts)) = (run acts).delivered.map (·.snap) :=
    List.map_congr_left h
  simp [this]

/-- a gRPC-style handler: announced and prefixed trailers, set after the body, are in the trace
when it is handed over -/
example :
    atCompletion (run [.declare ["Grpc-Status"], .write true, .set (.plain "Grpc-Status") "0",
      .set (.pre "Grpc-Message") "fine"]) = [⟨.respEnd, some ⟨200, [(.plain "Trailer", ["Grpc-Status"])],
      [("Grpc-Message", ["fine"]), ("Grpc-Status", ["0"])]⟩⟩] := by decide

/-- the former witness of finding F28 (the request body is closed after the response has
started, the handler then sets a trailer and returns): the trace completed by the early end keeps
the trailers it had then.  Before the repair (`tryFinish` calling `setTrailers` unconditionally)
`isFinal` of this run was `false`: the view at the end had `X-T = ["1"]`. -/
example :
    let s := run [.declare ["X-T"], .writeHeader 200, .closeReq, .set (.plain "X-T") "1"]
    isFinal s = true ∧
    finalView s = [⟨.reqEndErr, some ⟨200, [(.plain "Trailer", ["X-T"])], [("X-T", [])]⟩⟩] := by decide

/-- `WriteHeader` seeds the trace's trailers with exactly the announced names -/
theorem writeHeader_announces (st : Nat) (s : St) (h : s.started = false) (n : String) :
    ((writeHeader st s).resp.trailer.lookup n).isSome = s.decl.contains n := by
  unfold writeHeader
  simp only [h, Bool.false_eq_true, if_false]
  rw [seed_lookup]; simp

/-- … and when the response ends, the trailers copied into the trace are exactly what belongs to
the response as trailers (`trailerSpec`: announced names with their plain and prefixed values,
other names through their prefixed entry only), read from the header map as it is then — when
the builder still holds the trace (otherwise the trace is gone and nothing is written). -/
theorem tryFinish_trailers_complete (c : Closer) (s : St) (declared : List String)
    (hf : s.finished = false) (hl : s.live = true) (hn : NodupKeys s.hdr)
    (hd : ∀ n, ((writeHeader 200 s).resp.trailer.lookup n).isSome = declared.contains n) (n : String) :
    (tryFinish c s).resp.trailer.lookup n = trailerSpec declared s.hdr n := by
  have hwh : (writeHeader 200 s).hdr = s.hdr := by unfold writeHeader; split <;> rfl
  have hl' : (writeHeader 200 s).live = true := by rw [writeHeader_live]; exact hl
  have : (tryFinish c s).resp.trailer = setTrailers (writeHeader 200 s).resp.trailer s.hdr := by
    unfold tryFinish
    simp only [hf, Bool.false_eq_true, if_false]
    unfold close markFinished whileBuilding
    simp [hl', hwh]
  rw [this]
  exact setTrailers_lookup _ _ declared n hn (hd n)

/-- the header map of every reachable state has distinct keys (hypothesis of the previous theorem) -/
theorem handler_hdr_nodup : ∀ (acts : List Act) (s : St), NodupKeys s.hdr → NodupKeys (runActs s acts).1.hdr
  | [], _, h => h
  | .panic :: _, _, h => h
  | .set k v :: as, s, h => handler_hdr_nodup as _ (nodup_step s _ h)
  | .add k v :: as, s, h => handler_hdr_nodup as _ (nodup_step s _ h)
  | .declare n :: as, s, h => handler_hdr_nodup as _ (nodup_step s _ h)
  | .declareAdd n :: as, s, h => handler_hdr_nodup as _ (nodup_step s _ h)
  | .writeHeader st :: as, s, h => handler_hdr_nodup as _ (nodup_step s _ h)
  | .write ok :: as, s, h => handler_hdr_nodup as _ (nodup_step s _ h)
  | .flush :: as, s, h => handler_hdr_nodup as _ (nodup_step s _ h)
  | .readEof :: as, s, h => handler_hdr_nodup as _ (nodup_step s _ h)
  | .readErr :: as, s, h => handler_hdr_nodup as _ (nodup_step s _ h)
  | .closeReq :: as, s, h => handler_hdr_nodup as _ (nodup_step s _ h)
  | .cancel :: as, s, h => handler_hdr_nodup as _ (nodup_step s _ h)

example : NodupKeys init.hdr ∧ init.finished = false ∧ init.live = true := ⟨List.nodup_nil, rfl, rfl⟩

example : trailerSpec ["X-T"] [(.plain "X-T", ["a"]), (.pre "X-T", ["b"]), (.pre "X-P", ["p"]), (.plain "X-Q", ["q"])] "X-T" = some ["a", "b"] ∧
    trailerSpec ["X-T"] [(.plain "X-T", ["a"]), (.pre "X-P", ["p"]), (.plain "X-Q", ["q"])] "X-P" = some ["p"] ∧
    trailerSpec ["X-T"] [(.plain "X-T", ["a"]), (.pre "X-P", ["p"]), (.plain "X-Q", ["q"])] "X-Q" = none := by decide

end handler

/-! ### exactly-once completion on an HTTP/2 connection, for every Collector
(`http2RetryCollector` between the per-stream builders of `tracingHTTP2Conn` and the real
collector; `cancel` runs from `cancelAll` on every failed Read, failed Write and on Close) -/
section retry
open H2 H2Teardown

/-- For EVERY sequence of calls on the retry collector — traces held back (`Complete` with a
retryable error), retries (`newAttempt`), timers (`timesUp`), tear-downs (`cancel`), in any order
and multiplicity — a trace reaches the downstream collector at most as often as it was completed
upstream: an operation whose builder completes once (builder_once) is delivered at most once,
whatever the collector downstream is. -/
theorem retry_at_most_once (ops : List COp) (t : Trace) :
    (Coll.init.run ops).out.count t ≤ completions t ops := by
  have := count_run ops Coll.init t
  simp only [Coll.init, List.count_nil, valuesCount, List.map_nil] at this ⊢
  omega

/-- … in particular through every script of a traced connection (`lowerAll`: the calls the
connection makes on its retry collector for streams opened, ended, refused, reset, cut off by
GOAWAY, and for any sequence of failed reads, failed writes and closes) -/
theorem conn_at_most_once (steps : List Step) (t : Trace) :
    (deliveries steps).count t ≤ completions t (lowerAll Conn.init steps) :=
  retry_at_most_once _ t

/-- `cancel` is idempotent: a second tear-down (the read loop failed, then the owner closes the
connection) delivers nothing again … -/
theorem retry_cancel_idempotent (c : Coll) : c.cancel.cancel = c.cancel := cancel_cancel c

/-- … nor does any further number of them. -/
theorem retry_cancel_any_multiplicity (c : Coll) (k : Nat) :
    (c.run (COp.cancel :: List.replicate k COp.cancel)) = c.cancel := by
  show (c.step .cancel).run _ = _
  exact run_cancels c k

/-- Exactly once: a trace that is held back when the connection is torn down is delivered by
the first `cancel` and — whatever follows: more tear-downs, timers, retries, other completions,
anything but a second completion of that very trace upstream — stays delivered exactly once. -/
theorem retry_teardown_exactly_once (c : Coll) (hc : WOK c.waiting) (t : Trace)
    (hheld : findName t.name c.waiting = some t) (hfresh : c.out.count t = 0)
    (rest : List COp) (hrest : completions t rest = 0) :
    (c.run (COp.cancel :: rest)).out.count t = 1 := by
  have h1 : c.cancel.out.count t = 1 := by
    have := valuesCount_held t c.waiting hc hheld
    simp only [Coll.cancel, List.count_append, hfresh, valuesCount] at this ⊢
    omega
  have hup := count_run rest c.cancel t
  have hlo := out_count_mono_run rest c.cancel t
  have hv : valuesCount t c.cancel.waiting = 0 := by simp [Coll.cancel, valuesCount]
  show ((c.step .cancel).run rest).out.count t = 1
  have e : c.step .cancel = c.cancel := rfl
  rw [e]
  omega

/-- non-vacuity: stream 1 of test `a` is refused and never retried; the read loop fails, a write
fails, the owner closes the connection twice — one delivery -/
example :
    let t := mkTrace "a" 1 (.stream 1 7)
    let c := Coll.init.run [.newAttempt "a", .complete t]
    WOK c.waiting ∧ findName t.name c.waiting = some t ∧ c.out.count t = 0 ∧
    (deliveries [.opn 1 "a", .rst 1 7 false, .teardown, .teardown, .teardown, .teardown]) = [t] := by
  refine ⟨?_, by decide, by decide, by decide⟩
  exact WOK_run _ Coll.init trivial

/-- refused and retried: the refused attempt is dropped for good, the retry is delivered once;
GOAWAY(NO_ERROR) holds back the streams above its limit until the tear-down -/
example :
    (deliveries [.opn 1 "a", .rst 1 7 false, .opn 3 "a", .respEnd 3, .teardown, .teardown]).map (·.req) =
      [[("id", "3")]] ∧
    (deliveries [.opn 1 "a", .opn 3 "b", .goaway 1 0, .teardown, .teardown, .timers]).map (·.req) =
      [[("id", "1")], [("id", "3")]] := by decide

end retry

/-! ## The runner's glue around the slots: `Init` precedes the hand-over of the request
(`runTestCasesForServer` + `fetchTrace`; model `ConfModel.HandoffInit`, op `glue`) -/
section glue
open TracerSlots HandoffInit

/-- The code as it is (`Init` first, `initAt = 0`): WHEREVER the producer completes the trace of
the case — while the request is announced, inside `sendRequest`, between its return and the
response callback, inside the callback (all of that is `pre`), or after the outcome was recorded
(`post`) — the waiter of the case hands on exactly the first trace completed for its name, it
runs into its deadline exactly when there is none, and afterwards no slot remains for the name.
`hist`, `pre`, `post` are arbitrary (other cases of the batch, other names, other waiters), only
the case's own slot and waiter are its own. -/
theorem glue_delivers (hist : List Op) (c : Case)
    (hw : ∀ o ∈ hist ++ c.pre ++ c.post, usesWaiter c.w o = false)
    (hslot : ∀ o ∈ c.pre ++ c.post, touches c.name o = false) :
    caseCollects hist 0 c
        = (firstComplete c.name (c.pre ++ c.post), (firstComplete c.name (c.pre ++ c.post)).isNone) ∧
    collectSpec c.name (hist ++ upToOutcome 0 c) c.post = caseCollects hist 0 c ∧
    (exec init (hist ++ caseOps 0 c)).1.traces c.name = none := by
  have hidle : (exec init (hist ++ [.init c.name] ++ c.pre)).1.waiters c.w = none := by
    apply idle_of_unused
    intro o ho
    simp only [List.mem_append, List.mem_singleton] at ho
    rcases ho with (ho | ho) | ho
    · exact hw o (by simp [ho])
    · subst ho; rfl
    · exact hw o (by simp [ho])
  have h := runner_collects_first hist c.pre c.post c.name c.w hidle hslot
    (fun o ho => hw o (by simp [ho]))
  have e : hist ++ upToOutcome 0 c = hist ++ [.init c.name] ++ c.pre := by
    simp [upToOutcome]
  refine ⟨?_, ?_, ?_⟩
  · unfold caseCollects; rw [e]; exact h.1
  · unfold caseCollects; rw [e, h.1, h.2]
  · have : hist ++ caseOps 0 c
        = (hist ++ upToOutcome 0 c ++ [.await c.w c.name] ++ c.post ++ [.join c.w]) ++ [.clear c.name] := by
      simp [caseOps, List.append_assoc]
    rw [this]
    exact exec_snoc_clear _ _

/-- non-vacuity: completion while sending, after the outcome, never; a batch of two -/
example :
    caseCollects [] 0 ⟨"a", 0, [.complete "a" 7], []⟩ = (some 7, false) ∧
    caseCollects [] 0 ⟨"a", 0, [.complete "b" 5], [.complete "a" 7, .complete "a" 8]⟩ = (some 7, false) ∧
    caseCollects [] 0 ⟨"a", 0, [], [.complete "b" 5]⟩ = (none, true) ∧
    caseCollects (caseOps 0 ⟨"a", 0, [.complete "a" 7], []⟩) 0 ⟨"b", 1, [.complete "a" 9], [.complete "b" 8]⟩
      = (some 8, false) := by decide

/-- Why `Init` must precede the hand-over of the request: with `Init` after the first `k`
operations of `pre`, whatever was completed for the case in those `k` operations is LOST — the
waiter obtains the first trace completed afterwards, and if there is none it sits out its whole
deadline although the call's trace was completed. -/
theorem glue_late_init_loses (hist : List Op) (c : Case) (k : Nat)
    (hw : ∀ o ∈ hist ++ c.pre ++ c.post, usesWaiter c.w o = false)
    (hslot : ∀ o ∈ c.pre ++ c.post, touches c.name o = false) :
    caseCollects hist k c
      = (firstComplete c.name (c.pre.drop k ++ c.post), (firstComplete c.name (c.pre.drop k ++ c.post)).isNone) := by
  have hpre : ∀ o ∈ c.pre.take k, o ∈ c.pre := fun o ho => List.mem_of_mem_take ho
  have hdrop : ∀ o ∈ c.pre.drop k, o ∈ c.pre := fun o ho => List.mem_of_mem_drop ho
  have hidle : (exec init ((hist ++ c.pre.take k) ++ [.init c.name] ++ c.pre.drop k)).1.waiters c.w = none := by
    apply idle_of_unused
    intro o ho
    simp only [List.mem_append, List.mem_singleton] at ho
    rcases ho with ((ho | ho) | ho) | ho
    · exact hw o (by simp [ho])
    · exact hw o (by simp [hpre o ho])
    · subst ho; rfl
    · exact hw o (by simp [hdrop o ho])
  have h := runner_collects_first (hist ++ c.pre.take k) (c.pre.drop k) c.post c.name c.w hidle
    (fun o ho => by
      simp only [List.mem_append] at ho
      rcases ho with ho | ho
      · exact hslot o (by simp [hdrop o ho])
      · exact hslot o (by simp [ho]))
    (fun o ho => hw o (by simp [ho]))
  unfold caseCollects upToOutcome
  rw [← List.append_assoc, ← List.append_assoc]
  exact h.1

/-- … in particular: a trace completed while the request is handed to the client, when the slot
is only created afterwards and nothing else is completed for the case, reaches nobody. -/
theorem glue_complete_before_init_lost (hist : List Op) (c : Case) (k : Nat) (t : Nat)
    (hw : ∀ o ∈ hist ++ c.pre ++ c.post, usesWaiter c.w o = false)
    (hslot : ∀ o ∈ c.pre ++ c.post, touches c.name o = false)
    (_hdone : firstComplete c.name (c.pre.take k) = some t)
    (hnone : firstComplete c.name (c.pre.drop k ++ c.post) = none) :
    caseCollects hist k c = (none, true) ∧ caseCollects hist 0 c = (some t, false) := by
  constructor
  · rw [glue_late_init_loses hist c k hw hslot, hnone]; rfl
  · rw [(glue_delivers hist c hw hslot).1]
    have : c.pre ++ c.post = c.pre.take k ++ (c.pre.drop k ++ c.post) := by
      rw [← List.append_assoc, List.take_append_drop]
    rw [this, firstComplete_append, _hdone]; rfl

/-- the witness (decide): the trace completed inside `sendRequest` is delivered with `Init`
first and lost with `Init` after `sendRequest`; and when the outcome is recorded before a late
`Init`, the wait fails at once and the late `Init` leaves a slot behind. -/
example :
    caseCollects [] 0 ⟨"a", 0, [.complete "a" 7], []⟩ = (some 7, false) ∧
    caseCollects [] 1 ⟨"a", 0, [.complete "a" 7], []⟩ = (none, true) ∧
    (exec init (outcomeBeforeInit ⟨"a", 0, [.complete "a" 7], []⟩)).2 = [[.none], [.err], [.none], [.none]] ∧
    ((exec init (outcomeBeforeInit ⟨"a", 0, [.complete "a" 7], []⟩)).1.traces "a").isSome = true ∧
    ((exec init (caseOps 0 ⟨"a", 0, [.complete "a" 7], []⟩)).1.traces "a").isSome = false := by decide

/-- a slot created after its waiter is gone stays: whatever follows that does not clear it -/
theorem glue_outcome_before_init_leaks (c : Case) (hpost : ∀ o ∈ c.post, touches c.name o = false) :
    slotLive c.name false (outcomeBeforeInit c) = true := by
  have keep : ∀ (l : List Op) (b : Bool), (∀ o ∈ l, touches c.name o = false) →
      slotLive c.name b l = b := by
    intro l
    induction l with
    | nil => intro b _; rfl
    | cons o os ih =>
      intro b h
      have ho := h o (by simp)
      unfold slotLive at ih ⊢
      rw [List.foldl_cons, ih _ (fun o' ho' => h o' (by simp [ho']))]
      cases o <;> simp_all [touches]
  have split : ∀ (a b : List Op) (x : Bool), slotLive c.name x (a ++ b) = slotLive c.name (slotLive c.name x a) b := by
    intro a b x; unfold slotLive; rw [List.foldl_append]
  unfold outcomeBeforeInit
  rw [split, split, keep c.post _ hpost]
  simp [slotLive]

/-- non-vacuity: the slot of "a" is there at the end, also in the executable model -/
example : slotLive "a" false (outcomeBeforeInit ⟨"a", 0, [.complete "a" 7], [.complete "a" 8, .clear "b"]⟩) = true ∧
    ((exec init (outcomeBeforeInit ⟨"a", 0, [.complete "a" 7], [.complete "a" 8, .clear "b"]⟩)).1.traces "a").isSome = true := by
  decide

end glue
/-! ### the glue around the slots (4): the per-call hand-off through the REAL transport
(`newWireCaptureTransport` → `TracingRoundTripper` → builder → `wireTracer.Complete` → `setWireTrace`),
where the trace is completed by whichever comes first of: the round trip failing, the body read
to its end, the body closed, or — asynchronously, on the middleware's goroutine — the call's
context being done.  Scripts are arbitrary interleavings, over any number of calls, of
{round trip begins / returns, context done, the goroutine fires, body read to end, body closed,
the wait begins, is joined, is peeked at, its grace period ends}. -/
section wireasync
open WireHandoff HandoffGlue WireAsync

/-- The observations of every such script are exactly what the history-based `specObs` allows for
the lowered script (the predicate the check evaluates on the real code). -/
theorem async_exec_eq_spec (bare : List Nat) (ops : List AOp) :
    (execA bare ops).2 = specObs bare (lowerAll init0 ops) :=
  wire_exec_eq_spec bare _

/-- EXACTLY ONCE at the collector: whatever the interleaving, at most one event of a call gets
through its builder — `wireTracer.Complete` is called at most once per call … -/
theorem async_completes_once (ops : List AOp) (k : Nat) :
    ((lowerAll init0 ops).filterMap (completesCall k)).length ≤ 1 := by
  have := lower_count k ops init0
  simpa [init0, RT.init] using this

/-- … hence `setWireTrace` never runs twice for one context (it would close a closed channel):
no script observes `panic`.  This discharges what the op `wire` has to assume. -/
theorem async_never_twice (bare : List Nat) (ops : List AOp) : Obs.panic ∉ (execA bare ops).2 :=
  no_panic ops _ _ (joint_init bare)

/-- RIGHT WAITER: every trace an examination returns is a trace of the call it examines
(`t / 8` is the call of trace `t`), for every script. -/
theorem async_right_waiter (bare : List Nat) (ops : List AOp) :
    ∀ p ∈ (lowerAll init0 ops).zip (execA bare ops).2, rightObs p.1 p.2 = true :=
  right_exec _ _ (bareOK_init bare) (by intro k t h; simp [WireHandoff.init] at h)
    (fun j t h => lower_right ops init0 j t h)

/-- NO LOSS: in every script, after any prefix `pre`, an event that is `completing` for call `k` in
the state reached — the goroutine fires while armed, the body is read to its end or closed while
open, the round trip fails — leaves the trace of a prepared call `k` stored in its wrapper, it
is a trace of call `k`, it is the first one completed, and nothing that follows (`post`) removes
or replaces it. -/
theorem async_no_loss (bare : List Nat) (pre post : List AOp) (k : Nat) (e : Ev)
    (hk : bare.contains k = false) (hc : completing (gateAll init0 pre k) e = true) :
    ∃ t, ((execA bare (pre ++ .ev k e :: post)).1.calls k).avail = some t ∧ t / 8 = k ∧
      firstTrace k (lowerAll init0 (pre ++ .ev k e :: post)) = some t := by
  have hk' : ¬ k ∈ bare := by simpa using hk
  have hav : ((execA bare (pre ++ .ev k e :: post)).1.calls k).avail =
      firstTrace k (lowerAll init0 (pre ++ .ev k e :: post)) := by
    unfold execA
    rw [exec_avail _ _ k (by simp [WireHandoff.init, hk'])]; simp [WireHandoff.init]
  have hsome : (firstTrace k (lowerAll init0 (pre ++ .ev k e :: post))).isSome = true := by
    rw [lowerAll_append, firstTrace_append]
    cases hcl : (gateAll init0 pre k).closed with
    | true =>
      rcases closed_first k pre init0 hcl with h | h
      · simp [init0, RT.init] at h
      · cases hf : firstTrace k (lowerAll init0 pre) with
        | none => rw [hf] at h; simp at h
        | some t => simp
    | false =>
      have h1 := completing_closes _ _ hc
      cases hg : (gate (gateAll init0 pre k) e).2 with
      | none => rw [gate_none _ _ hg, hcl] at h1; simp at h1
      | some c =>
        simp only [lowerAll]
        rw [firstTrace_cons, completesCall_lowerEv_same, hg]
        cases firstTrace k (lowerAll init0 pre) <;> simp
  cases hf : firstTrace k (lowerAll init0 (pre ++ .ev k e :: post)) with
  | none => rw [hf] at hsome; simp at hsome
  | some t =>
    refine ⟨t, by rw [hav, hf], ?_, rfl⟩
    exact lower_right _ init0 k t (firstTrace_mem k _ t hf)

/-- non-vacuity: the wait of call 1 begins, its context is cancelled, the goroutine fires later
(after a peek that still sees it waiting): the trace "call 1, cancelled with response" (8·1+3)
is stored and joined; reading the body to its end afterwards changes nothing -/
example :
    let pre : List AOp := [.ev 1 .rtBegin, .ev 1 (.rtEnd true), .begin 1, .ev 1 .ctxDone, .peek 1]
    completing (gateAll init0 pre 1) .fire = true ∧
    (execA [] (pre ++ .ev 1 .fire :: [.join 1, .ev 1 .readEnd, .join 1])).2 =
      [.none, .none, .waiting, .none, .waiting, .none, .trace 11, .none, .idle] := by decide

/-- CANCELLATION ARMS THE COMPLETION: in every script, once the round trip of a call has begun
and its context is done — in either order — the middleware's goroutine is armed (its firing is
`completing`: `async_no_loss`), or it has fired and the builder has handed the trace over. -/
theorem async_ctx_arms (pre : List AOp) (k : Nat)
    (hp : (gateAll init0 pre k).phase ≠ .none) (hd : (gateAll init0 pre k).ctxDone = true) :
    completing (gateAll init0 pre k) .fire = true ∨
      ((gateAll init0 pre k).gor = .spent ∧ (gateAll init0 pre k).closed = true) := by
  have h := rinv_gateAll pre init0 (fun _ => rinv_init) k
  have h1 := h.1 hp hd
  cases hg : (gateAll init0 pre k).gor with
  | idle => exact absurd hg h1
  | armed => left; simp [completing, hg]
  | spent => right; exact ⟨rfl, h.2.1 hg⟩

example : (gateAll init0 [.ev 0 .ctxDone, .begin 0, .ev 0 .rtBegin] 0).phase ≠ .none ∧
    (gateAll init0 [.ev 0 .ctxDone, .begin 0, .ev 0 .rtBegin] 0).ctxDone = true ∧
    (execA [] [.ev 0 .ctxDone, .begin 0, .ev 0 .rtBegin, .ev 0 .fire, .ev 0 (.rtEnd true), .join 0]).2 =
      [.none, .waiting, .none, .none, .none, .trace 5] := by decide

/-- BODILESS RESPONSES COMPLETE EXACTLY ONCE: in every script over any number of calls, once the
round trip of a prepared call `k` has handed a response to the caller (phase `body`: also a
response without body — http.NoBody, 204/304, HEAD, Content-Length 0, END_STREAM — is wrapped by
the tracing reader), the caller's first touch of the body (`touch`: a Read, which is EOF at once,
or a Close) leaves EXACTLY ONE completion of call `k` in the whole script, whatever precedes
(`pre`: e.g. a cancellation whose goroutine fired first) and follows (`post`); its trace is a
trace of call `k`, it is the first one completed and it stays in the call's wrapper
(so `wire_delivers_within_grace` hands it to the waiter of `k`). -/
theorem bodiless_completes_once (bare : List Nat) (pre post : List AOp) (k : Nat) (read : Bool)
    (hk : bare.contains k = false) (hb : (gateAll init0 pre k).phase = .body) :
    ((lowerAll init0 (pre ++ .ev k (touch read) :: post)).filterMap (completesCall k)).length = 1 ∧
    ∃ t, ((execA bare (pre ++ .ev k (touch read) :: post)).1.calls k).avail = some t ∧ t / 8 = k ∧
      firstTrace k (lowerAll init0 (pre ++ .ev k (touch read) :: post)) = some t := by
  have hc : completing (gateAll init0 pre k) (touch read) = true := by
    cases read <;> simp [touch, completing, hb]
  obtain ⟨t, h1, h2, h3⟩ := async_no_loss bare pre post k (touch read) hk hc
  refine ⟨?_, t, h1, h2, h3⟩
  have hle := async_completes_once (pre ++ .ev k (touch read) :: post) k
  unfold firstTrace at h3
  cases hl : (lowerAll init0 (pre ++ .ev k (touch read) :: post)).filterMap (completesCall k) with
  | nil => rw [hl] at h3; simp at h3
  | cons a l =>
    rw [hl] at hle
    simp only [List.length_cons] at hle ⊢
    omega

/-- non-vacuity: a bodiless response read by the caller while the waiter is pending (cause 1), and
one closed after a cancellation whose goroutine has not fired yet (cause 2; the late `fire` adds
nothing) -/
example : (gateAll init0 [.ev 0 .rtBegin, .begin 0, .ev 0 (.rtEnd true)] 0).phase = .body ∧
    (execA [] ([.ev 0 .rtBegin, .begin 0, .ev 0 (.rtEnd true)] ++ .ev 0 (touch true) :: [.join 0])).2 =
      [.none, .waiting, .none, .none, .trace 1] ∧
    (gateAll init0 [.ev 0 .rtBegin, .ev 0 (.rtEnd true), .ev 0 .ctxDone] 0).phase = .body ∧
    (execA [] ([.ev 0 .rtBegin, .ev 0 (.rtEnd true), .ev 0 .ctxDone] ++ .ev 0 (touch false) ::
      [.ev 0 .fire, .begin 0])).2 = [.none, .none, .none, .none, .none, .trace 2] := by decide

end wireasync

end ConfModel.Props.C16
