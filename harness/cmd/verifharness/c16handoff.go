package main

// C16 at the glue around the Tracer slots:
//   - op "wire": the reference client's per-call hand-off (wireTracer.Complete -> setWireTrace
//     -> examineWireDetails) under every order of {the wait begins, the call's context is
//     done, the trace is completed}, with the end of the grace period as an explicit step;
//   - op "final": the server-side middleware (TracingHandler, tracingResponseWriter, builder)
//     around handlers that set trailers, observed at the moment of completion (a collector
//     that deep-copies inside Complete, a waiter already blocked in Await) and again at the end.

import (
	"encoding/json"
	"fmt"
	"strings"

	rc "connectrpc.com/conformance/internal/app/referenceclient"
	"connectrpc.com/conformance/internal/tracer"
	"connectrpc.com/conformance/internal/verifharness/gen"
)

type c16WireIn struct {
	// Via "rt": through the real newWireCaptureTransport / TracingRoundTripper (ctx flavours
	// live | fail | bare; "c:k" reads the response body to its end, "x:k" also completes the
	// trace through the middleware's goroutine); otherwise wireTracer.Complete is called directly
	Via    string   `json:"via,omitempty"`
	Ctx    []string `json:"ctx"`    // per call: live | cancelled | expired | timeout | bare
	Tracer bool     `json:"tracer"` // a real *tracer.Tracer behind the wireTracer
	Steps  []string `json:"steps"`
}

type c16WireOut struct {
	Obs      []string `json:"obs"`
	Inner    []string `json:"inner"`
	SetAside bool     `json:"setAside,omitempty"` // three runs were too slow to say anything
}

func init() {
	gen.RegisterOp("c16", "wire", func(c *gen.Ctx, raw json.RawMessage) any {
		in := gen.Into[c16WireIn](raw)
		var out c16WireOut
		for attempt := 0; attempt < 3; attempt++ {
			var v *rc.VerifC16Wire
			if in.Via == "rt" {
				v = rc.VerifC16NewWireRT(in.Ctx, in.Tracer)
			} else {
				v = rc.VerifC16NewWire(in.Ctx, in.Tracer)
			}
			out = c16WireOut{Obs: make([]string, 0, len(in.Steps))}
			for _, st := range in.Steps {
				out.Obs = append(out.Obs, v.Do(st))
			}
			out.Inner = v.Inner()
			v.Close()
			if !v.Slow {
				return out
			}
			c.E.Count("wire:repeated-too-slow")
		}
		c.E.Count("wire:set-aside-too-slow")
		out.SetAside = true
		return out
	})
	gen.RegisterOp("c16", "final", func(_ *gen.Ctx, raw json.RawMessage) any {
		return tracer.VerifC16Handoff(gen.Into[tracer.VerifC16HandoffIn](raw))
	})
}

// c16WireAnnotate turns an order of w/x/c steps into a script: ids for the completions, a
// join after every completion that finds its waiter pending, optionally one peek at a waiter
// that must still be waiting, and at the end every pending wait is brought to its end —
// by a late completion, or (graceEnd) by letting the grace period pass.  The bookkeeping
// only decides where to look; what must be seen there is decided by the Lean side.
func c16WireAnnotate(seq []string, peekAt int, graceEnd bool) []string {
	pending := map[string]bool{}
	completed := map[string]bool{}
	var out []string
	for i, st := range seq {
		f := strings.Split(st, ":")
		switch f[0] {
		case "w":
			out = append(out, st)
			if !completed[f[1]] {
				pending[f[1]] = true
			}
		case "c":
			if completed[f[1]] {
				continue // setWireTrace must not be called twice for one context
			}
			completed[f[1]] = true
			if len(f) == 2 {
				st = fmt.Sprintf("c:%s:%d", f[1], 200+i)
			}
			out = append(out, st)
			if pending[f[1]] {
				out = append(out, "j:"+f[1])
				delete(pending, f[1])
			}
		default:
			out = append(out, st)
		}
		if i == peekAt {
			for _, k := range []string{"0", "1", "2"} {
				if pending[k] {
					out = append(out, "p:"+k)
					break
				}
			}
		}
	}
	for _, k := range []string{"0", "1", "2"} {
		if !pending[k] {
			continue
		}
		if graceEnd {
			out = append(out, "g:"+k)
		} else {
			out = append(out, "c:"+k+":"+fmt.Sprint(290+len(out)), "j:"+k)
			completed[k] = true
		}
	}
	return out
}

// c16WireAnnotateRT: the same for the round-tripper mode, where both "c:k" (response read to
// its end) and "x:k" (context cancelled) complete the trace of a call, and a failed round trip
// has completed it before the script starts. Every pending wait is completed at the end.
func c16WireAnnotateRT(seq []string, ctx []string, peekAt int) []string {
	pending := map[string]bool{}
	completed := map[string]bool{}
	for k, fl := range ctx {
		if fl == "fail" {
			completed[fmt.Sprint(k)] = true
		}
	}
	bare := func(k string) bool {
		var i int
		fmt.Sscan(k, &i)
		return i < len(ctx) && ctx[i] == "bare"
	}
	var out []string
	for i, st := range seq {
		f := strings.Split(st, ":")
		out = append(out, st)
		switch f[0] {
		case "w":
			if !completed[f[1]] && !bare(f[1]) {
				pending[f[1]] = true
			}
		case "c", "x":
			completed[f[1]] = true
			if pending[f[1]] {
				out = append(out, "j:"+f[1])
				delete(pending, f[1])
			}
		}
		if i == peekAt {
			for _, k := range []string{"0", "1", "2"} {
				if pending[k] {
					out = append(out, "p:"+k)
					break
				}
			}
		}
	}
	for _, k := range []string{"0", "1", "2"} {
		if pending[k] {
			out = append(out, "c:"+k, "j:"+k)
		}
	}
	return out
}

// all arrangements of all subsets of syms (each symbol at most once)
func c16Arrangements(syms []string, f func([]string)) {
	var rec func(prefix []string, used uint)
	rec = func(prefix []string, used uint) {
		if len(prefix) > 0 {
			f(prefix)
		}
		for i, s := range syms {
			if used&(1<<uint(i)) != 0 {
				continue
			}
			rec(append(append([]string{}, prefix...), s), used|1<<uint(i))
		}
	}
	rec(nil, 0)
}

func c16WireGen(c *gen.Ctx) {
	r := c.R
	var ins []any
	n := 0
	seen := map[string]bool{}
	graceBudget := 10
	if c.Thorough() {
		graceBudget = 60
	}
	emit := func(ctx []string, tr bool, seq []string, peekAt int, grace bool) {
		steps := c16WireAnnotate(seq, peekAt, grace)
		key := fmt.Sprint(ctx, steps)
		if seen[key] {
			return
		}
		for _, s := range steps {
			if strings.HasPrefix(s, "g:") {
				if graceBudget <= 0 {
					return
				}
				graceBudget--
				c.E.Count("wire:script-with-a-grace-period")
				break
			}
		}
		seen[key] = true
		n++
		ins = append(ins, c16WireIn{Ctx: ctx, Tracer: tr, Steps: steps})
	}
	flavours := []string{"live", "cancelled", "expired", "timeout"}
	// one call: EVERY order of {wait begins, context done, trace completed} (and every
	// subset), for every initial state of the call's context, with and without a peek
	for fi, fl := range flavours {
		c16Arrangements([]string{"w:0", "x:0", "c:0"}, func(seq []string) {
			emit([]string{fl}, (n+fi)%2 == 0, seq, -1, false)
			emit([]string{fl}, (n+fi)%2 == 0, seq, r.Intn(len(seq)), false)
		})
	}
	// the grace period runs out: nothing is ever completed, or only afterwards
	for _, fl := range flavours {
		emit([]string{fl}, true, []string{"w:0"}, -1, true)
		emit([]string{fl}, false, []string{"x:0", "w:0"}, -1, true)
	}
	emit([]string{"live"}, true, []string{"w:0", "x:0"}, 0, true)
	ins = append(ins,
		c16WireIn{Ctx: []string{"live"}, Tracer: true, Steps: []string{"w:0", "g:0", "c:0:207", "w:0"}},
		c16WireIn{Ctx: []string{"expired"}, Tracer: true, Steps: []string{"w:0", "g:0", "c:0:0", "w:0"}},
		// a round trip that failed: the trace has no response
		c16WireIn{Ctx: []string{"cancelled"}, Tracer: true, Steps: []string{"w:0", "c:0:0", "j:0"}},
		c16WireIn{Ctx: []string{"live"}, Tracer: false, Steps: []string{"c:0:0", "w:0"}},
		// a context that was never prepared with withWireCapture
		c16WireIn{Ctx: []string{"bare"}, Tracer: true, Steps: []string{"w:0", "c:0:201", "w:0"}},
		c16WireIn{Ctx: []string{"bare", "live"}, Tracer: true, Steps: []string{"w:1", "c:0:201", "p:1", "w:0", "c:1:202", "j:1"}},
	)
	// two (thorough: also three) calls: the trace goes to the waiter of its own call
	two := []string{"w:0", "x:0", "c:0", "w:1", "x:1", "c:1"}
	if c.Thorough() {
		c16Arrangements(two, func(seq []string) {
			if len(seq) < 3 {
				return
			}
			emit([]string{gen.Pick(r, flavours), gen.Pick(r, flavours)}, r.Bool(), seq, r.Intn(len(seq)), false)
		})
	}
	nRand := 160
	if c.Thorough() {
		nRand = 1500
	}
	for i := 0; i < nRand; i++ {
		calls := 2
		syms := two
		if r.Chance(1, 4) {
			calls = 3
			syms = append(append([]string{}, two...), "w:2", "x:2", "c:2")
		}
		perm := append([]string{}, syms...)
		for k := len(perm) - 1; k > 0; k-- {
			j := r.Intn(k + 1)
			perm[k], perm[j] = perm[j], perm[k]
		}
		seq := perm[:r.Range(3, len(perm))]
		ctx := make([]string, calls)
		for k := range ctx {
			ctx[k] = gen.Pick(r, flavours)
			if r.Chance(1, 12) {
				ctx[k] = "bare"
			}
		}
		emit(ctx, r.Bool(), seq, r.Intn(len(seq)), r.Chance(1, 10))
	}
	// ---- the same hand-off through the real client-side glue (newWireCaptureTransport ->
	// TracingRoundTripper -> wireTracer): completion by reading the response to its end, or by
	// the middleware's goroutine when the call's context is cancelled
	nrt := 0
	emitRT := func(ctx []string, tr bool, seq []string, peekAt int) {
		steps := c16WireAnnotateRT(seq, ctx, peekAt)
		key := fmt.Sprint("rt", ctx, steps)
		if seen[key] {
			return
		}
		seen[key] = true
		nrt++
		ins = append(ins, c16WireIn{Via: "rt", Ctx: ctx, Tracer: tr, Steps: steps})
	}
	for fi, fl := range []string{"live", "fail", "bare"} {
		c16Arrangements([]string{"w:0", "x:0", "c:0"}, func(seq []string) {
			emitRT([]string{fl}, (nrt+fi)%2 == 0, seq, -1)
			emitRT([]string{fl}, (nrt+fi)%2 == 0, seq, r.Intn(len(seq)))
		})
	}
	nRandRT := 60
	if c.Thorough() {
		nRandRT = 1200
	}
	for i := 0; i < nRandRT; i++ {
		perm := append([]string{}, two...)
		for k := len(perm) - 1; k > 0; k-- {
			j := r.Intn(k + 1)
			perm[k], perm[j] = perm[j], perm[k]
		}
		seq := perm[:r.Range(3, len(perm))]
		ctx := []string{gen.Pick(r, []string{"live", "live", "live", "fail", "bare"}), gen.Pick(r, []string{"live", "live", "fail"})}
		emitRT(ctx, r.Bool(), seq, r.Intn(len(seq)))
	}
	c.E.Add("wire:scripts-through-the-real-round-tripper", nrt)
	c.E.Add("wire:scripts", len(ins))
	c.DoParallel("wire", ins, 16)
}

// ---- "final": handlers with trailers through the real TracingHandler

func c16FinalGen(c *gen.Ctx) {
	r := c.R
	type act = tracer.VerifC16HAct
	var ins []any
	emit := func(acts []act, waiter string, gate bool) {
		ins = append(ins, tracer.VerifC16HandoffIn{Acts: acts, Waiter: waiter, Gate: gate})
	}
	grpcish := func(declared []string, prefixed bool, explicitWH bool, body bool) []act {
		a := []act{{K: "set", Key: "Content-Type", Val: "application/grpc"}}
		if len(declared) > 0 {
			a = append(a, act{K: "declare", Names: declared})
		}
		if explicitWH {
			a = append(a, act{K: "wh", Status: 200})
		}
		if body {
			a = append(a, act{K: "w", Ok: true})
		}
		for i, d := range declared {
			a = append(a, act{K: "set", Key: d, Val: fmt.Sprint(i)})
		}
		if prefixed {
			a = append(a, act{K: "set", Key: "Trailer:Grpc-Message", Val: "fine"})
		}
		return a
	}
	// fixed families: declared trailers, TrailerPrefix trailers, both, none — seen by every kind of consumer
	for _, waiter := range []string{"none", "blocked", "late"} {
		for _, gate := range []bool{false, true} {
			if gate && waiter != "blocked" {
				continue
			}
			for _, decl := range [][]string{nil, {"Grpc-Status"}, {"Grpc-Status", "X-T"}} {
				for _, pre := range []bool{false, true} {
					for _, wh := range []bool{false, true} {
						emit(grpcish(decl, pre, wh, true), waiter, gate)
					}
				}
			}
			emit(grpcish([]string{"Grpc-Status"}, true, false, false), waiter, gate) // trailers only, nothing written
			// a trailer that is declared AND sent with the prefix; declared but never set; set before the header goes out
			emit([]act{{K: "declare", Names: []string{"X-T"}}, {K: "w", Ok: true}, {K: "set", Key: "X-T", Val: "a"}, {K: "add", Key: "Trailer:X-T", Val: "b"}}, waiter, gate)
			emit([]act{{K: "declare", Names: []string{"X-T", "X-U"}}, {K: "w", Ok: true}, {K: "set", Key: "X-U", Val: "u"}}, waiter, gate)
			emit([]act{{K: "set", Key: "Trailer:X-Early", Val: "e"}, {K: "declare", Names: []string{"X-T"}}, {K: "set", Key: "X-T", Val: "0"}, {K: "wh", Status: 404}, {K: "set", Key: "X-T", Val: "1"}}, waiter, gate)
			// the write fails: the operation ends there; what the handler sets afterwards is not part of it
			emit([]act{{K: "declare", Names: []string{"X-T"}}, {K: "set", Key: "X-T", Val: "0"}, {K: "w", Ok: false}, {K: "set", Key: "X-T", Val: "1"}, {K: "set", Key: "Trailer:X-L", Val: "l"}}, waiter, gate)
			// the handler panics after setting its trailers
			emit([]act{{K: "declare", Names: []string{"X-T"}}, {K: "w", Ok: true}, {K: "set", Key: "X-T", Val: "0"}, {K: "panic"}}, waiter, gate)
		}
	}
	// the operation is ended early — by the request side or by the client going away — before
	// the response starts, after it started, with and without trailers set afterwards
	// (finding F28, repaired in cdc69f7: the trailers set afterwards must not reach the trace)
	for _, waiter := range []string{"none", "late", "blocked", "gated"} {
		gate := waiter == "gated"
		if gate {
			waiter = "blocked"
		}
		for _, end := range []string{"readErr", "closeReq", "cancel"} {
			emit([]act{{K: end}, {K: "declare", Names: []string{"X-T"}}, {K: "w", Ok: true}, {K: "set", Key: "X-T", Val: "1"}}, waiter, gate)
			emit([]act{{K: "set", Key: "X-Plain", Val: "p"}, {K: "wh", Status: 200}, {K: end}, {K: "w", Ok: true}}, waiter, gate)
			emit([]act{{K: "declare", Names: []string{"X-T"}}, {K: "wh", Status: 200}, {K: end}}, waiter, gate)
			emit([]act{{K: "readEof"}, {K: "w", Ok: true}, {K: end}, {K: "set", Key: "X-Plain", Val: "late"}}, waiter, gate)
			emit([]act{{K: "declare", Names: []string{"X-T"}}, {K: "w", Ok: true}, {K: end}, {K: "set", Key: "X-T", Val: "1"}}, waiter, gate)
			emit([]act{{K: "w", Ok: true}, {K: end}, {K: "set", Key: "Trailer:X-P", Val: "1"}}, waiter, gate)
		}
	}
	// random handler scripts
	keys := []string{"X-T", "X-U", "Grpc-Status", "Trailer:X-T", "Trailer:X-P", "Trailer:Grpc-Message", "X-Plain", "Content-Type"}
	names := []string{"X-T", "X-U", "Grpc-Status", "X-Never"}
	nRand := 500
	if c.Thorough() {
		nRand = 8000
	}
	for i := 0; i < nRand; i++ {
		var acts []act
		early := r.Chance(1, 4) // the request side or the client ends the operation early
		for k := r.Range(2, 9); k > 0; k-- {
			switch x := r.Intn(20); {
			case x < 7:
				acts = append(acts, act{K: gen.Pick(r, []string{"set", "set", "add"}), Key: gen.Pick(r, keys), Val: fmt.Sprint("v", r.Intn(3))})
			case x < 10:
				nn := r.Range(1, 2)
				var ns []string
				for j := 0; j < nn; j++ {
					ns = append(ns, gen.Pick(r, names))
				}
				acts = append(acts, act{K: gen.Pick(r, []string{"declare", "declare", "declareAdd"}), Names: ns})
			case x < 12:
				acts = append(acts, act{K: "wh", Status: gen.Pick(r, []int{200, 200, 404, 500})})
			case x < 16:
				acts = append(acts, act{K: "w", Ok: !r.Chance(1, 7)})
			case x < 17:
				acts = append(acts, act{K: "flush"})
			case x < 18:
				acts = append(acts, act{K: "readEof"})
			case x < 19:
				if early {
					acts = append(acts, act{K: gen.Pick(r, []string{"readErr", "closeReq", "cancel"})})
					early = r.Chance(1, 3)
				}
			default:
				if r.Chance(1, 4) {
					acts = append(acts, act{K: "panic"})
					k = 1
				}
			}
		}
		waiter := gen.Pick(r, []string{"none", "blocked", "blocked", "late"})
		emit(acts, waiter, waiter == "blocked" && r.Bool())
	}
	c.E.Add("final:scripts", len(ins))
	c.DoParallel("final", ins, 8)
}
