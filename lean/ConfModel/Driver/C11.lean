import ConfModel.Driver.Common
namespace ConfModel.Driver.C11
open Lean ConfModel.Driver

def handle : Handler := fun op _inp _impl => bad ("C11: unknown op " ++ op)

end ConfModel.Driver.C11
