/-
C09 — Length-prefixed message framing survives any chunking and detects truncation.
Property theorems only; helper lemmas live in `ConfModel.Lemmas.Delimited`.

Every statement is for every message list, every list of per-call caps (zero caps = empty
reads included) and - where it says so - every ending of the stream; no bound on sizes.
`readAll max k` is the loop "call `readDelimitedMessageRaw` until it fails" of the runners,
`decodeAll` the same loop over `protoDecoder.DecodeNext`.
-/
import ConfModel.Lemmas.Delimited
import ConfModel.Generated.C09Facts
import ConfModel.Lemmas.SyncPipe
import ConfModel.Lemmas.PeerLoop
namespace ConfModel.Props.C09
open ConfModel.Delimited ConfModel.Framing

/-- `read(n)` returns exactly the next `n` bytes and leaves the rest, however the bytes are
split over `Read` calls. -/
theorem readN_chunk_independent (n : Nat) (d : Bytes) (caps : List Nat) (e : Ending)
    (h : n ≤ d.length) :
    ∃ caps', readN n ⟨d, caps, e⟩ = .ok (d.take n) ⟨d.drop n, caps', e⟩ :=
  readN_enough n d caps e h

example : readN 3 ⟨[1, 2, 3, 4, 5], [1, 0, 1, 7], .stall⟩ = .ok [1, 2, 3] ⟨[4, 5], [], .stall⟩ := by
  decide

/-- the same for `io.ReadFull`, which the stream decoder uses -/
theorem readFull_chunk_independent (n : Nat) (d : Bytes) (caps : List Nat) (e : Ending)
    (h : n ≤ d.length) :
    ∃ caps', readFull n ⟨d, caps, e⟩ = .ok (d.take n) ⟨d.drop n, caps', e⟩ := by
  rw [readFull_eq]; exact readN_enough n d caps e h

/-- Too few bytes: the outcome is fixed by the ending, and all bytes that came count as progress. -/
theorem readN_short_chunk_independent (n : Nat) (d : Bytes) (caps : List Nat) (e : Ending)
    (h : d.length < n) :
    ∃ caps', readN n ⟨d, caps, e⟩ = short e d.length ⟨[], caps', e⟩ :=
  readN_short n d caps e h

/-- The reading loop reports exactly what the declarative cut of the byte string says -
for every cap list, every ending, every byte string (well-formed or not). -/
theorem readAll_eq_expected (max count : Nat) (d : Bytes) (caps : List Nat) (e : Ending) :
    (readAll max count ⟨d, caps, e⟩).results = expected max count d e := by
  obtain ⟨_, h, _⟩ := readAll_spec max e count d caps
  exact h

/-- ... hence two ways of chunking the same bytes give the same results. -/
theorem readAll_chunk_independent (max count : Nat) (d : Bytes) (caps₁ caps₂ : List Nat) (e : Ending) :
    (readAll max count ⟨d, caps₁, e⟩).results = (readAll max count ⟨d, caps₂, e⟩).results := by
  rw [readAll_eq_expected, readAll_eq_expected]

/-- The stream decoder is the same reader with no effective limit. -/
theorem decodeAll_eq_expected (count : Nat) (d : Bytes) (caps : List Nat) (e : Ending) :
    (decodeAll count ⟨d, caps, e⟩).results = expected 4294967295 count d e := by
  rw [decodeAll_eq]; exact readAll_eq_expected _ _ _ _ _

/-- **Round trip**: messages written with `writeDelimitedMessageRaw` are read back as exactly
the same sequence, followed by a clean end of input, for every chunking. -/
theorem roundtrip (max : Nat) (msgs : List Bytes) (caps : List Nat) (e : Ending)
    (he : Closes e) (hf : Fits max msgs) :
    (readAll max (msgs.length + 1) ⟨msgs.flatMap encode, caps, e⟩).results
      = msgs.map Res.msg ++ [Res.eof] := by
  have h := expected_msgs max msgs [] e hf
  rw [List.append_nil] at h
  rw [readAll_eq_expected, h, frames_nil]
  rcases he with he | he <;> subst he <;> rfl

example : Fits 5 [[1, 2], [], [7]] ∧ Closes .eofWithLastData :=
  ⟨by intro m hm; simp at hm; rcases hm with h | h | h <;> subst h <;> decide, Or.inr rfl⟩

example : (readAll 5 4 ⟨[[1, 2], [], [7]].flatMap encode, [3, 1, 1, 9, 2], .eofWithLastData⟩).results
    = [.msg [1, 2], .msg [], .msg [7], .eof] := by decide

/-- the same through the stream decoder (`DecodeNext`); only the 32-bit prefix bounds sizes -/
theorem roundtrip_decoder (msgs : List Bytes) (caps : List Nat) (e : Ending)
    (he : Closes e) (hf : ∀ m ∈ msgs, m.length < 4294967296) :
    (decodeAll (msgs.length + 1) ⟨msgs.flatMap encode, caps, e⟩).results
      = msgs.map Res.msg ++ [Res.eof] := by
  rw [decodeAll_eq]
  exact roundtrip _ msgs caps e he (fun m hm => ⟨by have := hf m hm; omega, hf m hm⟩)

/-- **Writes are all or nothing.**  A write that fails (the message cannot be encoded) appends
nothing to the stream … -/
theorem failed_write_appends_nothing (s : Bytes) : writeStep s none = s := rfl

/-- … so after ANY history of successful and failed writes the stream is the encoding of the
successful ones and reads back as exactly those, followed by a clean end — for every chunking. -/
theorem history_roundtrip (max : Nat) (h : List (Option Bytes)) (caps : List Nat) (e : Ending)
    (he : Closes e) (hf : Fits max (h.filterMap id)) :
    (readAll max ((h.filterMap id).length + 1) ⟨writeHistory h, caps, e⟩).results
      = (h.filterMap id).map Res.msg ++ [Res.eof] := by
  rw [writeHistory_eq]
  exact roundtrip max (h.filterMap id) caps e he hf

example : writeHistory [some [1, 2], none, some [], none, none, some [7]] = [[1, 2], [], [7]].flatMap encode ∧
    Fits 5 ([some [1, 2], none, some [], none, none, some [7]].filterMap id) :=
  ⟨by decide, by intro m hm; simp at hm; rcases hm with h | h | h <;> subst h <;> decide⟩

/-- **Clean end**: a stream cut exactly between two messages yields the messages before the
cut and then end of input. -/
theorem clean_end (max : Nat) (msgs : List Bytes) (j : Nat) (caps : List Nat) (e : Ending)
    (he : Closes e) (hf : Fits max msgs) :
    (readAll max (j + 1) ⟨(msgs.take j).flatMap encode, caps, e⟩).results
      = (msgs.take j).map Res.msg ++ [Res.eof] := by
  have hf' : Fits max (msgs.take j) := fun m hm => hf m (List.mem_of_mem_take hm)
  have := roundtrip max (msgs.take j) caps e he hf'
  by_cases hj : j ≤ msgs.length
  · rwa [List.length_take, Nat.min_eq_left hj] at this
  · have hall : msgs.take j = msgs := List.take_of_length_le (by omega)
    rw [hall] at this ⊢
    -- more messages asked for than there are: same answer
    have h := expected_msgs max msgs [] e hf
    rw [List.append_nil] at h
    have hk : j + 1 = msgs.length + (j + 1 - msgs.length) := by omega
    rw [readAll_eq_expected]
    unfold expected
    have hfr := frames_msgs max msgs (j + 1 - msgs.length) [] hf
    rw [List.append_nil] at hfr
    rw [hk, hfr]
    have : j + 1 - msgs.length = (j - msgs.length) + 1 := by omega
    rw [this, frames_nil]
    rcases he with he | he <;> subst he <;> simp [tailRes, endRes]

/-- **Truncation**: a stream that ends strictly inside a length prefix or a message body
(any offset `0 < k < 4 + |m|` into the frame of `m`) yields the complete messages before it
and then *unexpected EOF* - never a clean end, never a shorter message - also when the last
bytes arrive together with EOF. -/
theorem truncated_unexpected (max : Nat) (msgs : List Bytes) (m : Bytes) (k : Nat)
    (caps : List Nat) (e : Ending) (he : Closes e) (hf : Fits max (msgs ++ [m]))
    (h0 : 0 < k) (hk : k < 4 + m.length) :
    (readAll max (msgs.length + 1) ⟨msgs.flatMap encode ++ (encode m).take k, caps, e⟩).results
      = msgs.map Res.msg ++ [Res.unexpectedEOF] := by
  have hfm : Fits max msgs := fun x hx => hf x (by simp [hx])
  have hm := hf m (by simp)
  rw [readAll_eq_expected, expected_msgs max msgs _ e hfm]
  by_cases h4 : k < 4
  · rw [frames_cut_prefix max 0 k m h0 h4]
    have : (k == 0) = false := by simp; omega
    rcases he with he | he <;> subst he <;> simp [tailRes, endRes, this]
  · rw [frames_cut_body max 0 k m hm.1 hm.2 (by omega) hk]
    rcases he with he | he <;> subst he <;> simp [tailRes, endRes]

example : (readAll 9 3 ⟨[[1, 2], [5, 6, 7]].flatMap encode |>.take 11, [2, 2, 2, 2, 2, 2], .eofWithLastData⟩).results
    = [.msg [1, 2], .unexpectedEOF] := by decide

/-- the same through the stream decoder -/
theorem truncated_unexpected_decoder (msgs : List Bytes) (m : Bytes) (k : Nat)
    (caps : List Nat) (e : Ending) (he : Closes e) (hf : ∀ x ∈ msgs ++ [m], x.length < 4294967296)
    (h0 : 0 < k) (hk : k < 4 + m.length) :
    (decodeAll (msgs.length + 1) ⟨msgs.flatMap encode ++ (encode m).take k, caps, e⟩).results
      = msgs.map Res.msg ++ [Res.unexpectedEOF] := by
  rw [decodeAll_eq]
  exact truncated_unexpected _ msgs m k caps e he
    (fun x hx => ⟨by have := hf x hx; omega, hf x hx⟩) h0 hk

/-- **Oversize**: a prefix above the limit is rejected as `tooLarge` after exactly its four
bytes have been taken from the stream (whatever follows, however the stream ends), ... -/
theorem oversize_rejected_early (max : Nat) (msgs : List Bytes) (n : Nat) (rest : Bytes)
    (caps : List Nat) (e : Ending) (hf : Fits max msgs) (hn : max < n) (h32 : n < 4294967296) :
    (readAll max (msgs.length + 1) ⟨msgs.flatMap encode ++ (putBe32 n ++ rest), caps, e⟩).results
        = msgs.map Res.msg ++ [Res.tooLarge n] ∧
    (readAll max (msgs.length + 1) ⟨msgs.flatMap encode ++ (putBe32 n ++ rest), caps, e⟩).rest.data
        = rest := by
  obtain ⟨caps', h1, h2⟩ := readAll_spec max e (msgs.length + 1)
    (msgs.flatMap encode ++ (putBe32 n ++ rest)) caps
  refine ⟨?_, ?_⟩
  · rw [h1, expected_msgs max msgs _ e hf, frames_oversize max 0 n rest hn h32]
    simp [tailRes]
  · rw [h2, consumed_msgs max msgs 1 _ hf, consumed_oversize max 0 n rest hn h32]
    simp only
    rw [← List.drop_drop, List.drop_left' rfl]
    exact List.drop_left' rfl

example : (readAll 3 2 ⟨putBe32 4 ++ [9, 9, 9, 9, 9], [1, 1, 1, 1, 1], .stall⟩).results = [.tooLarge 4] := by
  decide

/-- ... and no buffer larger than the limit is ever allocated (the 4-byte prefix buffer
aside), on any input. -/
theorem allocs_bounded (max count : Nat) (r : Reader) :
    ∀ a ∈ (readAll max count r).allocs, a = 4 ∨ a ≤ max :=
  readAll_allocs max count r

/-! ### the 32-bit length prefix and the limit of each call site -/

/-- **All 2^32 prefixes.**  The size the reader computes from the four prefix bytes — in
`uint32` arithmetic (shifts and ors), then converted to `int` — is their big-endian value: never
negative, below 2^32, for every one of the 2^32 prefixes. -/
theorem prefix_size_total (b0 b1 b2 b3 : UInt8) :
    msgSize [b0, b1, b2, b3] = Int.ofNat (be32 [b0, b1, b2, b3]) ∧
      0 ≤ msgSize [b0, b1, b2, b3] ∧ msgSize [b0, b1, b2, b3] < 4294967296 := by
  have h := msgSize_eq_be32 [b0, b1, b2, b3] rfl
  have hlt := be32_lt [b0, b1, b2, b3] rfl
  refine ⟨h, ?_, ?_⟩ <;> rw [h] <;> simp only [Int.ofNat_eq_natCast] <;> omega

/-- **Oversize, for every prefix.**  Whatever four bytes the stream starts with: if their value
is above the limit the reader reports `tooLarge` with that value, has taken exactly those four
bytes and has allocated nothing but the prefix buffer — whatever follows, however the bytes
are split over reads, however the stream ends.  (`oversize_rejected_early` below is the same after
any number of good messages.) -/
theorem oversize_prefix_rejected (max : Nat) (b0 b1 b2 b3 : UInt8) (rest : Bytes)
    (caps : List Nat) (e : Ending) (h : max < be32 [b0, b1, b2, b3]) :
    ∃ caps', readMessage max ⟨b0 :: b1 :: b2 :: b3 :: rest, caps, e⟩ =
      ⟨.tooLarge (be32 [b0, b1, b2, b3]), ⟨rest, caps', e⟩, [4]⟩ :=
  readMessage_tooLarge max (b0 :: b1 :: b2 :: b3 :: rest) caps e (by simp) h

/-- **Top bit set.**  A stream whose first byte is ≥ 0x80 (a UTF-8 byte-order mark, non-ASCII
text, UTF-16, binary) announces at least 2^31 bytes: with any limit below 2^31 it is rejected as
too large, like every other oversize prefix — the size is not negative and nothing is allocated. -/
theorem highbit_prefix_rejected (max : Nat) (hmax : max < 2147483648) (b0 b1 b2 b3 : UInt8)
    (hb : 128 ≤ b0.toNat) (rest : Bytes) (caps : List Nat) (e : Ending) :
    ∃ caps', readMessage max ⟨b0 :: b1 :: b2 :: b3 :: rest, caps, e⟩ =
      ⟨.tooLarge (be32 [b0, b1, b2, b3]), ⟨rest, caps', e⟩, [4]⟩ := by
  apply oversize_prefix_rejected
  simp only [be32, List.foldl_cons, List.foldl_nil]
  omega

/-- hypotheses of `oversize_prefix_rejected` / `highbit_prefix_rejected`: a UTF-8 byte-order mark -/
example : (1048576 : Nat) < be32 [0xef, 0xbb, 0xbf, 0x4c] ∧ 128 ≤ (0xef : UInt8).toNat ∧
    (1048576 : Nat) < 2147483648 := by decide

example : (readMessage 1048576 ⟨[0xef, 0xbb, 0xbf, 0x4c, 0x69], [1, 1, 1, 1], .eofSeparate⟩).res
    = .tooLarge 4022058828 := by decide

/-- the 32-bit arithmetic on the last prefix of the range and on the sign boundary -/
example : msgSize [0xff, 0xff, 0xff, 0xff] = 4294967295 ∧ msgSize [0x80, 0, 0, 0] = 2147483648 ∧
    msgSize [0x7f, 0xff, 0xff, 0xff] = 2147483647 := by decide

/-- **The limits in the source are the documented ones.**  The runner calls
`ReadDelimitedMessage` in exactly two places; the limit it passes where it reads the server's
response is 1 MB and where it reads the client's responses 16 MB — the model's `Site.limit`
(`Generated/C09Facts.lean` is extracted from the tree on every run: the argument expression of each
call, evaluated, and the two constants as compiled). -/
theorem site_limits_from_source :
    Generated.C09Facts.serverRunnerLimits = [Site.limit .server] ∧
    Generated.C09Facts.clientRunnerLimits = [Site.limit .client] ∧
    Generated.C09Facts.otherCallSites = 0 ∧
    Generated.C09Facts.maxServerResponseSize = Site.limit .server ∧
    Generated.C09Facts.maxClientResponseSize = Site.limit .client := by decide

/-- **The time-out periods in the source are the named constants of the sites.**  The time-out
argument of each of the two calls is literally `serverResponseTimeout` / `clientResponseTimeout`
(not an expression evaluated when a read begins), and their values are 10 s and 20 s. -/
theorem site_timeouts_from_source :
    Generated.C09Facts.serverRunnerTimeouts = ["serverResponseTimeout"] ∧
    Generated.C09Facts.clientRunnerTimeouts = ["clientResponseTimeout"] ∧
    Generated.C09Facts.serverResponseTimeoutMs = Site.timeoutMs .server ∧
    Generated.C09Facts.clientResponseTimeoutMs = Site.timeoutMs .client := by decide

/-- **Oversize at each call site**: `oversize_rejected_early` with the limit of the site — a
server (client) that announces more than 1 MB (16 MB) after any number of good messages is
reported as too large after exactly the four prefix bytes, and no buffer above the site's limit
is allocated on the way. -/
theorem oversize_rejected_early_at_site (s : Site) (msgs : List Bytes) (n : Nat) (rest : Bytes)
    (caps : List Nat) (e : Ending) (hf : Fits s.limit msgs) (hn : s.limit < n) (h32 : n < 4294967296) :
    (readAllWith (readAt s) (msgs.length + 1) ⟨msgs.flatMap encode ++ (putBe32 n ++ rest), caps, e⟩).results
        = msgs.map Res.msg ++ [Res.tooLarge n] ∧
    (readAllWith (readAt s) (msgs.length + 1) ⟨msgs.flatMap encode ++ (putBe32 n ++ rest), caps, e⟩).rest.data
        = rest ∧
    ∀ a ∈ (readAllWith (readAt s) (msgs.length + 1) ⟨msgs.flatMap encode ++ (putBe32 n ++ rest), caps, e⟩).allocs,
      a = 4 ∨ a ≤ s.limit := by
  have h := oversize_rejected_early s.limit msgs n rest caps e hf hn h32
  exact ⟨h.1, h.2, allocs_bounded s.limit _ _⟩

example : Fits (Site.limit .server) [[1, 2], []] ∧ Site.limit .server < 1048577 :=
  ⟨by intro m hm; simp at hm; rcases hm with h | h <;> subst h <;> decide, by decide⟩

/-- **Between the two limits** (1 MB < n ≤ 16 MB) the sites differ: where the server's response
is read the prefix is rejected with only the prefix buffer allocated; where the client's responses
are read the same prefix is accepted (n bytes are asked for and, if they come, they are the message). -/
theorem between_the_limits (n : Nat) (h1 : 1048576 < n) (h2 : n ≤ 16777216) (rest : Bytes)
    (caps : List Nat) (e : Ending) :
    (∃ caps', readAt .server ⟨putBe32 n ++ rest, caps, e⟩ = ⟨.tooLarge n, ⟨rest, caps', e⟩, [4]⟩) ∧
    (readAt .client ⟨putBe32 n ++ rest, caps, e⟩).allocs = [4, n] ∧
    (n ≤ rest.length → (readAt .client ⟨putBe32 n ++ rest, caps, e⟩).res = .msg (rest.take n)) := by
  have h32 : n < 4294967296 := by omega
  have hl : 4 ≤ (putBe32 n ++ rest).length := by simp [putBe32]
  have ht : (putBe32 n ++ rest).take 4 = putBe32 n := by simp [putBe32]
  have hd : (putBe32 n ++ rest).drop 4 = rest := by simp [putBe32]
  have hv : be32 ((putBe32 n ++ rest).take 4) = n := by rw [ht, be32_putBe32 n h32]
  refine ⟨?_, ?_, ?_⟩
  · obtain ⟨caps', h⟩ := readMessage_tooLarge (Site.limit .server) (putBe32 n ++ rest) caps e hl
      (by rw [hv]; exact h1)
    exact ⟨caps', by rw [hv, hd] at h; exact h⟩
  · by_cases hs : n ≤ rest.length
    · obtain ⟨caps', h⟩ := readMessage_msg (Site.limit .client) (putBe32 n ++ rest) caps e hl
        (by rw [hv]; exact h2) (by rw [hv]; simp [putBe32]; omega)
      unfold readAt; rw [h, hv]
    · obtain ⟨caps', h⟩ := readMessage_body_short (Site.limit .client) (putBe32 n ++ rest) caps e hl
        (by rw [hv]; exact h2) (by rw [hv]; simp [putBe32]; omega)
      unfold readAt; rw [h, hv]
  · intro hs
    obtain ⟨caps', h⟩ := readMessage_msg (Site.limit .client) (putBe32 n ++ rest) caps e hl
      (by rw [hv]; exact h2) (by rw [hv]; simp [putBe32]; omega)
    unfold readAt; rw [h, hv, hd]

example : (1048576 : Nat) < 1048577 ∧ (1048577 : Nat) ≤ 16777216 := by decide

example : (readAt .server ⟨putBe32 2097152 ++ [0, 0], [], .eofSeparate⟩).res = .tooLarge 2097152 ∧
    (readAt .client ⟨putBe32 2097152 ++ [0, 0], [], .eofSeparate⟩).res = .unexpectedEOF := by decide


/-! ### over a pipe with write boundaries: what comes out, and when

`makeProcess` puts a synchronous `io.Pipe` between the runner and every peer.  `SyncPipe.readAll`
is the reading loop over such a pipe (`Model/SyncPipe.lean`): the peer's writes are a list of chunks
(empty ones included), `mets` records for every result how many of the peer's writes the reader had
met when it returned it.  `guard = true` is `read(n)` as repaired in 715ef44 (no `Read` for `n = 0`),
`emptyBlocks = true` a pipe on which an empty `Read` waits for the peer's next write (`io.Pipe`). -/

/-- **pipe_delivery.**  For every message sequence and every way the peer cuts its byte stream
into writes (any number of writes, empty ones too), whether the pipe blocks on empty reads or not
— the repaired reader — and for the reader before the repair on pipes that answer empty reads
at once: exactly the messages come out, in order; message i is returned when the reader has met
`needed writes (end of frame i)` writes, i.e. as soon as its last byte has been written and
without needing any later write; then a closed pipe gives end of input and a silent one the
time-out with "nothing received" (`timeout false 0 4`). -/
theorem pipe_delivery (guard emptyBlocks : Bool) (h : guard = true ∨ emptyBlocks = false) (max : Nat)
    (msgs : List Bytes) (writes : List Bytes) (e : SyncPipe.End)
    (hw : writes.flatten = msgs.flatMap encode) (hf : Fits max msgs) :
    (SyncPipe.readAll guard max (msgs.length + 1) (SyncPipe.Pipe.fresh writes e emptyBlocks)).results
      = msgs.map Res.msg ++ [SyncPipe.endRes e] ∧
    (SyncPipe.readAll guard max (msgs.length + 1) (SyncPipe.Pipe.fresh writes e emptyBlocks)).mets.take msgs.length
      = (SyncPipe.frameEnds 0 msgs).map (SyncPipe.needed writes) := by
  obtain ⟨h1, h2⟩ := SyncPipe.readAll_msgs guard max msgs (SyncPipe.Pipe.fresh writes e emptyBlocks) h
    (by simpa [SyncPipe.Pipe.data, SyncPipe.Pipe.fresh] using hw) hf
  refine ⟨h1, ?_⟩
  rw [h2]
  apply List.map_congr_left
  intro o _
  exact SyncPipe.adv_fresh_met writes e emptyBlocks o

/-- the repaired reader (the code as it is), on any pipe: no hypothesis left -/
theorem pipe_delivery_repaired (emptyBlocks : Bool) (max : Nat) (msgs : List Bytes) (writes : List Bytes)
    (e : SyncPipe.End) (hw : writes.flatten = msgs.flatMap encode) (hf : Fits max msgs) :
    (SyncPipe.readAll true max (msgs.length + 1) (SyncPipe.Pipe.fresh writes e emptyBlocks)).results
      = msgs.map Res.msg ++ [SyncPipe.endRes e] ∧
    (SyncPipe.readAll true max (msgs.length + 1) (SyncPipe.Pipe.fresh writes e emptyBlocks)).mets.take msgs.length
      = (SyncPipe.frameEnds 0 msgs).map (SyncPipe.needed writes) :=
  pipe_delivery true emptyBlocks (Or.inl rfl) max msgs writes e hw hf

/-- three messages, the middle one empty, written as prefix / body / prefix / prefix+body: the
empty message is returned after the third write, not the fourth -/
example : ([[0, 0, 0, 1], [7], [0, 0, 0, 0], [0, 0, 0, 2, 8, 9]] : List Bytes).flatten = [[7], [], [8, 9]].flatMap encode ∧
    (SyncPipe.readAll true 9 4 (SyncPipe.Pipe.fresh [[0, 0, 0, 1], [7], [0, 0, 0, 0], [0, 0, 0, 2, 8, 9]] .stall true)).results
      = [.msg [7], .msg [], .msg [8, 9], .timeout false 0 4] ∧
    (SyncPipe.readAll true 9 4 (SyncPipe.Pipe.fresh [[0, 0, 0, 1], [7], [0, 0, 0, 0], [0, 0, 0, 2, 8, 9]] .stall true)).mets
      = [2, 3, 4, 4] ∧
    (SyncPipe.frameEnds 0 [[7], [], [8, 9]]).map (SyncPipe.needed [[0, 0, 0, 1], [7], [0, 0, 0, 0], [0, 0, 0, 2, 8, 9]]) = [2, 3, 4] := by
  decide

/-- **F29 (finding, repaired in 715ef44): the reader before the repair on a synchronous pipe.**
Full statement that did NOT hold: `pipe_delivery` with `guard = false`, `emptyBlocks = true`.
What held is `pipe_delivery false false` (pipes that answer an empty read at once); on a synchronous
pipe a zero-length message was only returned together with the peer's next write or close, and if
the peer stayed silent the progress triple at the time-out was (true, 0, 0), which the time-out
branch takes for "the read is complete" and then waits for the reading goroutine without limit.
Witnesses (the negation of the full statement on concrete inputs): -/
theorem f29_unrepaired_witness :
    -- four zero bytes, then silence: neither the empty message nor a time-out error
    (SyncPipe.readAll false 8 2 (SyncPipe.Pipe.fresh [[0, 0, 0, 0]] .stall true)).results = [.timeout true 0 0] ∧
    timeoutReport true 0 0 = .complete ∧
    -- … where the repaired reader returns the message and then the time-out
    (SyncPipe.readAll true 8 2 (SyncPipe.Pipe.fresh [[0, 0, 0, 0]] .stall true)).results = [.msg [], .timeout false 0 4] ∧
    -- an empty message followed by another one: returned only when the second write is met
    (SyncPipe.readAll false 8 3 (SyncPipe.Pipe.fresh [[0, 0, 0, 0], [0, 0, 0, 1, 7]] .closed true)).mets.take 2 = [2, 2] ∧
    (SyncPipe.frameEnds 0 [[], [7]]).map (SyncPipe.needed [[0, 0, 0, 0], [0, 0, 0, 1, 7]]) = [1, 2] ∧
    -- on a pipe that answers empty reads at once the old reader was right
    (SyncPipe.readAll false 8 3 (SyncPipe.Pipe.fresh [[0, 0, 0, 0], [0, 0, 0, 1, 7]] .closed false)).mets.take 2 = [1, 2] := by
  decide

/-- **Progress at a stall**: when the peer stalls `k` bytes into the frame of `m`
(`0 ≤ k < 4 + |m|`; `k = 0`: between messages), the time-out carries exactly the bytes of
the current unit that were received: `(false, k, 4)` inside the prefix, `(true, k-4, |m|)`
inside the body. -/
theorem progress_exact (max : Nat) (msgs : List Bytes) (m : Bytes) (k : Nat)
    (caps : List Nat) (hf : Fits max (msgs ++ [m])) (hk : k < 4 + m.length) :
    (readAll max (msgs.length + 1) ⟨msgs.flatMap encode ++ (encode m).take k, caps, .stall⟩).results
      = msgs.map Res.msg ++
        [if k < 4 then Res.timeout false k 4 else Res.timeout true (k - 4) m.length] := by
  have hfm : Fits max msgs := fun x hx => hf x (by simp [hx])
  have hm := hf m (by simp)
  rw [readAll_eq_expected, expected_msgs max msgs _ _ hfm]
  by_cases h0 : k = 0
  · subst h0
    simp [frames_nil, tailRes, endRes]
  · by_cases h4 : k < 4
    · rw [frames_cut_prefix max 0 k m (by omega) h4]
      simp [tailRes, endRes, h4]
    · rw [frames_cut_body max 0 k m hm.1 hm.2 (by omega) hk]
      simp [tailRes, endRes, h4]

example : (readAll 9 2 ⟨(encode [5, 6, 7]).take 6, [1, 1, 1, 1, 1, 1], .stall⟩).results
    = [.timeout true 2 3] := by decide

/-- The time-out text: "read nothing at all" exactly when no byte of a prefix has come;
otherwise it names the unit and the two numbers of the progress triple. -/
theorem report_nothing_iff (prefixDone : Bool) (read expecting : Nat) :
    timeoutReport prefixDone read expecting = .nothing ↔ (prefixDone = false ∧ read = 0) := by
  unfold timeoutReport
  cases prefixDone
  · by_cases h : read = 0 <;> simp [h]
  · by_cases h : read = expecting <;> simp [h]

theorem report_partial (prefixDone : Bool) (read expecting : Nat) (h : read < expecting)
    (h' : prefixDone = true ∨ 0 < read) :
    timeoutReport prefixDone read expecting =
      .partialRead (if prefixDone then "message" else "length prefix") read expecting := by
  unfold timeoutReport
  cases prefixDone
  · have : read ≠ 0 := by
      rcases h' with h' | h'
      · cases h'
      · omega
    simp [this]
  · have : read ≠ expecting := by omega
    simp [this]

example : timeoutReport true 2 3 = .partialRead "message" 2 3 := by decide

/-- A failing stream (an error that is not EOF) surfaces as that failure after the complete
messages, never as a clean end. -/
theorem fail_propagates (max : Nat) (msgs : List Bytes) (m : Bytes) (k : Nat)
    (caps : List Nat) (hf : Fits max (msgs ++ [m])) (hk : k < 4 + m.length) :
    (readAll max (msgs.length + 1) ⟨msgs.flatMap encode ++ (encode m).take k, caps, .fail⟩).results
      = msgs.map Res.msg ++ [Res.fail] := by
  have hfm : Fits max msgs := fun x hx => hf x (by simp [hx])
  have hm := hf m (by simp)
  rw [readAll_eq_expected, expected_msgs max msgs _ _ hfm]
  by_cases h0 : k = 0
  · subst h0
    simp [frames_nil, tailRes, endRes]
  · by_cases h4 : k < 4
    · rw [frames_cut_prefix max 0 k m (by omega) h4]
      simp [tailRes, endRes]
    · rw [frames_cut_body max 0 k m hm.1 hm.2 (by omega) hk]
      simp [tailRes, endRes]


/-! ### The request loop of a peer over a decoder that reads ahead (Model/PeerLoop.lean)

`loopOne` is the loop of grpcclient.RunWithTrace / referenceclient.run: ONE decoder for all of
stdin; `loopFresh` is the servers' one-shot idiom `codec.NewDecoder(in).DecodeNext(req)` inside a
loop. With a decoder that reads ahead (the JSON variant: encoding/json.Decoder) they differ as soon
as one read delivers bytes beyond the end of a message. -/

open ConfModel.PeerLoop in
/-- ONE decoder, the whole stream delivered by a single read (a file, an OS pipe that was filled
before the peer read): every message comes out, then a clean end — for every message list. -/
theorem one_decoder_one_read (max : Nat) (msgs : List Bytes) (hf : Fits max msgs) :
    loopOne max (msgs.length + 1) [] [msgs.flatMap encode] = msgs.map Res.msg ++ [Res.eof] := by
  rw [loopOne_nil_cons, loopOne_buffered max msgs hf]

example : Fits 9 [[1, 2], [], [7]] := by
  intro m hm; simp at hm; rcases hm with h | h | h <;> subst h <;> decide

open ConfModel.PeerLoop in
/-- A FRESH decoder per message, one read delivering a message and ANYTHING after it (all later
messages, or the beginning of the next): the first message comes out, what was read ahead is lost
with the decoder, and the end of the stream looks clean — the later requests are dropped silently. -/
theorem fresh_decoder_drops_readahead (max : Nat) (m rest : Bytes) (k : Nat)
    (hm : m.length ≤ max) (h32 : m.length < 4294967296) :
    loopFresh max (k + 2) [encode m ++ rest] = [Res.msg m, Res.eof] := by
  have hn : next max [] [encode m ++ rest] = (.msg m, rest, []) := by
    rw [next_nil_cons]; exact next_split_some max _ [] m rest (split_encode max m rest hm h32)
  rw [loopFresh_msg max (k+1) _ m rest [] hn, loopFresh_end]

open ConfModel.PeerLoop in
/-- Hence the two loops are NOT equivalent: for every non-empty message list after a first message,
delivered in one read, the loop over one decoder returns them all and the loop with a fresh decoder
per message only the first. -/
theorem fresh_decoder_not_equivalent (max : Nat) (m m' : Bytes) (ms : List Bytes) (hf : Fits max (m :: m' :: ms)) :
    loopFresh max ((m :: m' :: ms).length + 1) [(m :: m' :: ms).flatMap encode]
      ≠ loopOne max ((m :: m' :: ms).length + 1) [] [(m :: m' :: ms).flatMap encode] := by
  have hm := hf m (by simp)
  rw [one_decoder_one_read max _ hf, List.flatMap_cons]
  have : (m :: m' :: ms).length + 1 = ms.length + 1 + 2 := by simp
  rw [this, fresh_decoder_drops_readahead max m _ _ hm.1 hm.2]
  simp

example : Fits 9 [[1, 2], [3]] := by
  intro m hm; simp at hm; rcases hm with h | h <;> subst h <;> decide

open ConfModel.PeerLoop in
/-- ... while with exactly one message per read (one Write per message over a synchronous pipe: what
the test runner does) the fresh decoders read the same as one decoder: the difference needs a
read that crosses a message boundary. -/
theorem fresh_decoder_one_read_per_message (max : Nat) : ∀ (msgs : List Bytes), Fits max msgs →
    loopFresh max (msgs.length + 1) (msgs.map encode) = msgs.map Res.msg ++ [Res.eof]
  | [], _ => by simp [loopFresh_end]
  | m :: ms, hf => by
    have hm := hf m (by simp)
    have hms : Fits max ms := fun x hx => hf x (by simp [hx])
    have hs : split max (encode m) = some (m, []) := by
      have := split_encode max m [] hm.1 hm.2
      rwa [List.append_nil] at this
    have hn : next max [] (encode m :: ms.map encode) = (.msg m, [], ms.map encode) := by
      rw [next_nil_cons]; exact next_split_some max _ _ m [] hs
    rw [List.map_cons, List.length_cons, loopFresh_msg max _ _ m [] _ hn,
      fresh_decoder_one_read_per_message max ms hms]
    simp

open ConfModel.PeerLoop in
/-- witnesses on concrete streams: a read that ends inside the second message — one decoder returns
both messages, fresh decoders parse the tail of the split message as the beginning of a message
(here: a truncated one); byte-by-byte reads — both agree. -/
theorem fresh_decoder_witness :
    loopOne 9 3 [] [[0, 0, 0, 1, 7, 0, 0], [0, 2, 8, 9]] = [.msg [7], .msg [8, 9], .eof] ∧
    loopFresh 9 3 [[0, 0, 0, 1, 7, 0, 0], [0, 2, 8, 9]] = [.msg [7], .unexpectedEOF] ∧
    loopFresh 9 3 [[0, 0, 0, 1, 7, 0, 0, 0, 2, 8, 9]] = [.msg [7], .eof] ∧
    loopFresh 9 3 ([0, 0, 0, 1, 7, 0, 0, 0, 2, 8, 9].map fun b => [b]) = [.msg [7], .msg [8, 9], .eof] := by
  decide

end ConfModel.Props.C09
