/-
Declarative side of C20: what "the same name denotes the same algorithm everywhere" means
over the tables extracted from the tree, and what a history of a pooled decompressor must
deliver.
-/
import ConfModel.Model.Compression
namespace ConfModel.CompressionSpec
open ConfModel.Compression

/-- the naming tables regenerated from the repository on every run
(`ConfModel/Generated/C20Facts.lean`); algorithms are identified *by behaviour* against the
third-party libraries used directly -/
structure Tables where
  /-- identifier ↦ value of the name constants in `internal/compression` -/
  nameConsts : List (String × String)
  /-- `compression.GetCompressor` on enum values 0..8 -/
  compressorOf : List (Nat × String)
  /-- `compression.GetDecompressor` on enum values 0..8 -/
  decompressorOf : List (Nat × String)
  /-- `checkCompression`: expected enum ↦ (accepted probe names, accepted when nothing is announced) -/
  checkOf : List (Nat × List String × Bool)
  /-- `tracer.GetDecompressor` on the probe names -/
  tracerOf : List (String × String)
  /-- reference server: `connect.WithCompression(name, dec, comp)` -/
  serverRegs : List (String × String × String)
  /-- reference client, `switch req.Compression`: enum ↦ (accept registrations, send names) -/
  clientRegs : List (Nat × List (String × String × String) × List String)

/-- names the tables are probed with: the six, the empty string, other letter case, and
names that must not be understood -/
def probeNames : List String :=
  ["", "identity", "gzip", "br", "zstd", "deflate", "snappy", "GZIP", "Br", "Identity", "ZSTD", "Deflate", "SNAPPY",
   "brotli", "zlib", "x-gzip", "compress", "lz4", "gzip ", " gzip", "zstandard"]

def enums : List Nat := List.range 9

def tracerLabel (n : String) : String :=
  match algOfName (asciiLower n) with
  | some a => a.label
  | none => "broken"

/-- connect-go registers gzip itself; identity needs no registration -/
def builtin : List String := ["identity", "gzip"]

/-- The same encoding name denotes the same algorithm in `compression.go` (runner and
raw-payload encoder), `tracer.GetDecompressor`, `checkCompression`, the server's and the
client's registrations; all six and only those six are mapped. -/
def consistent (t : Tables) : Bool :=
  -- enum ↦ algorithm, the same for compressor and decompressor; 7 and 8 unsupported
  t.compressorOf == enums.map (fun e => (e, labelOf (algOfEnum e))) &&
  t.decompressorOf == enums.map (fun e => (e, labelOf (algOfEnum e))) &&
  -- the name the reference server expects for an enum value (exactly one; identity also when absent)
  t.checkOf == enums.map (fun e => (e, (nameOfEnum e).toList, e == 1)) &&
  -- the wire tracer understands exactly the six names (any letter case, "" = identity)
  t.tracerOf == probeNames.map (fun n => (n, tracerLabel n)) &&
  -- the name constants are the six names
  (t.nameConsts.map (·.2)).all (fun n => (algOfName n).isSome && n != "") &&
  (List.range 7).tail.all (fun e => (nameOfEnum e).any (fun n => (t.nameConsts.map (·.2)).contains n)) &&
  -- server: every registration pairs a name with its own algorithm, both directions; together
  -- with the built-ins all six names are served
  t.serverRegs.all (fun r => r.2.1 == labelOf (algOfName r.1) && r.2.2 == labelOf (algOfName r.1)) &&
  (List.range 7).tail.all (fun e => (nameOfEnum e).any (fun n => builtin.contains n || (t.serverRegs.map (·.1)).contains n)) &&
  -- client: for enum e it registers and sends exactly e's name with e's algorithm
  t.clientRegs == (List.range 7).map (fun e =>
    let n := (nameOfEnum e).getD ""
    let a := labelOf (algOfEnum e)
    if e ≤ 1 then (e, [], []) else if e == 2 then (e, [], [n]) else (e, [(n, a, a)], [n]))

/-- what a history must deliver: every valid message comes back byte-exact, nothing panics.
`expected[i] = some b` for a step that carried a valid encoding of `b`. -/
def historyOk (expected : List (Option Bytes)) (outs : List Out) : Bool :=
  expected.length == outs.length &&
  (expected.zip outs).all (fun p => p.2 != .panic && (match p.1 with | some b => p.2 == .data b | none => true))

end ConfModel.CompressionSpec
