package main

// C13, free-form JSON inside a well-formed Connect error / end-stream message: the "debug"
// member of an error detail whose message has Struct / ListValue / Value content may hold ANY
// JSON, with any key strings. Duplicate detection is per object (a key repeated within ONE
// object); the key strings themselves never matter. The documents here use a key alphabet with
// '.', '[0]', ']', the empty key and - systematically - keys equal to the RENDERING of a
// sibling's nested path ({"a":{"b":v}} next to "a.b", {"a":[{"b":v}]} next to "a[0].b"), at
// every depth; all of them have distinct keys in every object and must draw no feedback.
// The same documents with a REAL duplicate in one object at some depth must be reported.
// Ops: cerr / cend (kinds "freeform" and "mut:json:duplicate-key").

import (
	"encoding/base64"
	"strings"

	"connectrpc.com/conformance/internal/verifharness/gen"
	"google.golang.org/protobuf/proto"
	"google.golang.org/protobuf/types/known/structpb"
)

// c13FNode: a JSON value whose objects keep their members in order (duplicates representable).
type c13FNode struct {
	t    byte // 'o' object, 'a' array, 's' string, 'n' number, 'b' true, 'z' null
	keys []string
	kids []*c13FNode
	s    string
}

func c13FObj(kv ...any) *c13FNode {
	n := &c13FNode{t: 'o'}
	for i := 0; i+1 < len(kv); i += 2 {
		n.keys = append(n.keys, kv[i].(string))
		n.kids = append(n.kids, kv[i+1].(*c13FNode))
	}
	return n
}
func c13FArr(xs ...*c13FNode) *c13FNode { return &c13FNode{t: 'a', kids: xs} }
func c13FStr(s string) *c13FNode        { return &c13FNode{t: 's', s: s} }
func c13FNum(s string) *c13FNode        { return &c13FNode{t: 'n', s: s} }

func (n *c13FNode) json(sb *strings.Builder) {
	switch n.t {
	case 'o':
		sb.WriteByte('{')
		for i, k := range n.keys {
			if i > 0 {
				sb.WriteByte(',')
			}
			sb.WriteString(c13Quote(k))
			sb.WriteByte(':')
			n.kids[i].json(sb)
		}
		sb.WriteByte('}')
	case 'a':
		sb.WriteByte('[')
		for i, k := range n.kids {
			if i > 0 {
				sb.WriteByte(',')
			}
			k.json(sb)
		}
		sb.WriteByte(']')
	case 's':
		sb.WriteString(c13Quote(n.s))
	case 'n':
		sb.WriteString(n.s)
	case 'b':
		sb.WriteString("true")
	default:
		sb.WriteString("null")
	}
}

// value: the google.protobuf.Value the document stands for (a later member replaces an earlier one).
func (n *c13FNode) value() *structpb.Value {
	switch n.t {
	case 'o':
		st := &structpb.Struct{Fields: map[string]*structpb.Value{}}
		for i, k := range n.keys {
			st.Fields[k] = n.kids[i].value()
		}
		return structpb.NewStructValue(st)
	case 'a':
		l := &structpb.ListValue{}
		for _, k := range n.kids {
			l.Values = append(l.Values, k.value())
		}
		return structpb.NewListValue(l)
	case 's':
		return structpb.NewStringValue(n.s)
	case 'n':
		var f float64
		switch n.s {
		case "1":
			f = 1
		case "2.5":
			f = 2.5
		case "-3":
			f = -3
		}
		return structpb.NewNumberValue(f)
	case 'b':
		return structpb.NewBoolValue(true)
	}
	return structpb.NewNullValue()
}

func (n *c13FNode) objects(out *[]*c13FNode) {
	if n.t == 'o' && len(n.keys) > 0 {
		*out = append(*out, n)
	}
	for _, k := range n.kids {
		k.objects(out)
	}
}

func (n *c13FNode) hasKey(k string) bool {
	for _, x := range n.keys {
		if x == k {
			return true
		}
	}
	return false
}

// c13FKeys: the key alphabet of free-form objects.
var c13FKeys = []string{"a", "b", "a.b", ".", "", "[0]", "]", "[", "a[0]", "a[0].b", "a.", ".b", "a]", "0", "a.b.c", "a[0][0].b",
	"debug", "value", "details[0]", "details[0].debug", "@type", "a b", "é.b", "A"}

// c13FDetail: the error detail carrying the free-form value `n` as its message, in one of four
// forms: google.protobuf.Struct (n an object), ListValue (n an array), Value, or a ListValue
// rendered in google.protobuf.Any form.
func c13FDetail(form int, n *c13FNode) string {
	var msg proto.Message
	var sb strings.Builder
	typ := "google.protobuf.Value"
	switch {
	case form == 0 && n.t == 'o':
		typ, msg = "google.protobuf.Struct", n.value().GetStructValue()
		n.json(&sb)
	case form == 1 && n.t == 'a':
		typ, msg = "google.protobuf.ListValue", n.value().GetListValue()
		n.json(&sb)
	case form == 3 && n.t == 'a':
		typ, msg = "google.protobuf.ListValue", n.value().GetListValue()
		sb.WriteString(`{"@type":"types.example.com/a.b/google.protobuf.ListValue","value":`)
		n.json(&sb)
		sb.WriteByte('}')
	default:
		msg = n.value()
		n.json(&sb)
	}
	value, err := proto.MarshalOptions{Deterministic: true}.Marshal(msg)
	if err != nil {
		panic(err)
	}
	return `{"type":"` + typ + `","value":"` + base64.RawStdEncoding.EncodeToString(value) + `","debug":` + sb.String() + `}`
}

// c13FWrap: `n` placed `depth` levels down, under objects and arrays in turn.
func c13FWrap(n *c13FNode, depth int, arrFirst bool) *c13FNode {
	for d := 0; d < depth; d++ {
		if (d%2 == 0) == arrFirst {
			n = c13FArr(c13FNum("1"), n)
		} else {
			n = c13FObj("w", n, "w.a", c13FStr("x"))
		}
	}
	return n
}

// c13FAddPathSiblings: for every member k of every object whose value is nested, add sibling
// keys equal to the renderings of the nested paths (k.b, k[0], k[0].b, k[0][0]) unless present.
func c13FAddPathSiblings(n *c13FNode) {
	for _, k := range n.kids {
		c13FAddPathSiblings(k)
	}
	if n.t != 'o' {
		return
	}
	var add []string
	for i, k := range n.keys {
		v := n.kids[i]
		switch v.t {
		case 'o':
			for _, b := range v.keys {
				add = append(add, k+"."+b)
			}
		case 'a':
			if len(v.kids) > 0 {
				add = append(add, k+"[0]")
				switch e := v.kids[0]; e.t {
				case 'o':
					for _, b := range e.keys {
						add = append(add, k+"[0]."+b)
					}
				case 'a':
					add = append(add, k+"[0][0]")
				}
			}
		}
	}
	for _, k := range add {
		if !n.hasKey(k) {
			n.keys = append(n.keys, k)
			n.kids = append(n.kids, c13FStr("flat"))
		}
	}
}

func c13FRand(r *gen.Rand, depth int) *c13FNode {
	switch k := r.Intn(10); {
	case depth > 0 && k < 4:
		n := &c13FNode{t: 'o'}
		for m := r.Intn(4); m > 0; m-- {
			key := gen.Pick(r, c13FKeys)
			if !n.hasKey(key) {
				n.keys = append(n.keys, key)
				n.kids = append(n.kids, c13FRand(r, depth-1))
			}
		}
		return n
	case depth > 0 && k < 6:
		n := &c13FNode{t: 'a'}
		for m := r.Intn(3); m > 0; m-- {
			n.kids = append(n.kids, c13FRand(r, depth-1))
		}
		return n
	case k < 7:
		return c13FStr(gen.Pick(r, c13FKeys))
	case k < 8:
		return c13FNum(gen.Pick(r, []string{"1", "2.5", "-3"}))
	case k < 9:
		return &c13FNode{t: 'b'}
	}
	return &c13FNode{t: 'z'}
}

func c13JSONFreeForm(c *gen.Ctx, nRand int) {
	r := c.R
	goodDetail := `{"type":"google.protobuf.Empty","value":""}`
	do := func(kind, detail string, second bool) {
		ds := detail
		if second {
			ds = goodDetail + "," + detail
		}
		errDoc := `{"code":"internal","message":"m","details":[` + ds + `]}`
		c.Do("cerr", c13JSONIn{JSON: c13Hx(errDoc), Kind: kind})
		c.Do("cend", c13JSONIn{JSON: c13Hx(`{"error":` + errDoc + `,"metadata":{"x-a.b":["1"],"x-a":["2"]}}`), Kind: kind})
		c.E.Count("kind:json-freeform-" + kind)
	}
	// the value as the detail's message in every form its top-level JSON type allows
	forms := func(kind string, n *c13FNode, salt int) {
		for form := 0; form < 4; form++ {
			top := n
			if form == 0 && n.t != 'o' {
				top = c13FObj("t", n, "t[0]", c13FStr("x"), "t.a", c13FStr("y"))
			}
			if (form == 1 || form == 3) && n.t != 'a' {
				top = c13FArr(n)
			}
			if form == 2 && n.t != 'a' && n.t != 'o' {
				top = c13FArr(c13FObj("a", n, "a[0]", c13FStr("x")), n)
			}
			do(kind, c13FDetail(form, top), (salt+form)%3 == 0)
		}
	}
	// (1) a nested member next to a sibling key from the whole alphabet (among them the rendering
	// of the nested path), in both orders, 0..3 levels down; (2) the same with a real duplicate
	nested := func(shape int) *c13FNode {
		switch shape {
		case 0:
			return c13FObj("b", c13FStr("nested"))
		case 1:
			return c13FArr(c13FObj("b", c13FStr("nested")))
		}
		return c13FArr(c13FArr(c13FObj("b", c13FNum("1"))))
	}
	salt := 0
	for shape := 0; shape < 3; shape++ {
		for depth := 0; depth <= 3; depth++ {
			for _, sib := range c13FKeys {
				if sib == "a" {
					continue
				}
				for order := 0; order < 2; order++ {
					o := c13FObj("a", nested(shape), sib, c13FStr("flat"))
					if order == 1 {
						o = c13FObj(sib, c13FStr("flat"), "a", nested(shape))
					}
					salt++
					if c.Thorough() || (salt+depth)%2 == 0 {
						forms("freeform", c13FWrap(o, depth, order == 1), salt)
					}
				}
			}
			// real duplicates: of the nested member's key, of the flat one's, inside the nested object
			for which := 0; which < 3; which++ {
				var o *c13FNode
				switch which {
				case 0:
					o = c13FObj("a", nested(shape), "a.b", c13FStr("flat"), "a", c13FStr("again"))
				case 1:
					o = c13FObj("a.b", c13FStr("flat"), "a", nested(shape), "a.b", c13FStr("flat"))
				default:
					in := c13FObj("b", c13FStr("nested"), "x.b", c13FNum("1"), "b", c13FStr("nested"))
					o = c13FObj("a", c13FArr(in), "a[0].b", c13FStr("flat"))
				}
				salt++
				forms("mut:json:duplicate-key", c13FWrap(o, depth, which == 1), salt)
			}
		}
	}
	// (3) random values over the alphabet, path siblings added everywhere; half of them with one
	// member of one object (at whatever depth) repeated
	for i := 0; i < nRand; i++ {
		n := c13FRand(r, 4)
		c13FAddPathSiblings(n)
		kind := "freeform"
		if r.Bool() {
			var objs []*c13FNode
			n.objects(&objs)
			if len(objs) > 0 {
				o := gen.Pick(r, objs)
				j := r.Intn(len(o.keys))
				o.keys = append(o.keys, o.keys[j])
				if r.Bool() {
					o.kids = append(o.kids, o.kids[j])
				} else {
					o.kids = append(o.kids, c13FStr("again"))
				}
				kind = "mut:json:duplicate-key"
			}
		}
		forms(kind, n, i)
	}
}
