/-
C20, second part: the raw-payload encoders (`internal/raw_http_body.go`, modelled in
`ConfModel.Model.RawBody`) instantiated with the compressors of `internal/compression`, the
parse of the envelopes they write, and the wire tracer's end-stream path
(`internal/tracer/reader.go`, `dataTracer.traceMessageLocked`) as a user of one
decompressor instance.
-/
import ConfModel.Model.Compression
import ConfModel.Model.RawBody
namespace ConfModel.Compression

/-- `compression.GetCompressor(enum)` followed by `Reset(w); Write(d); Close()`: the
compression parameter of the raw-body model. `ls a` is the library behind algorithm `a`. -/
def rawCompress (ls : Alg → Lib) : RawBody.Compress :=
  fun e d => (algOfEnum e).map (fun a => (ls a).enc d)

/-- big-endian value of the four length bytes of an envelope prefix -/
def be32val (a b c d : UInt8) : Nat := a.toNat * 16777216 + b.toNat * 65536 + c.toNat * 256 + d.toNat

/-- split a body into envelopes `(flags, payload)`; stops at the first incomplete one and
returns what is left -/
def splitFrames : Nat → Bytes → List (Nat × Bytes) × Bytes
  | 0, b => ([], b)
  | fuel + 1, f :: a :: b :: c :: d :: rest =>
    if rest.length < be32val a b c d then ([], f :: a :: b :: c :: d :: rest)
    else
      let r := splitFrames fuel (rest.drop (be32val a b c d))
      ((f.toNat, rest.take (be32val a b c d)) :: r.1, r.2)
  | _ + 1, b => ([], b)

/-! ## the wire tracer's use of a decompressor

`newReader` obtains one decompressor per body (`GetDecompressor(name)`); every completed
end-stream message with the compressed flag goes `Reset(endStream)`; if that worked
`ReadFrom(decompressor)`; any error reports nothing (content ""). The instance is neither
closed nor reset on an empty body in between. -/

def tracerDecode (l : Lib) (s : St) (src : Bytes) : St × Bytes :=
  let (s1, o) := step l s (.reset src)
  if o != .ok then (s1, []) else
  let (s2, r) := step l s1 .readAll
  (s2, match r with | .data b => b | _ => [])

/-- the contents reported for the compressed end-stream messages of one body, in order -/
def tracerRun (l : Lib) : St → List Bytes → List Bytes
  | _, [] => []
  | s, src :: t => (tracerDecode l s src).2 :: tracerRun l (tracerDecode l s src).1 t

/-- one message of a traced response body -/
structure TMsg where
  flags : Nat
  src : Bytes
deriving DecidableEq, Repr

/-- `tracePrefixLocked` / `traceMessageLocked`: the content captured for each message (`[]`:
no end-stream event). Only a non-empty response message with an end-stream flag (0x02
Connect, 0x80 gRPC-Web) is captured; it is decompressed only when the compressed flag is set. -/
def tracerBody (l : Lib) : St → List TMsg → List Bytes
  | _, [] => []
  | s, m :: t =>
    if m.src.isEmpty || (m.flags % 4 < 2 && m.flags % 256 < 128) then [] :: tracerBody l s t
    else if m.flags % 2 == 0 then m.src :: tracerBody l s t
    else (tracerDecode l s m.src).2 :: tracerBody l (tracerDecode l s m.src).1 t

end ConfModel.Compression
