/-
Concrete base64 as `connect.EncodeBinaryHeader` / `connect.DecodeBinaryHeader` use it
(encode: `base64.RawStdEncoding`, no padding; decode: padded or unpadded, non-strict about
trailing bits).  This is the instance of the `B64` parameter that the C18 driver runs; the
theorems of `Props/C18.lean` hold for every (lawful) `B64`; `connect_b64_lawful` there
(from `Lemmas/Base64.lean`) proves that this instance is lawful.
-/
namespace ConfModel.Base64

abbrev Bytes := List UInt8

/-- the character for a 6-bit value -/
def encChar (n : Nat) : UInt8 :=
  if n < 26 then UInt8.ofNat (n + 65)
  else if n < 52 then UInt8.ofNat (n - 26 + 97)
  else if n < 62 then UInt8.ofNat (n - 52 + 48)
  else if n = 62 then 43 else 47

def decChar (b : UInt8) : Option Nat :=
  let n := b.toNat
  if 65 ≤ n ∧ n ≤ 90 then some (n - 65)
  else if 97 ≤ n ∧ n ≤ 122 then some (n - 97 + 26)
  else if 48 ≤ n ∧ n ≤ 57 then some (n - 48 + 52)
  else if n = 43 then some 62
  else if n = 47 then some 63
  else none

/-- the sextets of a byte string (last group zero-padded) -/
def sextets : List Nat → List Nat
  | a :: b :: c :: t => a / 4 :: (a % 4 * 16 + b / 16) :: (b % 16 * 4 + c / 64) :: c % 64 :: sextets t
  | [a, b] => [a / 4, a % 4 * 16 + b / 16, b % 16 * 4]
  | [a] => [a / 4, a % 4 * 16]
  | [] => []

/-- `base64.RawStdEncoding.EncodeToString` -/
def encode (x : Bytes) : Bytes := (sextets (x.map (·.toNat))).map encChar

/-- bytes of a sextet string; a single left-over sextet is an error, left-over bits are dropped -/
def unsextets : List Nat → Option (List Nat)
  | w :: x :: y :: z :: t =>
    (unsextets t).map (fun r => (w * 4 + x / 16) :: (x % 16 * 16 + y / 4) :: (y % 4 * 64 + z) :: r)
  | [w, x, y] => some [w * 4 + x / 16, x % 16 * 16 + y / 4]
  | [w, x] => some [w * 4 + x / 16]
  | [_] => none
  | [] => some []

/-- `base64.URLEncoding.EncodeToString`: URL-safe alphabet, padded -/
def encodeURLPadded (x : Bytes) : Bytes :=
  let e := (encode x).map (fun c => if c == 43 then 45 else if c == 47 then 95 else c)
  e ++ (if e.length % 4 == 2 then [61, 61] else if e.length % 4 == 3 then [61] else [])

def mapM? {α β} (f : α → Option β) : List α → Option (List β)
  | [] => some []
  | a :: t => match f a, mapM? f t with
    | some b, some r => some (b :: r)
    | _, _ => none

def decodeRaw (v : Bytes) : Option Bytes :=
  match mapM? decChar v with
  | none => none
  | some sx => (unsextets sx).map (·.map UInt8.ofNat)

/-- remove up to two trailing `=` (argument reversed) -/
def dropPadRev : Bytes → Bytes
  | a :: b :: t => if a == 61 then (if b == 61 then t else b :: t) else a :: b :: t
  | [a] => if a == 61 then [] else [a]
  | [] => []

def stripPad (v : Bytes) : Bytes := (dropPadRev v.reverse).reverse

/-- `connect.DecodeBinaryHeader`: a length that is not a multiple of four cannot be padded
(`RawStdEncoding`), otherwise `StdEncoding` (padding where needed). -/
def decode (v : Bytes) : Option Bytes :=
  if v.length % 4 != 0 then decodeRaw v else decodeRaw (stripPad v)

/-- the URL-safe alphabet back to the standard one -/
def unswapURL (c : UInt8) : UInt8 := if c == 45 then 43 else if c == 95 then 47 else c

/-- the reading of a padded URL-safe base64 value (the Connect GET `message` parameter with
`base64=1`): padding removed, alphabet mapped back, decoded -/
def decodeURLPadded (v : Bytes) : Option Bytes := decodeRaw ((stripPad v).map unswapURL)

/-! ### the URL-safe alphabet (`base64.URLEncoding` / `base64.RawURLEncoding`), strict

The Connect GET `message` parameter: the reference client's raw request sender writes
`base64.URLEncoding` (padded), connect-go's own client `base64.RawURLEncoding` (unpadded);
connect-go's server reads either (`binaryQueryValueReader`).  Unlike `decodeURLPadded` above (the
specification's lenient reading) the decoders here are the library's: each alphabet REJECTS the
two characters of the other one, the raw variant rejects `=`, the padded variant demands a length
that is a multiple of four. -/

/-- the character for a 6-bit value in the URL-safe alphabet (`-` and `_` for 62 and 63) -/
def encCharURL (n : Nat) : UInt8 :=
  if n < 26 then UInt8.ofNat (n + 65)
  else if n < 52 then UInt8.ofNat (n - 26 + 97)
  else if n < 62 then UInt8.ofNat (n - 52 + 48)
  else if n = 62 then 45 else 95

def decCharURL (b : UInt8) : Option Nat :=
  let n := b.toNat
  if 65 ≤ n ∧ n ≤ 90 then some (n - 65)
  else if 97 ≤ n ∧ n ≤ 122 then some (n - 97 + 26)
  else if 48 ≤ n ∧ n ≤ 57 then some (n - 48 + 52)
  else if n = 45 then some 62
  else if n = 95 then some 63
  else none

/-- the `=` signs that complete the last quantum of an unpadded encoding of length `n` -/
def padding (n : Nat) : Bytes := if n % 4 == 2 then [61, 61] else if n % 4 == 3 then [61] else []

/-- `base64.RawURLEncoding.EncodeToString` (connect-go's `encodeBinaryQueryValue`) -/
def encodeURLRaw (x : Bytes) : Bytes := (sextets (x.map (·.toNat))).map encCharURL

/-- `base64.URLEncoding.EncodeToString` (raw_request.go, `param.Base64Encode`), with the URL
alphabet as a table of its own -/
def encodeURL (x : Bytes) : Bytes := encodeURLRaw x ++ padding (encodeURLRaw x).length

/-- `base64.StdEncoding.EncodeToString` -/
def encodeStdPadded (x : Bytes) : Bytes := encode x ++ padding (encode x).length

/-- unpadded decoding with a given alphabet: every character must be in the alphabet (so `=`
and the other alphabet's two characters are errors), one left-over sextet is an error -/
def decodeRawWith (dec : UInt8 → Option Nat) (v : Bytes) : Option Bytes :=
  match mapM? dec v with
  | none => none
  | some sx => (unsextets sx).map (·.map UInt8.ofNat)

/-- `base64.RawURLEncoding` decoding -/
def decodeURLRaw (v : Bytes) : Option Bytes := decodeRawWith decCharURL v

/-- padded decoding with a given alphabet (`base64.URLEncoding` / `StdEncoding`): the length is
a multiple of four, at most two `=` at the very end -/
def decodePaddedWith (dec : UInt8 → Option Nat) (v : Bytes) : Option Bytes :=
  if v.length % 4 != 0 then none else decodeRawWith dec (stripPad v)

/-- connect-go `binaryQueryValueReader`: a length that is not a multiple of four cannot be padded
(`RawURLEncoding`), otherwise `URLEncoding` -/
def binaryQueryRead (v : Bytes) : Option Bytes :=
  if v.length % 4 != 0 then decodeURLRaw v else decodePaddedWith decCharURL v

/-- the same reader over the standard alphabet (counter-model: what a server would do that read
the parameter with `StdEncoding`) -/
def binaryQueryReadStd (v : Bytes) : Option Bytes :=
  if v.length % 4 != 0 then decodeRawWith decChar v else decodePaddedWith decChar v

end ConfModel.Base64
