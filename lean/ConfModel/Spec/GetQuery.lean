/-
What "the message parameter of a Connect GET is carried without loss" means, stated on what is
on the wire and what the handler receives (no reference to how the value was computed):
the value in the URI, read as the specification reads it (percent-decoding with `+` as a space;
with `base64=1` URL-safe base64, padding optional), is the message; it contains no byte that
would end or split its `key=value` pair; and the handler received the message.
-/
import ConfModel.Model.GetQuery
namespace ConfModel.GetQuerySpec
open ConfModel.Convert ConfModel.GetQuery

/-- the value in the URI reads back to the message -/
def wireReads (b64 : Bool) (msg wire : Bytes) : Bool :=
  match queryUnescape wire with
  | none => false
  | some p => if b64 then Base64.decodeURLPadded p == some msg else p == msg

/-- the value stays inside its `key=value` pair -/
def wireClosed (wire : Bytes) : Bool :=
  wire.all (fun c => !(c == 0x26 || c == 0x3D || c == 0x3B || c == 0x23 || c == 0x20))

/-- the handler's view: it answered, and what it received is the message -/
def received (msg : Bytes) (got : Option Bytes) : Bool := got == some msg

def getHolds (b64 : Bool) (msg wire : Bytes) (got : Option Bytes) : Bool :=
  wireReads b64 msg wire && wireClosed wire && received msg got

/-- the parameter value is one of the two encodings of `x` in use (padded: raw_request.go; raw:
connect-go's client), or - without base64 - the bytes themselves -/
def encodes (b64 : Bool) (p x : Bytes) : Bool :=
  if b64 then p == Base64.encodeURL x || p == Base64.encodeURLRaw x else p == x

end ConfModel.GetQuerySpec
