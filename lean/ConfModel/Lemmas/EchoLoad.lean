import ConfModel.Spec.EchoLoad
namespace ConfModel.EchoLoad

theorem firstSome_none_iff {α ε : Type} (f : α → Option ε) (l : List α) :
    firstSome f l = none ↔ ∀ x ∈ l, f x = none := by
  induction l with
  | nil => simp [firstSome]
  | cons x xs ih =>
    unfold firstSome
    cases hx : f x with
    | some e => simp [hx]
    | none => simp [hx, ih]

theorem codecs_proto_only (l : List Nat) : (decide (l.length > 1) || !l.contains 1) = false ↔ l = [1] := by
  constructor
  · intro h
    simp only [Bool.or_eq_false_iff, decide_eq_false_iff_not, Bool.not_eq_false', List.contains_iff_mem] at h
    obtain ⟨h1, h2⟩ := h
    match l, h1, h2 with
    | [x], _, h2 => simp at h2; simp [h2]
    | [], _, h2 => simp at h2
    | _ :: _ :: _, h1, _ => simp at h1
  · intro h; subst h; simp

theorem expandCheck_none_iff (c : Case) :
    expandCheck c = none ↔
      c.expand.length ≤ c.msgs.length ∧
      (∀ dm ∈ c.expand.zip c.msgs, dm.1 ≠ .misfit ∧ (dm.1 = .fits → dm.2.hasData = true)) := by
  unfold expandCheck
  by_cases h1 : c.expand.length > c.msgs.length
  · simp only [h1, ↓reduceIte, reduceCtorEq, false_iff]
    intro h; omega
  · simp only [h1, ↓reduceIte]
    have hle : c.expand.length ≤ c.msgs.length := by omega
    cases h2 : (c.expand.zip c.msgs).any (fun dm => dm.1 == .misfit || (dm.1 == .fits && !dm.2.hasData)) with
    | true =>
      simp only [↓reduceIte, reduceCtorEq, false_iff]
      simp only [List.any_eq_true] at h2
      obtain ⟨dm, hdm, hb⟩ := h2
      intro h
      obtain ⟨hn, hf⟩ := h.2 dm hdm
      simp only [Bool.or_eq_true, beq_iff_eq, Bool.and_eq_true, Bool.not_eq_true'] at hb
      rcases hb with hb | ⟨hb1, hb2⟩
      · exact hn hb
      · rw [hf hb1] at hb2; cases hb2
    | false =>
      simp only [List.any_eq_false, Bool.or_eq_true, beq_iff_eq, Bool.and_eq_true,
        Bool.not_eq_true', not_or, not_and] at h2
      simp only [Bool.false_eq_true, ↓reduceIte, true_iff]
      refine ⟨hle, fun dm hdm => ⟨(h2 dm hdm).1, fun hf => ?_⟩⟩
      have := (h2 dm hdm).2 hf
      simpa using this

theorem parseCase_none_iff (s : Suite) (c : Case) : parseCase s c = none ↔ ParseOk s c := by
  unfold parseCase ParseOk
  cases h1 : (c.rawRequest && s.mode != 2) with
  | true =>
    simp only [↓reduceIte, reduceCtorEq, false_iff]
    simp only [Bool.and_eq_true, bne_iff_ne, ne_eq] at h1
    intro h; exact h1.2 (h.1 h1.1)
  | false =>
    have h1' : c.rawRequest = true → s.mode = 2 := by
      intro hr; simpa [hr] using h1
    simp only [Bool.false_eq_true, ↓reduceIte]
    cases h2 : (hasRaw c && s.mode != 1) with
    | true =>
      simp only [↓reduceIte, reduceCtorEq, false_iff]
      simp only [Bool.and_eq_true, bne_iff_ne, ne_eq] at h2
      intro h; exact h2.2 (h.2.1 h2.1).1
    | false =>
      have h2' : hasRaw c = true → s.mode = 1 := by
        intro hr; simpa [hr] using h2
      simp only [Bool.false_eq_true, ↓reduceIte]
      cases h3 : (hasRaw c && !c.explicit) with
      | true =>
        simp only [↓reduceIte, reduceCtorEq, false_iff]
        simp only [Bool.and_eq_true, Bool.not_eq_true'] at h3
        intro h; have := (h.2.1 h3.1).2; rw [h3.2] at this; cases this
      | false =>
        have h3' : hasRaw c = true → c.explicit = true := by
          intro hr; simpa [hr] using h3
        simp only [Bool.false_eq_true, ↓reduceIte]
        cases h4 : (!c.expand.isEmpty && (decide (s.codecs.length > 1) || !s.codecs.contains 1)) with
        | true =>
          simp only [↓reduceIte, reduceCtorEq, false_iff]
          simp only [Bool.and_eq_true, Bool.not_eq_true', List.isEmpty_eq_false_iff] at h4
          intro h
          have hc := h.2.2.1 h4.1
          have := (codecs_proto_only s.codecs).2 hc
          rw [this] at h4; exact absurd h4.2 (by simp)
        | false =>
          have h4' : c.expand ≠ [] → s.codecs = [1] := by
            intro hne
            apply (codecs_proto_only s.codecs).1
            have : c.expand.isEmpty = false := by simpa using hne
            simpa [this] using h4
          simp only [Bool.false_eq_true, ↓reduceIte]
          rw [expandCheck_none_iff]
          exact ⟨fun h => ⟨h1', fun hr => ⟨h2' hr, h3' hr⟩, h4', h⟩, fun h => h.2.2.2⟩

theorem runnable_iff (c : Case) : runnable c = true ↔ Runnable c := by
  simp [runnable, Runnable]

theorem caseCheck_none_iff (c : Case) :
    caseCheck c = none ↔ c.name ≠ "" ∧ c.st ≠ 0 ∧ (Runnable c → SvcOk c) := by
  unfold caseCheck SvcOk
  by_cases h1 : c.name = ""
  · simp [h1]
  · by_cases h2 : c.st = 0
    · simp [h1, h2]
    · by_cases h3 : runnable c = true
      · have := (runnable_iff c).1 h3
        cases hs : c.service <;> cases hm : c.method <;> simp [h1, h2, h3, this]
      · have h3' : ¬ Runnable c := fun h => h3 ((runnable_iff c).2 h)
        simp [h1, h2, h3, h3']

theorem populateCheck_none_iff (c : Case) : populateCheck c = none ↔ PopulateOk c := by
  unfold populateCheck PopulateOk
  cases he : c.explicit with
  | true => simp
  | false =>
    cases hm : c.msgs with
    | nil => simp
    | cons m rest =>
      simp only [Bool.false_eq_true, if_false, false_or]
      by_cases hb : m = .broken
      · subst hb; simp [Msg.unaryDefiner, Msg.streamDefiner]
      · have hb' : (m == Msg.broken) = false := by simpa using hb
        simp only [hb', Bool.false_eq_true, if_false]
        by_cases hst : c.st = 1 ∨ c.st = 2
        · have : (c.st == 1 || c.st == 2) = true := by rcases hst with h | h <;> simp [h]
          simp only [this, if_true, hst]
          cases m.unaryDefiner <;> simp
        · have : (c.st == 1 || c.st == 2) = false := by
            simp only [not_or] at hst; simp [hst.1, hst.2]
          simp only [this, Bool.false_eq_true, if_false, hst]
          cases m.streamDefiner <;> simp

theorem populateDirect_none_iff (c : Case) :
    populateDirect c = none ↔ (c.explicit = true ∨ (Runnable c ∧ PopulateOk c)) := by
  unfold populateDirect
  cases he : c.explicit with
  | true => simp
  | false =>
    simp only [Bool.false_eq_true, ↓reduceIte, false_or]
    by_cases h0 : c.st = 0
    · simp [h0, Runnable]
    · have h0b : (c.st == 0) = false := by simpa using h0
      simp only [h0b, Bool.false_eq_true, ↓reduceIte]
      cases hr : runnable c with
      | false =>
        have : ¬ Runnable c := fun h => by rw [(runnable_iff c).2 h] at hr; cases hr
        simp [this]
      | true =>
        have := (runnable_iff c).1 hr
        simp only [Bool.not_true, Bool.false_eq_true, ↓reduceIte, this, true_and]
        exact populateCheck_none_iff c

theorem only_iff (s : Suite) : only s.protos 1 = true ↔ OnlyConnect s := by
  unfold only OnlyConnect
  cases h : s.protos with
  | nil => simp
  | cons p ps => simp

theorem misconfigured_iff (s : Suite) : misconfigured s = true ↔ Misconfigured s := by
  unfold misconfigured Misconfigured
  rw [← only_iff]
  cases only s.protos 1 <;> cases s.certs <;> cases s.tls <;> cases s.get <;> simp <;> omega

theorem admitted_iff (mode : Nat) (s : Suite) : admitted mode s = true ↔ Admitted mode s := by
  simp [admitted, Admitted]

theorem dupCheck_none_iff (cs : List Case) : ∀ (seen : List String),
    dupCheck seen cs = none ↔
      ((cs.filter runnable).map (·.name)).Nodup ∧ ∀ c ∈ cs.filter runnable, c.name ∉ seen := by
  induction cs with
  | nil => intro seen; simp [dupCheck]
  | cons c cs ih =>
    intro seen
    unfold dupCheck
    by_cases hr : runnable c = true
    · simp only [hr, if_true, List.filter_cons_of_pos, List.map_cons, List.nodup_cons, List.mem_cons,
        forall_eq_or_imp]
      by_cases hs : seen.contains c.name = true
      · simp only [hs, if_true, reduceCtorEq, false_iff]
        intro h; exact h.2.1 (by simpa using hs)
      · simp only [hs, Bool.false_eq_true, if_false, ih]
        have hs' : c.name ∉ seen := by simpa using hs
        constructor
        · rintro ⟨hnd, hns⟩
          refine ⟨⟨?_, hnd⟩, hs', fun x hx => ?_⟩
          · intro hmem
            obtain ⟨x, hx, hxn⟩ := List.mem_map.mp hmem
            have := hns x hx
            rw [hxn] at this; exact this (List.mem_cons_self)
          · have := hns x hx
            intro h; exact this (List.mem_cons_of_mem _ h)
        · rintro ⟨⟨hnm, hnd⟩, _, hns⟩
          refine ⟨hnd, fun x hx => ?_⟩
          intro h
          rcases List.mem_cons.mp h with h | h
          · exact hnm (List.mem_map.mpr ⟨x, hx, h⟩)
          · exact hns x hx h
    · have hr' : runnable c = false := by simpa using hr
      simp only [hr', Bool.false_eq_true, if_false, ih]
      rw [List.filter_cons_of_neg (by simp [hr'])]

/-- the number of test cases a suite contributes -/
def contrib (applies : Suite → Bool) (mode : Nat) (s : Suite) : Nat :=
  if admitted mode s && applies s then (s.cases.filter runnable).length else 0

/-- what one suite must satisfy for `expandSuite` to succeed -/
def SuiteExpands (applies : Suite → Bool) (s : Suite) : Prop :=
  ¬ Misconfigured s ∧
    (applies s = true →
      (∀ c ∈ s.cases, c.name ≠ "" ∧ c.st ≠ 0 ∧ (Runnable c → SvcOk c)) ∧
      ((s.cases.filter runnable).map (·.name)).Nodup)

theorem expandSuite_ok_iff (applies : Suite → Bool) (s : Suite) (k : Nat) :
    expandSuite applies s = .ok k ↔
      SuiteExpands applies s ∧ k = (if applies s then (s.cases.filter runnable).length else 0) := by
  unfold expandSuite SuiteExpands
  cases hm : misconfigured s with
  | true =>
    have := (misconfigured_iff s).1 hm
    simp only [↓reduceIte, reduceCtorEq, false_iff]
    intro h; exact h.1.1 this
  | false =>
    have hm' : ¬ Misconfigured s := fun h => by rw [(misconfigured_iff s).2 h] at hm; cases hm
    simp only [Bool.false_eq_true, ↓reduceIte]
    cases ha : applies s with
    | false =>
      simp only [Bool.not_false, ↓reduceIte, Except.ok.injEq, Bool.false_eq_true]
      constructor
      · intro h; exact ⟨⟨hm', fun h => by cases h⟩, h.symm⟩
      · intro h; exact h.2.symm
    | true =>
      simp only [Bool.not_true, Bool.false_eq_true, ↓reduceIte]
      cases h1 : firstSome caseCheck s.cases with
      | some e =>
        simp only [reduceCtorEq, false_iff]
        intro h
        have := (firstSome_none_iff caseCheck s.cases).2 (fun c hc => (caseCheck_none_iff c).2 ((h.1.2 trivial).1 c hc))
        rw [h1] at this; cases this
      | none =>
        have h1' := fun c hc => (caseCheck_none_iff c).1 ((firstSome_none_iff caseCheck s.cases).1 h1 c hc)
        cases h2 : dupCheck [] s.cases with
        | some e =>
          simp only [reduceCtorEq, false_iff]
          intro h
          have := (dupCheck_none_iff s.cases []).2 ⟨(h.1.2 trivial).2, fun _ _ => by simp⟩
          rw [h2] at this; cases this
        | none =>
          have h2' := ((dupCheck_none_iff s.cases []).1 h2).1
          simp only [Except.ok.injEq]
          exact ⟨fun h => ⟨⟨hm', fun _ => ⟨h1', h2'⟩⟩, h.symm⟩, fun h => h.2.symm⟩

/-- what the loop of `newTestCaseLibrary` wants of the suites still to visit, given the names seen -/
def LoopOk (applies : Suite → Bool) (mode : Nat) (seen : List String) (n k : Nat) (ss : List Suite) : Prop :=
  (∀ s ∈ ss, s.name ≠ "" ∧ s.cases ≠ []) ∧
  ((ss.map (·.name)).Nodup ∧ ∀ s ∈ ss, s.name ∉ seen) ∧
  (∀ s ∈ ss, Admitted mode s → SuiteExpands applies s) ∧
  k = n + (ss.map (contrib applies mode)).sum

theorem loopOk_cons (applies : Suite → Bool) (mode : Nat) (seen : List String) (n k : Nat) (s : Suite) (rest : List Suite) :
    LoopOk applies mode seen n k (s :: rest) ↔
      (s.name ≠ "" ∧ s.cases ≠ []) ∧ s.name ∉ seen ∧ (Admitted mode s → SuiteExpands applies s) ∧
      LoopOk applies mode (s.name :: seen) (n + contrib applies mode s) k rest := by
  unfold LoopOk
  simp only [List.forall_mem_cons, List.map_cons, List.nodup_cons, List.sum_cons]
  constructor
  · rintro ⟨⟨ha, har⟩, ⟨⟨hnm, hnd⟩, hs, hns⟩, ⟨hb, hbr⟩, hk⟩
    refine ⟨ha, hs, hb, har, ⟨hnd, fun x hx hm => ?_⟩, hbr, by omega⟩
    rcases List.mem_cons.mp hm with hm | hm
    · exact hnm (List.mem_map.mpr ⟨x, hx, hm⟩)
    · exact hns x hx hm
  · rintro ⟨ha, hs, hb, har, ⟨hnd, hns⟩, hbr, hk⟩
    refine ⟨⟨ha, har⟩, ⟨⟨?_, hnd⟩, hs, fun x hx hm => hns x hx (List.mem_cons_of_mem _ hm)⟩, ⟨hb, hbr⟩, by omega⟩
    intro hm
    obtain ⟨x, hx, hxn⟩ := List.mem_map.mp hm
    exact hns x hx (by rw [hxn]; exact List.mem_cons_self)

theorem libLoop_ok_iff (applies : Suite → Bool) (mode : Nat) (ss : List Suite) : ∀ (seen : List String) (n k : Nat),
    libLoop applies mode seen n ss = .ok k ↔ LoopOk applies mode seen n k ss := by
  induction ss with
  | nil =>
    intro seen n k
    unfold libLoop LoopOk
    simp only [Except.ok.injEq, List.not_mem_nil, false_imp_iff, implies_true, List.map_nil, List.nodup_nil,
      and_self, List.sum_nil, Nat.add_zero, true_and]
    exact eq_comm
  | cons s rest ih =>
    intro seen n k
    rw [loopOk_cons]
    unfold libLoop
    by_cases h1 : s.name = ""
    · simp only [h1, beq_self_eq_true, ↓reduceIte, reduceCtorEq, false_iff]
      intro h; exact h.1.1 rfl
    · have h1b : (s.name == "") = false := by simpa using h1
      simp only [h1b, Bool.false_eq_true, ↓reduceIte]
      cases h2 : s.cases.isEmpty with
      | true =>
        simp only [↓reduceIte, reduceCtorEq, false_iff]
        intro h; exact h.1.2 (by simpa using h2)
      | false =>
        have h2' : s.cases ≠ [] := by simpa using h2
        simp only [Bool.false_eq_true, ↓reduceIte]
        cases h3 : seen.contains s.name with
        | true =>
          simp only [↓reduceIte, reduceCtorEq, false_iff]
          intro h; exact h.2.1 (by simpa using h3)
        | false =>
          have h3' : s.name ∉ seen := by simpa using h3
          simp only [Bool.false_eq_true, ↓reduceIte]
          cases h4 : (s.mode != 0 && s.mode != mode) with
          | true =>
            have hna : ¬ Admitted mode s := by
              simp only [Bool.and_eq_true, bne_iff_ne, ne_eq] at h4
              intro h; rcases h with h | h
              · exact h4.1 h
              · exact h4.2 h
            have hc : contrib applies mode s = 0 := by
              have : admitted mode s = false := by
                cases h : admitted mode s
                · rfl
                · exact absurd ((admitted_iff mode s).1 h) hna
              simp [contrib, this]
            simp only [↓reduceIte, ih, hc, Nat.add_zero]
            exact ⟨fun h => ⟨⟨h1, h2'⟩, h3', fun h => absurd h hna, h⟩, fun h => h.2.2.2⟩
          | false =>
            have ha : Admitted mode s := by
              by_cases h0 : s.mode = 0
              · exact Or.inl h0
              · right
                have : (s.mode != 0) = true := by simpa using h0
                simpa [this] using h4
            have hadm : admitted mode s = true := (admitted_iff mode s).2 ha
            simp only [Bool.false_eq_true, ↓reduceIte]
            cases he : expandSuite applies s with
            | error e =>
              simp only [reduceCtorEq, false_iff]
              intro h
              have := (expandSuite_ok_iff applies s _).2 ⟨h.2.2.1 ha, rfl⟩
              rw [he] at this; cases this
            | ok k' =>
              obtain ⟨hs, hk'⟩ := (expandSuite_ok_iff applies s k').1 he
              have hc : contrib applies mode s = k' := by simp [contrib, hadm, hk']
              simp only [ih, hc]
              exact ⟨fun h => ⟨⟨h1, h2'⟩, h3', fun _ => hs, h⟩, fun h => h.2.2.2⟩

theorem sum_contrib_pos (applies : Suite → Bool) (mode : Nat) (ss : List Suite) :
    (ss.map (contrib applies mode)).sum ≠ 0 ↔
      ∃ s ∈ ss, Admitted mode s ∧ applies s = true ∧ ∃ c ∈ s.cases, Runnable c := by
  induction ss with
  | nil => simp
  | cons s rest ih =>
    simp only [List.map_cons, List.sum_cons, List.mem_cons, exists_eq_or_imp]
    have hs : contrib applies mode s ≠ 0 ↔ (Admitted mode s ∧ applies s = true ∧ ∃ c ∈ s.cases, Runnable c) := by
      unfold contrib
      cases h : (admitted mode s && applies s) with
      | true =>
        simp only [↓reduceIte]
        simp only [Bool.and_eq_true] at h
        have ha := (admitted_iff mode s).1 h.1
        constructor
        · intro hl
          have : (s.cases.filter runnable) ≠ [] := by intro h0; rw [h0] at hl; exact hl rfl
          obtain ⟨c, hc⟩ := List.exists_mem_of_ne_nil _ this
          have := List.mem_filter.mp hc
          exact ⟨ha, h.2, c, this.1, (runnable_iff c).1 this.2⟩
        · rintro ⟨_, _, c, hc, hr⟩
          have hmem : c ∈ s.cases.filter runnable := List.mem_filter.mpr ⟨hc, (runnable_iff c).2 hr⟩
          intro h0
          have := List.length_eq_zero_iff.mp h0
          rw [this] at hmem; cases hmem
      | false =>
        simp only [Bool.false_eq_true, ↓reduceIte, ne_eq, not_true_eq_false, false_iff]
        rintro ⟨ha, hap, _⟩
        simp [(admitted_iff mode s).2 ha, hap] at h
    constructor
    · intro h
      by_cases h0 : contrib applies mode s = 0
      · right; exact ih.1 (by omega)
      · left; exact hs.1 h0
    · rintro (h | h)
      · have := hs.2 h; omega
      · have := ih.2 h; omega

end ConfModel.EchoLoad
