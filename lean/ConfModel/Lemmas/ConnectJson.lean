/-
Helper lemmas for the Connect JSON part of C13: the examiners of `Model/ConnectJson.lean`
against the declarative side of `Spec/ConnectJson.lean`.
-/
import ConfModel.Model.ConnectJson
import ConfModel.Spec.ConnectJson
import ConfModel.Lemmas.Base64
namespace ConfModel.ConnectJson
open ConfModel.ConnectJsonSpec
open ConfModel.WireChecks (bs validFieldName validFieldValue)
open ConfModel.ServerTimeout (Bytes)

/-! ### members, sorting, lookup -/

theorem mem_insertField (x y : Bytes × Json) (fs : Fields) :
    y ∈ insertField x fs ↔ y = x ∨ y ∈ fs := by
  induction fs with
  | nil => simp [insertField]
  | cons a t ih =>
    simp only [insertField]
    split
    · simp
    · simp only [List.mem_cons, ih]
      constructor
      · rintro (h | h | h)
        · exact Or.inr (Or.inl h)
        · exact Or.inl h
        · exact Or.inr (Or.inr h)
      · rintro (h | h | h)
        · exact Or.inr (Or.inl h)
        · exact Or.inl h
        · exact Or.inr (Or.inr h)

theorem mem_sortFields (y : Bytes × Json) (fs : Fields) : y ∈ sortFields fs ↔ y ∈ fs := by
  induction fs with
  | nil => simp [sortFields]
  | cons a t ih =>
    have : sortFields (a :: t) = insertField a (sortFields t) := rfl
    rw [this, mem_insertField, ih]
    simp

theorem mem_sorted_flatMap {β} (f : Bytes × Json → List β) (fs : Fields) (x : β) :
    x ∈ (sortFields fs).flatMap f ↔ ∃ kv ∈ fs, x ∈ f kv := by
  simp only [List.mem_flatMap, mem_sortFields]

theorem sorted_flatMap_nil {β} (f : Bytes × Json → List β) (fs : Fields) :
    (sortFields fs).flatMap f = [] ↔ ∀ kv ∈ fs, f kv = [] := by
  simp only [List.flatMap_eq_nil_iff, mem_sortFields]

theorem lookup_mem {fs : Fields} {k : Bytes} {v : Json} (h : lookup fs k = some v) : (k, v) ∈ fs := by
  unfold lookup at h
  cases hf : fs.find? (·.1 == k) with
  | none => simp [hf] at h
  | some kv =>
    simp only [hf, Option.map_some, Option.some.injEq] at h
    have hm := List.mem_of_find?_eq_some hf
    have hk := List.find?_some hf
    simp only [beq_iff_eq] at hk
    obtain ⟨k', v'⟩ := kv
    simp only at hk h
    subst hk; subst h
    exact hm

theorem lookup_none {fs : Fields} {k : Bytes} : lookup fs k = none ↔ hasKey fs k = false := by
  unfold lookup hasKey
  simp only [Option.map_eq_none_iff, List.find?_eq_none, List.any_eq_false]

theorem hasKey_iff {fs : Fields} {k : Bytes} : hasKey fs k = true ↔ ∃ v, (k, v) ∈ fs := by
  unfold hasKey
  simp only [List.any_eq_true, beq_iff_eq]
  constructor
  · rintro ⟨⟨k', v⟩, hm, rfl⟩; exact ⟨v, hm⟩
  · rintro ⟨v, hm⟩; exact ⟨(k, v), hm, rfl⟩

theorem hasKey_of_lookup {fs : Fields} {k : Bytes} {v : Json} (h : lookup fs k = some v) :
    hasKey fs k = true := hasKey_iff.mpr ⟨v, lookup_mem h⟩

theorem lookup_isSome_of_hasKey {fs : Fields} {k : Bytes} (h : hasKey fs k = true) :
    ∃ v, lookup fs k = some v := by
  cases hl : lookup fs k with
  | none => rw [lookup_none.mp hl] at h; cases h
  | some v => exact ⟨v, rfl⟩

theorem lookup_of_mem {fs : Fields} (hn : (keysOf fs).Nodup) {k : Bytes} {v : Json} (hm : (k, v) ∈ fs) :
    lookup fs k = some v := by
  induction fs with
  | nil => cases hm
  | cons a t ih =>
    obtain ⟨k', v'⟩ := a
    simp only [keysOf, List.map_cons, List.nodup_cons, List.mem_map, not_exists, not_and] at hn
    simp only [List.mem_cons, Prod.mk.injEq] at hm
    unfold lookup
    simp only [List.find?_cons]
    rcases hm with ⟨rfl, rfl⟩ | hm
    · simp
    · have hne : (k' == k) = false := by
        simp only [beq_eq_false_iff_ne, ne_eq]
        intro he
        exact hn.1 (k, v) hm he.symm
      simp only [hne]
      exact ih hn.2 hm

/-- with distinct keys, the last member whose key is `k` is the first one -/
theorem filter_key_getLast (fs : Fields) (hn : (keysOf fs).Nodup) (k : Bytes) :
    (fs.filter (fun kv => kv.1 == k)).getLast? = fs.find? (fun kv => kv.1 == k) := by
  induction fs with
  | nil => rfl
  | cons a t ih =>
    obtain ⟨k', v'⟩ := a
    simp only [keysOf, List.map_cons, List.nodup_cons, List.mem_map, not_exists, not_and] at hn
    simp only [List.filter_cons, List.find?_cons]
    by_cases hk : (k' == k) = true
    · simp only [hk, if_true]
      have : t.filter (fun kv => kv.1 == k) = [] := by
        simp only [List.filter_eq_nil_iff, beq_iff_eq]
        intro kv hm he
        simp only [beq_iff_eq] at hk
        exact hn.1 kv hm (he.trans hk.symm)
      simp [this]
    · simp only [hk]
      exact ih hn.2

/-- struct decoding picks the member the map `asAny` holds, when no other key folds to the
field's name and keys are distinct -/
theorem typedLast_eq_lookup (fs : Fields) (hn : (keysOf fs).Nodup) (F K : Bytes)
    (hfold : ∀ kv ∈ fs, (foldKey kv.1 == F) = (kv.1 == K)) : typedLast fs F = lookup fs K := by
  unfold typedLast lookup
  have : fs.filter (fun kv => foldKey kv.1 == F) = fs.filter (fun kv => kv.1 == K) :=
    List.filter_congr (fun kv hm => hfold kv hm)
  rw [this, filter_key_getLast fs hn K]

/-! ### `checkNoDuplicateKeys` -/

theorem dupFree_obj {fs : Fields} : dupFree (.obj fs) = true ↔ (keysOf fs).Nodup ∧ dupFreeFields fs = true := by
  simp [dupFree]

theorem dupFreeFields_iff {fs : Fields} : dupFreeFields fs = true ↔ ∀ kv ∈ fs, dupFree kv.2 = true := by
  induction fs with
  | nil => simp [dupFreeFields]
  | cons a t ih =>
    obtain ⟨k, v⟩ := a
    simp [dupFreeFields, ih]

theorem dupFreeList_iff {xs : List Json} : dupFreeList xs = true ↔ ∀ x ∈ xs, dupFree x = true := by
  induction xs with
  | nil => simp [dupFreeList]
  | cons a t ih => simp [dupFreeList, ih]

theorem dupFree_arr {xs : List Json} : dupFree (.arr xs) = true ↔ ∀ x ∈ xs, dupFree x = true := by
  simp [dupFree, dupFreeList_iff]

theorem dupFree_member {fs : Fields} (h : dupFree (.obj fs) = true) {k : Bytes} {v : Json}
    (hm : (k, v) ∈ fs) : dupFree v = true :=
  dupFreeFields_iff.mp (dupFree_obj.mp h).2 (k, v) hm

/-! ### `examineJSON` -/

theorem examineJSON_ok {fieldOK : Bytes → Json → Bool} {doc : Json} {fs : Fields} :
    examineJSON fieldOK doc = .ok fs ↔
      doc = .obj fs ∧ fs.all (fun kv => fieldOK kv.1 kv.2) = true ∧ dupFree doc = true := by
  unfold examineJSON typedObject
  cases doc with
  | obj gs =>
    by_cases ha : gs.all (fun kv => fieldOK kv.1 kv.2) = true
    · by_cases hd : dupFree (.obj gs) = true
      · simp only [ha, hd, if_true, Except.ok.injEq, Json.obj.injEq]
        constructor
        · rintro rfl; exact ⟨rfl, ha, trivial⟩
        · rintro ⟨rfl, _, _⟩; rfl
      · simp only [ha, hd, if_true]
        constructor
        · intro h; cases h
        · rintro ⟨_, _, h⟩; exact absurd h (by simp)
    · simp only [ha]
      constructor
      · intro h; cases h
      · rintro ⟨h, h2, _⟩
        simp only [Json.obj.injEq] at h
        subst h; exact absurd h2 ha
  | null => simp
  | bool b => simp
  | num => simp
  | str s => simp
  | arr xs => simp

theorem examineJSON_error {fieldOK : Bytes → Json → Bool} {doc : Json} {f : CFb}
    (h : examineJSON fieldOK doc = .error f) : f ∈ generic := by
  unfold examineJSON at h
  unfold generic
  split at h
  · cases h; simp
  · cases h; simp
  · split at h
    · cases h
    · cases h; simp

/-! ### keys -/

theorem fold_detail_keys : ∀ k ∈ allowedDetail,
    (foldKey k == fTYPE) = (k == jkType) ∧ (foldKey k == fVALUE) = (k == jkValue) := by decide

theorem fold_error_keys : ∀ k ∈ allowedError,
    (foldKey k == fCODE) = (k == jkCode) ∧ (foldKey k == fMESSAGE) = (k == jkMessage) ∧
    (foldKey k == fDETAILS) = (k == jkDetails) := by decide

theorem fold_end_keys : ∀ k ∈ allowedEnd,
    (foldKey k == fERROR) = (k == jkError) ∧ (foldKey k == fMETADATA) = (k == jkMetadata) := by decide

theorem keysWithin_iff {fs : Fields} {allowed : List Bytes} :
    keysWithin fs allowed = true ↔ ∀ kv ∈ fs, kv.1 ∈ allowed := by
  simp [keysWithin, keysOf]

theorem not_keysWithin {fs : Fields} {allowed : List Bytes} (h : keysWithin fs allowed = false) :
    ∃ kv ∈ fs, kv.1 ∉ allowed := by
  have : ¬ ∀ kv ∈ fs, kv.1 ∈ allowed := by
    intro hall; rw [keysWithin_iff.mpr hall] at h; cases h
  simpa using this

/-! ### `examineConnectErrorDetail` -/

/-- what the callback accepts silently -/
def detailMemberOK (k : Bytes) (v : Json) : Bool :=
  if k == jkType then (match v with | .str t => validFullName t | _ => false)
  else if k == jkValue then (match v with | .str s => (rawStdDecode s).isSome | _ => false)
  else k == jkDebug

theorem detailKeyFb_nil (k : Bytes) (v : Json) : detailKeyFb k v = [] ↔ detailMemberOK k v = true := by
  unfold detailKeyFb detailMemberOK
  split
  · cases v <;> simp
  · split
    · cases v <;> simp
      rw [Option.isSome_iff_ne_none]
    · split <;> simp_all

theorem detailMember_allowed {k : Bytes} {v : Json} (h : detailMemberOK k v = true) : k ∈ allowedDetail := by
  unfold detailMemberOK at h
  unfold allowedDetail
  split at h
  · simp_all
  · split at h
    · simp_all
    · simp_all

theorem detailMember_fieldOK {k : Bytes} {v : Json} (h : detailMemberOK k v = true) :
    detailFieldOK k v = true := by
  have hk := detailMember_allowed h
  have hf := fold_detail_keys k hk
  unfold detailFieldOK
  simp only [hf.1, hf.2]
  unfold detailMemberOK at h
  split at h
  · rename_i h1; simp only [h1, Bool.true_or, if_true]
    cases v <;> simp_all [nullOrStr]
  · split at h
    · rename_i h1 h2; simp only [h2, Bool.or_true, if_true]
      cases v <;> simp_all [nullOrStr]
    · rename_i h1 h2; simp [h1, h2]

/-- the content of a well-formed detail, member by member -/
theorem detailOK_members {dbg : DebugOracle} {i : Nat} {fs : Fields} (hn : (keysOf fs).Nodup) :
    detailOK dbg i (.obj fs) = true ↔
      (∀ kv ∈ fs, detailMemberOK kv.1 kv.2 = true) ∧
      ∃ t v data, lookup fs jkType = some (.str t) ∧ lookup fs jkValue = some (.str v) ∧
        rawStdDecode v = some data ∧ (hasKey fs jkDebug = true → dbg i t data = none) := by
  constructor
  · intro h
    unfold detailOK at h
    simp only [Bool.and_eq_true] at h
    obtain ⟨hkw, hm⟩ := h
    cases hT : lookup fs jkType with
    | none => simp [hT] at hm
    | some jt =>
      cases hV : lookup fs jkValue with
      | none => cases jt <;> simp [hT, hV] at hm
      | some jv =>
        cases jt <;> cases jv <;> simp [hT, hV] at hm
        rename_i t v
        obtain ⟨hvalid, hm⟩ := hm
        cases hD : rawStdDecode v with
        | none => simp [hD] at hm
        | some data =>
          simp only [hD] at hm
          refine ⟨?_, t, v, data, rfl, rfl, hD, ?_⟩
          · intro kv hkv
            have hk := keysWithin_iff.mp hkw kv hkv
            obtain ⟨k, w⟩ := kv
            simp only [allowedDetail, List.mem_cons, List.not_mem_nil, or_false] at hk
            rcases hk with rfl | rfl | rfl
            · have := lookup_of_mem hn hkv
              rw [hT] at this; cases this
              simp [detailMemberOK, hvalid]
            · have := lookup_of_mem hn hkv
              rw [hV] at this; cases this
              have h1 : (jkValue == jkType) = false := by decide
              simp [detailMemberOK, h1, hD]
            · have h1 : (jkDebug == jkType) = false := by decide
              have h2 : (jkDebug == jkValue) = false := by decide
              simp [detailMemberOK, h1, h2]
          · intro hd
            simpa [hd] using hm
  · rintro ⟨hall, t, v, data, hT, hV, hD, hdbg⟩
    unfold detailOK
    simp only [hT, hV, hD, Bool.and_eq_true]
    refine ⟨keysWithin_iff.mpr (fun kv hkv => detailMember_allowed (hall kv hkv)), ?_, ?_⟩
    · have := hall _ (lookup_mem hT)
      simpa [detailMemberOK] using this
    · cases hd : hasKey fs jkDebug with
      | false => simp
      | true => simp [hdbg hd]

theorem typedLast_detail {fs : Fields} (hn : (keysOf fs).Nodup) (hkw : ∀ kv ∈ fs, kv.1 ∈ allowedDetail) :
    typedLast fs fTYPE = lookup fs jkType ∧ typedLast fs fVALUE = lookup fs jkValue :=
  ⟨typedLast_eq_lookup fs hn _ _ (fun kv hm => (fold_detail_keys _ (hkw kv hm)).1),
   typedLast_eq_lookup fs hn _ _ (fun kv hm => (fold_detail_keys _ (hkw kv hm)).2)⟩

theorem examineDetail_obj {dbg : DebugOracle} {i : Nat} {d : Json} {fs : Fields}
    (h : examineJSON detailFieldOK d = .ok fs) :
    examineDetail dbg i d =
      (sortFields fs).flatMap (fun kv => detailKeyFb kv.1 kv.2)
      ++ (if hasKey fs jkType then [] else [.dMissingType])
      ++ (if hasKey fs jkValue then [] else [.dMissingValue])
      ++ detailDebugFb dbg i fs := by
  unfold examineDetail; rw [h]

/-- silent exactly on the well-formed details (without duplicate keys) -/
theorem detail_silent_iff (dbg : DebugOracle) (i : Nat) (d : Json) :
    examineDetail dbg i d = [] ↔ (dupFree d = true ∧ detailOK dbg i d = true) := by
  constructor
  · intro h
    cases hj : examineJSON detailFieldOK d with
    | error f => unfold examineDetail at h; rw [hj] at h; cases h
    | ok fs =>
      rw [examineDetail_obj hj] at h
      obtain ⟨rfl, _, hdf⟩ := examineJSON_ok.mp hj
      have hn := (dupFree_obj.mp hdf).1
      simp only [List.append_eq_nil_iff] at h
      obtain ⟨⟨⟨hcb, hty⟩, hva⟩, hdb⟩ := h
      have hall : ∀ kv ∈ fs, detailMemberOK kv.1 kv.2 = true := fun kv hkv =>
        (detailKeyFb_nil _ _).mp ((sorted_flatMap_nil _ _).mp hcb kv hkv)
      have hty' : hasKey fs jkType = true := by
        cases hh : hasKey fs jkType <;> simp [hh] at hty ⊢
      have hva' : hasKey fs jkValue = true := by
        cases hh : hasKey fs jkValue <;> simp [hh] at hva ⊢
      obtain ⟨jt, hT⟩ := lookup_isSome_of_hasKey hty'
      obtain ⟨jv, hV⟩ := lookup_isSome_of_hasKey hva'
      have h1 := hall _ (lookup_mem hT)
      have h2 := hall _ (lookup_mem hV)
      have hne : (jkValue == jkType) = false := by decide
      cases jt <;> simp [detailMemberOK] at h1
      cases jv <;> simp [detailMemberOK, hne] at h2
      rename_i t v
      obtain ⟨data, hD⟩ := Option.isSome_iff_exists.mp h2
      refine ⟨hdf, (detailOK_members hn).mpr ⟨hall, t, v, data, hT, hV, hD, ?_⟩⟩
      intro hd
      have htl := typedLast_detail hn (fun kv hkv => detailMember_allowed (hall kv hkv))
      unfold detailDebugFb at hdb
      simp only [htl.1, htl.2, hT, hV, strOf, Option.bind_some, hD, Option.isSome_some,
        Option.isNone_some, Bool.and_false, Bool.not_false, Bool.and_self, hd, if_true,
        Option.getD_some] at hdb
      cases hr : dbg i t data with
      | none => rfl
      | some f => simp [hr] at hdb
  · rintro ⟨hdf, hok⟩
    cases d with
    | obj fs =>
      have hn := (dupFree_obj.mp hdf).1
      obtain ⟨hall, t, v, data, hT, hV, hD, hdbg⟩ := (detailOK_members hn).mp hok
      have hj : examineJSON detailFieldOK (.obj fs) = .ok fs :=
        examineJSON_ok.mpr ⟨rfl, by
          simp only [List.all_eq_true]
          exact fun kv hkv => detailMember_fieldOK (hall kv hkv), hdf⟩
      rw [examineDetail_obj hj]
      have htl := typedLast_detail hn (fun kv hkv => detailMember_allowed (hall kv hkv))
      simp only [List.append_eq_nil_iff]
      refine ⟨⟨⟨?_, ?_⟩, ?_⟩, ?_⟩
      · exact (sorted_flatMap_nil _ _).mpr (fun kv hkv => (detailKeyFb_nil _ _).mpr (hall kv hkv))
      · simp [hasKey_of_lookup hT]
      · simp [hasKey_of_lookup hV]
      · unfold detailDebugFb
        simp only [htl.1, htl.2, hT, hV, strOf, Option.bind_some, hD, Option.isSome_some,
          Option.isNone_some, Bool.and_false, Bool.not_false, Bool.true_and, Option.getD_some]
        cases hd : hasKey fs jkDebug with
        | false => simp
        | true => simp [hdbg hd]
    | null => simp [detailOK] at hok
    | bool b => simp [detailOK] at hok
    | num => simp [detailOK] at hok
    | str s => simp [detailOK] at hok
    | arr xs => simp [detailOK] at hok

/-! ### demands always admit the generic alternatives -/

def AllGeneric (ds : List (List CFb)) : Prop := ∀ alts ∈ ds, ∀ g ∈ generic, g ∈ alts

theorem allGeneric_nil : AllGeneric [] := by intro a h; cases h

theorem allGeneric_generic : AllGeneric [generic] := by
  intro a h; simp only [List.mem_singleton] at h; subst h; exact fun g hg => hg

theorem allGeneric_orGeneric (f : CFb) : AllGeneric [orGeneric f] := by
  intro a h; simp only [List.mem_singleton] at h; subst h
  exact fun g hg => List.mem_cons_of_mem _ hg

theorem allGeneric_append {a b : List (List CFb)} (ha : AllGeneric a) (hb : AllGeneric b) :
    AllGeneric (a ++ b) := by
  intro x hx; rcases List.mem_append.mp hx with h | h
  · exact ha x h
  · exact hb x h

theorem allGeneric_flatMap {α} (l : List α) (f : α → List (List CFb)) (h : ∀ a ∈ l, AllGeneric (f a)) :
    AllGeneric (l.flatMap f) := by
  intro x hx
  obtain ⟨a, ha, hxa⟩ := List.mem_flatMap.mp hx
  exact h a ha x hxa

theorem allGeneric_detail (d : Json) : AllGeneric (mustFlagDetail d) := by
  unfold mustFlagDetail
  cases d with
  | obj fs =>
    refine allGeneric_append (allGeneric_append ?_ ?_) ?_
    · split
      · exact allGeneric_nil
      · exact allGeneric_orGeneric _
    · split
      · exact allGeneric_orGeneric _
      · split
        · exact allGeneric_nil
        · exact allGeneric_orGeneric _
      · exact allGeneric_orGeneric _
    · split
      · exact allGeneric_orGeneric _
      · split
        · exact allGeneric_nil
        · exact allGeneric_orGeneric _
      · exact allGeneric_orGeneric _
  | null => exact allGeneric_generic
  | bool b => exact allGeneric_generic
  | num => exact allGeneric_generic
  | str s => exact allGeneric_generic
  | arr xs => exact allGeneric_generic

theorem allGeneric_error (doc : Json) : AllGeneric (mustFlagError doc) := by
  unfold mustFlagError
  refine allGeneric_append ?_ ?_
  · split
    · exact allGeneric_nil
    · exact allGeneric_generic
  · cases doc with
    | obj fs =>
      refine allGeneric_append (allGeneric_append (allGeneric_append ?_ ?_) ?_) ?_
      · split
        · exact allGeneric_nil
        · exact allGeneric_orGeneric _
      · split
        · exact allGeneric_orGeneric _
        · split
          · exact allGeneric_nil
          · exact allGeneric_orGeneric _
        · exact allGeneric_orGeneric _
      · split
        · exact allGeneric_nil
        · exact allGeneric_nil
        · exact allGeneric_orGeneric _
      · split
        · exact allGeneric_nil
        · split
          · exact allGeneric_flatMap _ _ (fun a _ => allGeneric_detail a)
          · exact allGeneric_nil
        · exact allGeneric_orGeneric _
    | null => exact allGeneric_generic
    | bool b => exact allGeneric_generic
    | num => exact allGeneric_generic
    | str s => exact allGeneric_generic
    | arr xs => exact allGeneric_generic

/-! ### every malformation of a detail is reported -/

theorem detailKeyFb_invalid {k : Bytes} (v : Json) (h : k ∉ allowedDetail) :
    detailKeyFb k v = [.dInvalidKey] := by
  simp only [allowedDetail, List.mem_cons, List.not_mem_nil, or_false, not_or] at h
  unfold detailKeyFb
  simp [h.1, h.2.1, h.2.2]

theorem mem_detail_cb {dbg : DebugOracle} {i : Nat} {fs : Fields} {kv : Bytes × Json} {f : CFb}
    (hkv : kv ∈ fs) (hf : f ∈ detailKeyFb kv.1 kv.2) :
    f ∈ (sortFields fs).flatMap (fun kv => detailKeyFb kv.1 kv.2)
      ++ (if hasKey fs jkType then [] else [.dMissingType])
      ++ (if hasKey fs jkValue then [] else [.dMissingValue])
      ++ detailDebugFb dbg i fs := by
  simp only [List.mem_append, mem_sorted_flatMap]
  exact Or.inl (Or.inl (Or.inl ⟨kv, hkv, hf⟩))

theorem detail_demands (dbg : DebugOracle) (i : Nat) (d : Json) :
    ∀ alts ∈ mustFlagDetail d, ∃ f ∈ alts, f ∈ examineDetail dbg i d := by
  intro alts ha
  cases hj : examineJSON detailFieldOK d with
  | error g =>
    refine ⟨g, allGeneric_detail d alts ha g (examineJSON_error hj), ?_⟩
    unfold examineDetail; rw [hj]; simp
  | ok fs =>
    obtain ⟨rfl, _, hdf⟩ := examineJSON_ok.mp hj
    rw [examineDetail_obj hj]
    unfold mustFlagDetail at ha
    simp only [List.mem_append] at ha
    have hvt : (jkValue == jkType) = false := by decide
    rcases ha with (ha | ha) | ha
    · split at ha
      · cases ha
      · rename_i hkw
        simp only [List.mem_singleton] at ha; subst ha
        obtain ⟨kv, hkv, hnot⟩ := not_keysWithin (by simpa using hkw)
        exact ⟨.dInvalidKey, by simp [orGeneric], mem_detail_cb hkv (by simp [detailKeyFb_invalid _ hnot])⟩
    · cases hT : lookup fs jkType with
      | none =>
        simp only [hT, List.mem_singleton] at ha; subst ha
        refine ⟨.dMissingType, by simp [orGeneric], ?_⟩
        simp [lookup_none.mp hT]
      | some jt =>
        have hm := lookup_mem hT
        cases jt with
        | str t =>
          simp only [hT] at ha
          split at ha
          · cases ha
          · rename_i hv
            simp only [List.mem_singleton] at ha; subst ha
            exact ⟨.dTypeInvalid, by simp [orGeneric], mem_detail_cb hm (by simp [detailKeyFb, hv])⟩
        | null => simp only [hT, List.mem_singleton] at ha; subst ha
                  exact ⟨.dTypeType, by simp [orGeneric], mem_detail_cb hm (by simp [detailKeyFb])⟩
        | bool b => simp only [hT, List.mem_singleton] at ha; subst ha
                    exact ⟨.dTypeType, by simp [orGeneric], mem_detail_cb hm (by simp [detailKeyFb])⟩
        | num => simp only [hT, List.mem_singleton] at ha; subst ha
                 exact ⟨.dTypeType, by simp [orGeneric], mem_detail_cb hm (by simp [detailKeyFb])⟩
        | arr xs => simp only [hT, List.mem_singleton] at ha; subst ha
                    exact ⟨.dTypeType, by simp [orGeneric], mem_detail_cb hm (by simp [detailKeyFb])⟩
        | obj gs => simp only [hT, List.mem_singleton] at ha; subst ha
                    exact ⟨.dTypeType, by simp [orGeneric], mem_detail_cb hm (by simp [detailKeyFb])⟩
    · cases hV : lookup fs jkValue with
      | none =>
        simp only [hV, List.mem_singleton] at ha; subst ha
        refine ⟨.dMissingValue, by simp [orGeneric], ?_⟩
        simp [lookup_none.mp hV]
      | some jv =>
        have hm := lookup_mem hV
        cases jv with
        | str v =>
          simp only [hV] at ha
          split at ha
          · cases ha
          · rename_i hv
            simp only [List.mem_singleton] at ha; subst ha
            exact ⟨.dValueBase64, by simp [orGeneric], mem_detail_cb hm (by simp [detailKeyFb, hvt, hv])⟩
        | null => simp only [hV, List.mem_singleton] at ha; subst ha
                  exact ⟨.dValueType, by simp [orGeneric], mem_detail_cb hm (by simp [detailKeyFb, hvt])⟩
        | bool b => simp only [hV, List.mem_singleton] at ha; subst ha
                    exact ⟨.dValueType, by simp [orGeneric], mem_detail_cb hm (by simp [detailKeyFb, hvt])⟩
        | num => simp only [hV, List.mem_singleton] at ha; subst ha
                 exact ⟨.dValueType, by simp [orGeneric], mem_detail_cb hm (by simp [detailKeyFb, hvt])⟩
        | arr xs => simp only [hV, List.mem_singleton] at ha; subst ha
                    exact ⟨.dValueType, by simp [orGeneric], mem_detail_cb hm (by simp [detailKeyFb, hvt])⟩
        | obj gs => simp only [hV, List.mem_singleton] at ha; subst ha
                    exact ⟨.dValueType, by simp [orGeneric], mem_detail_cb hm (by simp [detailKeyFb, hvt])⟩

/-! ### `examineConnectError` -/

/-- what the callback accepts silently -/
def errorMemberOK (k : Bytes) (v : Json) : Bool :=
  if k == jkCode then (match v with | .str c => codeNames.contains c | _ => false)
  else if k == jkMessage then (match v with | .str _ => true | _ => false)
  else if k == jkDetails then (match v with | .arr _ => true | _ => false)
  else false

theorem errorKeyFb_nil (k : Bytes) (v : Json) : errorKeyFb k v = [] ↔ errorMemberOK k v = true := by
  unfold errorKeyFb errorMemberOK
  split
  · cases v <;> simp
  · split
    · cases v <;> simp
    · split
      · cases v <;> simp
      · simp

theorem errorMember_allowed {k : Bytes} {v : Json} (h : errorMemberOK k v = true) : k ∈ allowedError := by
  unfold errorMemberOK at h
  unfold allowedError
  split at h
  · simp_all
  · split at h
    · simp_all
    · split at h
      · simp_all
      · cases h

theorem errorMember_fieldOK {k : Bytes} {v : Json} (h : errorMemberOK k v = true) :
    errorFieldOK k v = true := by
  have hf := fold_error_keys k (errorMember_allowed h)
  unfold errorFieldOK
  simp only [hf.1, hf.2.1, hf.2.2]
  unfold errorMemberOK at h
  split at h
  · rename_i h1; simp only [h1, Bool.true_or, if_true]
    cases v <;> simp_all [nullOrStr]
  · split at h
    · rename_i h1 h2; simp only [h2, Bool.or_true, if_true]
      cases v <;> simp_all [nullOrStr]
    · split at h
      · rename_i h1 h2 h3; simp only [h1, h2, h3, Bool.or_self, if_true]
        cases v <;> simp_all [nullOrArr]
      · cases h

theorem errorKeyFb_invalid {k : Bytes} (v : Json) (h : k ∉ allowedError) :
    errorKeyFb k v = [.invalidKey] := by
  simp only [allowedError, List.mem_cons, List.not_mem_nil, or_false, not_or] at h
  unfold errorKeyFb
  simp [h.1, h.2.1, h.2.2]

/-- the top level of a well-formed error (the details' content aside) -/
def errorShape (fs : Fields) : Bool :=
  keysWithin fs allowedError &&
  (match lookup fs jkCode with
    | some (.str c) => codeNames.contains c
    | _ => false) &&
  (match lookup fs jkMessage with
    | none | some (.str _) => true
    | _ => false) &&
  (match lookup fs jkDetails with
    | none | some (.arr _) => true
    | _ => false)

theorem errorOK_obj (dbg : DebugOracle) (fs : Fields) :
    errorOK dbg (.obj fs) = true ↔
      dupFree (.obj fs) = true ∧ errorShape fs = true ∧
      ∀ xs, lookup fs jkDetails = some (.arr xs) → detailsOK dbg 0 xs = true := by
  unfold errorOK errorShape
  simp only [Bool.and_eq_true]
  cases hD : lookup fs jkDetails with
  | none => simp; intros; exact Iff.rfl
  | some jd => cases jd <;> simp <;> intros <;> exact Iff.rfl

theorem errorOK_isObj {dbg : DebugOracle} {doc : Json} (h : errorOK dbg doc = true) : ∃ fs, doc = .obj fs := by
  cases doc with
  | obj fs => exact ⟨fs, rfl⟩
  | null => simp [errorOK] at h
  | bool b => simp [errorOK] at h
  | num => simp [errorOK] at h
  | str s => simp [errorOK] at h
  | arr xs => simp [errorOK] at h

theorem errorShape_members {fs : Fields} (hn : (keysOf fs).Nodup) :
    errorShape fs = true ↔ (∀ kv ∈ fs, errorMemberOK kv.1 kv.2 = true) ∧ hasKey fs jkCode = true := by
  have hmc : (jkMessage == jkCode) = false := by decide
  have hdc : (jkDetails == jkCode) = false := by decide
  have hdm : (jkDetails == jkMessage) = false := by decide
  constructor
  · intro h
    unfold errorShape at h
    simp only [Bool.and_eq_true] at h
    obtain ⟨⟨⟨hkw, hc⟩, hm⟩, hd⟩ := h
    cases hC : lookup fs jkCode with
    | none => simp [hC] at hc
    | some jc =>
      refine ⟨?_, hasKey_of_lookup hC⟩
      intro kv hkv
      have hk := keysWithin_iff.mp hkw kv hkv
      obtain ⟨k, w⟩ := kv
      simp only [allowedError, List.mem_cons, List.not_mem_nil, or_false] at hk
      rcases hk with rfl | rfl | rfl
      · have := lookup_of_mem hn hkv
        rw [this] at hc
        cases w <;> simp at hc
        simp [errorMemberOK, hc]
      · have := lookup_of_mem hn hkv
        rw [this] at hm
        cases w <;> simp at hm
        simp [errorMemberOK, hmc]
      · have := lookup_of_mem hn hkv
        rw [this] at hd
        cases w <;> simp at hd
        simp [errorMemberOK, hdc, hdm]
  · rintro ⟨hall, hc⟩
    unfold errorShape
    simp only [Bool.and_eq_true]
    refine ⟨⟨⟨keysWithin_iff.mpr (fun kv hkv => errorMember_allowed (hall kv hkv)), ?_⟩, ?_⟩, ?_⟩
    · obtain ⟨jc, hC⟩ := lookup_isSome_of_hasKey hc
      have := hall _ (lookup_mem hC)
      rw [hC]
      cases jc <;> simp [errorMemberOK] at this
      simpa using this
    · cases hM : lookup fs jkMessage with
      | none => rfl
      | some jm =>
        have := hall _ (lookup_mem hM)
        cases jm <;> simp [errorMemberOK, hmc] at this
        rfl
    · cases hD : lookup fs jkDetails with
      | none => rfl
      | some jd =>
        have := hall _ (lookup_mem hD)
        cases jd <;> simp [errorMemberOK, hdc, hdm] at this
        rfl

theorem typedDetails_eq {fs : Fields} (hn : (keysOf fs).Nodup) (hkw : ∀ kv ∈ fs, kv.1 ∈ allowedError)
    {xs : List Json} (hD : lookup fs jkDetails = some (.arr xs)) : typedDetails fs = xs := by
  unfold typedDetails
  rw [typedLast_eq_lookup fs hn _ _ (fun kv hm => (fold_error_keys _ (hkw kv hm)).2.2), hD]

theorem examineDetails_nil (dbg : DebugOracle) (i : Nat) (xs : List Json) :
    examineDetails dbg i xs = [] ↔ ((∀ x ∈ xs, dupFree x = true) ∧ detailsOK dbg i xs = true) := by
  induction xs generalizing i with
  | nil => simp [examineDetails, detailsOK]
  | cons x t ih =>
    simp only [examineDetails, detailsOK, List.append_eq_nil_iff, detail_silent_iff, ih,
      List.mem_cons, forall_eq_or_imp, Bool.and_eq_true]
    constructor
    · rintro ⟨⟨a, b⟩, c, d⟩; exact ⟨⟨a, c⟩, b, d⟩
    · rintro ⟨⟨a, c⟩, b, d⟩; exact ⟨⟨a, b⟩, c, d⟩

theorem examineDetails_sub (dbg : DebugOracle) (i : Nat) (xs : List Json) {x : Json} (hx : x ∈ xs) :
    ∃ j, ∀ f ∈ examineDetail dbg j x, f ∈ examineDetails dbg i xs := by
  induction xs generalizing i with
  | nil => cases hx
  | cons a t ih =>
    simp only [List.mem_cons] at hx
    rcases hx with rfl | hx
    · exact ⟨i, fun f hf => by simp only [examineDetails, List.mem_append]; exact Or.inl hf⟩
    · obtain ⟨j, hj⟩ := ih (i + 1) hx
      exact ⟨j, fun f hf => by simp only [examineDetails, List.mem_append]; exact Or.inr (hj f hf)⟩

theorem examineError_obj {dbg : DebugOracle} {doc : Json} {fs : Fields}
    (h : examineJSON errorFieldOK doc = .ok fs) :
    examineConnectError dbg doc =
      (sortFields fs).flatMap (fun kv => errorKeyFb kv.1 kv.2)
      ++ (if hasKey fs jkCode then [] else [.missingCode])
      ++ (if hasKey fs jkDetails then examineDetails dbg 0 (typedDetails fs) else []) := by
  unfold examineConnectError; rw [h]

/-- `examineConnectError` is silent exactly on the well-formed Connect errors -/
theorem error_silent_iff (dbg : DebugOracle) (doc : Json) :
    examineConnectError dbg doc = [] ↔ errorOK dbg doc = true := by
  constructor
  · intro h
    cases hj : examineJSON errorFieldOK doc with
    | error f => unfold examineConnectError at h; rw [hj] at h; cases h
    | ok fs =>
      rw [examineError_obj hj] at h
      obtain ⟨rfl, _, hdf⟩ := examineJSON_ok.mp hj
      have hn := (dupFree_obj.mp hdf).1
      simp only [List.append_eq_nil_iff] at h
      obtain ⟨⟨hcb, hco⟩, hde⟩ := h
      have hall : ∀ kv ∈ fs, errorMemberOK kv.1 kv.2 = true := fun kv hkv =>
        (errorKeyFb_nil _ _).mp ((sorted_flatMap_nil _ _).mp hcb kv hkv)
      have hco' : hasKey fs jkCode = true := by
        cases hh : hasKey fs jkCode <;> simp [hh] at hco ⊢
      refine (errorOK_obj dbg fs).mpr ⟨hdf, (errorShape_members hn).mpr ⟨hall, hco'⟩, ?_⟩
      intro xs hD
      rw [hasKey_of_lookup hD, if_pos rfl,
        typedDetails_eq hn (fun kv hkv => errorMember_allowed (hall kv hkv)) hD] at hde
      exact ((examineDetails_nil dbg 0 xs).mp hde).2
  · intro h
    obtain ⟨fs, rfl⟩ := errorOK_isObj h
    obtain ⟨hdf, hsh, hdet⟩ := (errorOK_obj dbg fs).mp h
    have hn := (dupFree_obj.mp hdf).1
    obtain ⟨hall, hco⟩ := (errorShape_members hn).mp hsh
    have hj : examineJSON errorFieldOK (.obj fs) = .ok fs :=
      examineJSON_ok.mpr ⟨rfl, by
        simp only [List.all_eq_true]
        exact fun kv hkv => errorMember_fieldOK (hall kv hkv), hdf⟩
    rw [examineError_obj hj]
    simp only [List.append_eq_nil_iff]
    refine ⟨⟨?_, by simp [hco]⟩, ?_⟩
    · exact (sorted_flatMap_nil _ _).mpr (fun kv hkv => (errorKeyFb_nil _ _).mpr (hall kv hkv))
    · cases hd : hasKey fs jkDetails with
      | false => simp
      | true =>
        obtain ⟨jd, hD⟩ := lookup_isSome_of_hasKey hd
        have hm := hall _ (lookup_mem hD)
        have hdc : (jkDetails == jkCode) = false := by decide
        have hdm : (jkDetails == jkMessage) = false := by decide
        cases jd <;> simp [errorMemberOK, hdc, hdm] at hm
        rename_i xs
        simp only [if_true]
        rw [typedDetails_eq hn (fun kv hkv => errorMember_allowed (hall kv hkv)) hD]
        refine (examineDetails_nil dbg 0 xs).mpr ⟨?_, hdet xs hD⟩
        exact dupFree_arr.mp (dupFree_member hdf (lookup_mem hD))

theorem mem_error_cb {dbg : DebugOracle} {fs : Fields} {kv : Bytes × Json} {f : CFb}
    (hkv : kv ∈ fs) (hf : f ∈ errorKeyFb kv.1 kv.2) :
    f ∈ (sortFields fs).flatMap (fun kv => errorKeyFb kv.1 kv.2)
      ++ (if hasKey fs jkCode then [] else [.missingCode])
      ++ (if hasKey fs jkDetails then examineDetails dbg 0 (typedDetails fs) else []) := by
  simp only [List.mem_append, mem_sorted_flatMap]
  exact Or.inl (Or.inl ⟨kv, hkv, hf⟩)

/-- every malformation of a Connect error the checks name is reported -/
theorem error_demands (dbg : DebugOracle) (doc : Json) :
    ∀ alts ∈ mustFlagError doc, ∃ f ∈ alts, f ∈ examineConnectError dbg doc := by
  intro alts ha
  cases hj : examineJSON errorFieldOK doc with
  | error g =>
    refine ⟨g, allGeneric_error doc alts ha g (examineJSON_error hj), ?_⟩
    unfold examineConnectError; rw [hj]; simp
  | ok fs =>
    obtain ⟨rfl, _, hdf⟩ := examineJSON_ok.mp hj
    have hn := (dupFree_obj.mp hdf).1
    rw [examineError_obj hj]
    unfold mustFlagError at ha
    simp only [hdf, if_true, List.nil_append, List.mem_append] at ha
    have hmc : (jkMessage == jkCode) = false := by decide
    have hdc : (jkDetails == jkCode) = false := by decide
    have hdm : (jkDetails == jkMessage) = false := by decide
    rcases ha with ((ha | ha) | ha) | ha
    · split at ha
      · cases ha
      · rename_i hkw
        simp only [List.mem_singleton] at ha; subst ha
        obtain ⟨kv, hkv, hnot⟩ := not_keysWithin (by simpa using hkw)
        exact ⟨.invalidKey, by simp [orGeneric], mem_error_cb hkv (by simp [errorKeyFb_invalid _ hnot])⟩
    · cases hC : lookup fs jkCode with
      | none =>
        simp only [hC, List.mem_singleton] at ha; subst ha
        refine ⟨.missingCode, by simp [orGeneric], ?_⟩
        simp [lookup_none.mp hC]
      | some jc =>
        have hm := lookup_mem hC
        cases jc with
        | str c =>
          simp only [hC] at ha
          split at ha
          · cases ha
          · rename_i hv
            simp only [List.mem_singleton] at ha; subst ha
            have hv' : c ∉ codeNames := by simpa using hv
            exact ⟨.codeUnknown, by simp [orGeneric], mem_error_cb hm (by simp [errorKeyFb, hv'])⟩
        | null => simp only [hC, List.mem_singleton] at ha; subst ha
                  exact ⟨.codeType, by simp [orGeneric], mem_error_cb hm (by simp [errorKeyFb])⟩
        | bool b => simp only [hC, List.mem_singleton] at ha; subst ha
                    exact ⟨.codeType, by simp [orGeneric], mem_error_cb hm (by simp [errorKeyFb])⟩
        | num => simp only [hC, List.mem_singleton] at ha; subst ha
                 exact ⟨.codeType, by simp [orGeneric], mem_error_cb hm (by simp [errorKeyFb])⟩
        | arr xs => simp only [hC, List.mem_singleton] at ha; subst ha
                    exact ⟨.codeType, by simp [orGeneric], mem_error_cb hm (by simp [errorKeyFb])⟩
        | obj gs => simp only [hC, List.mem_singleton] at ha; subst ha
                    exact ⟨.codeType, by simp [orGeneric], mem_error_cb hm (by simp [errorKeyFb])⟩
    · cases hM : lookup fs jkMessage with
      | none => simp [hM] at ha
      | some jm =>
        have hm := lookup_mem hM
        cases jm with
        | str c => simp [hM] at ha
        | null => simp only [hM, List.mem_singleton] at ha; subst ha
                  exact ⟨.messageType, by simp [orGeneric], mem_error_cb hm (by simp [errorKeyFb, hmc])⟩
        | bool b => simp only [hM, List.mem_singleton] at ha; subst ha
                    exact ⟨.messageType, by simp [orGeneric], mem_error_cb hm (by simp [errorKeyFb, hmc])⟩
        | num => simp only [hM, List.mem_singleton] at ha; subst ha
                 exact ⟨.messageType, by simp [orGeneric], mem_error_cb hm (by simp [errorKeyFb, hmc])⟩
        | arr xs => simp only [hM, List.mem_singleton] at ha; subst ha
                    exact ⟨.messageType, by simp [orGeneric], mem_error_cb hm (by simp [errorKeyFb, hmc])⟩
        | obj gs => simp only [hM, List.mem_singleton] at ha; subst ha
                    exact ⟨.messageType, by simp [orGeneric], mem_error_cb hm (by simp [errorKeyFb, hmc])⟩
    · cases hD : lookup fs jkDetails with
      | none => simp [hD] at ha
      | some jd =>
        have hm := lookup_mem hD
        cases jd with
        | arr xs =>
          simp only [hD] at ha
          split at ha
          · rename_i hkw
            obtain ⟨x, hx, hax⟩ := List.mem_flatMap.mp ha
            obtain ⟨j, hsub⟩ := examineDetails_sub dbg 0 xs hx
            obtain ⟨f, hfa, hfe⟩ := detail_demands dbg j x alts hax
            refine ⟨f, hfa, ?_⟩
            simp only [List.mem_append]
            right
            rw [hasKey_of_lookup hD, if_pos rfl, typedDetails_eq hn (keysWithin_iff.mp hkw) hD]
            exact hsub f hfe
          · cases ha
        | null => simp only [hD, List.mem_singleton] at ha; subst ha
                  exact ⟨.detailsType, by simp [orGeneric], mem_error_cb hm (by simp [errorKeyFb, hdc, hdm])⟩
        | bool b => simp only [hD, List.mem_singleton] at ha; subst ha
                    exact ⟨.detailsType, by simp [orGeneric], mem_error_cb hm (by simp [errorKeyFb, hdc, hdm])⟩
        | num => simp only [hD, List.mem_singleton] at ha; subst ha
                 exact ⟨.detailsType, by simp [orGeneric], mem_error_cb hm (by simp [errorKeyFb, hdc, hdm])⟩
        | str s => simp only [hD, List.mem_singleton] at ha; subst ha
                   exact ⟨.detailsType, by simp [orGeneric], mem_error_cb hm (by simp [errorKeyFb, hdc, hdm])⟩
        | obj gs => simp only [hD, List.mem_singleton] at ha; subst ha
                    exact ⟨.detailsType, by simp [orGeneric], mem_error_cb hm (by simp [errorKeyFb, hdc, hdm])⟩

/-! ### `examineConnectEndStream` -/

theorem metaValueFb_nil (v : Json) : metaValueFb v = [] ↔ metaValueOK v = true := by
  cases v <;> simp [metaValueFb, metaValueOK]

theorem metaEntryFb_nil (name : Bytes) (values : Json) :
    metaEntryFb name values = [] ↔
      (validFieldName name = true ∧ match values with | .arr vs => vs.all metaValueOK = true | _ => False) := by
  unfold metaEntryFb
  cases values <;> simp [List.flatMap_eq_nil_iff, metaValueFb_nil]

theorem metadata_fb_nil (ms : Fields) :
    ms.flatMap (fun kv => metaEntryFb kv.1 kv.2) = [] ↔ metadataOK (.obj ms) = true := by
  unfold metadataOK
  simp only [List.flatMap_eq_nil_iff, metaEntryFb_nil, List.all_eq_true, Bool.and_eq_true]
  constructor
  · intro h kv hkv
    obtain ⟨h1, h2⟩ := h kv hkv
    refine ⟨h1, ?_⟩
    cases hv : kv.2 <;> simp [hv] at h2 ⊢
    exact h2
  · intro h kv hkv
    obtain ⟨h1, h2⟩ := h kv hkv
    refine ⟨h1, ?_⟩
    cases hv : kv.2 <;> simp [hv] at h2 ⊢
    exact h2

/-- what the callback accepts silently -/
def endMemberOK (k : Bytes) (v : Json) : Bool :=
  if k == jkError then (match v with | .obj _ => true | _ => false)
  else if k == jkMetadata then metadataOK v
  else false

theorem endKeyFb_nil (k : Bytes) (v : Json) : endKeyFb k v = [] ↔ endMemberOK k v = true := by
  unfold endKeyFb endMemberOK
  split
  · cases v <;> simp
  · split
    · cases v with
      | obj ms => simp only [metadata_fb_nil]
      | null => simp [metadataOK]
      | bool b => simp [metadataOK]
      | num => simp [metadataOK]
      | str s => simp [metadataOK]
      | arr xs => simp [metadataOK]
    · simp

theorem endMember_allowed {k : Bytes} {v : Json} (h : endMemberOK k v = true) : k ∈ allowedEnd := by
  unfold endMemberOK at h
  unfold allowedEnd
  split at h
  · simp_all
  · split at h
    · simp_all
    · cases h

theorem metaValueOK_nullOrStr {v : Json} (h : metaValueOK v = true) : nullOrStr v = true := by
  cases v <;> simp_all [metaValueOK, nullOrStr]

theorem metadataOK_typed {v : Json} (h : metadataOK v = true) : metadataTypedOK v = true := by
  cases v with
  | obj ms =>
    unfold metadataOK at h
    unfold metadataTypedOK
    simp only [List.all_eq_true, Bool.and_eq_true] at h ⊢
    intro kv hkv
    obtain ⟨_, h2⟩ := h kv hkv
    cases hv : kv.2 <;> simp [hv] at h2 ⊢
    exact fun x hx => metaValueOK_nullOrStr (h2 x hx)
  | null => simp [metadataOK] at h
  | bool b => simp [metadataOK] at h
  | num => simp [metadataOK] at h
  | str s => simp [metadataOK] at h
  | arr xs => simp [metadataOK] at h

theorem endMember_fieldOK {k : Bytes} {v : Json} (h : endMemberOK k v = true) :
    endFieldOK k v = true := by
  have hf := fold_end_keys k (endMember_allowed h)
  unfold endFieldOK
  simp only [hf.2]
  unfold endMemberOK at h
  have hem : (jkError == jkMetadata) = false := by decide
  split at h
  · rename_i h1
    simp only [beq_iff_eq] at h1; subst h1
    simp [hem]
  · split at h
    · rename_i h1 h2; simp only [h2, if_true]; exact metadataOK_typed h
    · cases h

theorem endKeyFb_invalid {k : Bytes} (v : Json) (h : k ∉ allowedEnd) : endKeyFb k v = [.sInvalidKey] := by
  simp only [allowedEnd, List.mem_cons, List.not_mem_nil, or_false, not_or] at h
  unfold endKeyFb
  simp [h.1, h.2]

/-- the top level of a well-formed end-of-stream message (the error's content aside) -/
def endShape (fs : Fields) : Bool :=
  keysWithin fs allowedEnd &&
  (match lookup fs jkError with
    | none | some (.obj _) => true
    | _ => false) &&
  (match lookup fs jkMetadata with
    | none => true
    | some m => metadataOK m)

theorem endStreamOK_obj (dbg : DebugOracle) (fs : Fields) :
    endStreamOK dbg (.obj fs) = true ↔
      dupFree (.obj fs) = true ∧ endShape fs = true ∧
      ∀ efs, lookup fs jkError = some (.obj efs) → errorOK dbg (.obj efs) = true := by
  unfold endStreamOK endShape
  simp only [Bool.and_eq_true]
  cases hE : lookup fs jkError with
  | none => simp; intros; rfl
  | some je =>
    cases je with
    | obj efs =>
      simp only [Option.some.injEq, Json.obj.injEq, forall_eq']
      constructor
      · rintro ⟨a, ⟨b, c⟩, d⟩; exact ⟨a, ⟨⟨b, trivial⟩, d⟩, c⟩
      · rintro ⟨a, ⟨⟨b, _⟩, d⟩, c⟩; exact ⟨a, ⟨b, c⟩, d⟩
    | null => simp
    | bool b => simp
    | num => simp
    | str s => simp
    | arr xs => simp

theorem endStreamOK_isObj {dbg : DebugOracle} {doc : Json} (h : endStreamOK dbg doc = true) :
    ∃ fs, doc = .obj fs := by
  cases doc with
  | obj fs => exact ⟨fs, rfl⟩
  | null => simp [endStreamOK] at h
  | bool b => simp [endStreamOK] at h
  | num => simp [endStreamOK] at h
  | str s => simp [endStreamOK] at h
  | arr xs => simp [endStreamOK] at h

theorem endShape_members {fs : Fields} (hn : (keysOf fs).Nodup) :
    endShape fs = true ↔ ∀ kv ∈ fs, endMemberOK kv.1 kv.2 = true := by
  have hme : (jkMetadata == jkError) = false := by decide
  constructor
  · intro h
    unfold endShape at h
    simp only [Bool.and_eq_true] at h
    obtain ⟨⟨hkw, he⟩, hm⟩ := h
    intro kv hkv
    have hk := keysWithin_iff.mp hkw kv hkv
    obtain ⟨k, w⟩ := kv
    simp only [allowedEnd, List.mem_cons, List.not_mem_nil, or_false] at hk
    rcases hk with rfl | rfl
    · have := lookup_of_mem hn hkv
      rw [this] at he
      cases w <;> simp at he
      simp [endMemberOK]
    · have := lookup_of_mem hn hkv
      rw [this] at hm
      simp only at hm
      simp [endMemberOK, hme, hm]
  · intro hall
    unfold endShape
    simp only [Bool.and_eq_true]
    refine ⟨⟨keysWithin_iff.mpr (fun kv hkv => endMember_allowed (hall kv hkv)), ?_⟩, ?_⟩
    · cases hE : lookup fs jkError with
      | none => rfl
      | some je =>
        have := hall _ (lookup_mem hE)
        cases je <;> simp [endMemberOK] at this
        rfl
    · cases hM : lookup fs jkMetadata with
      | none => rfl
      | some jm =>
        have := hall _ (lookup_mem hM)
        simpa [endMemberOK, hme] using this

theorem typedError_eq {fs : Fields} (hn : (keysOf fs).Nodup) (hkw : ∀ kv ∈ fs, kv.1 ∈ allowedEnd) :
    typedLast fs fERROR = lookup fs jkError :=
  typedLast_eq_lookup fs hn _ _ (fun kv hm => (fold_end_keys _ (hkw kv hm)).1)

theorem examineEnd_obj {dbg : DebugOracle} {doc : Json} {fs : Fields}
    (h : examineJSON endFieldOK doc = .ok fs) :
    examineConnectEndStream dbg doc =
      (sortFields fs).flatMap (fun kv => endKeyFb kv.1 kv.2)
      ++ (match lookup fs jkError with
          | some (.obj _) => examineConnectError dbg ((typedLast fs fERROR).getD .null)
          | _ => []) := by
  unfold examineConnectEndStream; rw [h]; rfl

/-- `examineConnectEndStream` is silent exactly on the well-formed end-of-stream messages -/
theorem end_silent_iff (dbg : DebugOracle) (doc : Json) :
    examineConnectEndStream dbg doc = [] ↔ endStreamOK dbg doc = true := by
  constructor
  · intro h
    cases hj : examineJSON endFieldOK doc with
    | error f => unfold examineConnectEndStream at h; rw [hj] at h; cases h
    | ok fs =>
      rw [examineEnd_obj hj] at h
      obtain ⟨rfl, _, hdf⟩ := examineJSON_ok.mp hj
      have hn := (dupFree_obj.mp hdf).1
      simp only [List.append_eq_nil_iff] at h
      obtain ⟨hcb, her⟩ := h
      have hall : ∀ kv ∈ fs, endMemberOK kv.1 kv.2 = true := fun kv hkv =>
        (endKeyFb_nil _ _).mp ((sorted_flatMap_nil _ _).mp hcb kv hkv)
      refine (endStreamOK_obj dbg fs).mpr ⟨hdf, (endShape_members hn).mpr hall, ?_⟩
      intro efs hE
      rw [typedError_eq hn (fun kv hkv => endMember_allowed (hall kv hkv)), hE] at her
      exact (error_silent_iff dbg _).mp her
  · intro h
    obtain ⟨fs, rfl⟩ := endStreamOK_isObj h
    obtain ⟨hdf, hsh, herr⟩ := (endStreamOK_obj dbg fs).mp h
    have hn := (dupFree_obj.mp hdf).1
    have hall := (endShape_members hn).mp hsh
    have hj : examineJSON endFieldOK (.obj fs) = .ok fs :=
      examineJSON_ok.mpr ⟨rfl, by
        simp only [List.all_eq_true]
        exact fun kv hkv => endMember_fieldOK (hall kv hkv), hdf⟩
    rw [examineEnd_obj hj]
    simp only [List.append_eq_nil_iff]
    refine ⟨(sorted_flatMap_nil _ _).mpr (fun kv hkv => (endKeyFb_nil _ _).mpr (hall kv hkv)), ?_⟩
    rw [typedError_eq hn (fun kv hkv => endMember_allowed (hall kv hkv))]
    cases hE : lookup fs jkError with
    | none => rfl
    | some je =>
      cases je with
      | obj efs => exact (error_silent_iff dbg _).mpr (herr efs hE)
      | null => rfl
      | bool b => rfl
      | num => rfl
      | str s => rfl
      | arr xs => rfl

theorem allGeneric_metaEntry (name : Bytes) (values : Json) : AllGeneric (mustFlagMetaEntry name values) := by
  unfold mustFlagMetaEntry
  refine allGeneric_append ?_ ?_
  · split
    · exact allGeneric_nil
    · exact allGeneric_orGeneric _
  · cases values with
    | arr vs =>
      refine allGeneric_flatMap _ _ (fun v _ => ?_)
      unfold mustFlagMetaValue
      cases v with
      | str s =>
        simp only
        split
        · exact allGeneric_nil
        · exact allGeneric_orGeneric _
      | null => exact allGeneric_orGeneric _
      | bool b => exact allGeneric_orGeneric _
      | num => exact allGeneric_orGeneric _
      | arr xs => exact allGeneric_orGeneric _
      | obj gs => exact allGeneric_orGeneric _
    | null => exact allGeneric_orGeneric _
    | bool b => exact allGeneric_orGeneric _
    | num => exact allGeneric_orGeneric _
    | str s => exact allGeneric_orGeneric _
    | obj gs => exact allGeneric_orGeneric _

theorem allGeneric_end (doc : Json) : AllGeneric (mustFlagEndStream doc) := by
  unfold mustFlagEndStream
  refine allGeneric_append ?_ ?_
  · split
    · exact allGeneric_nil
    · exact allGeneric_generic
  · cases doc with
    | obj fs =>
      refine allGeneric_append (allGeneric_append ?_ ?_) ?_
      · split
        · exact allGeneric_nil
        · exact allGeneric_orGeneric _
      · split
        · exact allGeneric_nil
        · split
          · exact allGeneric_error _
          · exact allGeneric_nil
        · exact allGeneric_orGeneric _
      · split
        · exact allGeneric_nil
        · exact allGeneric_flatMap _ _ (fun kv _ => allGeneric_metaEntry kv.1 kv.2)
        · exact allGeneric_orGeneric _
    | null => exact allGeneric_generic
    | bool b => exact allGeneric_generic
    | num => exact allGeneric_generic
    | str s => exact allGeneric_generic
    | arr xs => exact allGeneric_generic

theorem metaEntry_demands (name : Bytes) (values : Json) :
    ∀ alts ∈ mustFlagMetaEntry name values, ∃ f ∈ alts, f ∈ metaEntryFb name values := by
  intro alts ha
  unfold mustFlagMetaEntry at ha
  unfold metaEntryFb
  simp only [List.mem_append] at ha ⊢
  rcases ha with ha | ha
  · split at ha
    · cases ha
    · rename_i hv
      simp only [List.mem_singleton] at ha; subst ha
      exact ⟨.sMetaName, by simp [orGeneric], Or.inl (by simp [hv])⟩
  · cases values with
    | arr vs =>
      simp only [List.mem_flatMap] at ha ⊢
      obtain ⟨v, hv, hav⟩ := ha
      unfold mustFlagMetaValue at hav
      cases v with
      | str s =>
        simp only at hav
        split at hav
        · cases hav
        · rename_i hs
          simp only [List.mem_singleton] at hav; subst hav
          exact ⟨.sMetaValue, by simp [orGeneric], Or.inr ⟨_, hv, by simp [metaValueFb, hs]⟩⟩
      | null => simp only [List.mem_singleton] at hav; subst hav
                exact ⟨.sMetaValueType, by simp [orGeneric], Or.inr ⟨_, hv, by simp [metaValueFb]⟩⟩
      | bool b => simp only [List.mem_singleton] at hav; subst hav
                  exact ⟨.sMetaValueType, by simp [orGeneric], Or.inr ⟨_, hv, by simp [metaValueFb]⟩⟩
      | num => simp only [List.mem_singleton] at hav; subst hav
               exact ⟨.sMetaValueType, by simp [orGeneric], Or.inr ⟨_, hv, by simp [metaValueFb]⟩⟩
      | arr xs => simp only [List.mem_singleton] at hav; subst hav
                  exact ⟨.sMetaValueType, by simp [orGeneric], Or.inr ⟨_, hv, by simp [metaValueFb]⟩⟩
      | obj gs => simp only [List.mem_singleton] at hav; subst hav
                  exact ⟨.sMetaValueType, by simp [orGeneric], Or.inr ⟨_, hv, by simp [metaValueFb]⟩⟩
    | null => simp only [List.mem_singleton] at ha; subst ha
              exact ⟨.sMetaArray, by simp [orGeneric], Or.inr (by simp)⟩
    | bool b => simp only [List.mem_singleton] at ha; subst ha
                exact ⟨.sMetaArray, by simp [orGeneric], Or.inr (by simp)⟩
    | num => simp only [List.mem_singleton] at ha; subst ha
             exact ⟨.sMetaArray, by simp [orGeneric], Or.inr (by simp)⟩
    | str s => simp only [List.mem_singleton] at ha; subst ha
               exact ⟨.sMetaArray, by simp [orGeneric], Or.inr (by simp)⟩
    | obj gs => simp only [List.mem_singleton] at ha; subst ha
                exact ⟨.sMetaArray, by simp [orGeneric], Or.inr (by simp)⟩

theorem mem_end_cb {fs : Fields} {rest : List CFb} {kv : Bytes × Json} {f : CFb}
    (hkv : kv ∈ fs) (hf : f ∈ endKeyFb kv.1 kv.2) :
    f ∈ (sortFields fs).flatMap (fun kv => endKeyFb kv.1 kv.2) ++ rest := by
  simp only [List.mem_append, mem_sorted_flatMap]
  exact Or.inl ⟨kv, hkv, hf⟩

/-- every malformation of a Connect end-of-stream message the checks name is reported -/
theorem end_demands (dbg : DebugOracle) (doc : Json) :
    ∀ alts ∈ mustFlagEndStream doc, ∃ f ∈ alts, f ∈ examineConnectEndStream dbg doc := by
  intro alts ha
  cases hj : examineJSON endFieldOK doc with
  | error g =>
    refine ⟨g, allGeneric_end doc alts ha g (examineJSON_error hj), ?_⟩
    unfold examineConnectEndStream; rw [hj]; simp
  | ok fs =>
    obtain ⟨rfl, _, hdf⟩ := examineJSON_ok.mp hj
    have hn := (dupFree_obj.mp hdf).1
    rw [examineEnd_obj hj]
    unfold mustFlagEndStream at ha
    simp only [hdf, if_true, List.nil_append, List.mem_append] at ha
    have hme : (jkMetadata == jkError) = false := by decide
    rcases ha with (ha | ha) | ha
    · split at ha
      · cases ha
      · rename_i hkw
        simp only [List.mem_singleton] at ha; subst ha
        obtain ⟨kv, hkv, hnot⟩ := not_keysWithin (by simpa using hkw)
        exact ⟨.sInvalidKey, by simp [orGeneric], mem_end_cb hkv (by simp [endKeyFb_invalid _ hnot])⟩
    · cases hE : lookup fs jkError with
      | none => simp [hE] at ha
      | some je =>
        have hm := lookup_mem hE
        cases je with
        | obj efs =>
          simp only [hE] at ha
          split at ha
          · rename_i hkw
            obtain ⟨f, hfa, hfe⟩ := error_demands dbg (.obj efs) alts ha
            refine ⟨f, hfa, ?_⟩
            simp only [List.mem_append]
            right
            rw [typedError_eq hn (keysWithin_iff.mp hkw), hE]
            exact hfe
          · cases ha
        | null => simp only [hE, List.mem_singleton] at ha; subst ha
                  exact ⟨.sErrorType, by simp [orGeneric], mem_end_cb hm (by simp [endKeyFb])⟩
        | bool b => simp only [hE, List.mem_singleton] at ha; subst ha
                    exact ⟨.sErrorType, by simp [orGeneric], mem_end_cb hm (by simp [endKeyFb])⟩
        | num => simp only [hE, List.mem_singleton] at ha; subst ha
                 exact ⟨.sErrorType, by simp [orGeneric], mem_end_cb hm (by simp [endKeyFb])⟩
        | str s => simp only [hE, List.mem_singleton] at ha; subst ha
                   exact ⟨.sErrorType, by simp [orGeneric], mem_end_cb hm (by simp [endKeyFb])⟩
        | arr xs => simp only [hE, List.mem_singleton] at ha; subst ha
                    exact ⟨.sErrorType, by simp [orGeneric], mem_end_cb hm (by simp [endKeyFb])⟩
    · cases hM : lookup fs jkMetadata with
      | none => simp [hM] at ha
      | some jm =>
        have hm := lookup_mem hM
        cases jm with
        | obj ms =>
          simp only [hM, List.mem_flatMap] at ha
          obtain ⟨kv, hkv, hakv⟩ := ha
          obtain ⟨f, hfa, hfe⟩ := metaEntry_demands kv.1 kv.2 alts hakv
          refine ⟨f, hfa, mem_end_cb hm ?_⟩
          simp only [endKeyFb, hme, Bool.false_eq_true, if_false, beq_self_eq_true, if_true, List.mem_flatMap]
          exact ⟨kv, hkv, hfe⟩
        | null => simp only [hM, List.mem_singleton] at ha; subst ha
                  exact ⟨.sMetadataType, by simp [orGeneric], mem_end_cb hm (by simp [endKeyFb, hme])⟩
        | bool b => simp only [hM, List.mem_singleton] at ha; subst ha
                    exact ⟨.sMetadataType, by simp [orGeneric], mem_end_cb hm (by simp [endKeyFb, hme])⟩
        | num => simp only [hM, List.mem_singleton] at ha; subst ha
                 exact ⟨.sMetadataType, by simp [orGeneric], mem_end_cb hm (by simp [endKeyFb, hme])⟩
        | str s => simp only [hM, List.mem_singleton] at ha; subst ha
                   exact ⟨.sMetadataType, by simp [orGeneric], mem_end_cb hm (by simp [endKeyFb, hme])⟩
        | arr xs => simp only [hM, List.mem_singleton] at ha; subst ha
                    exact ⟨.sMetadataType, by simp [orGeneric], mem_end_cb hm (by simp [endKeyFb, hme])⟩

/-! ### the documents connect-go writes are well-formed -/

theorem encChar_no_crlf : ∀ n : Fin 64,
    (!((Base64.encChar n.val).toNat == 10 || (Base64.encChar n.val).toNat == 13)) = true := by decide

theorem rawStdDecode_encode (x : Bytes) : rawStdDecode (Base64.encode x) = some x := by
  unfold rawStdDecode
  have : (Base64.encode x).filter (fun c => !(c.toNat == 10 || c.toNat == 13)) = Base64.encode x := by
    rw [List.filter_eq_self]
    intro c hc
    simp only [Base64.encode, List.mem_map] at hc
    obtain ⟨s, hs, rfl⟩ := hc
    exact encChar_no_crlf ⟨s, Base64.sextets_lt _ (Base64.toNat_lt x) s hs⟩
  rw [this, Base64.decodeRaw_encode]

theorem codeName_known : ∀ c : Fin 16, codeNames.contains (codeName (c.val + 1)) = true := by decide

theorem codeName_contains {code : Nat} (h1 : 1 ≤ code) (h2 : code ≤ 16) :
    codeNames.contains (codeName code) = true := by
  have := codeName_known ⟨code - 1, by omega⟩
  simp only at this
  rwa [show code - 1 + 1 = code by omega] at this

theorem jk_ne : jkMessage ≠ jkCode ∧ jkDetails ≠ jkCode ∧ jkDetails ≠ jkMessage ∧
    jkValue ≠ jkType ∧ jkDebug ≠ jkType ∧ jkDebug ≠ jkValue ∧ jkMetadata ≠ jkError := by decide

theorem encodeDetail_dupFree (d : Detail) (h : ∀ j, d.debug = some j → dupFree j = true) :
    dupFree (encodeDetail d) = true := by
  obtain ⟨h1, h2, h3, h4, h5, h6, h7⟩ := jk_ne
  unfold encodeDetail
  cases hd : d.debug with
  | none => simp [dupFree, dupFreeFields, keysOf, h4.symm]
  | some j => simp [dupFree, dupFreeFields, keysOf, h4.symm, h5.symm, h6.symm, h j hd]

theorem encodeDetail_ok (dbg : DebugOracle) (i : Nat) (d : Detail) (hv : validFullName d.type = true)
    (hdbg : d.debug.isSome = true → dbg i d.type d.value = none) :
    detailOK dbg i (encodeDetail d) = true := by
  obtain ⟨h1, h2, h3, h4, h5, h6, h7⟩ := jk_ne
  unfold encodeDetail detailOK
  cases hd : d.debug with
  | none =>
    simp [lookup, hasKey, keysWithin, keysOf, allowedDetail, h4, h4.symm, h5.symm, h6.symm,
      rawStdDecode_encode, hv]
  | some j =>
    have := hdbg (by simp [hd])
    simp [lookup, hasKey, keysWithin, keysOf, allowedDetail, h4, h4.symm, h5.symm, h6.symm,
      rawStdDecode_encode, hv, this]

theorem encodeDetails_ok (dbg : DebugOracle) (i : Nat) (ds : List Detail) (h : detailsFine dbg i ds = true) :
    detailsOK dbg i (ds.map encodeDetail) = true ∧ ∀ x ∈ ds.map encodeDetail, dupFree x = true := by
  induction ds generalizing i with
  | nil => simp [detailsOK]
  | cons d t ih =>
    simp only [detailsFine, Bool.and_eq_true] at h
    obtain ⟨⟨hv, hd⟩, ht⟩ := h
    obtain ⟨ih1, ih2⟩ := ih (i + 1) ht
    simp only [List.map_cons, detailsOK, Bool.and_eq_true, List.mem_cons, forall_eq_or_imp]
    refine ⟨⟨encodeDetail_ok dbg i d hv ?_, ih1⟩, encodeDetail_dupFree d ?_, ih2⟩
    · intro hs
      cases hj : d.debug with
      | none => simp [hj] at hs
      | some j => simp only [hj, Bool.and_eq_true] at hd; simpa using hd.2
    · intro j hj
      simp only [hj, Bool.and_eq_true] at hd; exact hd.1

/-- the document connect-go's error writer produces is a well-formed Connect error -/
theorem encodeError_ok (dbg : DebugOracle) (code : Nat) (msg : Bytes) (details : List Detail)
    (h1 : 1 ≤ code) (h2 : code ≤ 16) (hd : detailsFine dbg 0 details = true) :
    errorOK dbg (encodeError code msg details) = true := by
  obtain ⟨n1, n2, n3, n4, n5, n6, n7⟩ := jk_ne
  obtain ⟨hok, hdf⟩ := encodeDetails_ok dbg 0 details hd
  have hc := codeName_contains h1 h2
  have hdl : dupFreeList (details.map encodeDetail) = true := dupFreeList_iff.mpr hdf
  unfold encodeError
  rw [errorOK_obj]
  cases hm : msg.isEmpty <;> cases hde : details.isEmpty <;>
    simp [dupFree, dupFreeFields, keysOf, errorShape, keysWithin, allowedError, lookup,
      n1, n2, n3, n1.symm, n2.symm, n3.symm, hok, hdl] <;> simpa using hc

theorem encodeMetadata_ok (md : List (Bytes × List Bytes)) (h : metadataFine md = true) :
    metadataOK (encodeMetadata md) = true ∧ dupFree (encodeMetadata md) = true := by
  unfold metadataFine at h
  simp only [Bool.and_eq_true, decide_eq_true_eq, List.all_eq_true] at h
  obtain ⟨hn, hall⟩ := h
  unfold encodeMetadata
  constructor
  · unfold metadataOK
    simp only [List.all_eq_true, List.mem_map, Bool.and_eq_true]
    rintro kv ⟨a, ha, rfl⟩
    obtain ⟨hk, hv⟩ := hall a ha
    refine ⟨hk, ?_⟩
    simp only [List.all_eq_true, List.mem_map]
    rintro v ⟨b, hb, rfl⟩
    exact hv b hb
  · rw [dupFree_obj]
    constructor
    · have : keysOf (md.map (fun kv => (kv.1, Json.arr (kv.2.map .str)))) = md.map (·.1) := by
        simp [keysOf, List.map_map, Function.comp_def]
      rw [this]; exact hn
    · rw [dupFreeFields_iff]
      simp only [List.mem_map]
      rintro kv ⟨a, ha, rfl⟩
      rw [dupFree_arr]
      simp only [List.mem_map]
      rintro v ⟨b, hb, rfl⟩
      simp [dupFree]

/-- the end-of-stream message connect-go writes is well-formed -/
theorem encodeEndStream_ok (dbg : DebugOracle) (err : Option (Nat × Bytes × List Detail))
    (md : List (Bytes × List Bytes))
    (herr : ∀ code msg details, err = some (code, msg, details) →
      1 ≤ code ∧ code ≤ 16 ∧ detailsFine dbg 0 details = true)
    (hmd : metadataFine md = true) :
    endStreamOK dbg (encodeEndStream err md) = true := by
  obtain ⟨n1, n2, n3, n4, n5, n6, n7⟩ := jk_ne
  obtain ⟨hmo, hmdf⟩ := encodeMetadata_ok md hmd
  unfold encodeEndStream
  rw [endStreamOK_obj]
  cases err with
  | none =>
    cases hme : md.isEmpty <;>
      simp [dupFree, dupFreeFields, keysOf, endShape, keysWithin, allowedEnd, lookup, n7, hmo] <;>
      simpa [dupFree] using hmdf
  | some e =>
    obtain ⟨code, msg, details⟩ := e
    obtain ⟨h1, h2, hd⟩ := herr code msg details rfl
    have hok := encodeError_ok dbg code msg details h1 h2 hd
    have hdf : dupFree (encodeError code msg details) = true := by
      unfold errorOK at hok; simp only [Bool.and_eq_true] at hok; exact hok.1
    obtain ⟨efs, hefs⟩ : ∃ efs, encodeError code msg details = .obj efs := ⟨_, rfl⟩
    rw [hefs] at hok hdf
    simp only [hefs]
    cases hme : md.isEmpty <;>
      simp [dupFree_obj, dupFreeFields, keysOf, endShape, keysWithin, allowedEnd, lookup, n7, n7.symm, hmo,
        hok, hdf, hmdf]

/-! ### per-class statements: what a document that passes the generic layer yields -/

theorem passes_ok {fieldOK : Bytes → Json → Bool} {fs : Fields} (h : passesJSON fieldOK fs = true) :
    examineJSON fieldOK (.obj fs) = .ok fs := by
  unfold passesJSON at h
  simp only [Bool.and_eq_true] at h
  exact examineJSON_ok.mpr ⟨rfl, h.1, h.2⟩

/-- a duplicate key at any depth of a document that decodes into the struct -/
theorem dup_flagged {fieldOK : Bytes → Json → Bool} {fs : Fields}
    (ht : fs.all (fun kv => fieldOK kv.1 kv.2) = true) (hd : dupFree (.obj fs) = false) :
    examineJSON fieldOK (.obj fs) = .error .dupKey := by
  unfold examineJSON typedObject
  simp [ht, hd]

theorem error_cb_mem {dbg : DebugOracle} {fs : Fields} (hp : passesJSON errorFieldOK fs = true)
    {k : Bytes} {v : Json} (hm : (k, v) ∈ fs) {f : CFb} (hf : f ∈ errorKeyFb k v) :
    f ∈ examineConnectError dbg (.obj fs) := by
  rw [examineError_obj (passes_ok hp)]
  exact mem_error_cb hm hf

theorem error_missing_code {dbg : DebugOracle} {fs : Fields} (hp : passesJSON errorFieldOK fs = true)
    (h : hasKey fs jkCode = false) : CFb.missingCode ∈ examineConnectError dbg (.obj fs) := by
  rw [examineError_obj (passes_ok hp)]
  simp [h]

theorem detail_cb_mem {dbg : DebugOracle} {i : Nat} {fs : Fields} (hp : passesJSON detailFieldOK fs = true)
    {k : Bytes} {v : Json} (hm : (k, v) ∈ fs) {f : CFb} (hf : f ∈ detailKeyFb k v) :
    f ∈ examineDetail dbg i (.obj fs) := by
  rw [examineDetail_obj (passes_ok hp)]
  exact mem_detail_cb hm hf

theorem detail_missing {dbg : DebugOracle} {i : Nat} {fs : Fields} (hp : passesJSON detailFieldOK fs = true) :
    (hasKey fs jkType = false → CFb.dMissingType ∈ examineDetail dbg i (.obj fs)) ∧
    (hasKey fs jkValue = false → CFb.dMissingValue ∈ examineDetail dbg i (.obj fs)) := by
  rw [examineDetail_obj (passes_ok hp)]
  constructor <;> intro h <;> simp [h]

theorem examineDetails_idx (dbg : DebugOracle) (i : Nat) (xs : List Json) (j : Nat) (hj : j < xs.length) :
    ∀ f ∈ examineDetail dbg (i + j) xs[j], f ∈ examineDetails dbg i xs := by
  induction xs generalizing i j with
  | nil => simp at hj
  | cons a t ih =>
    intro f hf
    simp only [examineDetails, List.mem_append]
    cases j with
    | zero => left; simpa using hf
    | succ j =>
      right
      have := ih (i + 1) j (by simpa using hj) f (by
        simp only [List.getElem_cons_succ] at hf
        rwa [show i + 1 + j = i + (j + 1) by omega])
      exact this

/-- the feedback on detail `j` is part of the feedback on the error (no unknown key at the
top, so that struct decoding and the callback look at the same `details`) -/
theorem detail_in_error {dbg : DebugOracle} {fs : Fields} (hp : passesJSON errorFieldOK fs = true)
    (hkw : keysWithin fs allowedError = true) {xs : List Json} (hD : lookup fs jkDetails = some (.arr xs))
    (j : Nat) (hj : j < xs.length) :
    ∀ f ∈ examineDetail dbg j xs[j], f ∈ examineConnectError dbg (.obj fs) := by
  intro f hf
  have hn : (keysOf fs).Nodup := by
    unfold passesJSON at hp; simp only [Bool.and_eq_true] at hp
    exact (dupFree_obj.mp hp.2).1
  rw [examineError_obj (passes_ok hp)]
  simp only [List.mem_append]
  right
  rw [hasKey_of_lookup hD, if_pos rfl, typedDetails_eq hn (keysWithin_iff.mp hkw) hD]
  exact examineDetails_idx dbg 0 xs j hj f (by simpa using hf)

theorem end_cb_mem {dbg : DebugOracle} {fs : Fields} (hp : passesJSON endFieldOK fs = true)
    {k : Bytes} {v : Json} (hm : (k, v) ∈ fs) {f : CFb} (hf : f ∈ endKeyFb k v) :
    f ∈ examineConnectEndStream dbg (.obj fs) := by
  rw [examineEnd_obj (passes_ok hp)]
  exact mem_end_cb hm hf

/-- the feedback on the enclosed error is part of the feedback on the end-of-stream message -/
theorem error_in_end {dbg : DebugOracle} {fs : Fields} (hp : passesJSON endFieldOK fs = true)
    (hkw : keysWithin fs allowedEnd = true) {efs : Fields} (hE : lookup fs jkError = some (.obj efs)) :
    ∀ f ∈ examineConnectError dbg (.obj efs), f ∈ examineConnectEndStream dbg (.obj fs) := by
  intro f hf
  have hn : (keysOf fs).Nodup := by
    unfold passesJSON at hp; simp only [Bool.and_eq_true] at hp
    exact (dupFree_obj.mp hp.2).1
  rw [examineEnd_obj (passes_ok hp)]
  simp only [List.mem_append]
  right
  rw [typedError_eq hn (keysWithin_iff.mp hkw), hE]
  exact hf

/-! ### type URLs and the debug comparison -/

theorem takeWhile_stop {α} (p : α → Bool) (l : List α) (a : α) (r : List α)
    (hl : ∀ x ∈ l, p x = true) (ha : p a = false) : (l ++ a :: r).takeWhile p = l := by
  induction l with
  | nil => simp [ha]
  | cons x t ih =>
    have hx : p x = true := hl x (by simp)
    simp only [List.cons_append, List.takeWhile_cons, hx, if_true]
    rw [ih (fun y hy => hl y (by simp [hy]))]

theorem takeWhile_all {α} (p : α → Bool) (l : List α) (hl : ∀ x ∈ l, p x = true) : l.takeWhile p = l := by
  induction l with
  | nil => rfl
  | cons x t ih =>
    have hx : p x = true := hl x (by simp)
    simp only [List.takeWhile_cons, hx, if_true]
    rw [ih (fun y hy => hl y (by simp [hy]))]

theorem mem_takeWhile_pos {α} (p : α → Bool) (l : List α) (x : α) (hx : x ∈ l.takeWhile p) : p x = true := by
  induction l with
  | nil => cases hx
  | cons a t ih =>
    by_cases ha : p a = true
    · simp only [List.takeWhile_cons, ha, if_true, List.mem_cons] at hx
      rcases hx with rfl | hx
      · exact ha
      · exact ih hx
    · have ha' : p a = false := by simpa using ha
      simp [ha'] at hx

theorem dropWhile_head {α} (p : α → Bool) (l : List α) :
    l.dropWhile p = [] ∨ ∃ c r, l.dropWhile p = c :: r ∧ p c = false := by
  induction l with
  | nil => exact Or.inl rfl
  | cons a t ih =>
    by_cases ha : p a = true
    · simpa [List.dropWhile_cons, ha] using ih
    · have ha' : p a = false := by simpa using ha
      exact Or.inr ⟨a, t, by simp [ha'], ha'⟩

theorem notSlash_of_not_mem (n : Bytes) (hn : (47 : UInt8) ∉ n) :
    ∀ x ∈ n.reverse, (fun c : UInt8 => c != 47) x = true := by
  intro x hx
  have hx' : x ∈ n := by simpa using hx
  have : x ≠ 47 := fun h => hn (h ▸ hx')
  simpa using this

/-- whatever stands in front of the last slash, the name is what follows it -/
theorem typeNameOfUrl_prefixed (p n : Bytes) (hn : (47 : UInt8) ∉ n) : typeNameOfUrl (p ++ 47 :: n) = n := by
  unfold typeNameOfUrl
  have hrev : (p ++ 47 :: n).reverse = n.reverse ++ 47 :: p.reverse := by simp
  rw [hrev, takeWhile_stop _ _ _ _ (notSlash_of_not_mem n hn) (by simp)]
  simp

theorem typeNameOfUrl_noSlash (n : Bytes) (hn : (47 : UInt8) ∉ n) : typeNameOfUrl n = n := by
  unfold typeNameOfUrl
  rw [takeWhile_all _ _ (notSlash_of_not_mem n hn)]
  simp

theorem typeNameOfUrl_iff (url n : Bytes) : typeNameOfUrl url = n ↔ urlNames url n = true := by
  unfold urlNames
  simp only [Bool.and_eq_true, Bool.not_eq_true', Bool.or_eq_true, beq_iff_eq, List.isSuffixOf_iff_suffix]
  constructor
  · intro h
    have hsplit := List.takeWhile_append_dropWhile (p := fun c : UInt8 => c != 47) (l := url.reverse)
    have hn : (47 : UInt8) ∉ n := by
      intro hm
      rw [← h] at hm
      unfold typeNameOfUrl at hm
      have := mem_takeWhile_pos _ _ _ (List.mem_reverse.mp hm)
      simp at this
    refine ⟨by simpa using hn, ?_⟩
    have hn' : (url.reverse.takeWhile (fun c : UInt8 => c != 47)) = n.reverse := by
      unfold typeNameOfUrl at h
      rw [← h]; simp
    rcases dropWhile_head (fun c : UInt8 => c != 47) url.reverse with hd | ⟨c, r, hd, hc⟩
    · left
      rw [hd, List.append_nil, hn'] at hsplit
      have := congrArg List.reverse hsplit
      simpa using this.symm
    · right
      have hc' : c = 47 := by simpa using hc
      subst hc'
      rw [hd, hn'] at hsplit
      have := congrArg List.reverse hsplit
      simp only [List.reverse_append, List.reverse_cons, List.reverse_reverse, List.append_assoc,
        List.singleton_append] at this
      exact ⟨r.reverse, this⟩
  · rintro ⟨hn, h⟩
    have hn' : (47 : UInt8) ∉ n := by simpa using hn
    rcases h with rfl | ⟨p, rfl⟩
    · exact typeNameOfUrl_noSlash _ hn'
    · exact typeNameOfUrl_prefixed p n hn'

theorem debugDataFb_none_iff (msgName : Bytes) (s : DebugSteps) :
    debugDataFb msgName s = none ↔ debugOK msgName s = true := by
  unfold debugDataFb debugOK
  cases hr : s.resolved <;> cases hv : s.valueOK <;> cases hd : s.directOK <;> cases he : s.eqDirect <;>
    simp
  all_goals
    cases hu : s.anyUrl with
    | none => simp
    | some url =>
      simp only []
      by_cases hn : typeNameOfUrl url = msgName
      · have hu' : urlNames url msgName = true := (typeNameOfUrl_iff url msgName).mp hn
        cases hnw : s.newOK <;> cases hea : s.eqAny <;> simp [hn, hu']
      · have hu' : urlNames url msgName = false := by
          cases h : urlNames url msgName with
          | false => rfl
          | true => exact absurd ((typeNameOfUrl_iff url msgName).mpr h) hn
        simp [hn, hu']

/-! ### the declarative side looks at the oracle only through "is it silent" -/

theorem detailOK_congr {d1 d2 : DebugOracle} (h : ∀ i t d, (d1 i t d).isNone = (d2 i t d).isNone)
    (i : Nat) (j : Json) : detailOK d1 i j = detailOK d2 i j := by
  cases j with
  | obj fs =>
    simp only [detailOK]
    cases hT : lookup fs jkType with
    | none => rfl
    | some a =>
      cases a with
      | str t =>
        cases hV : lookup fs jkValue with
        | none => rfl
        | some b =>
          cases b with
          | str v =>
            simp only []
            cases hR : rawStdDecode v with
            | none => rfl
            | some data => simp only [h]
          | _ => rfl
      | _ => rfl
  | _ => rfl

theorem detailsOK_congr {d1 d2 : DebugOracle} (h : ∀ i t d, (d1 i t d).isNone = (d2 i t d).isNone)
    (i : Nat) (xs : List Json) : detailsOK d1 i xs = detailsOK d2 i xs := by
  induction xs generalizing i with
  | nil => rfl
  | cons x t ih => simp only [detailsOK, detailOK_congr h, ih]

theorem errorOK_congr {d1 d2 : DebugOracle} (h : ∀ i t d, (d1 i t d).isNone = (d2 i t d).isNone)
    (doc : Json) : errorOK d1 doc = errorOK d2 doc := by
  cases doc with
  | obj fs =>
    simp only [errorOK]
    cases hD : lookup fs jkDetails with
    | none => rfl
    | some a =>
      cases a with
      | arr xs => simp only [detailsOK_congr h]
      | _ => rfl
  | _ => rfl

theorem endStreamOK_congr {d1 d2 : DebugOracle} (h : ∀ i t d, (d1 i t d).isNone = (d2 i t d).isNone)
    (doc : Json) : endStreamOK d1 doc = endStreamOK d2 doc := by
  cases doc with
  | obj fs =>
    simp only [endStreamOK]
    cases hE : lookup fs jkError with
    | none => rfl
    | some a =>
      cases a with
      | obj efs => simp only [errorOK_congr h]
      | _ => rfl
  | _ => rfl

theorem detailsFine_congr {d1 d2 : DebugOracle} (h : ∀ i t d, (d1 i t d).isNone = (d2 i t d).isNone)
    (i : Nat) (ds : List Detail) : detailsFine d1 i ds = detailsFine d2 i ds := by
  induction ds generalizing i with
  | nil => rfl
  | cons x t ih =>
    unfold detailsFine
    rw [ih]
    cases x.debug with
    | none => rfl
    | some j => simp only [h]

theorem steps_spec_isNone (st : StepsOracle) (i : Nat) (t d : Bytes) :
    (stepsOracle st i t d).isNone = (debugSpecOracle st i t d).isNone := by
  unfold stepsOracle debugSpecOracle
  cases hk : debugOK t (st i t d) with
  | true => simp [(debugDataFb_none_iff t (st i t d)).mpr hk]
  | false =>
    cases hf : debugDataFb t (st i t d) with
    | none => rw [(debugDataFb_none_iff t (st i t d)).mp hf] at hk; cases hk
    | some f => simp

theorem mapM_none {α β} (f : α → Option β) (l : List α) (a : α) (ha : a ∈ l) (hf : f a = none) :
    Base64.mapM? f l = none := by
  induction l with
  | nil => cases ha
  | cons x t ih =>
    simp only [List.mem_cons] at ha
    unfold Base64.mapM?
    rcases ha with rfl | ha
    · simp [hf]
    · rw [ih ha]
      cases f x <;> rfl

/-- a byte outside the standard alphabet (other than CR, LF) anywhere - in particular the
padding character `=` - makes the value invalid -/
theorem rawStd_rejects (v : Bytes) (b : UInt8) (hb : b ∈ v) (hd : Base64.decChar b = none)
    (h10 : b.toNat ≠ 10) (h13 : b.toNat ≠ 13) : rawStdDecode v = none := by
  unfold rawStdDecode Base64.decodeRaw
  rw [mapM_none Base64.decChar _ b (by
    simp only [List.mem_filter]
    exact ⟨hb, by simp [h10, h13]⟩) hd]

/-! ### duplicate detection is per object -/

theorem not_dupFree_of_hasRepeatedKey {j : Json} (h : HasRepeatedKey j) : dupFree j = false := by
  induction h with
  | here hn =>
    cases hd : dupFree (Json.obj _) with
    | false => rfl
    | true => exact absurd (dupFree_obj.mp hd).1 hn
  | member hm _ ih =>
    cases hd : dupFree (Json.obj _) with
    | false => rfl
    | true => rw [dupFree_member hd hm] at ih; cases ih
  | elem hm _ ih =>
    cases hd : dupFree (Json.arr _) with
    | false => rfl
    | true => rw [dupFree_arr.mp hd _ hm] at ih; cases ih

mutual
theorem hasRepeatedKey_of_not_dupFree : (j : Json) → dupFree j = false → HasRepeatedKey j
  | .arr xs, h => by
    have h' : dupFreeList xs = false := by simpa [dupFree] using h
    obtain ⟨x, hx, hr⟩ := hasRepeatedKey_list xs h'
    exact .elem hx hr
  | .obj fs, h => by
    by_cases hn : (keysOf fs).Nodup
    · have h' : dupFreeFields fs = false := by
        cases hf : dupFreeFields fs with
        | false => rfl
        | true => rw [dupFree_obj.mpr ⟨hn, hf⟩] at h; cases h
      obtain ⟨k, v, hm, hr⟩ := hasRepeatedKey_fields fs h'
      exact .member hm hr
    · exact .here hn
  | .null, h => by simp [dupFree] at h
  | .bool _, h => by simp [dupFree] at h
  | .num, h => by simp [dupFree] at h
  | .str _, h => by simp [dupFree] at h
theorem hasRepeatedKey_list : (xs : List Json) → dupFreeList xs = false → ∃ x ∈ xs, HasRepeatedKey x
  | [], h => by simp [dupFreeList] at h
  | x :: xs, h => by
    cases hx : dupFree x with
    | false => exact ⟨x, List.mem_cons_self, hasRepeatedKey_of_not_dupFree x hx⟩
    | true =>
      have h' : dupFreeList xs = false := by simpa [dupFreeList, hx] using h
      obtain ⟨y, hy, hr⟩ := hasRepeatedKey_list xs h'
      exact ⟨y, List.mem_cons_of_mem _ hy, hr⟩
theorem hasRepeatedKey_fields : (fs : Fields) → dupFreeFields fs = false →
    ∃ k v, (k, v) ∈ fs ∧ HasRepeatedKey v
  | [], h => by simp [dupFreeFields] at h
  | (k, v) :: fs, h => by
    cases hx : dupFree v with
    | false => exact ⟨k, v, List.mem_cons_self, hasRepeatedKey_of_not_dupFree v hx⟩
    | true =>
      have h' : dupFreeFields fs = false := by simpa [dupFreeFields, hx] using h
      obtain ⟨k', v', hy, hr⟩ := hasRepeatedKey_fields fs h'
      exact ⟨k', v', List.mem_cons_of_mem _ hy, hr⟩
end

theorem dupFree_false_iff_hasRepeatedKey (j : Json) : dupFree j = false ↔ HasRepeatedKey j :=
  ⟨hasRepeatedKey_of_not_dupFree j, not_dupFree_of_hasRepeatedKey⟩

end ConfModel.ConnectJson
