-- This module serves as the root of the `ConfModel` library.
-- Import modules here that should be built as part of the library.
import ConfModel.Basic
