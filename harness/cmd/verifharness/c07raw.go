package main

import (
	"encoding/json"
	"fmt"

	"connectrpc.com/conformance/internal/verifharness/gen"
)

// C07 — mode-specific payload restrictions, exhaustively: a raw request only in a server-mode suite,
// a raw response only in a client-mode suite and only with an explicit expected response — for
// EVERY combination of the three markers on one test case (also both raw payloads at once), every
// suite mode and every run mode, through the real parseTestSuites + newTestCaseLibrary.  The suites
// are described by shape (the description and the loader call are C02's: c02LoadIn / c02Load); the
// verdict is judged by the model of the validation lean/ConfModel/Model/EchoLoad.lean.

func init() {
	gen.RegisterOp("c07", "rawload", func(_ *gen.Ctx, raw json.RawMessage) any {
		return c02Load(gen.Into[c02LoadIn](raw))
	})
}

// c07RawMatrix: {raw request} x {raw response} x {explicit expected response} x suite mode x run mode
// x stream type of the marked case (hasRawResponse has a branch per definition family) x position of
// the marked case among ordinary ones (parseTestSuites must look at every case, not the first).
func c07RawMatrix() []c02LoadIn {
	kind := map[int]string{1: "unary", 2: "clientStream", 3: "serverStream", 4: "bidi", 5: "bidi"}
	modes := []string{"", "client", "server"}
	plain := func(name string, st int) c02LCase {
		return c02LCase{Name: name, St: st, Msgs: []string{kind[st]}, Expand: []string{}}
	}
	var out []c02LoadIn
	for rq := 0; rq < 2; rq++ {
		for rs := 0; rs < 2; rs++ {
			for ex := 0; ex < 2; ex++ {
				for suiteMode := 0; suiteMode <= 2; suiteMode++ {
					for runMode := 0; runMode <= 2; runMode++ {
						for st := 1; st <= 5; st++ {
							pos := (rq + 2*rs + 4*ex + suiteMode + runMode + st) % 3
							marked := plain("m", st)
							marked.RawRequest, marked.RawResponse, marked.Explicit = rq == 1, rs == 1, ex == 1
							cases := []c02LCase{plain("p1", 1+(st%5)), plain("p2", 1+((st+2)%5))}
							cases = append(cases[:pos], append([]c02LCase{marked}, cases[pos:]...)...)
							out = append(out, c02LoadIn{Mode: modes[runMode],
								Note:   fmt.Sprintf("raw-matrix rq=%d rs=%d ex=%d suite=%d run=%d st=%d pos=%d", rq, rs, ex, suiteMode, runMode, st, pos),
								Shapes: []c02LSuite{{Name: "R", Mode: suiteMode, Protos: []int{}, Codecs: []int{}, Cases: cases}}})
						}
					}
				}
			}
		}
	}
	return out
}

func c07RawJobs(c *gen.Ctx) {
	for _, in := range c07RawMatrix() {
		c.Do("rawload", in)
	}
	c.E.Count("rawload-matrix")
}
