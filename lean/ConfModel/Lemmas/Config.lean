/-
Helper lemmas for property C06: membership in the nested loops of computeCasesFromFeatures,
one lemma per guard; resolveCase and the include/exclude folds.
-/
import ConfModel.Model.Config
import ConfModel.Spec.Config
namespace ConfModel.Config

theorem mem_orDefault (given : List Bool) (sup b : Bool) :
    b ∈ orDefault given sup ↔ (if given = [] then FlagAllowed sup b else b ∈ given) := by
  unfold orDefault FlagAllowed
  cases given with
  | nil => cases sup <;> cases b <;> simp
  | cons a t => simp

/-- membership in the loops of `computeCasesFromFeatures` without the loops -/
theorem mem_computeCases (f : Sup) (tl ce li : List Bool) (k : Case) :
    k ∈ computeCases f tl ce li ↔
      k.v ∈ f.versions ∧ k.p ∈ f.protocols ∧ k.c ∈ f.codecs ∧ k.z ∈ f.comps ∧ k.s ∈ f.sts ∧
      k.tls ∈ orDefault tl f.tls ∧ k.certs ∈ orDefault ce f.certs ∧
      k.limit ∈ orDefault li f.limit ∧ k.cvm = .unspec ∧ Possible f k := by
  obtain ⟨v, p, c, z, s, t, cc, g, l, m⟩ := k
  simp only [computeCases, List.mem_flatMap, Possible]
  constructor
  · rintro ⟨v', hv, t', ht, h⟩
    split at h
    · simp at h
    rename_i c1
    simp only [List.mem_flatMap] at h
    obtain ⟨cc', hcc, h⟩ := h
    split at h
    · simp at h
    rename_i c2
    simp only [List.mem_flatMap] at h
    obtain ⟨p', hp, h⟩ := h
    split at h
    · simp at h
    rename_i c3
    simp only [List.mem_flatMap] at h
    obtain ⟨s', hs, h⟩ := h
    split at h
    · simp at h
    rename_i c4
    simp only [List.mem_flatMap] at h
    obtain ⟨c', hc, h⟩ := h
    split at h
    · simp at h
    rename_i c5
    simp only [List.mem_flatMap, List.mem_map] at h
    obtain ⟨z', hz, g', hg, l', hl, heq⟩ := h
    simp only [Case.mk.injEq] at heq
    obtain ⟨rfl, rfl, rfl, rfl, rfl, rfl, rfl, rfl, rfl, rfl⟩ := heq
    refine ⟨hv, hp, hc, hz, hs, ht, hcc, hl, rfl, ?_, ?_, ?_, ?_, ?_, ?_, ?_, ?_⟩
    · intro hp'; subst hp'; cases v' <;> simp_all
    · intro hv'; subst hv'; cases t' <;> simp_all
    · intro hv' ht'; subst hv'; subst ht'; simp_all
    · intro hc'; subst hc'; cases t' <;> simp_all
    · intro hs'; subst hs'; cases v' <;> simp_all
    · intro hs' hv'; subst hs'; subst hv'; simp_all
    · intro hg'; subst hg'; split at hg <;> simp_all
    · intro hc'; subst hc'; simp_all
  · rintro ⟨hv, hp, hc, hz, hs, ht, hcc, hl, hm, h1, h2, h3, h4, h5, h6, h7, h8⟩
    subst hm
    refine ⟨v, hv, t, ht, ?_⟩
    rw [if_neg]
    · simp only [List.mem_flatMap]
      refine ⟨cc, hcc, ?_⟩
      rw [if_neg]
      · simp only [List.mem_flatMap]
        refine ⟨p, hp, ?_⟩
        rw [if_neg]
        · simp only [List.mem_flatMap]
          refine ⟨s, hs, ?_⟩
          rw [if_neg]
          · simp only [List.mem_flatMap]
            refine ⟨c, hc, ?_⟩
            rw [if_neg h8]
            simp only [List.mem_flatMap, List.mem_map]
            refine ⟨z, hz, g, ?_, l, hl, rfl⟩
            cases g
            · split <;> simp
            · obtain ⟨a, b⟩ := h7 rfl
              simp [a, b]
          · rintro (⟨a, b, c'⟩ | ⟨a, b⟩)
            · have := h6 a c'; simp_all
            · exact h5 a b
        · rintro ⟨a, b⟩; exact b (h1 a)
      · rintro ⟨a, b⟩; have := h4 a; simp_all
    · rintro ⟨a, b | ⟨b, c'⟩⟩
      · have := h2 b; simp_all
      · have := h3 b a; simp_all

theorem possible_implied (f : Sup) (e : Entry) (k : Case) : Possible (implied f e) k ↔ Possible f k :=
  Iff.rfl

theorem mem_axis {α} [DecidableEq α] (zero : α) (l : List α) (g x : α) :
    x ∈ (if g = zero then l else [g]) ↔ AxisOk zero l g x := by
  unfold AxisOk; split <;> simp

theorem mem_flag (sup : Bool) (g : Option Bool) (b : Bool) :
    b ∈ orDefault (optList g) sup ↔ FlagOk sup g b := by
  rw [mem_orDefault]
  cases g <;> simp [optList, FlagOk]

/-- the cases computed for an entry are exactly the cases it matches -/
theorem mem_entryCases (f : Sup) (e : Entry) (k : Case) :
    k ∈ computeCases (implied f e) (optList e.tls) (optList e.certs) (optList e.limit) ↔ Matches f e k := by
  rw [mem_computeCases, possible_implied]
  unfold Matches
  simp only [implied, mem_axis, mem_flag]

theorem resolveCase_ok (f : Sup) (e : Entry) (cs : List Case) (h : resolveCase f e = .ok cs) :
    cs = computeCases (implied f e) (optList e.tls) (optList e.certs) (optList e.limit) := by
  unfold resolveCase at h
  repeat' split at h
  all_goals first | (injection h with h; exact h.symm) | (exact absurd h (by simp))

theorem mem_resolveCase (f : Sup) (e : Entry) (cs : List Case) (h : resolveCase f e = .ok cs) (k : Case) :
    k ∈ cs ↔ Matches f e k := by
  rw [resolveCase_ok f e cs h]; exact mem_entryCases f e k

theorem mem_features (f : Sup) (k : Case) : k ∈ computeCases f [] [] [] ↔ InFeatures f k := by
  rw [mem_computeCases]
  unfold InFeatures
  simp only [mem_orDefault, if_true]

theorem mem_addIncludes (f : Sup) (es : List Entry) : ∀ (i : Nat) (acc r : List Case),
    addIncludes f i es acc = .ok r → ∀ k, k ∈ r ↔ (k ∈ acc ∨ ∃ e ∈ es, Matches f e k) := by
  induction es with
  | nil => intro i acc r h k; simp [addIncludes] at h; subst h; simp
  | cons e es ih =>
    intro i acc r h k
    unfold addIncludes at h
    split at h
    · exact absurd h (by simp)
    · rename_i cs hcs
      rw [ih _ _ _ h k, List.mem_append, mem_resolveCase f e cs hcs]
      simp only [List.mem_cons, exists_eq_or_imp]
      constructor
      · rintro ((a | a) | a)
        · exact Or.inr (Or.inl a)
        · exact Or.inl a
        · exact Or.inr (Or.inr a)
      · rintro (a | a | a)
        · exact Or.inl (Or.inr a)
        · exact Or.inl (Or.inl a)
        · exact Or.inr a

theorem mem_removeExcludes (f : Sup) (es : List Entry) : ∀ (i : Nat) (acc r : List Case),
    removeExcludes f i es acc = .ok r → ∀ k, k ∈ r ↔ (k ∈ acc ∧ ¬ ∃ e ∈ es, Matches f e k) := by
  induction es with
  | nil => intro i acc r h k; simp [removeExcludes] at h; subst h; simp
  | cons e es ih =>
    intro i acc r h k
    unfold removeExcludes at h
    split at h
    · exact absurd h (by simp)
    · rename_i cs hcs
      rw [ih _ _ _ h k, List.mem_filter]
      simp only [List.mem_cons, exists_eq_or_imp, Bool.not_eq_true', List.contains_eq_mem,
        decide_eq_false_iff_not, mem_resolveCase f e cs hcs, not_or]
      constructor
      · rintro ⟨⟨a, b⟩, c⟩; exact ⟨a, b, c⟩
      · rintro ⟨a, b, c⟩; exact ⟨⟨a, b⟩, c⟩

end ConfModel.Config
