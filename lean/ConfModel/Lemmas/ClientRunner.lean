/-
Invariants of the client-runner transition system (helper lemmas for Props/C10.lean).
-/
import ConfModel.Spec.ClientRunner
namespace ConfModel.ClientRunner
open Spec

/-- entries of a pending table that belong to request i -/
def idCount (p : List (Name × Nat)) (i : Nat) : Nat := (p.filter (fun e => e.2 == i)).length
/-- entries of a callback log that belong to request i -/
def fireCount (f : List (Nat × Option Name)) (i : Nat) : Nat := (f.filter (fun x => x.1 == i)).length

/-- entries of a callback log that deliver a response (not an error) to request i -/
def someCount (f : List (Nat × Option Name)) (i : Nat) : Nat := (f.filter (fun x => x.1 == i && x.2.isSome)).length
/-- how often request i was matched by the reader with a response of the client -/
def matchCount (l : List Nat) (i : Nat) : Nat := (l.filter (fun x => x == i)).length

theorem someCount_nil (i : Nat) : someCount [] i = 0 := rfl
theorem someCount_cons_some (j : Nat) (m : Name) (f : List (Nat × Option Name)) (i : Nat) :
    someCount ((j, some m) :: f) i = (if j = i then 1 else 0) + someCount f i := by
  unfold someCount; by_cases h : j = i <;> simp [h] <;> omega
theorem matchCount_nil (i : Nat) : matchCount [] i = 0 := rfl
theorem matchCount_cons (j : Nat) (l : List Nat) (i : Nat) :
    matchCount (j :: l) i = (if j = i then 1 else 0) + matchCount l i := by
  unfold matchCount; by_cases h : j = i <;> simp [h] <;> omega
theorem someCount_map_none (p : List (Name × Nat)) (f : List (Nat × Option Name)) (i : Nat) :
    someCount (p.map (fun e => (e.2, (none : Option Name))) ++ f) i = someCount f i := by
  unfold someCount
  induction p with
  | nil => simp
  | cons a t ih => simpa [List.filter_cons] using ih

def pendCount (s : State) (i : Nat) : Nat := idCount s.pending i

theorem firedCount_eq (s : State) (i : Nat) : firedCount s i = fireCount s.fired i := rfl

theorem idCount_nil (i : Nat) : idCount [] i = 0 := rfl
theorem idCount_cons (a : Name × Nat) (p : List (Name × Nat)) (i : Nat) :
    idCount (a :: p) i = (if a.2 = i then 1 else 0) + idCount p i := by
  unfold idCount; by_cases h : a.2 = i <;> simp [h] <;> omega
theorem fireCount_nil (i : Nat) : fireCount [] i = 0 := rfl
theorem fireCount_cons (a : Nat × Option Name) (f : List (Nat × Option Name)) (i : Nat) :
    fireCount (a :: f) i = (if a.1 = i then 1 else 0) + fireCount f i := by
  unfold fireCount; by_cases h : a.1 = i <;> simp [h] <;> omega

def firingCount (s : State) (i : Nat) : Nat :=
  match s.rpc with
  | .firing j _ => if j = i then 1 else 0
  | _ => 0

/-- how many callback invocations request i is owed in total, by program counter -/
def expected : SPc → Nat
  | .writing => 1
  | .ret .ok => 1
  | _ => 0

structure Inv (names : Nat → Name) (s : State) : Prop where
  mu : ∀ i, holds (s.spc i) = true ↔ s.sendMu = some i
  pend : ∀ e ∈ s.pending, e.1 = names e.2
  wr : ∀ i, s.spc i = .writing → ∀ e ∈ s.pending, e.1 = names i → e.2 = i
  closed : readerClosed s.rpc = true → s.closedSend = true ∧ s.sendMu = none
  drained : (s.rpc = .finishing ∨ s.rpc = .done) → s.pending = []
  firing : ∀ i m, s.rpc = .firing i m → m = names i
  own : ∀ f ∈ s.fired, ∀ m, f.2 = some m → m = names f.1
  cnt : ∀ i, firedCount s i + pendCount s i + firingCount s i = expected (s.spc i)
  ans : ∀ i, someCount s.fired i + firingCount s i = matchCount s.matched i

theorem inv_init (names : Nat → Name) : Inv names init := by
  constructor <;> simp [init, holds, readerClosed, firedCount, pendCount, idCount, firingCount, expected, someCount, matchCount]

/-! ### list facts about `lookup` / `eraseName` -/

theorem lookup_some_mem {p : List (Name × Nat)} {m : Name} {e : Name × Nat}
    (h : lookup p m = some e) : e ∈ p ∧ e.1 = m := by
  unfold lookup at h
  have h1 := List.mem_of_find?_eq_some h
  have h2 := List.find?_some h
  exact ⟨h1, by simpa using h2⟩

theorem lookup_none {p : List (Name × Nat)} {m : Name} (h : lookup p m = none) :
    ∀ e ∈ p, e.1 ≠ m := by
  unfold lookup at h
  intro e he
  have := List.find?_eq_none.mp h e he
  simpa using this

theorem mem_eraseName {p : List (Name × Nat)} {m : Name} {e : Name × Nat}
    (h : e ∈ eraseName p m) : e ∈ p := List.mem_of_mem_eraseP h

theorem count_eraseName (p : List (Name × Nat)) (m : Name) (e : Name × Nat) (j : Nat)
    (h : lookup p m = some e) :
    idCount (eraseName p m) j + (if e.2 = j then 1 else 0) = idCount p j := by
  unfold idCount
  induction p with
  | nil => simp [lookup] at h
  | cons a t ih =>
    unfold lookup at h
    unfold eraseName
    by_cases ha : a.1 == m
    · simp only [List.find?_cons, ha] at h
      have : a = e := by simpa using h
      subst this
      simp only [List.eraseP_cons, ha, cond_true, List.filter_cons]
      by_cases hj : a.2 = j
      · simp [hj]
      · simp [hj]
    · have ha' : (a.1 == m) = false := by simpa using ha
      simp only [List.find?_cons, ha'] at h
      simp only [List.eraseP_cons, ha', cond_false, List.filter_cons]
      have := ih (by unfold lookup; exact h)
      unfold eraseName at this
      by_cases hj : a.2 == j
      · simp only [hj, if_true, List.length_cons]; omega
      · simp only [hj]; simpa using this

theorem count_map_none (p : List (Name × Nat)) (f : List (Nat × Option Name)) (i : Nat) :
    fireCount (p.map (fun e => (e.2, (none : Option Name))) ++ f) i = idCount p i + fireCount f i := by
  unfold fireCount idCount
  induction p with
  | nil => simp
  | cons a t ih =>
    simp only [List.map_cons, List.cons_append, List.filter_cons]
    by_cases h : a.2 == i
    · simp only [h, if_true, List.length_cons]; omega
    · simp only [h]; simpa using ih

@[simp] theorem setPc_spc (s : State) (i j : Nat) (p : SPc) : (setPc s i p).spc j = if j = i then p else s.spc j := rfl
@[simp] theorem setPc_sendMu (s : State) (i : Nat) (p : SPc) : (setPc s i p).sendMu = s.sendMu := rfl
@[simp] theorem setPc_closedSend (s : State) (i : Nat) (p : SPc) : (setPc s i p).closedSend = s.closedSend := rfl
@[simp] theorem setPc_pending (s : State) (i : Nat) (p : SPc) : (setPc s i p).pending = s.pending := rfl
@[simp] theorem setPc_err (s : State) (i : Nat) (p : SPc) : (setPc s i p).err = s.err := rfl
@[simp] theorem setPc_rpc (s : State) (i : Nat) (p : SPc) : (setPc s i p).rpc = s.rpc := rfl
@[simp] theorem setPc_fired (s : State) (i : Nat) (p : SPc) : (setPc s i p).fired = s.fired := rfl
@[simp] theorem setPc_terminated (s : State) (i : Nat) (p : SPc) : (setPc s i p).terminated = s.terminated := rfl
@[simp] theorem setPc_proc (s : State) (i : Nat) (p : SPc) : (setPc s i p).proc = s.proc := rfl
@[simp] theorem setPc_aborted (s : State) (i : Nat) (p : SPc) : (setPc s i p).aborted = s.aborted := rfl
@[simp] theorem setPc_hookRan (s : State) (i : Nat) (p : SPc) : (setPc s i p).hookRan = s.hookRan := rfl
@[simp] theorem setPc_matched (s : State) (i : Nat) (p : SPc) : (setPc s i p).matched = s.matched := rfl

macro "inv_norm" : tactic => `(tactic|
  simp only [setPc_spc, setPc_sendMu, setPc_closedSend, setPc_pending, setPc_err, setPc_rpc, setPc_fired, setPc_matched,
        setPc_terminated, setPc_proc, setPc_aborted, setPc_hookRan,
        someCount_cons_some, matchCount_cons, someCount_nil, matchCount_nil,
        firedCount_eq, pendCount, firingCount, idCount_cons, fireCount_cons, idCount_nil, fireCount_nil] at *)
macro "inv_close" : tactic => `(tactic|
  (constructor <;> inv_norm <;> first | assumption | grind [holds, expected, readerClosed]))

theorem step_inv (names : Nat → Name) (s s' : State) (e : Event) (h : Inv names s)
    (hs : step names s e = some s') : Inv names s' := by
  obtain ⟨h1, h2, h3, h4, h5, h6, h7, h8, h9⟩ := h
  cases e with
  | sStart i =>
    simp only [step] at hs
    split at hs
    · split at hs <;> (injection hs with hs; subst hs) <;> inv_close
    · cases hs
  | sLock i =>
    simp only [step] at hs
    split at hs
    · split at hs <;> (injection hs with hs; subst hs) <;> inv_close
    · cases hs
  | sWriteOk i =>
    simp only [step] at hs
    split at hs
    · (injection hs with hs; subst hs); inv_close
    · cases hs
  | sSetErr i =>
    simp only [step] at hs
    split at hs
    · (injection hs with hs; subst hs); inv_close
    · cases hs
  | uCloseSend =>
    simp only [step] at hs
    split at hs
    · (injection hs with hs; subst hs); inv_close
    · cases hs
  | rRecv m =>
    simp only [step] at hs
    split at hs
    · (injection hs with hs; subst hs); inv_close
    · cases hs
  | rRecvEOF =>
    simp only [step] at hs
    split at hs
    · (injection hs with hs; subst hs); inv_close
    · cases hs
  | rRecvBad =>
    simp only [step] at hs
    split at hs
    · (injection hs with hs; subst hs); inv_close
    · cases hs
  | rSetErr =>
    simp only [step] at hs
    split at hs
    · (injection hs with hs; subst hs); inv_close
    · cases hs
  | rTerminate =>
    simp only [step] at hs
    split at hs
    · (injection hs with hs; subst hs); inv_close
    · cases hs
  | rAbort =>
    simp only [step] at hs
    split at hs
    · (injection hs with hs; subst hs); inv_close
    · cases hs
  | rCloseSend =>
    simp only [step] at hs
    split at hs
    · (injection hs with hs; subst hs); inv_close
    · cases hs
  | rDone =>
    simp only [step] at hs
    split at hs
    · (injection hs with hs; subst hs); inv_close
    · cases hs
  | pExit c =>
    simp only [step] at hs
    split at hs
    · (injection hs with hs; subst hs); inv_close
    · cases hs
  | pHook =>
    simp only [step] at hs
    split at hs
    · (injection hs with hs; subst hs); inv_close
    · cases hs
  | rFire =>
    simp only [step] at hs
    split at hs
    · (injection hs with hs; subst hs); inv_close
    · cases hs
  | sRegister i =>
    simp only [step] at hs
    split at hs
    · split at hs
      · (injection hs with hs; subst hs); inv_close
      · rename_i hl
        have hn := lookup_none hl
        (injection hs with hs; subst hs); inv_close
    · cases hs
  | sWriteFail i =>
    simp only [step] at hs
    split at hs
    · rename_i hw
      split at hs
      · rename_i e hl
        have hm := lookup_some_mem hl
        have hc := fun j => count_eraseName s.pending (names i) e j hl
        have hsub : ∀ x ∈ eraseName s.pending (names i), x ∈ s.pending := fun x hx => mem_eraseName hx
        have he : e.2 = i := h3 i hw.1 e hm.1 hm.2
        (injection hs with hs; subst hs); inv_close
      · rename_i hl
        have hn := lookup_none hl
        (injection hs with hs; subst hs); inv_close
    · cases hs
  | rLookup =>
    simp only [step] at hs
    split at hs
    · rename_i m hr
      split at hs
      · rename_i e hl
        have hm := lookup_some_mem hl
        have hc := fun j => count_eraseName s.pending m e j hl
        have hsub : ∀ x ∈ eraseName s.pending m, x ∈ s.pending := fun x hx => mem_eraseName hx
        (injection hs with hs; subst hs); inv_close
      · (injection hs with hs; subst hs); inv_close
    · cases hs
  | rDrain =>
    simp only [step] at hs
    split at hs
    · have hc := fun j => count_map_none s.pending s.fired j
      have hc2 := fun j => someCount_map_none s.pending s.fired j
      (injection hs with hs; subst hs); inv_close
    · cases hs

theorem run_inv (names : Nat → Name) (evs : List Event) : ∀ s, Inv names s → Inv names (run names s evs) := by
  induction evs with
  | nil => intro s h; exact h
  | cons e es ih =>
    intro s h
    simp only [run]
    split
    · rename_i s' hs; exact ih s' (step_inv names s s' e h hs)
    · exact ih s h

theorem reachable_inv (names : Nat → Name) (evs : List Event) : Inv names (run names init evs) :=
  run_inv names evs init (inv_init names)

/-- a property preserved by every step is preserved by `run` -/
theorem run_preserves (names : Nat → Name) (P : State → Prop)
    (hstep : ∀ s s' e, Inv names s → P s → step names s e = some s' → P s') :
    ∀ (evs : List Event) (s : State), Inv names s → P s → P (run names s evs) := by
  intro evs
  induction evs with
  | nil => intro s _ h; exact h
  | cons e es ih =>
    intro s hi h
    simp only [run]
    split
    · rename_i s' hs; exact ih s' (step_inv names s s' e hi hs) (hstep s s' e hi h hs)
    · exact ih s hi h

/-- state of a send that was not yet started when the reader shut the send side: it can only be
refused -/
def Refused (i : Nat) (s : State) : Prop :=
  readerClosed s.rpc = true ∧
    (s.spc i = .idle ∨ s.spc i = .waitLock ∨ ∃ e, s.spc i = .ret (.err e))

theorem refused_step (names : Nat → Name) (i : Nat) (s s' : State) (e : Event) (hi : Inv names s)
    (h : Refused i s) (hs : step names s e = some s') : Refused i s' := by
  obtain ⟨h1, h2, h3, h4, h5, h6, h7, h8, h9⟩ := hi
  obtain ⟨hc, hp⟩ := h
  have h4' := h4 hc
  unfold Refused
  cases e <;> simp only [step] at hs <;> (repeat' split at hs) <;>
    first
    | (injection hs with hs; subst hs; inv_norm; grind [holds, readerClosed])
    | cases hs

/-- the process-exit hook and the failure path only ever set `terminated` -/
def Stopped (s : State) : Prop := (s.aborted = true ∨ s.hookRan = true) → s.terminated = true

theorem stopped_step (names : Nat → Name) (s s' : State) (e : Event)
    (h : Stopped s ∧ (s.rpc = .failAbort → s.terminated = true)) (hs : step names s e = some s') :
    Stopped s' ∧ (s'.rpc = .failAbort → s'.terminated = true) := by
  unfold Stopped at *
  cases e <;> simp only [step] at hs <;> (repeat' split at hs) <;>
    first
    | (injection hs with hs; subst hs; inv_norm; grind)
    | cases hs

/-- once `c.err` holds the reader's reason (failure of the output stream), the reader is at its
very next step — `terminated.Store(true)` — or has taken it -/
def Reported (s : State) : Prop := s.err = some .fail → (s.rpc = .failTerm ∨ s.terminated = true)

theorem casErr_closed_fail (o : Option Err) (h : casErr o .closed = some .fail) : o = some .fail := by
  cases o with
  | none => simp [casErr] at h
  | some x => simpa [casErr] using h

theorem reported_step (names : Nat → Name) (s s' : State) (e : Event)
    (h : Reported s) (hs : step names s e = some s') : Reported s' := by
  unfold Reported at *
  cases e with
  | sSetErr i =>
    simp only [step] at hs
    split at hs
    · injection hs with hs; subst hs
      intro he
      exact h (casErr_closed_fail s.err he)
    · cases hs
  | _ =>
    simp only [step] at hs <;> (repeat' split at hs) <;>
    first
    | (injection hs with hs; subst hs; inv_norm; grind [casErr])
    | cases hs

/-! ### progress measure -/

/-- remaining own steps of a `sendRequest` call once the client is gone -/
def srank : SPc → Nat
  | .waitLock => 4 | .locked => 3 | .writing => 2 | .failed => 1 | _ => 0

/-- remaining own steps of the reader once the client is gone -/
def rrank : RPc → Nat
  | .got _ => 11 | .firing _ _ => 10 | .reading => 9 | .failErr => 8 | .failTerm => 7 | .failAbort => 6
  | .closing => 5 | .draining => 4 | .finishing => 3 | .done => 0

/-- progress measure over the (finitely many) calls `ids` -/
def mu (ids : List Nat) (s : State) : Nat := (ids.map (fun i => srank (s.spc i))).sum + rrank s.rpc

/-- the sender whose step an event is -/
def Event.actor : Event → Option Nat
  | .sStart i | .sLock i | .sRegister i | .sWriteOk i | .sWriteFail i | .sSetErr i => some i
  | _ => none

theorem sum_update (f : Nat → SPc) (i : Nat) (p : SPc) (ids : List Nat) (hn : ids.Nodup) (hi : i ∈ ids)
    (hlt : srank p < srank (f i)) :
    (ids.map (fun j => srank (if j = i then p else f j))).sum < (ids.map (fun j => srank (f j))).sum := by
  induction ids with
  | nil => simp at hi
  | cons a t ih =>
    simp only [List.nodup_cons] at hn
    simp only [List.map_cons, List.sum_cons]
    by_cases ha : a = i
    · subst ha
      have hrest : (t.map (fun j => srank (if j = a then p else f j))) = t.map (fun j => srank (f j)) := by
        apply List.map_congr_left
        intro j hj
        have : j ≠ a := fun h => hn.1 (h ▸ hj)
        simp [this]
      rw [hrest]; simp; omega
    · have hi' : i ∈ t := by simpa [Ne.symm ha] using hi
      have := ih hn.2 hi'
      simp only [ha, if_false]; omega

theorem mu_setPc (ids : List Nat) (hn : ids.Nodup) (s s' : State) (i : Nat) (p : SPc) (hi : i ∈ ids)
    (hlt : srank p < srank (s.spc i)) (hspc : s'.spc = (setPc s i p).spc) (hrpc : s'.rpc = s.rpc) :
    mu ids s' < mu ids s := by
  have := sum_update s.spc i p ids hn hi hlt
  simp only [mu, hspc, hrpc, setPc_spc]
  omega

theorem internal_step_decreases (names : Nat → Name) (ids : List Nat) (hn : ids.Nodup) (s s' : State) (e : Event)
    (hint : e.internal = true) (hact : ∀ i, e.actor = some i → i ∈ ids)
    (hs : step names s e = some s') : mu ids s' < mu ids s := by
  cases e <;> simp only [Event.internal] at hint <;> try (cases hint)
  all_goals simp only [Event.actor] at hact
  all_goals simp only [step] at hs
  all_goals (repeat' split at hs)
  all_goals first
    | (injection hs with hs; subst hs
       first
       | (simp only [mu, rrank]; simp_all; done)
       | (apply mu_setPc ids hn _ _ _ _ (hact _ rfl) _ rfl rfl; simp_all [srank]))
    | cases hs

end ConfModel.ClientRunner
