package main

// C17 — raw HTTP payloads reach the wire exactly as specified.

import (
	"bytes"
	"context"
	"crypto/tls"
	"encoding/hex"
	"encoding/json"
	"fmt"
	"io"
	"log"
	"net"
	"net/http"
	"net/http/httptest"
	"net/url"
	"sort"
	"strings"
	"sync"
	"sync/atomic"
	"time"

	"connectrpc.com/conformance/internal"
	"connectrpc.com/conformance/internal/app/referenceclient"
	"connectrpc.com/conformance/internal/app/referenceserver"
	"connectrpc.com/conformance/internal/compression"
	conformancev1 "connectrpc.com/conformance/internal/gen/proto/go/connectrpc/conformance/v1"
	"connectrpc.com/conformance/internal/verifharness/gen"
	"golang.org/x/net/http2"
	"golang.org/x/net/http2/h2c"
	"google.golang.org/protobuf/encoding/protojson"
	"google.golang.org/protobuf/proto"
	"google.golang.org/protobuf/types/known/anypb"
)

func init() {
	areas["c17"] = runC17
	gen.RegisterOp("c17", "msg", func(_ *gen.Ctx, raw json.RawMessage) any {
		in := gen.Into[c17MsgIn](raw)
		var buf bytes.Buffer
		err := internal.WriteRawMessageContents(c17Contents(in.Payload), &buf)
		return c17BodyOut{Out: gen.Hex(buf.Bytes()), Err: err != nil, Oracle: c17Oracle([]*c17Payload{in.Payload})}
	})
	gen.RegisterOp("c17", "stream", func(_ *gen.Ctx, raw json.RawMessage) any {
		in := gen.Into[c17StreamIn](raw)
		var buf bytes.Buffer
		err := internal.WriteRawStreamContents(c17Stream(in.Items), &buf)
		var ps []*c17Payload
		for _, it := range in.Items {
			ps = append(ps, it.Payload)
		}
		return c17BodyOut{Out: gen.Hex(buf.Bytes()), Err: err != nil, Oracle: c17Oracle(ps)}
	})
	gen.RegisterOp("c17", "arb", func(_ *gen.Ctx, raw json.RawMessage) any {
		in := gen.Into[c17ArbIn](raw)
		results, wire := referenceserver.VerifC17Arbitrate(c17Ops(in.Ops))
		return c17ArbOut{Results: nn(results), Wire: nn(c17DropEmptyWrites(wire))}
	})
	gen.RegisterOp("c17", "rawresp", func(_ *gen.Ctx, raw json.RawMessage) any { return c17RawResp(gen.Into[c17RawRespIn](raw)) })
	gen.RegisterOp("c17", "rawreq", func(_ *gen.Ctx, raw json.RawMessage) any { return c17RawReq(gen.Into[c17RawReqIn](raw)) })
	gen.RegisterOp("c17", "rawsrv", func(_ *gen.Ctx, raw json.RawMessage) any { return c17RawSrv(gen.Into[c17RawSrvIn](raw)) })
}

// ---------------------------------------------------------------- line formats

type c17Payload struct {
	Kind string `json:"kind"` // none | binary | text | any
	Data string `json:"data"` // hex
	Comp int32  `json:"comp"`
}
type c17Item struct {
	Flags   uint32      `json:"flags"`
	Length  *uint32     `json:"length"`
	Payload *c17Payload `json:"payload"`
}
type c17MsgIn struct {
	Payload *c17Payload `json:"payload"`
}
type c17StreamIn struct {
	Items []c17Item `json:"items"`
}
type c17Enc struct {
	Comp int32   `json:"comp"`
	Data string  `json:"data"`
	Enc  *string `json:"enc"` // what a fresh compressor of that enum value writes (null: no such compression)
	RT   bool    `json:"rt"`  // the real decompressor turns enc back into data
}
type c17BodyOut struct {
	Out    string   `json:"out"`
	Err    bool     `json:"err"`
	Oracle []c17Enc `json:"oracle"`
}
type c17OpJ struct {
	K      string `json:"k"` // w | h | f | raw
	Data   string `json:"data,omitempty"`
	Code   int    `json:"code,omitempty"`
	Status uint32 `json:"status,omitempty"` // raw
	Body   string `json:"body,omitempty"`   // raw: hex of a unary binary body
}
type c17ArbIn struct {
	Ops []c17OpJ `json:"ops"`
}
type c17ArbOut struct {
	Results []string `json:"results"`
	Wire    []string `json:"wire"`
}
type c17Hdr struct {
	N string   `json:"n"`
	V []string `json:"v"`
}
type c17Body struct {
	Unary  *c17Payload `json:"unary,omitempty"`
	Stream []c17Item   `json:"stream,omitempty"`
	Kind   string      `json:"kind"` // none | unary | stream | unary-nil
}
type c17RawRespIn struct {
	Proto    string   `json:"proto"` // h1 | h2c
	Status   uint32   `json:"status"`
	Headers  []c17Hdr `json:"headers"`
	Trailers []c17Hdr `json:"trailers"`
	Body     c17Body  `json:"body"`
	Handler  []c17Hdr `json:"handler"` // headers the handler sets
	Pre      []c17OpJ `json:"pre"`     // handler operations before choosing the raw response
	Post     []c17OpJ `json:"post"`    // ... and after
}
type c17RawRespOut struct {
	Err      string   `json:"err,omitempty"`
	Results  []string `json:"results"`
	Status   int      `json:"status"`
	Headers  []c17Hdr `json:"headers"`
	Body     string   `json:"body"`
	Trailers []c17Hdr `json:"trailers"`
	Oracle   []c17Enc `json:"oracle"`
}
type c17Param struct {
	N      string      `json:"n"`
	Value  *c17Payload `json:"value"`
	Base64 bool        `json:"base64"`
}
type c17RawReqIn struct {
	Proto   string     `json:"proto"` // h1 (default) | h2c: what the transport behind the sender speaks
	Verb    string     `json:"verb"`
	URI     string     `json:"uri"`
	Headers []c17Hdr   `json:"headers"`
	RawQ    []c17Hdr   `json:"rawq"`
	EncQ    []c17Param `json:"encq"`
	Body    c17Body    `json:"body"`
	Orig    string     `json:"orig"` // hex: body of the request the stub built (must be discarded)
}
type c17RawReqOut struct {
	Err     string   `json:"err,omitempty"`
	Method  string   `json:"method"`
	Target  string   `json:"target"` // the request target as it arrived (request line / :path), verbatim
	Path    string   `json:"path"`
	Query   []c17Hdr `json:"query"`
	Headers []c17Hdr `json:"headers"`
	Body    string   `json:"body"`
	Drained bool     `json:"drained"`
	Oracle  []c17Enc `json:"oracle"`
}

// rawsrv: a raw response definition served by the complete reference server (createServer in
// reference mode: CORS -> raw responder -> checks -> connect-go mux with the raw-response
// recorder), asked for by a Connect RPC whose response definition carries it.
type c17RawSrvIn struct {
	Proto    string   `json:"proto"`  // h1 | h2c
	Proc     string   `json:"proc"`   // Unary | ServerStream | ClientStream
	Codec    string   `json:"codec"`  // proto | json
	Origin   string   `json:"origin"` // Origin header of the request ("" = none): makes CORS add Access-Control-* headers
	Status   uint32   `json:"status"`
	Headers  []c17Hdr `json:"headers"`
	Trailers []c17Hdr `json:"trailers"`
	Body     c17Body  `json:"body"`
	// Rpc: the protocol of the RPC that asks for the raw response: "" / connect | grpc | grpcweb
	Rpc string `json:"rpc,omitempty"`
	// Extra: what the response definition holds besides the raw response (all of it must be ignored)
	Extra *c17Extra `json:"extra,omitempty"`
}

// c17Extra: the other fields of a Unary/StreamResponseDefinition (delays excluded).
type c17Extra struct {
	Data     []string `json:"data"` // hex; unary: the first one is response_data (unless Error is set)
	Error    *c17Err  `json:"error"`
	Headers  []c17Hdr `json:"headers"`
	Trailers []c17Hdr `json:"trailers"`
}
type c17Err struct {
	Code    int32  `json:"code"`
	Message string `json:"message"`
	Details int    `json:"details"` // number of detail messages
}
type c17RawSrvOut struct {
	Err      string   `json:"err,omitempty"`
	Status   int      `json:"status"`
	Headers  []c17Hdr `json:"headers"`
	Body     string   `json:"body"`
	Trailers []c17Hdr `json:"trailers"`
	// Base: the headers of the same exchange for the same definition without headers and trailers:
	// what the stack in front of the raw responder (and net/http) puts there on its own
	Base   []c17Hdr `json:"base"`
	Oracle []c17Enc `json:"oracle"`
}

func c17Contents(p *c17Payload) *conformancev1.MessageContents {
	if p == nil {
		return nil
	}
	data, _ := hex.DecodeString(p.Data)
	mc := &conformancev1.MessageContents{Compression: conformancev1.Compression(p.Comp)}
	switch p.Kind {
	case "binary":
		if data == nil {
			data = []byte{}
		}
		mc.Data = &conformancev1.MessageContents_Binary{Binary: data}
	case "text":
		mc.Data = &conformancev1.MessageContents_Text{Text: string(data)}
	case "any":
		mc.Data = &conformancev1.MessageContents_BinaryMessage{BinaryMessage: &anypb.Any{TypeUrl: "type.googleapis.com/x.Y", Value: data}}
	}
	return mc
}

func c17Stream(items []c17Item) *conformancev1.StreamContents {
	sc := &conformancev1.StreamContents{}
	for _, it := range items {
		sc.Items = append(sc.Items, &conformancev1.StreamContents_StreamItem{Flags: it.Flags, Length: it.Length, Payload: c17Contents(it.Payload)})
	}
	return sc
}

// c17Oracle: the compression parameter of the model on the payloads of a definition.
func c17Oracle(ps []*c17Payload) []c17Enc {
	out := []c17Enc{}
	seen := map[string]bool{}
	for _, p := range ps {
		if p == nil || p.Kind == "none" {
			continue
		}
		key := fmt.Sprintf("%d:%s", p.Comp, p.Data)
		if seen[key] {
			continue
		}
		seen[key] = true
		e := c17Enc{Comp: p.Comp, Data: p.Data}
		data, _ := hex.DecodeString(p.Data)
		if c, err := compression.GetCompressor(conformancev1.Compression(p.Comp)); err == nil {
			var buf bytes.Buffer
			c.Reset(&buf)
			_, _ = c.Write(data)
			_ = c.Close()
			h := gen.Hex(buf.Bytes())
			e.Enc = &h
			if d, err := compression.GetDecompressor(conformancev1.Compression(p.Comp)); err == nil {
				if d.Reset(bytes.NewBuffer(append([]byte{}, buf.Bytes()...))) == nil {
					back, err := io.ReadAll(d)
					e.RT = err == nil && bytes.Equal(back, data)
				}
				gen.Recover(func() { _ = d.Close() })
			}
		}
		out = append(out, e)
	}
	return out
}

func c17Ops(ops []c17OpJ) []referenceserver.VerifC17Op {
	out := make([]referenceserver.VerifC17Op, len(ops))
	for i, o := range ops {
		data, _ := hex.DecodeString(o.Data)
		out[i] = referenceserver.VerifC17Op{K: o.K, Data: data, Code: o.Code}
		if o.K == "raw" {
			body, _ := hex.DecodeString(o.Body)
			out[i].Raw = &conformancev1.RawHTTPResponse{StatusCode: o.Status, Body: &conformancev1.RawHTTPResponse_Unary{
				Unary: &conformancev1.MessageContents{Data: &conformancev1.MessageContents_Binary{Binary: body}}}}
		}
	}
	return out
}

func c17DropEmptyWrites(wire []string) []string {
	var out []string
	for _, w := range wire {
		if w != "w:" {
			out = append(out, w)
		}
	}
	return out
}

func c17Headers(hs []c17Hdr) []*conformancev1.Header {
	out := make([]*conformancev1.Header, len(hs))
	for i, h := range hs {
		out[i] = &conformancev1.Header{Name: h.N, Value: h.V}
	}
	return out
}

func c17CanonHeader(h http.Header) []c17Hdr {
	out := make([]c17Hdr, 0, len(h))
	for k, v := range h {
		out = append(out, c17Hdr{N: k, V: nn(v)})
	}
	sort.Slice(out, func(i, j int) bool { return out[i].N < out[j].N })
	return out
}

// ---------------------------------------------------------------- raw response over real HTTP

type c17Served struct {
	handler http.Handler
}

var (
	c17SrvOnce sync.Once
	c17SrvURL  string
	c17Reg     sync.Map // id -> *c17Served
	c17Seq     atomic.Int64
	c17H1      *http.Client
	c17H2      *http.Client
)

func c17StartServer() {
	mux := http.HandlerFunc(func(w http.ResponseWriter, req *http.Request) {
		v, ok := c17Reg.Load(req.Header.Get("X-Verif-Id"))
		if !ok {
			http.Error(w, "no such definition", 599)
			return
		}
		v.(*c17Served).handler.ServeHTTP(w, req)
	})
	srv := httptest.NewUnstartedServer(h2c.NewHandler(mux, &http2.Server{}))
	srv.Config.ErrorLog = log.New(io.Discard, "", 0) // handler panics are observed by the client, not logged
	srv.Start()
	c17SrvURL = srv.URL
	c17H1 = &http.Client{Transport: &http.Transport{DisableCompression: true, MaxIdleConnsPerHost: 16}}
	c17H2 = &http.Client{Transport: &http2.Transport{AllowHTTP: true, DisableCompression: true,
		DialTLSContext: func(ctx context.Context, network, addr string, _ *tls.Config) (net.Conn, error) {
			var d net.Dialer
			return d.DialContext(ctx, network, addr)
		}}}
}

func c17RawBody(b c17Body, resp *conformancev1.RawHTTPResponse) {
	switch b.Kind {
	case "unary":
		resp.Body = &conformancev1.RawHTTPResponse_Unary{Unary: c17Contents(b.Unary)}
	case "unary-nil":
		resp.Body = &conformancev1.RawHTTPResponse_Unary{}
	case "stream":
		resp.Body = &conformancev1.RawHTTPResponse_Stream{Stream: c17Stream(b.Stream)}
	}
}

func c17BodyPayloads(b c17Body) []*c17Payload {
	ps := []*c17Payload{b.Unary}
	for _, it := range b.Stream {
		ps = append(ps, it.Payload)
	}
	return ps
}

func c17RawResp(in c17RawRespIn) c17RawRespOut {
	c17SrvOnce.Do(c17StartServer)
	raw := &conformancev1.RawHTTPResponse{StatusCode: in.Status, Headers: c17Headers(in.Headers), Trailers: c17Headers(in.Trailers)}
	c17RawBody(in.Body, raw)
	ops := c17Ops(in.Pre)
	ops = append(ops, referenceserver.VerifC17Op{K: "raw", Raw: raw})
	ops = append(ops, c17Ops(in.Post)...)
	var results []string
	id := fmt.Sprint(c17Seq.Add(1))
	c17Reg.Store(id, &c17Served{handler: referenceserver.VerifC17RawHandler(c17Headers(in.Handler), ops, &results)})
	defer c17Reg.Delete(id)
	out := c17RawRespOut{Oracle: c17Oracle(c17BodyPayloads(in.Body)), Headers: []c17Hdr{}, Trailers: []c17Hdr{}, Results: []string{}}
	req, _ := http.NewRequest(http.MethodPost, c17SrvURL+"/raw", strings.NewReader("ignored"))
	req.Header.Set("X-Verif-Id", id)
	client := c17H1
	if in.Proto == "h2c" {
		client = c17H2
	}
	resp, err := client.Do(req)
	if err != nil {
		out.Err = "do: " + err.Error()
		return out
	}
	defer resp.Body.Close()
	body, err := io.ReadAll(resp.Body)
	if err != nil {
		out.Err = "read: " + err.Error()
	}
	out.Results = nn(results)
	out.Status = resp.StatusCode
	out.Headers = c17CanonHeader(resp.Header)
	out.Body = gen.Hex(body)
	out.Trailers = c17CanonHeader(resp.Trailer)
	return out
}

// ---------------------------------------------------------------- raw response from the complete reference server

var c17Real struct {
	once sync.Once
	addr map[string]string
	err  error
}

func c17StartReal() {
	c17Real.addr = map[string]string{}
	for p, v := range map[string]int32{"h1": 1, "h2c": 2} {
		addr, err := referenceserver.VerifC17StartReal(v)
		if err != nil {
			c17Real.err = err
			return
		}
		c17Real.addr[p] = addr
	}
}

func c17Marshal(codec string, m proto.Message) []byte {
	var b []byte
	var err error
	if codec == "json" {
		b, err = protojson.Marshal(m)
	} else {
		b, err = proto.Marshal(m)
	}
	if err != nil {
		panic(err)
	}
	return b
}

func c17Envelope(b []byte) []byte {
	out := make([]byte, 5, 5+len(b))
	out[1], out[2], out[3], out[4] = byte(len(b)>>24), byte(len(b)>>16), byte(len(b)>>8), byte(len(b))
	return append(out, b...)
}

// c17RawExchange asks the real server for raw with one RPC and reads the response like a plain
// HTTP client.
func c17RawExchange(in c17RawSrvIn, raw *conformancev1.RawHTTPResponse, name string) (status int, hdr, trl http.Header, body []byte, err error) {
	client := c17H1
	if in.Proto == "h2c" {
		client = c17H2
	}
	return c17RawExchangeAt(c17Real.addr[in.Proto], client, in, raw, name)
}

// c17RawExchangeAt: the same against the server at addr through client. raw == nil: the response
// definition holds no raw response (the handler answers: in.Extra).
func c17RawExchangeAt(addr string, client *http.Client, in c17RawSrvIn, raw *conformancev1.RawHTTPResponse, name string) (status int, hdr, trl http.Header, body []byte, err error) {
	var payload []byte
	contentType := "application/" + in.Codec
	unaryDef := &conformancev1.UnaryResponseDefinition{RawResponse: raw}
	streamDef := &conformancev1.StreamResponseDefinition{RawResponse: raw}
	if x := in.Extra; x != nil {
		unaryDef.ResponseHeaders, unaryDef.ResponseTrailers = c17Headers(x.Headers), c17Headers(x.Trailers)
		streamDef.ResponseHeaders, streamDef.ResponseTrailers = c17Headers(x.Headers), c17Headers(x.Trailers)
		for _, d := range x.Data {
			b, _ := hex.DecodeString(d)
			streamDef.ResponseData = append(streamDef.ResponseData, b)
		}
		if len(streamDef.ResponseData) > 0 {
			unaryDef.Response = &conformancev1.UnaryResponseDefinition_ResponseData{ResponseData: streamDef.ResponseData[0]}
		}
		if x.Error != nil {
			e := &conformancev1.Error{Code: conformancev1.Code(x.Error.Code), Message: &x.Error.Message}
			for i := 0; i < x.Error.Details; i++ {
				d, _ := anypb.New(&conformancev1.Header{Name: fmt.Sprintf("detail-%d", i), Value: []string{"v"}})
				e.Details = append(e.Details, d)
			}
			unaryDef.Response = &conformancev1.UnaryResponseDefinition_Error{Error: e}
			streamDef.Error = e
		}
	}
	switch in.Proc {
	case "Unary":
		payload = c17Marshal(in.Codec, &conformancev1.UnaryRequest{ResponseDefinition: unaryDef})
	case "ClientStream":
		contentType = "application/connect+" + in.Codec
		payload = append(c17Envelope(c17Marshal(in.Codec, &conformancev1.ClientStreamRequest{ResponseDefinition: unaryDef})),
			c17Envelope(c17Marshal(in.Codec, &conformancev1.ClientStreamRequest{RequestData: []byte("more")}))...)
	case "ServerStream":
		contentType = "application/connect+" + in.Codec
		payload = c17Envelope(c17Marshal(in.Codec, &conformancev1.ServerStreamRequest{ResponseDefinition: streamDef}))
	case "BidiStream":
		contentType = "application/connect+" + in.Codec
		payload = append(c17Envelope(c17Marshal(in.Codec, &conformancev1.BidiStreamRequest{ResponseDefinition: streamDef})),
			c17Envelope(c17Marshal(in.Codec, &conformancev1.BidiStreamRequest{RequestData: []byte("more")}))...)
	default:
		return 0, nil, nil, nil, fmt.Errorf("unknown procedure %q", in.Proc)
	}
	switch in.Rpc {
	case "grpc", "grpcweb":
		if in.Proc == "Unary" {
			payload = c17Envelope(payload) // every gRPC message is enveloped
		}
		contentType = map[string]string{"grpc": "application/grpc+", "grpcweb": "application/grpc-web+"}[in.Rpc] + in.Codec
	}
	ctx, cancel := context.WithTimeout(context.Background(), 60*time.Second)
	defer cancel()
	req, err := http.NewRequestWithContext(ctx, http.MethodPost, "http://"+addr+"/connectrpc.conformance.v1.ConformanceService/"+in.Proc, bytes.NewReader(payload))
	if err != nil {
		return 0, nil, nil, nil, err
	}
	req.Header.Set("Content-Type", contentType)
	if in.Rpc == "grpc" || in.Rpc == "grpcweb" {
		req.Header.Set("Te", "trailers")
	} else {
		req.Header.Set("Connect-Protocol-Version", "1")
	}
	req.Header.Set("X-Test-Case-Name", name)
	if in.Origin != "" {
		req.Header.Set("Origin", in.Origin)
	}
	resp, err := client.Do(req)
	if err != nil {
		return 0, nil, nil, nil, err
	}
	defer resp.Body.Close()
	body, err = io.ReadAll(resp.Body)
	return resp.StatusCode, resp.Header, resp.Trailer, body, err
}

func c17RawSrv(in c17RawSrvIn) c17RawSrvOut {
	c17SrvOnce.Do(c17StartServer) // the plain clients
	c17Real.once.Do(c17StartReal)
	out := c17RawSrvOut{Oracle: c17Oracle(c17BodyPayloads(in.Body)), Headers: []c17Hdr{}, Trailers: []c17Hdr{}, Base: []c17Hdr{}}
	if c17Real.err != nil {
		out.Err = "start: " + c17Real.err.Error()
		return out
	}
	if _, ok := c17Real.addr[in.Proto]; !ok {
		out.Err = "unknown proto"
		return out
	}
	raw := &conformancev1.RawHTTPResponse{StatusCode: in.Status}
	c17RawBody(in.Body, raw)
	// what the stack sends on its own for this request and this body
	_, base, _, _, err := c17RawExchange(in, raw, "C17/raw response, no headers")
	if err != nil {
		out.Err = "baseline: " + err.Error()
		return out
	}
	out.Base = c17CanonHeader(base)
	raw.Headers, raw.Trailers = c17Headers(in.Headers), c17Headers(in.Trailers)
	status, hdr, trl, body, err := c17RawExchange(in, raw, "C17/raw response")
	if err != nil {
		out.Err = "exchange: " + err.Error()
		return out
	}
	out.Status, out.Headers, out.Trailers, out.Body = status, c17CanonHeader(hdr), c17CanonHeader(trl), gen.Hex(body)
	return out
}

// ---------------------------------------------------------------- raw request against a recording server

type c17Recorded struct {
	method, target, path, rawQuery string
	header                 http.Header
	body                   []byte
}

var (
	c17RecOnce sync.Once
	c17RecURL  string
	c17RecReg  sync.Map // id -> chan c17Recorded
)

func c17StartRecorder() {
	srv := httptest.NewUnstartedServer(h2c.NewHandler(http.HandlerFunc(func(w http.ResponseWriter, req *http.Request) {
		body, _ := io.ReadAll(req.Body)
		if ch, ok := c17RecReg.Load(req.Header.Get("X-Verif-Id")); ok {
			ch.(chan c17Recorded) <- c17Recorded{req.Method, req.RequestURI, req.URL.Path, req.URL.RawQuery, req.Header.Clone(), body}
		}
		w.WriteHeader(200)
	}), &http2.Server{}))
	srv.Start()
	c17RecURL = srv.URL
}

type c17TrackedBody struct {
	io.Reader
	closed atomic.Bool
	eof    atomic.Bool
}

func (b *c17TrackedBody) Read(p []byte) (int, error) {
	n, err := b.Reader.Read(p)
	if err == io.EOF {
		b.eof.Store(true)
	}
	return n, err
}
func (b *c17TrackedBody) Close() error { b.closed.Store(true); return nil }

func c17RawReq(in c17RawReqIn) c17RawReqOut {
	c17SrvOnce.Do(c17StartServer)
	c17RecOnce.Do(c17StartRecorder)
	id := fmt.Sprint(c17Seq.Add(1))
	ch := make(chan c17Recorded, 1)
	c17RecReg.Store(id, ch)
	defer c17RecReg.Delete(id)
	raw := &conformancev1.RawHTTPRequest{Verb: in.Verb, Uri: in.URI, Headers: append(c17Headers(in.Headers), &conformancev1.Header{Name: "X-Verif-Id", Value: []string{id}}),
		RawQueryParams: c17Headers(in.RawQ)}
	var ps []*c17Payload
	for _, p := range in.EncQ {
		raw.EncodedQueryParams = append(raw.EncodedQueryParams, &conformancev1.RawHTTPRequest_EncodedQueryParam{Name: p.N, Value: c17Contents(p.Value), Base64Encode: p.Base64})
		ps = append(ps, p.Value)
	}
	switch in.Body.Kind {
	case "unary":
		raw.Body = &conformancev1.RawHTTPRequest_Unary{Unary: c17Contents(in.Body.Unary)}
	case "stream":
		raw.Body = &conformancev1.RawHTTPRequest_Stream{Stream: c17Stream(in.Body.Stream)}
	}
	ps = append(ps, c17BodyPayloads(in.Body)...)
	out := c17RawReqOut{Oracle: c17Oracle(ps), Query: []c17Hdr{}, Headers: []c17Hdr{}}
	origBody, _ := hex.DecodeString(in.Orig)
	tracked := &c17TrackedBody{Reader: bytes.NewReader(origBody)}
	orig, _ := http.NewRequest(http.MethodPost, c17RecURL+"/stub/path?stub=1", tracked)
	orig.Header.Set("X-Stub", "1")
	transport := c17H1.Transport
	if in.Proto == "h2c" {
		transport = c17H2.Transport
	}
	rt := referenceclient.VerifC17RawRequestSender(transport, raw)
	resp, err := rt.RoundTrip(orig)
	if err != nil {
		out.Err = "roundtrip"
		return out
	}
	_, _ = io.Copy(io.Discard, resp.Body)
	resp.Body.Close()
	rec := <-ch
	out.Method, out.Target, out.Path, out.Body = rec.method, rec.target, rec.path, gen.Hex(rec.body)
	// query as the server parses it (values hex, keys sorted; pairs net/url cannot parse are
	// skipped here - the request target is reported verbatim as well)
	q, _ := url.ParseQuery(rec.rawQuery)
	for k, vs := range q {
		out.Query = append(out.Query, c17Hdr{N: k, V: c18HexAll(vs)})
	}
	sort.Slice(out.Query, func(i, j int) bool { return out.Query[i].N < out.Query[j].N })
	out.Headers = c17CanonHeader(rec.header)
	// the stub's request is drained and closed asynchronously
	for i := 0; i < 2000 && !(tracked.closed.Load() && tracked.eof.Load()); i++ {
		time.Sleep(time.Millisecond)
	}
	out.Drained = tracked.closed.Load() && tracked.eof.Load()
	return out
}

// ---------------------------------------------------------------- generators

var c17Datas = []string{"", "00", "68656c6c6f", "ff00ff", strings.Repeat("ab", 40)}

func c17RandPayload(r *gen.Rand) *c17Payload {
	switch r.Intn(10) {
	case 0:
		return nil
	case 1:
		return &c17Payload{Kind: "none", Comp: int32(r.Intn(8))}
	}
	kind := gen.Pick(r, []string{"binary", "binary", "text", "any"})
	var data []byte
	if kind == "text" {
		data = []byte(c18RandText(r, 20))
	} else {
		data = r.Bytes(r.Intn(40))
		if r.Chance(1, 5) {
			data = bytes.Repeat([]byte{byte(r.Uint64())}, r.Intn(300))
		}
	}
	comp := int32(r.Intn(7))
	if r.Chance(1, 25) {
		comp = 7 // unsupported
	}
	return &c17Payload{Kind: kind, Data: gen.Hex(data), Comp: comp}
}

func c17PayloadLen(p *c17Payload) int {
	if p == nil || p.Kind == "none" {
		return 0
	}
	o := c17Oracle([]*c17Payload{p})
	if len(o) == 1 && o[0].Enc != nil {
		return len(*o[0].Enc) / 2
	}
	return 0
}

func c17RandItem(r *gen.Rand, allowBad bool) c17Item {
	it := c17Item{Flags: uint32(r.Intn(256)), Payload: c17RandPayload(r)}
	if allowBad && r.Chance(1, 30) {
		it.Flags = gen.Pick(r, []uint32{256, 257, 1000, 65535, 1 << 31, 0xffffffff})
	}
	if !allowBad && it.Payload != nil && it.Payload.Comp == 7 {
		it.Payload.Comp = 1
	}
	n := uint32(c17PayloadLen(it.Payload))
	switch r.Intn(6) {
	case 0:
		it.Length = &n
	case 1:
		m := n / 2
		it.Length = &m
	case 2:
		m := n + uint32(r.Range(1, 300))
		it.Length = &m
	case 3:
		m := gen.Pick(r, []uint32{0, 1, 255, 256, 65536, 1 << 24, 0xffffffff})
		it.Length = &m
	}
	return it
}

var c17HdrNames = []string{"X-Raw-A", "x-raw-b", "X-RAW-C", "X-Same", "Content-Type", "x-raw-a", "X-Raw-Bin"}
var c17TrlNames = []string{"X-Trl-A", "x-trl-b", "X-Same", "x-same", "X-TRL-C", "Grpc-Status", "x-trl-a"}
var c17HdrVals = []string{"v1", "v2", "a, b", "text/plain", "application/grpc", "0", "x=y; z", "AAEC"}

func c17RandHdrs(r *gen.Rand, names []string, max int) []c17Hdr {
	hs := make([]c17Hdr, r.Intn(max+1))
	for i := range hs {
		vs := make([]string, r.Range(1, 3))
		for k := range vs {
			vs[k] = gen.Pick(r, c17HdrVals)
		}
		hs[i] = c17Hdr{N: gen.Pick(r, names), V: vs}
	}
	return hs
}

// c17SameSpelling: a name repeated in a trailer list keeps one spelling (DESIGN: names unique up to
// case inside each list; net/http does not canonicalise "Trailer:"-prefixed keys)
func c17SameSpelling(hs []c17Hdr) []c17Hdr {
	first := map[string]string{}
	for i := range hs {
		k := strings.ToLower(hs[i].N)
		if s, ok := first[k]; ok {
			hs[i].N = s
		} else {
			first[k] = hs[i].N
		}
	}
	return hs
}

func c17RandHandlerOps(r *gen.Rand, max int) []c17OpJ {
	ops := make([]c17OpJ, r.Intn(max+1))
	for i := range ops {
		switch r.Intn(4) {
		case 0:
			ops[i] = c17OpJ{K: "h", Code: gen.Pick(r, []int{200, 201, 404, 500})}
		case 1:
			ops[i] = c17OpJ{K: "f"}
		default:
			ops[i] = c17OpJ{K: "w", Data: gen.Hex([]byte(fmt.Sprintf("handler-%d;", r.Intn(100))))}
		}
	}
	return ops
}

func c17RandBody(r *gen.Rand, allowBad bool) c17Body {
	switch r.Intn(8) {
	case 0:
		return c17Body{Kind: "none"}
	case 1:
		return c17Body{Kind: "unary-nil"}
	case 2, 3, 4:
		p := c17RandPayload(r)
		if p != nil && p.Comp == 7 {
			p.Comp = 2
		}
		if p == nil {
			return c17Body{Kind: "unary-nil"}
		}
		return c17Body{Kind: "unary", Unary: p}
	}
	items := make([]c17Item, r.Intn(5))
	for i := range items {
		items[i] = c17RandItem(r, allowBad)
	}
	return c17Body{Kind: "stream", Stream: items}
}

func runC17(c *gen.Ctx) error {
	r := c.R
	e := c.E
	th := c.Thorough()
	u32 := func(v uint32) *uint32 { return &v }

	// ---- (a) message contents: every kind x every compression value 0..7 x data shapes; nil
	c.Do("msg", c17MsgIn{nil})
	for comp := int32(0); comp <= 7; comp++ {
		c.Do("msg", c17MsgIn{&c17Payload{Kind: "none", Comp: comp}})
		for _, kind := range []string{"binary", "text", "any"} {
			for _, d := range c17Datas {
				if kind == "text" && (d == "ff00ff" || d == "00") {
					continue
				}
				c.Do("msg", c17MsgIn{&c17Payload{Kind: kind, Data: d, Comp: comp}})
			}
		}
	}
	// ---- (b) stream items: every flags value 0..255 (and out-of-range ones) x length absent /
	//      equal / smaller / larger x payload absent / empty / data, per compression
	hello := "68656c6c6f"
	for flags := uint32(0); flags <= 260; flags++ {
		for li := 0; li < 4; li++ {
			for pi := 0; pi < 4; pi++ {
				var p *c17Payload
				switch pi {
				case 1:
					p = &c17Payload{Kind: "none", Comp: int32(flags % 7)}
				case 2:
					p = &c17Payload{Kind: "binary", Data: "", Comp: int32(flags % 7)}
				case 3:
					p = &c17Payload{Kind: gen.Pick(r, []string{"binary", "text", "any"}), Data: hello, Comp: int32(flags % 7)}
				}
				it := c17Item{Flags: flags, Payload: p}
				n := uint32(c17PayloadLen(p))
				switch li {
				case 1:
					it.Length = u32(n)
				case 2:
					it.Length = u32(n / 2)
				case 3:
					it.Length = u32(n + 1 + flags)
				}
				if flags%3 == 0 {
					c.Do("stream", c17StreamIn{[]c17Item{it}})
				} else {
					c.Do("stream", c17StreamIn{[]c17Item{{Flags: 0, Payload: &c17Payload{Kind: "binary", Data: "01", Comp: 1}}, it, {Flags: 2, Payload: nil}}})
				}
			}
		}
	}
	for _, f := range []uint32{1000, 65535, 1 << 31, 0xffffffff} {
		c.Do("stream", c17StreamIn{[]c17Item{{Flags: 1, Length: u32(3), Payload: nil}, {Flags: f, Payload: &c17Payload{Kind: "binary", Data: hello, Comp: 1}}, {Flags: 0}}})
	}
	// unsupported compression behind an explicit length (prefix stays on the wire) and without
	for _, l := range []*uint32{nil, u32(9)} {
		c.Do("stream", c17StreamIn{[]c17Item{{Flags: 1, Payload: &c17Payload{Kind: "binary", Data: hello, Comp: 2}}, {Flags: 3, Length: l, Payload: &c17Payload{Kind: "binary", Data: hello, Comp: 7}}, {Flags: 0}}})
	}
	nStream := 4000
	if th {
		nStream = 40000
	}
	for i := 0; i < nStream; i++ {
		items := make([]c17Item, r.Intn(6))
		for k := range items {
			items[k] = c17RandItem(r, true)
		}
		c.Do("stream", c17StreamIn{items})
		if i%5 == 0 {
			c.Do("msg", c17MsgIn{c17RandPayload(r)})
		}
	}
	// ---- (c) arbitration: every operation sequence up to length 5 (thorough 6)
	alpha := []c17OpJ{{K: "w", Data: "6869"}, {K: "w", Data: ""}, {K: "h", Code: 201}, {K: "f"}, {K: "raw", Status: 0, Body: "7261773a30"}, {K: "raw", Status: 503, Body: ""}}
	maxLen := 5
	if th {
		maxLen = 6
	}
	var rec func(cur []c17OpJ)
	nArb := 0
	rec = func(cur []c17OpJ) {
		c.Do("arb", c17ArbIn{append([]c17OpJ{}, cur...)})
		nArb++
		if len(cur) == maxLen {
			return
		}
		for _, a := range alpha {
			rec(append(cur, a))
		}
	}
	rec([]c17OpJ{})
	e.Add("arb-sequences", nArb)
	// ---- (d) raw responses over real HTTP/1.1 and h2c
	var jobs []any
	nResp := 1500
	if th {
		nResp = 12000
	}
	for i := 0; i < nResp; i++ {
		in := c17RawRespIn{Proto: "h1", Status: gen.Pick(r, []uint32{0, 0, 200, 200, 201, 400, 404, 415, 500, 503, 599, 299, 600, 799, 999}),
			Headers: c17RandHdrs(r, c17HdrNames, 4), Trailers: c17SameSpelling(c17RandHdrs(r, c17TrlNames, 3)), Body: c17RandBody(r, i%7 == 0),
			Handler: []c17Hdr{{N: "X-Handler-Set", V: []string{"h"}}}, Pre: []c17OpJ{}, Post: c17RandHandlerOps(r, 3)}
		if i%2 == 1 {
			in.Proto = "h2c"
		}
		if r.Chance(1, 4) {
			in.Handler = append(in.Handler, c17Hdr{N: gen.Pick(r, c17HdrNames[:4]), V: []string{"from-handler"}})
		}
		if r.Chance(1, 6) {
			in.Pre = c17RandHandlerOps(r, 2) // a handler that already started: the raw response must be refused
		}
		jobs = append(jobs, in)
	}
	// a header and a trailer of the same name, both protocols
	for _, p := range []string{"h1", "h2c"} {
		jobs = append(jobs, c17RawRespIn{Proto: p, Headers: []c17Hdr{{N: "X-Same", V: []string{"h1"}}}, Trailers: []c17Hdr{{N: "x-same", V: []string{"t1"}}},
			Body: c17Body{Kind: "unary", Unary: &c17Payload{Kind: "text", Data: hello, Comp: 1}}, Handler: []c17Hdr{}, Pre: []c17OpJ{}, Post: []c17OpJ{}})
	}
	c.DoParallel("rawresp", jobs, 8)
	// ---- (e) raw requests against a recording server (HTTP/1.1 and h2c alternately)
	jobs = nil
	nReq := 600
	if th {
		nReq = 6000
	}
	for i := 0; i < nReq; i++ {
		in := c17RawReqIn{Proto: "h1", Verb: gen.Pick(r, []string{"POST", "POST", "GET", "PUT", "DELETE", "PATCH"}),
			URI:     gen.Pick(r, []string{"/a/b", "/x.Service/Method", "/p?q=1", "/p?q=1&r=2", "/", "/a%20b", "/p?z=1&a=2", "/p?q=1&message=m&q=0"}),
			Headers: c17RandHdrs(r, []string{"X-Req-A", "x-req-b", "Content-Type", "X-REQ-A", "Accept-Encoding"}, 4),
			RawQ:    []c17Hdr{}, EncQ: []c17Param{}, Body: c17RandBody(r, false), Orig: gen.Hex(r.Bytes(r.Intn(3000)))}
		if i%2 == 1 {
			in.Proto = "h2c"
		}
		if in.Verb == "GET" || in.Verb == "DELETE" {
			in.Body = c17Body{Kind: "none"}
		}
		for k := r.Intn(3); k > 0; k-- {
			in.RawQ = append(in.RawQ, c17Hdr{N: gen.Pick(r, []string{"q", "message", "b", "a b"}), V: []string{gen.Pick(r, []string{"1", "x y", "a&b=c", "é", ""})}})
		}
		if r.Chance(1, 20) { // a listed parameter without values: the URI is still rebuilt
			in.RawQ = append(in.RawQ, c17Hdr{N: "novalue", V: []string{}})
		}
		for k := r.Intn(3); k > 0; k-- {
			p := c17RandPayload(r)
			if p != nil && p.Comp == 7 {
				p.Comp = 3
			}
			in.EncQ = append(in.EncQ, c17Param{N: gen.Pick(r, []string{"message", "enc", "q"}), Value: p, Base64: r.Bool()})
		}
		if len(in.RawQ) > 0 || len(in.EncQ) > 0 {
			e.Count("kind:rawreq-merged-query")
		} else {
			e.Count("kind:rawreq-no-extra-params")
		}
		jobs = append(jobs, in)
	}
	// ---- (f) a URI that carries its own query string and no extra parameters: it is the request
	//      target, verbatim - whatever order, escaping, bare keys or unparsable pairs it has
	pairs := []string{"b=2", "a=1", "message=e30", "encoding=json", "connect=v1", "compression=gzip", "base64=1", "q=x%20y", "q=x+y", "flag", "flag=", "=v",
		"a=1", "message=%ZZ", "k=a;b", "x=%2F%2f", "a=%41", "a==b", "", "z", "Z=z", "m=e%", "tilde=~", "star=*", "q=a,b", "q=(1)", "q='1'", "q=a:b@c/d?e"}
	nVerb := 400
	if th {
		nVerb = 4000
	}
	for i := 0; i < nVerb; i++ {
		n := r.Range(1, 5)
		if i < len(pairs) {
			n = 1
		}
		qs := make([]string, n)
		for k := range qs {
			qs[k] = gen.Pick(r, pairs)
		}
		if i < len(pairs) {
			qs[0] = pairs[i]
		}
		in := c17RawReqIn{Proto: "h1", Verb: gen.Pick(r, []string{"POST", "GET", "GET", "PUT"}),
			URI:     gen.Pick(r, []string{"/a/b", "/connectrpc.conformance.v1.ConformanceService/IdempotentUnary", "/p", "/", "/a%20b"}) + "?" + strings.Join(qs, "&"),
			Headers: c17RandHdrs(r, []string{"X-Req-A", "Content-Type"}, 2),
			RawQ:    []c17Hdr{}, EncQ: []c17Param{}, Body: c17Body{Kind: "none"}, Orig: gen.Hex(r.Bytes(r.Intn(100)))}
		if i%2 == 1 {
			in.Proto = "h2c"
		}
		if in.Verb == "POST" || in.Verb == "PUT" {
			in.Body = c17RandBody(r, false)
		}
		e.Count("kind:rawreq-inline-query-verbatim")
		jobs = append(jobs, in)
	}
	c.DoParallel("rawreq", jobs, 8)
	// ---- (g) raw responses from the complete reference server (createServer, reference mode): the
	//      raw responder works behind CORS, which has already set Vary (always) and, for a request
	//      with an Origin, Access-Control-Allow-Origin / -Allow-Credentials / -Expose-Headers;
	//      the definitions list headers of those very names as well as others
	jobs = nil
	nSrv := 500
	if th {
		nSrv = 5000
	}
	corsNames := []string{"Vary", "vary", "Access-Control-Expose-Headers", "Access-Control-Allow-Origin", "access-control-allow-credentials",
		"Access-Control-Allow-Methods", "Access-Control-Max-Age"}
	srvNames := append(append([]string{}, corsNames...), "X-Raw-A", "x-raw-b", "Content-Type", "X-RAW-A")
	srvVals := []string{"Accept-Encoding", "Connect-Protocol-Version", "Origin", "*", "X-Custom", "true", "false", "https://other.example", "a, b", "application/json", "GET"}
	for i := 0; i < nSrv; i++ {
		in := c17RawSrvIn{Proto: "h1", Proc: gen.Pick(r, []string{"Unary", "Unary", "ServerStream", "ClientStream"}), Codec: gen.Pick(r, []string{"proto", "json"}),
			Origin: gen.Pick(r, []string{"", "https://verif.example", "http://localhost:8080"}),
			Status: gen.Pick(r, []uint32{0, 200, 200, 201, 400, 404, 415, 500, 503, 600, 799, 999}), Body: c17RandBody(r, false)}
		if i%2 == 1 {
			in.Proto = "h2c"
		}
		for _, p := range c17BodyPayloads(in.Body) {
			if p != nil && p.Kind == "any" { // protojson needs the message type of an Any
				in.Codec = "proto"
			}
		}
		in.Headers = make([]c17Hdr, r.Range(1, 4))
		for k := range in.Headers {
			names := srvNames
			if k == 0 && i%3 != 2 {
				names = corsNames
			}
			vs := make([]string, r.Range(1, 3))
			for j := range vs {
				vs[j] = gen.Pick(r, srvVals)
			}
			in.Headers[k] = c17Hdr{N: gen.Pick(r, names), V: vs}
		}
		in.Trailers = c17SameSpelling(c17RandHdrs(r, c17TrlNames, 2))
		e.Count("kind:rawsrv-" + in.Proc)
		jobs = append(jobs, in)
	}
	// ---- (g2) whatever else the response definition holds, the raw response is what is sent: every
	//      RPC protocol x every procedure x HTTP/1.1, h2c x {nothing else, response data, an error
	//      without / with details} x response headers {none, some} x response trailers {none, some}
	xhdr := []c17Hdr{{N: "X-Handler-Hdr", V: []string{"from-definition"}}, {N: "x-handler-bin", V: []string{"AAEC"}}}
	xtrl := []c17Hdr{{N: "X-Handler-Trl", V: []string{"from-definition"}}}
	nExtra := 0
	for _, rpc := range []string{"connect", "grpc", "grpcweb"} {
		for _, proc := range []string{"Unary", "ClientStream", "ServerStream", "BidiStream"} {
			for _, proto := range []string{"h1", "h2c"} {
				if proto == "h1" && (rpc == "grpc" || proc == "BidiStream") {
					continue // gRPC and bidirectional streams need HTTP/2
				}
				for kind := 0; kind < 4; kind++ {
					for hm := 0; hm < 4; hm++ {
						if !th && (nExtra+kind+hm)%2 == 1 && !(kind >= 2 && hm%2 == 1 && proc == "Unary") {
							continue
						}
						x := &c17Extra{Data: []string{}, Headers: []c17Hdr{}, Trailers: []c17Hdr{}}
						switch kind {
						case 1:
							x.Data = []string{gen.Hex([]byte("handler-data-1")), gen.Hex([]byte("handler-data-2"))}
						case 2:
							x.Error = &c17Err{Code: int32(r.Range(1, 16)), Message: "handler error"}
						case 3:
							x.Error = &c17Err{Code: int32(r.Range(1, 16)), Message: "handler error with details", Details: r.Range(1, 2)}
						}
						if hm&1 == 1 {
							x.Headers = xhdr
						}
						if hm&2 == 2 {
							x.Trailers = xtrl
						}
						in := c17RawSrvIn{Proto: proto, Proc: proc, Codec: "proto", Rpc: rpc, Extra: x,
							Status: gen.Pick(r, []uint32{0, 201, 400, 404, 500, 503}), Body: c17RandBody(r, false),
							Headers:  []c17Hdr{{N: gen.Pick(r, []string{"X-Raw-A", "Content-Type", "Vary"}), V: []string{gen.Pick(r, srvVals)}}},
							Trailers: c17SameSpelling(c17RandHdrs(r, c17TrlNames, 2))}
						e.Count("kind:rawsrv-extra-" + rpc)
						jobs = append(jobs, in)
					}
				}
				nExtra++
			}
		}
	}
	c.DoParallel("rawsrv", jobs, 8)
	// ---- (h)-(l): histories in one process and the whole status range (c17seq.go)
	runC17Seq(c)
	runC17Status(c)
	runC17RespSeq(c)
	runC17Retry(c)
	runC17StackSeq(c)
	// ---- (o): two goroutines arbitrating one rawResponseWriter (c17race.go)
	runC17Race(c)
	return nil
}
