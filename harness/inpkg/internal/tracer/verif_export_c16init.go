//go:build verif

package tracer

// VerifC16SlotState looks at the slot of a test name without touching it:
// "none" (no slot: never initialised or cleared), "pending", "done".
func VerifC16SlotState(t *Tracer, name string) string {
	if t == nil {
		return "none"
	}
	t.mu.Lock()
	defer t.mu.Unlock()
	r := t.traces[name]
	switch {
	case r == nil:
		return "none"
	case r.done != nil:
		return "pending"
	default:
		return "done"
	}
}
