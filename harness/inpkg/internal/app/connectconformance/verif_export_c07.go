//go:build verif

package connectconformance

import (
	"sort"
	"strings"

	"connectrpc.com/conformance/internal/app/connectconformance/testsuites"
	conformancev1 "connectrpc.com/conformance/internal/gen/proto/go/connectrpc/conformance/v1"
	"google.golang.org/protobuf/encoding/protojson"
	"google.golang.org/protobuf/proto"
	"google.golang.org/protobuf/types/known/anypb"
)

// VerifC07Test is the abstract description of a test case template.
type VerifC07Test struct {
	Name     string `json:"name"`
	St       int    `json:"st"`
	Service  string `json:"service"`
	Method   string `json:"method"`
	RawReq   bool   `json:"rawReq"`
	RawResp  bool   `json:"rawResp"`
	Expected bool   `json:"expected"`
	// Pre: fields of the request template that the runner documents as auto-populated are
	// already set in the suite file (e.g. a request pasted from a capture): protocol, version,
	// codec, compression, host/port, TLS certificate and client credentials. Expansion must
	// overwrite them from the config case; the Lean model has no such field, which is that claim.
	Pre bool `json:"pre,omitempty"`
}

// VerifC07Suite is the abstract description of a TestSuite (plus the file it is defined in).
type VerifC07Suite struct {
	File      string         `json:"file"`
	Name      string         `json:"name"`
	Mode      int            `json:"mode"`
	Protocols []int          `json:"protocols"`
	Versions  []int          `json:"versions"`
	Codecs    []int          `json:"codecs"`
	Comps     []int          `json:"comps"`
	CVM       int            `json:"cvm"`
	TLS       bool           `json:"tls"`
	Certs     bool           `json:"certs"`
	Get       bool           `json:"get"`
	Limit     bool           `json:"limit"`
	Tests     []VerifC07Test `json:"tests"`
}

func verifC07Enums[T ~int32](xs []int) []T {
	if len(xs) == 0 {
		return nil
	}
	out := make([]T, len(xs))
	for i, x := range xs {
		out[i] = T(x)
	}
	return out
}

// VerifC07Build builds the TestSuite proto directly (no YAML involved).
func VerifC07Build(s VerifC07Suite) *conformancev1.TestSuite {
	suite := &conformancev1.TestSuite{
		Name:                        s.Name,
		Mode:                        conformancev1.TestSuite_TestMode(s.Mode),
		RelevantProtocols:           verifC07Enums[conformancev1.Protocol](s.Protocols),
		RelevantHttpVersions:        verifC07Enums[conformancev1.HTTPVersion](s.Versions),
		RelevantCodecs:              verifC07Enums[conformancev1.Codec](s.Codecs),
		RelevantCompressions:        verifC07Enums[conformancev1.Compression](s.Comps),
		ConnectVersionMode:          conformancev1.TestSuite_ConnectVersionMode(s.CVM),
		ReliesOnTls:                 s.TLS,
		ReliesOnTlsClientCerts:      s.Certs,
		ReliesOnConnectGet:          s.Get,
		ReliesOnMessageReceiveLimit: s.Limit,
	}
	for _, t := range s.Tests {
		req := &conformancev1.ClientCompatRequest{
			TestName:   t.Name,
			StreamType: conformancev1.StreamType(t.St),
		}
		if t.Service != "" {
			req.Service = proto.String(t.Service)
		}
		if t.Method != "" {
			req.Method = proto.String(t.Method)
		}
		if t.RawReq {
			req.RawRequest = &conformancev1.RawHTTPRequest{Verb: "POST", Uri: "/verif"}
		}
		if t.Pre {
			req.HttpVersion = conformancev1.HTTPVersion_HTTP_VERSION_3
			req.Protocol = conformancev1.Protocol_PROTOCOL_GRPC_WEB
			req.Codec = conformancev1.Codec_CODEC_JSON
			req.Compression = conformancev1.Compression_COMPRESSION_SNAPPY
			req.Host, req.Port = "stale.example", 1
			req.ServerTlsCert = []byte("stale certificate")
			req.ClientTlsCreds = &conformancev1.TLSCreds{Cert: []byte("stale"), Key: []byte("stale")}
			req.MessageReceiveLimit = 7
		}
		if t.RawResp {
			raw := &conformancev1.RawHTTPResponse{StatusCode: 200}
			var msg proto.Message
			switch conformancev1.StreamType(t.St) {
			case conformancev1.StreamType_STREAM_TYPE_CLIENT_STREAM:
				msg = &conformancev1.ClientStreamRequest{ResponseDefinition: &conformancev1.UnaryResponseDefinition{RawResponse: raw}}
			case conformancev1.StreamType_STREAM_TYPE_SERVER_STREAM:
				msg = &conformancev1.ServerStreamRequest{ResponseDefinition: &conformancev1.StreamResponseDefinition{RawResponse: raw}}
			case conformancev1.StreamType_STREAM_TYPE_HALF_DUPLEX_BIDI_STREAM, conformancev1.StreamType_STREAM_TYPE_FULL_DUPLEX_BIDI_STREAM:
				msg = &conformancev1.BidiStreamRequest{ResponseDefinition: &conformancev1.StreamResponseDefinition{RawResponse: raw}}
			default:
				msg = &conformancev1.UnaryRequest{ResponseDefinition: &conformancev1.UnaryResponseDefinition{RawResponse: raw}}
			}
			a, err := anypb.New(msg)
			if err != nil {
				panic(err)
			}
			req.RequestMessages = []*anypb.Any{a}
		}
		tc := &conformancev1.TestCase{Request: req}
		if t.Expected {
			tc.ExpectedResponse = &conformancev1.ClientResponseResult{}
		}
		suite.TestCases = append(suite.TestCases, tc)
	}
	return suite
}

// VerifC07CaseOfCode is the inverse of VerifC06Code.
func VerifC07CaseOfCode(code int) configCase {
	m := code % 43008
	return configCase{
		ConnectVersionMode:     conformancev1.TestSuite_ConnectVersionMode(code / 43008),
		UseMessageReceiveLimit: m%2 == 1,
		UseConnectGET:          m/2%2 == 1,
		UseTLSClientCerts:      m/4%2 == 1,
		UseTLS:                 m/8%2 == 1,
		StreamType:             conformancev1.StreamType(m / 16 % 6),
		Compression:            conformancev1.Compression(m / 96 % 7),
		Codec:                  conformancev1.Codec(m / 672 % 4),
		Protocol:               conformancev1.Protocol(m / 2688 % 4),
		Version:                conformancev1.HTTPVersion(m / 10752 % 4),
	}
}

// VerifC07Perm is the observable part of one entry of testCaseLibrary.testCases.
type VerifC07Perm struct {
	Name    string `json:"name"`   // Request.TestName
	Key     string `json:"key"`    // map key in lib.testCases
	Simple  string `json:"simple"` // lib.testCaseNames[key]
	V       int    `json:"v"`
	P       int    `json:"p"`
	C       int    `json:"c"`
	Z       int    `json:"z"`
	St      int    `json:"st"`
	Cert    bool   `json:"cert"`  // len(ServerTlsCert) > 0
	Creds   bool   `json:"creds"` // ClientTlsCreds != nil
	Service string `json:"service"`
	Method  string `json:"method"`
	// the TLS placeholder fields and the receive limit, verbatim
	CertText  string `json:"certText"`  // string(Request.ServerTlsCert)
	CredsText string `json:"credsText"` // "" when ClientTlsCreds == nil, else key + "|" + cert
	Limit     int    `json:"limit"`     // Request.MessageReceiveLimit
}

// VerifC07ReceiveLimit is the constant clientReceiveLimit of test_case_library.go.
func VerifC07ReceiveLimit() int { return clientReceiveLimit }

type VerifC07Group struct {
	P     int      `json:"p"`
	V     int      `json:"v"`
	TLS   bool     `json:"tls"`
	Certs bool     `json:"certs"`
	Names []string `json:"names"`
}

type VerifC07Dump struct {
	Err    string          `json:"err"` // "" or an error class
	Perms  []VerifC07Perm  `json:"perms"`
	Groups []VerifC07Group `json:"groups"`
	// names returned by allPermutations(client, server) for (false,true), (true,false), (true,true)
	AllFT []string `json:"allFT"`
	AllTF []string `json:"allTF"`
	AllTT []string `json:"allTT"`
}

func verifC07ErrClass(msg string) string {
	switch {
	case strings.Contains(msg, "defines a suite with no name"):
		return "suite-no-name"
	case strings.Contains(msg, "that has no test cases"):
		return "suite-no-tests"
	case strings.Contains(msg, "define a suite named"):
		return "suite-dup"
	case strings.Contains(msg, "is misconfigured"):
		return "misconfigured"
	case strings.Contains(msg, "test case has no name"):
		return "test-no-name"
	case strings.Contains(msg, "has no stream type specified"):
		return "test-no-stream-type"
	case strings.Contains(msg, "specified but no"):
		return "service-method"
	case strings.Contains(msg, "duplicate definition"):
		return "dup-name"
	case strings.Contains(msg, "no test cases apply"):
		return "empty"
	case strings.Contains(msg, "failed to compute expected response"):
		return "expected-response"
	}
	return "other"
}

func verifC07Names(tcs []*conformancev1.TestCase) []string {
	out := make([]string, len(tcs))
	for i, tc := range tcs {
		out[i] = tc.Request.TestName
	}
	sort.Strings(out)
	return out
}

// VerifC07Library builds fresh TestSuite protos, runs the real newTestCaseLibrary and dumps
// what property C07 names: permutation names and request fields, testCaseNames, casesByServer,
// allPermutations.
func VerifC07Library(suites []VerifC07Suite, codes []int, mode int) VerifC07Dump {
	all := make(map[string]*conformancev1.TestSuite, len(suites))
	for _, s := range suites {
		all[s.File] = VerifC07Build(s)
	}
	cases := make([]configCase, len(codes))
	for i, c := range codes {
		cases[i] = VerifC07CaseOfCode(c)
	}
	lib, err := newTestCaseLibrary(all, cases, conformancev1.TestSuite_TestMode(mode))
	if err != nil {
		return VerifC07Dump{Err: verifC07ErrClass(err.Error())}
	}
	return verifC07DumpOf(lib)
}

func verifC07DumpOf(lib *testCaseLibrary) VerifC07Dump {
	var d VerifC07Dump
	d.Perms = make([]VerifC07Perm, 0, len(lib.testCases))
	for key, tc := range lib.testCases {
		r := tc.Request
		credsText := ""
		if r.ClientTlsCreds != nil {
			credsText = string(r.ClientTlsCreds.Key) + "|" + string(r.ClientTlsCreds.Cert)
		}
		d.Perms = append(d.Perms, VerifC07Perm{
			CertText: string(r.ServerTlsCert), CredsText: credsText, Limit: int(r.MessageReceiveLimit),
			Name: r.TestName, Key: key, Simple: lib.testCaseNames[key],
			V: int(r.HttpVersion), P: int(r.Protocol), C: int(r.Codec), Z: int(r.Compression), St: int(r.StreamType),
			Cert: len(r.ServerTlsCert) > 0, Creds: r.ClientTlsCreds != nil,
			Service: r.GetService(), Method: r.GetMethod(),
		})
	}
	sort.Slice(d.Perms, func(i, j int) bool { return d.Perms[i].Key < d.Perms[j].Key })
	d.Groups = make([]VerifC07Group, 0, len(lib.casesByServer))
	for svr, tcs := range lib.casesByServer {
		d.Groups = append(d.Groups, VerifC07Group{P: int(svr.protocol), V: int(svr.httpVersion), TLS: svr.useTLS, Certs: svr.useTLSClientCerts, Names: verifC07Names(tcs)})
	}
	sort.Slice(d.Groups, func(i, j int) bool {
		a, b := d.Groups[i], d.Groups[j]
		if a.P != b.P {
			return a.P < b.P
		}
		if a.V != b.V {
			return a.V < b.V
		}
		if a.TLS != b.TLS {
			return !a.TLS
		}
		return !a.Certs && b.Certs
	})
	d.AllFT = verifC07Names(lib.allPermutations(false, true))
	d.AllTF = verifC07Names(lib.allPermutations(true, false))
	d.AllTT = verifC07Names(lib.allPermutations(true, true))
	return d
}

// VerifC07Parse renders the suites with protojson and runs the real parseTestSuites on the
// bytes; returns "" or an error class ("raw-request", "raw-response", "raw-response-expected", "other").
func VerifC07Parse(suites []VerifC07Suite) string {
	files := make(map[string][]byte, len(suites))
	for _, s := range suites {
		b, err := protojson.Marshal(VerifC07Build(s))
		if err != nil {
			panic(err)
		}
		files[s.File] = b
	}
	_, err := parseTestSuites(files)
	if err == nil {
		return ""
	}
	msg := err.Error()
	switch {
	case strings.Contains(msg, "has raw request, but that is only allowed"):
		return "raw-request"
	case strings.Contains(msg, "has raw response, but that is only allowed"):
		return "raw-response"
	case strings.Contains(msg, "does not specify an explicit expected response"):
		return "raw-response-expected"
	}
	return "other"
}

// verifC07Embedded parses the embedded test suites with the real parseTestSuites.
func verifC07Embedded() (map[string]*conformancev1.TestSuite, error) {
	data, err := testsuites.LoadTestSuites()
	if err != nil {
		return nil, err
	}
	return parseTestSuites(data)
}

// VerifC07Corpus abstracts the embedded test suites (sorted by file name).
func VerifC07Corpus() ([]VerifC07Suite, error) {
	all, err := verifC07Embedded()
	if err != nil {
		return nil, err
	}
	ints := func(n int, at func(int) int32) []int {
		out := make([]int, n)
		for i := range out {
			out[i] = int(at(i))
		}
		return out
	}
	var out []VerifC07Suite
	for file, s := range all {
		a := VerifC07Suite{
			File: file, Name: s.Name, Mode: int(s.Mode), CVM: int(s.ConnectVersionMode),
			Protocols: ints(len(s.RelevantProtocols), func(i int) int32 { return int32(s.RelevantProtocols[i]) }),
			Versions:  ints(len(s.RelevantHttpVersions), func(i int) int32 { return int32(s.RelevantHttpVersions[i]) }),
			Codecs:    ints(len(s.RelevantCodecs), func(i int) int32 { return int32(s.RelevantCodecs[i]) }),
			Comps:     ints(len(s.RelevantCompressions), func(i int) int32 { return int32(s.RelevantCompressions[i]) }),
			TLS:       s.ReliesOnTls, Certs: s.ReliesOnTlsClientCerts, Get: s.ReliesOnConnectGet, Limit: s.ReliesOnMessageReceiveLimit,
			Tests: []VerifC07Test{},
		}
		for _, tc := range s.TestCases {
			a.Tests = append(a.Tests, VerifC07Test{
				Name: tc.Request.TestName, St: int(tc.Request.StreamType),
				Service: tc.Request.GetService(), Method: tc.Request.GetMethod(),
				RawReq: tc.Request.RawRequest != nil, RawResp: hasRawResponse(tc.Request.RequestMessages),
				Expected: tc.ExpectedResponse != nil,
			})
		}
		out = append(out, a)
	}
	sort.Slice(out, func(i, j int) bool { return out[i].File < out[j].File })
	return out, nil
}

// VerifC07CorpusLibrary runs the real newTestCaseLibrary on the real embedded suites.
func VerifC07CorpusLibrary(codes []int, mode int) VerifC07Dump {
	all, err := verifC07Embedded()
	if err != nil {
		return VerifC07Dump{Err: "corpus-unparsable"}
	}
	cases := make([]configCase, len(codes))
	for i, c := range codes {
		cases[i] = VerifC07CaseOfCode(c)
	}
	lib, err := newTestCaseLibrary(all, cases, conformancev1.TestSuite_TestMode(mode))
	if err != nil {
		return VerifC07Dump{Err: verifC07ErrClass(err.Error())}
	}
	return verifC07DumpOf(lib)
}
