/-
C05 — model of the dispatch loop of `run()` (connectconformance.go): which permutations are
handed to which server batch, and the bookkeeping that bounds the number of live servers.

A permutation is its name (split at `/`) plus the server instance the library grouped it
under (`serverInstanceForCase`); `gOK` says whether the gRPC reference peers support it
(`filterGRPCImplTestCases`).
-/
import ConfModel.Model.Trie
namespace ConfModel.Run
open ConfModel.Trie

structure Inst where
  proto : Nat
  ver : Nat
  tls : Bool
  certs : Bool
deriving DecidableEq, Repr, Inhabited

structure Perm where
  name : List String
  inst : Inst
deriving DecidableEq, Repr, Inhabited

/-- one server batch of `run()`: `casesByServer[inst]` after `filter.apply`; empty batches are
skipped (no server is started for them) -/
def batchFor (perms : List Perm) (run skip : Node) (i : Inst) : List Perm :=
  (perms.filter (fun p => p.inst == i)).filter (fun p => accept run skip p.name)

/-- the batches of one (client, server) pair, in the order of `svrInstances` -/
def plan (perms : List Perm) (run skip : Node) (insts : List Inst) : List (Inst × List Perm) :=
  insts.filterMap (fun i =>
    let b := batchFor perms run skip i
    if b.isEmpty then none else some (i, b))

/-! ### server life cycle bookkeeping

Every batch runs in its own goroutine: `sema.Acquire` (in the dispatching loop, before the
goroutine is spawned) · start the server · … · stop the server and wait for it to end ·
`sema.Release`.  A thread's program counter: -/
inductive PC
  | idle      -- not yet acquired
  | holding   -- semaphore acquired, server not started (or start failed)
  | alive     -- server process running
  | stopped   -- server ended (abort + wait), semaphore still held
  | done      -- semaphore released
deriving DecidableEq, Repr, Inhabited

def PC.holds : PC → Bool
  | .holding | .alive | .stopped => true
  | _ => false

def holdingCount (s : List PC) : Nat := (s.filter PC.holds).length
def aliveCount (s : List PC) : Nat := (s.filter (· == .alive)).length

/-- one step of thread `i` (any thread may move at any time; `acquire` only while a permit is free) -/
def stepThread (max : Nat) (s : List PC) (i : Nat) : Option (List PC) :=
  match s[i]? with
  | some .idle => if holdingCount s < max then some (s.set i .holding) else none
  | some .holding => some (s.set i .alive)       -- start the server (a failed start goes on to `stopped` next)
  | some .alive => some (s.set i .stopped)       -- abort and wait for the process to end
  | some .stopped => some (s.set i .done)        -- release
  | _ => none

/-- run a schedule (a list of thread indices); disabled steps are skipped -/
def runSchedule (max : Nat) (s : List PC) : List Nat → List PC
  | [] => s
  | i :: is => runSchedule max ((stepThread max s i).getD s) is

end ConfModel.Run
