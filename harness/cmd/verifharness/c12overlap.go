package main

// C12 — overlapping requests on one reference server, and the whole stderr stream of a server.
//
// ops
//   overlap : {reqs:[{e,a,v,name,trailers}], sched:[[kind,ids...]], stderr}
//             ONE handler made by referenceServerChecks around an inner handler the harness
//             controls (rs.VerifC12Overlap). kind 0 = enter (the request arrives and runs until it
//             is inside the wrapped handler, or has been rejected), 1 = leave (its wrapped handler
//             returns and the call runs to its end), 2 = burst (several requests arrive at the same
//             time). Logical barriers only. Result: per event the lines the printer received
//             (stderr=true: the bytes of the real printer's stream, each line attributed by the REAL
//             runTestCasesForServer), per request what became of it.
//   stream  : {reqs:[{e,a,v,name,trailers,pad:{kind,n}}], chunk, pipe}
//             the requests are served one after the other by one handler instance that prints
//             through the printer of the real process; pad makes a client-controlled value that the
//             feedback echoes n bytes longer. The WHOLE stream is read by the REAL
//             runTestCasesForServer for the batch of these test cases: pipe=false - recorded first,
//             then delivered in reads of at most chunk bytes; pipe=true - through an io.Pipe (what
//             the runner gives a reference server as stderr) while the batch runs: request i is
//             served when the runner hands case i to the client, so a reader that stops reading
//             stalls the server.
//
// Long texts travel run-length encoded: [[text, repeat], ...].

import (
	"context"
	"encoding/json"
	"io"
	"net/http"
	"sort"
	"strconv"
	"strings"
	"sync"
	"time"

	cc "connectrpc.com/conformance/internal/app/connectconformance"
	rs "connectrpc.com/conformance/internal/app/referenceserver"
	"connectrpc.com/conformance/internal/verifharness/gen"
)

func init() {
	gen.RegisterOp("c12", "overlap", func(c *gen.Ctx, raw json.RawMessage) any {
		return c12Overlap(c, gen.Into[c12OverlapIn](raw))
	})
	gen.RegisterOp("c12", "stream", func(c *gen.Ctx, raw json.RawMessage) any {
		return c12Stream(c, gen.Into[c12StreamIn](raw))
	})
}

// ---------------------------------------------------------------- run-length coding

type c12Seg struct {
	S string
	N int
}

func (s c12Seg) MarshalJSON() ([]byte, error) { return json.Marshal([]any{s.S, s.N}) }

// c12RLE: runs of at least 48 equal bytes become one segment.
func c12RLE(s string) []c12Seg {
	out := []c12Seg{}
	lit := 0 // start of the pending literal
	i := 0
	for i < len(s) {
		j := i
		for j < len(s) && s[j] == s[i] {
			j++
		}
		if j-i >= 48 && s[i] < 0x80 {
			if lit < i {
				out = append(out, c12Seg{s[lit:i], 1})
			}
			out = append(out, c12Seg{s[i : i+1], j - i})
			lit = j
		}
		i = j
	}
	if lit < len(s) {
		out = append(out, c12Seg{s[lit:], 1})
	}
	return out
}

// ---------------------------------------------------------------- requests

type c12Pad struct {
	Kind string `json:"kind"` // codec | compression | expect | timeout | cert | method
	N    int    `json:"n"`
}

type c12OvReq struct {
	E        [7]int  `json:"e"`
	A        [7]int  `json:"a"`
	V        [3]int  `json:"v"`
	Name     string  `json:"name"`
	Trailers int     `json:"trailers"`
	Pad      *c12Pad `json:"pad,omitempty"`
}

// c12OvRender: the request of a conformant client (c12Render), with request trailers, the test
// name header absent when the name is empty, and the padding applied.
func c12OvRender(q c12OvReq) c12Req {
	r := c12Render(c12MatrixIn{E: q.E, A: q.A, V: q.V, Name: q.Name})
	r.Trailers = q.Trailers
	if q.Name == "" {
		r.Headers = r.Headers[1:]
	}
	if q.Pad != nil {
		c12ApplyPad(&r, *q.Pad)
	}
	return r
}

// c12ApplyPad appends n bytes to a value the checks echo in a feedback message:
//
//	codec        the content type (or the encoding query parameter of a GET)   "expected codec ...; instead got <rest>"
//	compression  the header / query parameter announcing the compression        "expected compression ...; instead got <value>"
//	expect       X-Expect-Codec                                                 "invalid value for ... header: <value>: ..."
//	timeout      a timeout header of the expected protocol, all digits          "invalid numeric value (>N digits) in ... header: <value>"
//	method       the HTTP method                                                "expected HTTP method ..., got <method>"
func c12ApplyPad(r *c12Req, p c12Pad) {
	pad := strings.Repeat("x", p.N)
	set := func(list *[][2]string, key, dflt string) {
		for i := range *list {
			if (*list)[i][0] == key {
				(*list)[i][1] += pad
				return
			}
		}
		*list = append(*list, [2]string{key, dflt + pad})
	}
	switch p.Kind {
	case "codec":
		if r.Method == "GET" {
			set(&r.Query, "encoding", "proto")
		} else {
			set(&r.Headers, "Content-Type", "application/proto")
		}
	case "compression":
		if r.Method == "GET" {
			set(&r.Query, "compression", "gzip")
			return
		}
		ct := ""
		for _, kv := range r.Headers {
			if kv[0] == "Content-Type" {
				ct = kv[1]
			}
		}
		switch {
		case strings.HasPrefix(ct, "application/grpc"):
			set(&r.Headers, "Grpc-Encoding", "gzip")
		case strings.HasPrefix(ct, "application/connect+"):
			set(&r.Headers, "Connect-Content-Encoding", "gzip")
		default:
			set(&r.Headers, "Content-Encoding", "gzip")
		}
	case "expect":
		set(&r.Headers, "X-Expect-Codec", "1")
	case "timeout":
		name := "Grpc-Timeout"
		for _, kv := range r.Headers {
			if kv[0] == "X-Expect-Protocol" && kv[1] == "1" {
				name = "Connect-Timeout-Ms"
			}
		}
		r.Headers = append(r.Headers, [2]string{name, "1" + strings.Repeat("0", p.N)})
	case "method":
		r.Method += strings.Repeat("X", p.N)
	}
}

// ---------------------------------------------------------------- overlap

type c12OverlapIn struct {
	Reqs   []c12OvReq `json:"reqs"`
	Sched  [][]int    `json:"sched"` // [kind, ids...]: 0 enter, 1 leave, 2 burst
	Stderr bool       `json:"stderr,omitempty"`
	Traced bool       `json:"traced,omitempty"` // tracer.TracingHandler around the checks
}

type c12OvStep struct {
	Ev    []int       `json:"ev"`    // the event as executed
	Lines [][2]string `json:"lines"` // (name it was printed under, class); a line not printed through PrefixPrintf / not recorded by the runner: ("", "other:...")
	Raw   [][3]string `json:"raw"`   // stderr mode: (line as written, record | forward | skip | hang, test case it was recorded for)
	Stuck bool        `json:"stuck"`
}

type c12OvReqObs struct {
	Started bool        `json:"started"`
	Called  bool        `json:"called"`
	Done    bool        `json:"done"`
	Ms      *string     `json:"ms"`
	Seen    [][2]string `json:"seen"`
	Status  int         `json:"status"`
	Error   bool        `json:"error"`
}

type c12OverlapOut struct {
	Steps []c12OvStep   `json:"steps"`
	Reqs  []c12OvReqObs `json:"reqs"`
}

// c12NormSched drops the parts of events that do not apply (unknown request, a second arrival, a
// leave of a request that is not inside) and appends a leave for every request still inside, so
// that every call runs to its end under observation. The Lean driver does the same.
func c12NormSched(n int, sched [][]int) [][]int {
	state := make([]int, n) // 0 new, 1 inside, 2 left
	out := [][]int{}
	for _, ev := range sched {
		if len(ev) < 2 || ev[0] < 0 || ev[0] > 2 {
			continue
		}
		kind := ev[0]
		cand := ev[1:]
		if kind != 2 {
			cand = cand[:1]
		}
		var ids []int
		for _, i := range cand {
			if i < 0 || i >= n {
				continue
			}
			switch {
			case kind != 1 && state[i] == 0:
				state[i] = 1
				ids = append(ids, i)
			case kind == 1 && state[i] == 1:
				state[i] = 2
				ids = append(ids, i)
			}
		}
		if len(ids) > 0 {
			out = append(out, append([]int{kind}, ids...))
		}
	}
	for i := 0; i < n; i++ {
		if state[i] == 1 {
			out = append(out, []int{1, i})
		}
	}
	return out
}

func c12Overlap(c *gen.Ctx, in c12OverlapIn) c12OverlapOut {
	sched := c12NormSched(len(in.Reqs), in.Sched)
	evs := make([]rs.VerifC12Ev, len(sched))
	kinds := []string{"enter", "leave", "burst"}
	for k, ev := range sched {
		evs[k] = rs.VerifC12Ev{Kind: kinds[ev[0]], Reqs: ev[1:]}
	}
	var names []string
	reqs := make([]c12Req, len(in.Reqs))
	for i, q := range in.Reqs {
		reqs[i] = c12OvRender(q)
		names = append(names, q.Name)
	}
	httpReqs := c12BuildAll(reqs)
	steps, robs := rs.VerifC12Overlap(httpReqs, evs, in.Stderr, in.Traced)
	batch := c12Batch(names...)
	var out c12OverlapOut
	out.Steps = []c12OvStep{}
	for k, s := range steps {
		st := c12OvStep{Ev: sched[k], Lines: [][2]string{}, Raw: [][3]string{}, Stuck: s.Stuck}
		lines := s.Lines
		if in.Stderr {
			lines, st.Raw = c12ReadStderr(batch, s.Stderr)
			c.E.Add("stderr-lines-read-by-the-real-runner", len(st.Raw))
		}
		for _, l := range lines {
			cls := c12Class(l.Msg)
			if !l.Prefixed {
				st.Lines = append(st.Lines, [2]string{"", "other:" + l.Msg})
				continue
			}
			st.Lines = append(st.Lines, [2]string{l.Prefix, cls})
			if i := strings.IndexByte(cls, ':'); i >= 0 {
				cls = cls[:i]
			}
			c.E.Count("fb:" + cls)
		}
		c.E.Count("overlap-event:" + kinds[sched[k][0]])
		if len(st.Lines) > 0 {
			c.E.Count("overlap-event-with-feedback:" + kinds[sched[k][0]])
		}
		out.Steps = append(out.Steps, st)
	}
	out.Reqs = []c12OvReqObs{}
	for _, o := range robs {
		ro := c12OvReqObs{Started: o.Started, Called: o.Called, Done: o.Done, Status: o.Status, Error: o.ErrorResponse, Seen: [][2]string{}}
		if o.TimeoutMs != nil {
			s := strconv.FormatInt(*o.TimeoutMs, 10)
			ro.Ms = &s
		}
		keys := make([]string, 0, len(o.Seen))
		for k := range o.Seen {
			keys = append(keys, k)
		}
		sort.Strings(keys)
		for _, k := range keys {
			for _, v := range o.Seen[k] {
				ro.Seen = append(ro.Seen, [2]string{k, v})
			}
		}
		out.Reqs = append(out.Reqs, ro)
	}
	// how much overlap there was: requests inside the wrapped handler when another event happened
	inside := 0
	for _, ev := range sched {
		if inside > 0 {
			c.E.Count("overlap-event-while-others-inside")
		}
		switch ev[0] {
		case 0, 2:
			inside += len(ev) - 1
		case 1:
			inside -= len(ev) - 1
		}
	}
	return out
}

// ---------------------------------------------------------------- stream

type c12StreamIn struct {
	Reqs  []c12OvReq `json:"reqs"`
	Chunk int        `json:"chunk"` // pipe=false: the recorded stream is delivered in reads of at most chunk bytes (0: as large as the reader asks)
	Pipe  bool       `json:"pipe,omitempty"`
}

type c12StreamLine struct {
	Len  int      `json:"len"`
	Line []c12Seg `json:"line"` // without the line break
	Cls  string   `json:"cls"`  // class of what follows "<name>: ", "" when the line does not start with the request's name
}

type c12StreamReq struct {
	Called bool            `json:"called"`
	Served bool            `json:"served"`
	Lines  []c12StreamLine `json:"lines"`
}

type c12StreamOut struct {
	Reqs      []c12StreamReq `json:"reqs"`
	Sideband  [][2]any       `json:"sideband"`  // (test case, message recorded for it - run-length coded)
	Forwarded [][]c12Seg     `json:"forwarded"` // lines the runner passed on as noise
	Hang      bool           `json:"hang"`
	Sent      int            `json:"sent"`
	Outcomes  [][2]string    `json:"outcomes"`
}

type c12ChunkReader struct {
	data  []byte
	chunk int
}

func (r *c12ChunkReader) Read(b []byte) (int, error) {
	if len(r.data) == 0 {
		return 0, io.EOF
	}
	n := len(r.data)
	if r.chunk > 0 && n > r.chunk {
		n = r.chunk
	}
	if n > len(b) {
		n = len(b)
	}
	copy(b, r.data[:n])
	r.data = r.data[n:]
	return n, nil
}

func c12BuildAll(reqs []c12Req) []*http.Request {
	out := make([]*http.Request, len(reqs))
	for i, r := range reqs {
		out[i] = c12Build(r)
	}
	return out
}

func c12StreamLines(name, written string) []c12StreamLine {
	out := []c12StreamLine{}
	for _, l := range strings.Split(written, "\n") {
		if l == "" {
			continue
		}
		sl := c12StreamLine{Len: len(l), Line: c12RLE(l)}
		if msg, ok := strings.CutPrefix(l, name+": "); ok && name != "" {
			sl.Cls = c12Class(msg)
			if strings.HasPrefix(sl.Cls, "other:") {
				sl.Cls = "other"
			}
		}
		out = append(out, sl)
	}
	return out
}

func c12Stream(c *gen.Ctx, in c12StreamIn) c12StreamOut {
	reqs := make([]c12Req, len(in.Reqs))
	names := make([]string, len(in.Reqs))
	for i, q := range in.Reqs {
		reqs[i] = c12OvRender(q)
		names[i] = q.Name
	}
	httpReqs := c12BuildAll(reqs)
	var out c12StreamOut
	out.Reqs = make([]c12StreamReq, len(reqs))
	for i := range out.Reqs {
		out.Reqs[i].Lines = []c12StreamLine{}
	}
	// the batch: one test case per request (a test case that is requested twice gets a second
	// entry under a name of its own that no request uses, so that the runner has as many cases to
	// hand out as there are requests), plus the decoy
	batch := []string{}
	seen := map[string]bool{}
	for i, n := range names {
		if n == "" || seen[n] {
			n = "C12/filler-" + strconv.Itoa(i)
		}
		seen[n] = true
		batch = append(batch, n)
	}
	batch = append(batch, c12Decoy)
	var obs cc.VerifC12BatchObs
	record := func(i int, written string, called bool) {
		out.Reqs[i].Served, out.Reqs[i].Called = true, called
		out.Reqs[i].Lines = c12StreamLines(names[i], written)
		for _, l := range out.Reqs[i].Lines {
			c.E.Count("stream-line")
			switch {
			case l.Len > 65536:
				c.E.Count("stream-line:longer-than-64KiB")
			case l.Len > 4096:
				c.E.Count("stream-line:longer-than-4KiB")
			}
		}
	}
	if in.Pipe {
		pr, pw := io.Pipe()
		srv := rs.VerifC12NewStreamServer(pw)
		var mu sync.Mutex
		obs = cc.VerifC12RunBatch(batch, pr, func(i int, _ string) {
			if i >= len(httpReqs) {
				return
			}
			written, called := srv.Serve(httpReqs[i])
			mu.Lock()
			record(i, written, called)
			mu.Unlock()
		}, func() { _ = pw.Close() }, func() { _ = pr.CloseWithError(io.ErrClosedPipe) })
		mu.Lock()
		defer mu.Unlock()
		c.E.Count("stream:pipe")
	} else {
		srv := rs.VerifC12NewStreamServer(nil)
		var stream strings.Builder
		for i := range httpReqs {
			written, called := srv.Serve(httpReqs[i])
			record(i, written, called)
			stream.WriteString(written)
		}
		obs = cc.VerifC12RunBatch(batch, &c12ChunkReader{data: []byte(stream.String()), chunk: in.Chunk}, nil, nil, nil)
		c.E.Count("stream:recorded")
	}
	out.Hang, out.Sent, out.Outcomes = obs.Hang, obs.Sent, obs.Outcomes
	out.Sideband = [][2]any{}
	for _, sb := range obs.Sideband {
		out.Sideband = append(out.Sideband, [2]any{sb[0], c12RLE(sb[1])})
	}
	out.Forwarded = [][]c12Seg{}
	for _, f := range obs.Forwarded {
		out.Forwarded = append(out.Forwarded, c12RLE(f))
	}
	c.E.Add("stream-feedback-recorded-by-the-real-runner", len(obs.Sideband))
	return out
}

// ---------------------------------------------------------------- generators

// c12OvKinds: what a request of an overlap / stream scenario is like.
//
//	0 matches its test in every aspect   1 one deviating aspect   2 matches, with request trailers
//	3 one deviating aspect and trailers  4 random expectation     5 no test name
func c12OvMake(r *gen.Rand, kind int, name string) c12OvReq {
	a := c12Tuple(r.Intn(864))
	if a[1] == 1 {
		a[2] = 0
	}
	if a[6] == 1 {
		a[5] = 1
	}
	q := c12OvReq{E: a, A: a, V: [3]int{r.Intn(2), r.Intn(2), r.Intn(2)}, Name: name}
	switch kind {
	case 1, 3:
		d := r.Intn(7)
		q.E[d] = (a[d] + 1 + r.Intn(c12Dims[d]-1)) % c12Dims[d]
	case 4:
		q.E = c12Tuple(r.Intn(864))
	case 5:
		q.Name = ""
	}
	if kind == 2 || kind == 3 || (kind == 4 && r.Intn(3) == 0) {
		q.Trailers = r.Range(1, 3)
	}
	return q
}

// c12Interleavings: all orders of enter/leave events of n requests in which every request
// enters before it leaves.
func c12Interleavings(n int) [][][]int {
	var out [][][]int
	state := make([]int, n)
	var cur [][]int
	var rec func()
	rec = func() {
		if len(cur) == 2*n {
			out = append(out, append([][]int{}, cur...))
			return
		}
		for i := 0; i < n; i++ {
			if state[i] < 2 {
				cur = append(cur, []int{state[i], i})
				state[i]++
				rec()
				state[i]--
				cur = cur[:len(cur)-1]
			}
		}
	}
	rec()
	return out
}

func c12OverlapGen(c *gen.Ctx) {
	r := c.R
	var ins []any
	add := func(in c12OverlapIn) { ins = append(ins, in) }
	// (a) two requests, every interleaving x every pair of kinds x (different test cases | the same)
	for _, sched := range c12Interleavings(2) {
		for k0 := 0; k0 < 6; k0++ {
			for k1 := 0; k1 < 6; k1++ {
				for same := 0; same < 2; same++ {
					n1 := "Overlap/b"
					if same == 1 {
						n1 = "Overlap/a"
					}
					add(c12OverlapIn{Reqs: []c12OvReq{c12OvMake(r, k0, "Overlap/a"), c12OvMake(r, k1, n1)}, Sched: sched, Traced: (k0+k1+same)%2 == 1})
					c.E.Count("kind:overlap-two-requests-exhaustive")
				}
			}
		}
	}
	// (b) three requests, every interleaving, kinds and names at random; every tenth with a burst
	// in front
	rounds := 1
	if c.Thorough() {
		rounds = 8
	}
	names := []string{"Overlap/a", "Overlap/b", "Overlap/c", "Overlap/a"}
	for round := 0; round < rounds; round++ {
		for _, sched := range c12Interleavings(3) {
			var reqs []c12OvReq
			for i := 0; i < 3; i++ {
				reqs = append(reqs, c12OvMake(r, r.Intn(6), gen.Pick(r, names)))
			}
			add(c12OverlapIn{Reqs: reqs, Sched: sched})
			c.E.Count("kind:overlap-three-requests-exhaustive")
		}
	}
	// (c) random: 2..7 requests, random schedules with bursts (the requests of a burst belong to
	// different test cases), a tenth through the real printer and the real runner with free-form names
	nRand := 1500
	if c.Thorough() {
		nRand = 15000
	}
	for i := 0; i < nRand; i++ {
		n := r.Range(2, 7)
		stderr := i%10 == 0
		pool := []string{"Overlap/a", "Overlap/b", "Overlap/c", "Overlap/d", "Overlap/e", "Overlap/f", "Overlap/g"}
		if stderr {
			for k := range pool {
				pool[k] = c12OddName(r, i+k)
			}
		}
		var reqs []c12OvReq
		for k := 0; k < n; k++ {
			name := pool[k]
			if k > 0 && r.Intn(4) == 0 {
				name = pool[r.Intn(k)] // the same test case again
			}
			reqs = append(reqs, c12OvMake(r, r.Intn(6), name))
		}
		state := make([]int, n)
		var sched [][]int
		for steps := 0; steps < 4*n; steps++ {
			var fresh, inside []int
			for k := 0; k < n; k++ {
				switch state[k] {
				case 0:
					fresh = append(fresh, k)
				case 1:
					inside = append(inside, k)
				}
			}
			if len(fresh) == 0 && len(inside) == 0 {
				break
			}
			switch {
			case len(fresh) >= 2 && r.Intn(4) == 0:
				// burst: requests with pairwise different names
				used := map[string]bool{}
				ev := []int{2}
				for _, k := range fresh {
					if !used[reqs[k].Name] && len(ev) < 5 {
						used[reqs[k].Name] = true
						ev = append(ev, k)
						state[k] = 1
					}
				}
				sched = append(sched, ev)
			case len(fresh) > 0 && (len(inside) == 0 || r.Intn(5) < 3):
				k := fresh[0]
				if r.Intn(3) == 0 {
					k = gen.Pick(r, fresh)
				}
				state[k] = 1
				sched = append(sched, []int{0, k})
			default:
				k := gen.Pick(r, inside)
				state[k] = 2
				sched = append(sched, []int{1, k})
			}
		}
		if r.Intn(10) == 0 { // events that do not apply
			sched = append(sched, []int{1, r.Intn(n)}, []int{0, r.Intn(n)}, []int{1, n + 1})
		}
		add(c12OverlapIn{Reqs: reqs, Sched: sched, Stderr: stderr, Traced: i%3 == 1})
		if stderr {
			c.E.Count("kind:overlap-random-stderr")
		} else {
			c.E.Count("kind:overlap-random")
		}
	}
	c.DoParallel("overlap", ins, 8)
}

func c12StreamGen(c *gen.Ctx) {
	r := c.R
	var ins []any
	padKinds := []string{"codec", "compression", "expect", "timeout", "method"}
	// how much longer the echoed value gets: nothing special, around the buffer of a bufio.Reader
	// (4096), around bufio.MaxScanTokenSize (65536), beyond
	pads := func() []int {
		ps := []int{0, r.Range(1, 300), r.Range(3900, 4200), 4096, r.Range(65300, 65560), 65536, r.Range(65537, 72000), 70000,
			r.Range(100000, 140000), 262144}
		if c.Thorough() {
			for k := 0; k < 24; k++ {
				ps = append(ps, r.Range(65400, 65560), r.Range(3950, 4110), r.Range(8000, 500000))
			}
			ps = append(ps, 900000, 1048576, 2000000)
		}
		return ps
	}()
	chunks := []int{0, 0, 1, 7, 512, 4095, 4096, 4097, 65536}
	pipeLong := 0
	for round, rounds := 0, 5; round < rounds; round++ {
		for pi, pad := range pads {
			n := r.Range(2, 5)
			var reqs []c12OvReq
			pos := 0
			if r.Intn(3) == 0 {
				pos = r.Intn(n - 1)
			}
			for k := 0; k < n; k++ {
				name := "Stream/" + strconv.Itoa(k)
				if k > pos && r.Intn(5) == 0 {
					name = "Stream/" + strconv.Itoa(r.Intn(k)) // the same test case again
				}
				kind := gen.Pick(r, []int{1, 1, 1, 3, 4, 0, 2})
				if k == n-1 || k == pos {
					kind = gen.Pick(r, []int{1, 3})
				}
				q := c12OvMake(r, kind, name)
				if k == pos && pad > 0 {
					q.Pad = &c12Pad{Kind: padKinds[(pi+round)%len(padKinds)], N: pad}
				}
				reqs = append(reqs, q)
			}
			in := c12StreamIn{Reqs: reqs, Chunk: gen.Pick(r, chunks)}
			if pad > 100000 && in.Chunk == 1 && !c.Thorough() {
				in.Chunk = 7
			}
			// a third through a pipe; the long lines through a pipe are few in the quick tier (a
			// stalled server is only found by waiting for it)
			if (pi+round)%3 == 0 && (c.Thorough() || pad < 60000 || pipeLong < 4) {
				in.Pipe = true
				if pad >= 60000 {
					pipeLong++
				}
			}
			ins = append(ins, in)
			switch {
			case pad >= 60000:
				c.E.Count("kind:stream-with-a-line-beyond-64KiB")
			case pad >= 3900:
				c.E.Count("kind:stream-with-a-line-beyond-4KiB")
			default:
				c.E.Count("kind:stream-short-lines")
			}
		}
	}
	c.DoParallel("stream", ins, 8)
}

// ---------------------------------------------------------------- overlap on the REAL server
//
//   realoverlap : {srv, reqs:[A,B], procB, sched:[[0,0],[0,1],[1,1],[1,0]]}
//
// The real reference server (createServer, reference mode, HTTP/2 with or without TLS; c12real.go)
// serves request A - a full-duplex BidiStream with a declared request trailer, which stays inside
// the handler chain until its request body ends - and, while A is inside (the client has read
// A's first response message: a logical barrier), request B of another test case over the same
// connection from start to end; then A's request body ends. The server's stderr is read after
// each phase and every line attributed by the real runTestCasesForServer. The result has the
// shape of op overlap (events enter A, enter B, leave B, leave A) and is judged like it.

type c12RealOverlapIn struct {
	Srv    int        `json:"srv"`
	Reqs   []c12OvReq `json:"reqs"`
	ProcB  string     `json:"procB"`
	Sched  [][]int    `json:"sched"`
	Traced bool       `json:"traced,omitempty"` // the server has a tracer
}

func init() {
	gen.RegisterOp("c12", "realoverlap", func(c *gen.Ctx, raw json.RawMessage) any {
		return c12RealOverlap(c, gen.Into[c12RealOverlapIn](raw))
	})
}

func c12RealOverlap(c *gen.Ctx, in c12RealOverlapIn) c12OverlapOut {
	out := c12OverlapOut{Steps: []c12OvStep{}, Reqs: []c12OvReqObs{}}
	evs := [][]int{{0, 0}, {0, 1}, {1, 1}, {1, 0}}
	stuck := func(why string) c12OverlapOut {
		out.Steps = append(out.Steps, c12OvStep{Ev: evs[len(out.Steps)%4], Lines: [][2]string{{"", "other:" + why}}, Raw: [][3]string{}, Stuck: true})
		return out
	}
	if len(in.Reqs) != 2 {
		return stuck("two requests expected")
	}
	qa, qb := in.Reqs[0], in.Reqs[1]
	if err := c12GetCerts(); err != nil {
		return stuck(err.Error())
	}
	var clientCA []byte
	if qa.A[6] == 1 {
		clientCA = c12Certs.clientCert
	}
	srv, err := rs.VerifC12StartRealTraced(int32(in.Srv), qa.A[5] == 1, c12Certs.serverCert, c12Certs.serverKey, clientCA, in.Traced)
	if err != nil {
		return stuck(err.Error())
	}
	stopped := false
	defer func() {
		if !stopped {
			srv.Stop()
		}
	}()
	tr, err := c12NewTransport(qa.A)
	if err != nil {
		return stuck(err.Error())
	}
	defer tr.close()
	ctx, cancel := context.WithTimeout(context.Background(), 60*time.Second)
	defer cancel()
	inA := c12RealIn{Srv: in.Srv, E: qa.E, A: qa.A, V: qa.V, Proc: "BidiStream", Full: true, Name: qa.Name, Times: 1, Trailers: qa.Trailers}
	inB := c12RealIn{Srv: in.Srv, E: qb.E, A: qb.A, V: qb.V, Proc: in.ProcB, Name: qb.Name, Times: 1, Trailers: qb.Trailers}
	batch := c12Batch(qa.Name, qb.Name)
	step := func(k int, stderr string) {
		st := c12OvStep{Ev: evs[k], Lines: [][2]string{}, Raw: [][3]string{}}
		lines, raw := c12ReadStderr(batch, stderr)
		st.Raw = raw
		c.E.Add("stderr-lines-read-by-the-real-runner", len(raw))
		for _, l := range lines {
			if !l.Prefixed {
				st.Lines = append(st.Lines, [2]string{"", "other:" + l.Msg})
			} else {
				st.Lines = append(st.Lines, [2]string{l.Prefix, c12Class(l.Msg)})
			}
		}
		out.Steps = append(out.Steps, st)
	}
	inside := make(chan struct{})
	resume := make(chan struct{})
	doneA := make(chan c12RealObs, 1)
	go func() {
		var once sync.Once
		ctxA := context.WithValue(ctx, c12MidKey{}, func() {
			once.Do(func() {
				close(inside)
				select {
				case <-resume:
				case <-ctx.Done():
				}
			})
		})
		doneA <- c12RealExchange(ctxA, tr.rt, srv.Addr, inA, c12OvRender(qa))
	}()
	var obsA, obsB c12RealObs
	select {
	case <-inside:
	case obsA = <-doneA:
		return stuck("request A ended before it was inside the handler: " + obsA.Err)
	case <-ctx.Done():
		return stuck("request A did not get inside the handler")
	}
	step(0, srv.Stderr())
	obsB = c12RealExchange(ctx, tr.rt, srv.Addr, inB, c12OvRender(qb))
	step(1, srv.Stderr())
	step(2, "")
	close(resume)
	select {
	case obsA = <-doneA:
	case <-ctx.Done():
		return stuck("request A did not end")
	}
	tr.close()
	rest := srv.Stderr() + srv.Stop()
	stopped = true
	step(3, rest)
	for _, o := range []c12RealObs{obsA, obsB} {
		ro := c12OvReqObs{Started: true, Called: o.OK, Done: o.Err == "", Ms: o.Ms, Status: o.Status, Error: !o.OK, Seen: [][2]string{}}
		if o.Err != "" {
			ro.Seen = append(ro.Seen, [2]string{"exchange-failed", o.Err})
			c.E.Count("realoverlap:exchange-failed")
		}
		out.Reqs = append(out.Reqs, ro)
	}
	c.E.Count("realoverlap:proc:" + in.ProcB)
	return out
}

func c12RealOverlapGen(c *gen.Ctx) {
	r := c.R
	var ins []any
	transports := []c12RealTransport{{2, 1, 0, 0}, {2, 1, 1, 0}, {2, 1, 1, 1}} // HTTP/2: h2c, TLS, TLS with client certificate
	rounds := 2
	if c.Thorough() {
		rounds = 12
	}
	for round := 0; round < rounds; round++ {
		for _, t := range transports {
			for _, p := range c12RealProcs {
				protoA, protoB := r.Intn(3), r.Intn(3)
				if p.get {
					protoB = 0
				}
				a := [7]int{t.version, 0, protoA, r.Intn(2), r.Intn(6), t.tls, t.cert}
				b := [7]int{t.version, c12B(p.get), protoB, r.Intn(2), r.Intn(6), t.tls, t.cert}
				qa := c12OvReq{E: a, A: a, V: [3]int{1, r.Intn(2), r.Intn(2)}, Name: "RealOverlap/stream", Trailers: r.Range(1, 2)}
				qb := c12OvReq{E: b, A: b, V: [3]int{c12B(c12Streaming(p.proc)), r.Intn(2), r.Intn(2)}, Name: "RealOverlap/" + p.proc}
				switch r.Intn(4) {
				case 0: // B deviates in one aspect
					d := gen.Pick(r, []int{0, 2, 3, 4})
					qb.E[d] = (qb.A[d] + 1) % c12Dims[d]
				case 1: // A deviates in one aspect as well
					d := gen.Pick(r, []int{0, 3, 4})
					qa.E[d] = (qa.A[d] + 1) % c12Dims[d]
				case 2: // the same test case twice
					qb.Name = qa.Name
				}
				ins = append(ins, c12RealOverlapIn{Srv: t.srv, Reqs: []c12OvReq{qa, qb}, ProcB: p.proc, Sched: [][]int{{0, 0}, {0, 1}, {1, 1}, {1, 0}}, Traced: (round+len(ins))%2 == 1})
				c.E.Count("kind:real-overlap")
			}
		}
	}
	c.DoParallel("realoverlap", ins, 8)
}

// ---------------------------------------------------------------- the reference client's feedback
//
//   clientfb : {cases:[{name, mismatch, fb:[[[text,repeat],...],...]}]}
//
// Mode server: the client run by the runner is the reference client; what it finds wrong with a
// response comes back in ClientResponseResult.feedback and the callback of the REAL
// runTestCasesForServer records every message for the case (results.recordSideband), report()
// merges it into the outcome. Messages are arbitrary texts (run-length coded in the input).

type c12FbCase struct {
	Name     string     `json:"name"`
	Mismatch bool       `json:"mismatch,omitempty"`
	Fb       [][][2]any `json:"fb"` // messages, each run-length coded
}

type c12ClientFbIn struct {
	Cases []c12FbCase `json:"cases"`
}

type c12ClientFbOut struct {
	Sideband [][2]any `json:"sideband"` // (test case, message - run-length coded)
	Merged   [][2]any `json:"merged"`   // (test case, text of its failure after the merge - run-length coded)
	Hang     bool     `json:"hang"`
}

func c12UnRLE(segs [][2]any) string {
	var sb strings.Builder
	for _, s := range segs {
		text, _ := s[0].(string)
		n, _ := s[1].(float64)
		for k := 0; k < int(n); k++ {
			sb.WriteString(text)
		}
	}
	return sb.String()
}

func init() {
	gen.RegisterOp("c12", "clientfb", func(c *gen.Ctx, raw json.RawMessage) any {
		in := gen.Into[c12ClientFbIn](raw)
		cases := make([]cc.VerifC12ClientCase, len(in.Cases))
		for i, cs := range in.Cases {
			cases[i] = cc.VerifC12ClientCase{Name: cs.Name, Mismatch: cs.Mismatch}
			for _, m := range cs.Fb {
				cases[i].Feedback = append(cases[i].Feedback, c12UnRLE(m))
				c.E.Count("clientfb-message")
			}
		}
		obs := cc.VerifC12ClientFeedback(cases)
		out := c12ClientFbOut{Sideband: [][2]any{}, Merged: [][2]any{}, Hang: obs.Hang}
		for _, sb := range obs.Sideband {
			out.Sideband = append(out.Sideband, [2]any{sb[0], c12RLE(sb[1])})
		}
		for _, m := range obs.Merged {
			out.Merged = append(out.Merged, [2]any{m[0], c12RLE(m[1])})
		}
		return out
	})
}

func c12ClientFbGen(c *gen.Ctx) {
	r := c.R
	seg := func(s string, n int) [2]any { return [2]any{s, n} }
	lit := func(s string) [][2]any { return [][2]any{seg(s, 1)} }
	long := func(head string, n int, tail string) [][2]any {
		return [][2]any{seg(head, 1), seg("y", n), seg(tail, 1)}
	}
	nOps := 300
	if c.Thorough() {
		nOps = 3000
	}
	var ins []any
	for i := 0; i < nOps; i++ {
		n := r.Range(1, 5)
		names := make([]string, 0, n)
		seen := map[string]bool{}
		for len(names) < n {
			var nm string
			switch r.Intn(4) {
			case 0:
				nm = "ClientFb/case-" + strconv.Itoa(len(names))
			case 1: // names the stderr path could not carry are fine here: nothing is parsed
				nm = gen.Pick(r, []string{"a: b", "x: y: z", " leading", "trailing ", "tab\tname", "100%", "%s%d%!", "name/%[1]s", "名前: é"})
			default:
				nm = c12OddName(r, i+len(names))
			}
			if !seen[nm] {
				seen[nm] = true
				names = append(names, nm)
			}
		}
		var cases []c12FbCase
		for k, nm := range names {
			cs := c12FbCase{Name: nm, Mismatch: r.Intn(5) == 0, Fb: [][][2]any{}}
			for m := r.Intn(4); m > 0; m-- {
				other := names[(k+1)%len(names)]
				var msg [][2]any
				switch r.Intn(12) {
				case 0:
					msg = lit("")
				case 1:
					msg = lit("expected 100% of the trailers; got %d %s %!v(MISSING) %[2]q")
				case 2: // looks like a sideband line for another case of the batch
					msg = lit(other + ": response should NOT be flagged for this one")
				case 3:
					msg = lit("line one\nline two\n" + other + ": line three\n")
				case 4:
					msg = lit("  leading and trailing white space \t")
				case 5:
					msg = long("unexpected header value: ", []int{r.Range(4000, 4200), r.Range(65400, 65600), 70000, r.Range(100000, 300000)}[r.Intn(4)], " (end)")
				case 6:
					msg = lit("naïve café ☕ \x00\x7f")
				case 7:
					msg = lit("; " + other + "; ")
				default:
					msg = lit("response trailer " + strconv.Itoa(r.Intn(1000)) + " should not be present")
				}
				cs.Fb = append(cs.Fb, msg)
			}
			cases = append(cases, cs)
		}
		ins = append(ins, c12ClientFbIn{Cases: cases})
		c.E.Count("kind:client-feedback")
	}
	c.DoParallel("clientfb", ins, 8)
}
