#!/usr/bin/env python3
"""Regenerates the table of seeded regressions (seeded/*/meta.json + eval.json) inside DESIGN.md
between the markers <!-- SEEDED-TABLE-BEGIN --> and <!-- SEEDED-TABLE-END -->."""
import json, os, glob, re
here = os.path.dirname(os.path.abspath(__file__))
rows = []
for d in sorted(glob.glob(os.path.join(here, "seeded", "*"))):
    mp = os.path.join(d, "meta.json")
    if not os.path.exists(mp): continue
    m = json.load(open(mp))
    ev = json.load(open(os.path.join(d, "eval.json"))) if os.path.exists(os.path.join(d, "eval.json")) else {}
    caught = [k for k, v in ev.items() if v.get("detected")]
    missed = [k for k, v in ev.items() if not v.get("detected")]
    note = m.get("strengthened", "")
    rows.append((os.path.basename(d), m.get("property", ""), m.get("site", "").replace("|", "/"), " ".join(str(m.get("summary", "")).split())[:170].replace("|", "/"),
                 " ".join(str(m.get("needs", "")).split())[:150].replace("|", "/"), ", ".join(caught) or "-", ", ".join(missed) or "-", note))
out = ["| seed | property | site | change | needs | caught by (check:tier) | not caught by | note |", "|---|---|---|---|---|---|---|---|"]
for r in rows:
    out.append("| " + " | ".join(r) + " |")
table = "\n".join(out)
p = os.path.join(here, "DESIGN.md")
s = open(p).read()
b, e = "<!-- SEEDED-TABLE-BEGIN -->", "<!-- SEEDED-TABLE-END -->"
if b in s:
    s = s[:s.index(b) + len(b)] + "\n" + table + "\n" + s[s.index(e):]
else:
    s += "\n### 11.3 Seeded regressions (written by independent sub-agents that saw only the property text)\n\n" + b + "\n" + table + "\n" + e + "\n"
open(p, "w").write(s)
print(len(rows), "seeded regressions;", sum(1 for r in rows if r[5] != "-"), "caught")
