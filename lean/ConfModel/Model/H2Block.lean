/-
Block-wise byte consumers (C15).

Both byte-level tracers used by `internal/tracer/http2.go` have the same loop shape
(`http2FrameTracer.trace`, and `dataTracer.trace` in reader.go, which is run once per
HTTP/2 stream on the payloads of its DATA frames):

    for {
        if len(data) == 0 { return }
        need := <bytes missing to complete the current unit (preface / header / payload)>
        if len(data) < need { <absorb data into the partial unit>; return }
        <complete the unit with data[:need]; maybe emit something>
        data = data[need:]
    }

`Machine` captures one such tracer by its three branch bodies; `Machine.run` is the loop.
The loop is written with fuel (`data.length + 1` always suffices) so that it reduces in the
kernel (`decide`) and compiles to a plain loop for the driver.
-/
namespace ConfModel.H2

abbrev Bytes := List UInt8

structure Machine (S O : Type) where
  /-- the tracer has given up (`broken`); nothing is consumed any more -/
  stopped : S → Bool
  /-- bytes missing to complete the current unit -/
  need : S → Nat
  /-- fewer than `need` bytes arrived: remember them -/
  absorb : S → Bytes → S
  /-- exactly the missing `need` bytes arrived: finish the unit, maybe emit -/
  complete : S → Bytes → S × List O

namespace Machine
variable {S O : Type}

def trace (m : Machine S O) : Nat → S → Bytes → S × List O
  | 0, s, _ => (s, [])
  | fuel+1, s, data =>
    if m.stopped s then (s, []) else
    if data.isEmpty then (s, []) else
    if data.length < m.need s then (m.absorb s data, [])
    else
      let r1 := m.complete s (data.take (m.need s))
      let r2 := trace m fuel r1.1 (data.drop (m.need s))
      (r2.1, r1.2 ++ r2.2)

/-- one call `trace(data)` of the Go tracer -/
def run (m : Machine S O) (s : S) (data : Bytes) : S × List O := m.trace (data.length + 1) s data

/-- sequential composition of two calls: state threaded, outputs concatenated -/
def comb (r1 : S × List O) (f : S → S × List O) : S × List O :=
  ((f r1.1).1, r1.2 ++ (f r1.1).2)

/-- a sequence of calls, one per chunk -/
def runChunks (m : Machine S O) (s : S) : List Bytes → S × List O
  | [] => (s, [])
  | c :: cs => comb (m.run s c) (fun s' => runChunks m s' cs)

end Machine
end ConfModel.H2
