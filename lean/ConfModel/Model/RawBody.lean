/-
Model of `internal/raw_http_body.go` (WriteRawMessageContents, WriteRawStreamContents) and of
the raw-or-normal arbitration of `internal/app/referenceserver/raw_response.go`
(`rawResponseWriter`: canSendResponse / setRawResponse / Write / WriteHeader / Flush / finish).

Compression is a parameter `compress : Nat → Bytes → Option Bytes` (`none` = GetCompressor
refuses the enum value); it is C20's subject.  The model is of the code after the `fix:`
commit for F14 (nil-safe access to the payload of a stream item).
-/
namespace ConfModel.RawBody

abbrev Bytes := List UInt8

/-- `conformancev1.MessageContents`: `data = none` is the unset oneof (binary, text and
binary_message all denote bytes) -/
structure Contents where
  data : Option Bytes
  compression : Nat
deriving DecidableEq, Repr

/-- `StreamContents.StreamItem`: `flags` is a `uint32`, `length` an `optional uint32` -/
structure Item where
  flags : Nat
  length : Option Nat
  payload : Option Contents
deriving DecidableEq, Repr

abbrev Compress := Nat → Bytes → Option Bytes

/-- `WriteRawMessageContents`: what is written, or `none` for an error (nothing is written
in that case: the compressor is obtained before the first write).  A nil `contents` or an
unset `data` writes nothing and does not fail — no compressor is even asked for. -/
def writeMessage (compress : Compress) : Option Contents → Option Bytes
  | none => some []
  | some c =>
    match c.data with
    | none => some []
    | some d => compress c.compression d

/-- `binary.BigEndian.PutUint32` of a `uint32` -/
def be32 (n : Nat) : Bytes :=
  [UInt8.ofNat (n / 16777216 % 256), UInt8.ofNat (n / 65536 % 256), UInt8.ofNat (n / 256 % 256), UInt8.ofNat (n % 256)]

/-- result of a write loop: the bytes that reached the writer and whether an error stopped it -/
structure Written where
  bytes : Bytes
  failed : Bool
deriving DecidableEq, Repr

/-- `WriteRawStreamContents`, item by item, branch by branch:
* flags > 255: error before anything of this item is written;
* explicit length: the prefix is written first, then the payload (an error of the payload
  leaves the prefix on the wire);
* otherwise the payload is buffered, its length goes into the prefix; an error writes nothing. -/
def writeStream (compress : Compress) : List Item → Written
  | [] => ⟨[], false⟩
  | it :: rest =>
    if it.flags > 255 then ⟨[], true⟩ else
    match it.length with
    | some n =>
      let pfx := UInt8.ofNat it.flags :: be32 n
      match writeMessage compress it.payload with
      | none => ⟨pfx, true⟩
      | some p =>
        let r := writeStream compress rest
        ⟨pfx ++ p ++ r.bytes, r.failed⟩
    | none =>
      match writeMessage compress it.payload with
      | none => ⟨[], true⟩
      | some p =>
        let r := writeStream compress rest
        ⟨UInt8.ofNat it.flags :: be32 p.length ++ p ++ r.bytes, r.failed⟩

/-! ## the raw-or-normal arbitration -/

/-- what reaches the underlying `http.ResponseWriter` -/
inductive Ev where
  | header (code : Nat)
  | body (b : Bytes)
  | flush
deriving DecidableEq, Repr

/-- a raw response as far as the arbitration is concerned -/
structure Raw where
  status : Nat
  body : Bytes
deriving DecidableEq, Repr

inductive Op where
  | write (b : Bytes)
  | writeHeader (code : Nat)
  | flush
  | setRaw (r : Raw)
deriving DecidableEq, Repr

inductive Res where
  | passed      -- handler output forwarded
  | swallowed   -- handler output dropped
  | accepted    -- raw response stored
  | refused     -- errNonRawResponseStarted
deriving DecidableEq, Repr

structure St where
  started : Bool := false
  raw : Option Raw := none
  wire : List Ev := []
deriving DecidableEq, Repr

/-- `canSendResponse` -/
def canSend (s : St) : St × Bool :=
  if s.started then (s, true)
  else if s.raw.isNone then ({ s with started := true }, true)
  else (s, false)

def emit (s : St) (e : Ev) : St × Res :=
  let (s', ok) := canSend s
  if ok then ({ s' with wire := s'.wire ++ [e] }, .passed) else (s', .swallowed)

def step (s : St) : Op → St × Res
  | .write b => emit s (.body b)
  | .writeHeader c => emit s (.header c)
  | .flush => emit s .flush
  | .setRaw r => if s.started then (s, .refused) else ({ s with raw := some r }, .accepted)

def run : St → List Op → St × List Res
  | s, [] => (s, [])
  | s, o :: t =>
    let (s1, r) := step s o
    let (s2, rs) := run s1 t
    (s2, r :: rs)

/-- `finish`: nothing if no raw response was stored; otherwise status (200 if unset) and body -/
def finish (s : St) : List Ev :=
  match s.raw with
  | none => s.wire
  | some r => s.wire ++ [.header (if r.status == 0 then 200 else r.status), .body r.body]

/-! ### two producers of raw responses

A raw response can come from the test case (`rawResponseRecorder` calls `setRawResponse` with the
prescribed one, before the handler) and from the server itself (`parseUnaryResponseDefinition`
synthesises one for a unary gRPC / gRPC-Web error with response headers and calls
`setRawResponse` from inside the handler). -/

/-- `rawResponseRecorder` (WrapUnary / WrapStreamingHandler): with a prescribed raw response it
stores it and ends the call with an error — the handler does not run; without one the handler runs
(its operations may include a synthesised raw response). -/
def recorded (prescribed : Option Raw) (handler : List Op) : List Op :=
  match prescribed with
  | some r => [.setRaw r]
  | none => handler

end ConfModel.RawBody
