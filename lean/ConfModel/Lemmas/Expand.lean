/-
Helper lemmas for C19.
-/
import ConfModel.Model.Expand
import ConfModel.Spec.Padding
namespace ConfModel.Expand
open ConfModel.Padding

theorem adjust_succ (R T fuel adj L : Nat) :
    adjust R T (fuel+1) adj L =
      if (T : Int) - (size R L : Int) = 0 then .ok L
      else if adj ≥ 2 then .cantPad (size R L)
      else if (T : Int) - (size R L : Int) > 0 then
        adjust R T fuel (adj + 1) (L + ((T : Int) - (size R L : Int)).toNat)
      else if (L : Int) + ((T : Int) - (size R L : Int)) < 0 then .negLen
      else adjust R T fuel (adj + 1) ((L : Int) + ((T : Int) - (size R L : Int))).toNat := rfl

theorem adjustOld_succ (R T fuel adj L : Nat) :
    adjustOld R T (fuel+1) adj L =
      if (T : Int) - (size R L : Int) = 0 then .ok L
      else if adj ≥ 2 then .cantPad (size R L)
      else if (T : Int) - (size R L : Int) > 0 then
        adjustOld R T fuel (adj + 1) (L + ((T : Int) - (size R L : Int)).toNat)
      else if (L : Int) + ((T : Int) - (size R L : Int)) < 0 then .panic
      else adjustOld R T fuel (adj + 1) ((L : Int) + ((T : Int) - (size R L : Int))).toNat := rfl

theorem adjust_exact (R T : Nat) : ∀ (fuel adj L₀ L : Nat),
    adjust R T fuel adj L₀ = .ok L → size R L = T
  | 0, _, _, _, h => by simp [adjust] at h
  | fuel+1, adj, L₀, L, h => by
    rw [adjust_succ] at h
    split at h
    · injection h with h; subst h; omega
    · split at h
      · cases h
      · split at h
        · exact adjust_exact R T fuel _ _ L h
        · split at h
          · cases h
          · exact adjust_exact R T fuel _ _ L h

theorem adjust_ne_panic (R T : Nat) : ∀ (fuel adj L₀ : Nat), adjust R T fuel adj L₀ ≠ .panic
  | 0, _, _ => by simp [adjust]
  | fuel+1, adj, L₀ => by
    rw [adjust_succ]
    split
    · simp
    · split
      · simp
      · split
        · exact adjust_ne_panic R T fuel _ _
        · split
          · simp
          · exact adjust_ne_panic R T fuel _ _

/-- the unrepaired loop differs from the repaired one exactly by panicking where the
repaired one returns the `negLen` error -/
theorem adjustOld_eq (R T : Nat) : ∀ (fuel adj L₀ : Nat),
    adjustOld R T fuel adj L₀ =
      match adjust R T fuel adj L₀ with
      | .negLen => .panic
      | o => o
  | 0, _, _ => by simp [adjust, adjustOld]
  | fuel+1, adj, L₀ => by
    rw [adjust_succ, adjustOld_succ]
    split
    · rfl
    · split
      · rfl
      · split
        · exact adjustOld_eq R T fuel _ _
        · split
          · rfl
          · exact adjustOld_eq R T fuel _ _

theorem varintLen_pos (n : Nat) : 1 ≤ varintLen n := by
  unfold varintLen; repeat' split
  all_goals omega

theorem varintLen_le (n : Nat) : varintLen n ≤ 10 := by
  unfold varintLen; repeat' split
  all_goals omega

theorem fieldSize_pos (L : Nat) (h : 0 < L) : fieldSize L = 1 + varintLen L + L := by
  unfold fieldSize; rw [if_neg (by omega)]

theorem size_ge (R L : Nat) : R ≤ size R L := by unfold size; omega

end ConfModel.Expand
