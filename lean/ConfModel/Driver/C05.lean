import ConfModel.Driver.Common
namespace ConfModel.Driver.C05
open Lean ConfModel.Driver

def handle : Handler := fun op _inp _impl => bad ("C05: unknown op " ++ op)

end ConfModel.Driver.C05
