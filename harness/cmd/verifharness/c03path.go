package main

import (
	"encoding/json"
	"fmt"
	"strings"

	cc "connectrpc.com/conformance/internal/app/connectconformance"
	conformancev1 "connectrpc.com/conformance/internal/gen/proto/go/connectrpc/conformance/v1"
	"connectrpc.com/conformance/internal/verifharness/gen"
	"google.golang.org/protobuf/proto"
)

// C03 — op "path": the way a client's reply takes from the wire to testResults.assert.
//
// in = the fields of op "assert" (st, other, exp, act, mut, expect) plus
//   reply:  "response" (act is the reported result) | "error" | "neither" | "noresult" | "transport"
//   fb:     feedback lines of the reported result
//   spare:  -1 = the repeated fields as proto.Unmarshal made them (append growth: spare capacity
//           whenever the length is not a power of two); n >= 0 = rebuilt with exactly n spare
//           elements, filled with a sentinel
//   async:  the client runner calls back from another goroutine
//   runs:   the settings of (logEach, tracing, isReferenceClient, isReferenceServer) to run
// impl = {direct: what assert records for a fresh copy of act (reply = response),
//         runs: per setting, what the REAL runTestCasesForServer recorded when the scripted client
//         runner handed it the reply decoded from wire bytes: verdict, discrepancy classes, the
//         numbers of log lines, the side-band, and whether the reply object / its spare capacity /
//         the test case definition differ from deep copies taken before}.

func init() {
	gen.RegisterOp("c03", "path", func(_ *gen.Ctx, raw json.RawMessage) any {
		in := gen.Into[c03PathIn](raw)
		return c03Path(in)
	})
}

type c03PathIn struct {
	c03In
	Reply string                 `json:"reply"`
	Fb    []string               `json:"fb"`
	Spare int                    `json:"spare"`
	Async bool                   `json:"async"`
	Runs  []cc.VerifC03PathFlags `json:"runs"`
}

type c03PathRun struct {
	cc.VerifC03PathObs
	Verdict string   `json:"verdict"` // hang | unrecorded | setup | clientError | neither | asserted
	Errs    []string `json:"errs"`
}

type c03PathOut struct {
	Direct *c03Out      `json:"direct"`
	Runs   []c03PathRun `json:"runs"`
}

const c03PathName = "s/case"
const c03PathClientMsg = "client says no"

func c03PathDef(in c03In) *conformancev1.TestCase {
	def := &conformancev1.TestCase{
		Request:          &conformancev1.ClientCompatRequest{TestName: c03PathName, StreamType: conformancev1.StreamType(in.St)},
		ExpectedResponse: c03ToProto(in.Exp),
	}
	for _, c := range in.Other {
		def.OtherAllowedErrorCodes = append(def.OtherAllowedErrorCodes, conformancev1.Code(c))
	}
	return def
}

func c03Path(in c03PathIn) c03PathOut {
	out := c03PathOut{Runs: []c03PathRun{}}
	var wire []byte
	cbKind := ""
	switch in.Reply {
	case "response":
		recorded, texts := cc.VerifC03Assert(c03PathDef(in.c03In), c03ToProto(in.Act))
		d := c03Out{Recorded: recorded, Errs: []string{}}
		for _, t := range texts {
			d.Errs = append(d.Errs, c03Classify(t))
		}
		out.Direct = &d
		res := c03ToProto(in.Act)
		res.Feedback = in.Fb
		wire = c03PathMarshal(&conformancev1.ClientCompatResponse{TestName: c03PathName, Result: &conformancev1.ClientCompatResponse_Response{Response: res}})
	case "error":
		wire = c03PathMarshal(&conformancev1.ClientCompatResponse{TestName: c03PathName, Result: &conformancev1.ClientCompatResponse_Error{
			Error: &conformancev1.ClientErrorResult{Message: c03PathClientMsg}}})
	case "neither":
		wire = c03PathMarshal(&conformancev1.ClientCompatResponse{TestName: c03PathName})
	case "noresult", "transport":
		cbKind = in.Reply
	default:
		panic("c03 path: unknown reply kind " + in.Reply)
	}
	for _, f := range in.Runs {
		obs := cc.VerifC03Path(c03PathDef(in.c03In), wire, cbKind, in.Spare, in.Async, f)
		run := c03PathRun{VerifC03PathObs: obs, Errs: []string{}}
		switch {
		case obs.Hang:
			run.Verdict = "hang"
		case !obs.Recorded:
			run.Verdict = "unrecorded"
		case obs.Setup:
			run.Verdict = "setup"
		case len(obs.Texts) == 1 && obs.Texts[0] == c03PathClientMsg:
			run.Verdict = "clientError"
		case len(obs.Texts) == 1 && obs.Texts[0] == "client returned a response with neither an error nor result":
			run.Verdict = "neither"
		default:
			// what assert recorded: nil, one error, or multiErrors; an unrecognised text is a class of its own
			run.Verdict = "asserted"
			for _, t := range obs.Texts {
				run.Errs = append(run.Errs, c03Classify(t))
			}
		}
		out.Runs = append(out.Runs, run)
	}
	return out
}

func c03PathMarshal(m proto.Message) []byte {
	b, err := proto.MarshalOptions{Deterministic: true}.Marshal(m)
	if err != nil {
		panic(err)
	}
	return b
}

// every setting of the four flags, quiet first
func c03PathAllFlags() []cc.VerifC03PathFlags {
	var out []cc.VerifC03PathFlags
	for m := 0; m < 16; m++ {
		out = append(out, cc.VerifC03PathFlags{LogEach: m&1 != 0, Tracing: m&2 != 0, RefClient: m&4 != 0, RefServer: m&8 != 0})
	}
	return out
}

// c03Repeat reports some names more than once (separate entries, same or other case, same or other
// values) in the headers / trailers / echoed request headers of act: allowed extra metadata, outside
// the property's WellFormed, but the path must still be the identity on it.
func (g *c03Gen) c03Repeat(act *c03Result) {
	r := g.r
	dup := func(hs *[]c03Hdr, always bool) {
		if !always && !r.Chance(1, 2) {
			return
		}
		var d c03Hdr
		switch {
		case len(*hs) == 0 || r.Chance(1, 4):
			// a name the expected result does not know, twice
			d = c03Hdr{N: "Vary", V: []string{"origin"}}
			k := r.Intn(len(*hs) + 1)
			*hs = append((*hs)[:k:k], append([]c03Hdr{d}, (*hs)[k:]...)...)
		default:
			h := (*hs)[r.Intn(len(*hs))]
			d = c03Hdr{N: h.N, V: append([]string{}, h.V...)}
		}
		if r.Bool() {
			d.N = c03FlipCase(d.N)
		}
		if r.Chance(1, 4) {
			d.V = []string{g.val()}
		}
		k := r.Intn(len(*hs) + 1)
		*hs = append((*hs)[:k:k], append([]c03Hdr{d}, (*hs)[k:]...)...)
	}
	dup(&act.H, true)
	dup(&act.T, false)
	if len(act.P) > 0 && act.P[0].RI != nil {
		dup(&act.P[0].RI.H, false)
	}
}

func runC03Path(c *gen.Ctx, g0 *c03Gen, corpus []*conformancev1.TestCase) error {
	r := g0.r.Fork()
	g := &c03Gen{r: r, grace: g0.grace}
	all := c03PathAllFlags()
	runs := func() []cc.VerifC03PathFlags {
		if c.Thorough() {
			return all
		}
		// quiet, -vv alone, and two other settings (one of them with -vv)
		return []cc.VerifC03PathFlags{all[0], all[1], all[2+2*r.Intn(7)+1], all[2+2*r.Intn(7)]}
	}
	spares := []int{-1, -1, 0, 1, 2, 3, 4, 8}
	fbs := [][]string{{}, {}, {"note"}, {"first", "last"}}

	// (a) the replies that are not reported results, under every setting of the flags
	for _, kind := range []string{"error", "neither", "noresult", "transport"} {
		for _, async := range []bool{false, true} {
			exp, st, other := g.result()
			c.Do("path", c03PathIn{c03In: c03In{St: st, Other: other, Exp: exp, Act: exp, Mut: "reply:" + kind}, Reply: kind, Fb: []string{}, Spare: -1, Async: async, Runs: all})
			c.E.Count("path-reply:" + kind)
		}
	}

	// (b) expected results x (identical, every rewrite, every single deviation at every position),
	// each as reported and with names reported more than once, decoded from wire bytes
	emit := func(st int, other []int, exp c03Result, prefix string, keep func() bool) {
		ins := []any{}
		for _, v := range g.variants(exp, st, other) {
			if !keep() {
				continue
			}
			for _, repeated := range []bool{false, true} {
				act, mut, expect := v.act, prefix+v.mut, v.expect
				if repeated {
					act = c03Clone(act)
					g.c03Repeat(&act)
					mut, expect = prefix+"repeated-names:"+v.mut, ""
				}
				ins = append(ins, c03PathIn{c03In: c03In{St: st, Other: other, Exp: exp, Act: act, Mut: mut, Expect: expect},
					Reply: "response", Fb: gen.Pick(r, fbs), Spare: gen.Pick(r, spares), Async: r.Chance(1, 4), Runs: runs()})
				c.E.Count("path-mut:" + c03MutKind(v.mut))
			}
		}
		c.DoParallel("path", ins, 8)
	}
	nExp, nCorpus, keepNum := 60, 40, 1
	if c.Thorough() {
		nExp, nCorpus, keepNum = 400, len(corpus), 3
	}
	keep := func() bool { return r.Chance(keepNum, 3) }
	for i := 0; i < nExp; i++ {
		exp, st, other := g.result()
		emit(st, other, exp, "", keep)
		c.E.Add("path-expected-results", 1)
	}
	for _, idx := range c03Sample(r, len(corpus), nCorpus) {
		tc := corpus[idx]
		other := []int{}
		for _, oc := range tc.GetOtherAllowedErrorCodes() {
			other = append(other, int(oc))
		}
		emit(int(tc.GetRequest().GetStreamType()), other, c03FromProto(tc.GetExpectedResponse()), "corpus:", keep)
		c.E.Add("path-corpus-expected-results", 1)
	}

	// (c) metadata shapes, bounded-exhaustive: h headers (0..5) and t trailers (0..4) expected; the
	// client reports them with the i-th header moved to the trailers (a deviation unless merged), the
	// j-th name reported twice, every spare capacity 0..t+1 and the decoder's own
	maxH, maxT := 4, 3
	if c.Thorough() {
		maxH, maxT = 5, 4
	}
	ins := []any{}
	for h := 1; h <= maxH; h++ {
		for t := 0; t <= maxT; t++ {
			exp := c03Result{H: []c03Hdr{}, T: []c03Hdr{}, P: []c03Payload{{D: "01"}}}
			for i := 0; i < h; i++ {
				exp.H = append(exp.H, c03Hdr{N: fmt.Sprintf("x-h%d", i), V: []string{"v"}})
			}
			for i := 0; i < t; i++ {
				exp.T = append(exp.T, c03Hdr{N: fmt.Sprintf("x-t%d", i), V: []string{"w"}})
			}
			for moved := -1; moved < h; moved++ {
				for dupAt := 0; dupAt < h; dupAt++ {
					act := c03Clone(exp)
					expect := ""
					if moved >= 0 {
						m := act.H[moved]
						act.H = append(act.H[:moved:moved], act.H[moved+1:]...)
						act.T = append(act.T, m)
						expect = "headerMissing:response headers:" + strings.ToLower(m.N)
					}
					// two entries of a name the expected result does not list, the first at dupAt
					x := c03Hdr{N: "Vary", V: []string{"origin"}}
					k := dupAt
					if k > len(act.H) {
						k = len(act.H)
					}
					act.H = append(act.H[:k:k], append([]c03Hdr{x, {N: "vary", V: []string{"accept"}}}, act.H[k:]...)...)
					for _, spare := range []int{-1, 0, 1, len(act.T), len(act.T) + 1} {
						ins = append(ins, c03PathIn{c03In: c03In{St: 3, Other: []int{}, Exp: exp, Act: act,
							Mut: fmt.Sprintf("metadata-shape:header-as-trailer@%d.repeat@%d", moved, dupAt), Expect: expect},
							Reply: "response", Fb: []string{}, Spare: spare, Runs: []cc.VerifC03PathFlags{all[0], all[1]}})
						c.E.Count("path-mut:metadata-shape")
					}
				}
			}
		}
	}
	c.DoParallel("path", ins, 8)
	return nil
}
