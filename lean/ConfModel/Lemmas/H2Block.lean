/-
Chunk independence of block-wise byte consumers (`Machine`), proved once for every machine
whose three branch bodies satisfy the `Lawful` conditions.  Pattern of
design-notes/proto-datatracer-append.lean.txt: unfold lemma by `rfl`, fuel irrelevance,
induction on a length bound.
-/
import ConfModel.Model.H2Block
namespace ConfModel.H2
namespace Machine
variable {S O : Type}

/-- What the branch bodies of a tracer must satisfy (relative to a state invariant). -/
structure Lawful (m : Machine S O) (Inv : S → Prop) : Prop where
  need_pos : ∀ s, Inv s → m.stopped s = false → 0 < m.need s
  inv_absorb : ∀ s d, Inv s → m.stopped s = false → d.length < m.need s → Inv (m.absorb s d)
  inv_complete : ∀ s d, Inv s → m.stopped s = false → d.length = m.need s → Inv (m.complete s d).1
  stopped_absorb : ∀ s d, Inv s → m.stopped s = false → d.length < m.need s → m.stopped (m.absorb s d) = false
  need_absorb : ∀ s d, Inv s → m.stopped s = false → d.length < m.need s →
    m.need (m.absorb s d) = m.need s - d.length
  absorb_absorb : ∀ s a b, Inv s → m.stopped s = false → a.length + b.length < m.need s →
    m.absorb (m.absorb s a) b = m.absorb s (a ++ b)
  complete_absorb : ∀ s a b, Inv s → m.stopped s = false → a.length + b.length = m.need s → 0 < b.length →
    m.complete (m.absorb s a) b = m.complete s (a ++ b)

theorem trace_unfold (m : Machine S O) (fuel : Nat) (s : S) (data : Bytes) :
    m.trace (fuel+1) s data =
    if m.stopped s then (s, []) else
    if data.isEmpty then (s, []) else
    if data.length < m.need s then (m.absorb s data, [])
    else
      ((m.trace fuel (m.complete s (data.take (m.need s))).1 (data.drop (m.need s))).1,
       (m.complete s (data.take (m.need s))).2 ++
       (m.trace fuel (m.complete s (data.take (m.need s))).1 (data.drop (m.need s))).2) := by
  rfl

theorem run_nil (m : Machine S O) (s : S) : m.run s [] = (s, []) := by
  simp [run, trace_unfold]

theorem run_stopped (m : Machine S O) (s : S) (d : Bytes) (h : m.stopped s = true) : m.run s d = (s, []) := by
  simp [run, trace_unfold, h]

variable {m : Machine S O} {Inv : S → Prop}

theorem fuel_irrel (law : Lawful m Inv) : ∀ (f f' : Nat) (s : S) (d : Bytes), Inv s → d.length < f → d.length < f' →
    m.trace f s d = m.trace f' s d
  | 0, _, _, _, _, h, _ => by omega
  | _, 0, _, _, _, _, h => by omega
  | f+1, f'+1, s, d, hi, h1, h2 => by
    rw [trace_unfold, trace_unfold]
    by_cases hs : m.stopped s = true
    · simp [hs]
    · have hs' : m.stopped s = false := by simpa using hs
      simp only [hs', Bool.false_eq_true, if_false]
      by_cases hd : d.isEmpty
      · simp [hd]
      · simp only [hd, Bool.false_eq_true, if_false]
        by_cases hl : d.length < m.need s
        · simp [hl]
        · simp only [hl, if_false]
          have hneed := law.need_pos s hi hs'
          have hlen : (d.drop (m.need s)).length < d.length := by
            simp only [List.length_drop]; omega
          have hc : Inv (m.complete s (d.take (m.need s))).1 :=
            law.inv_complete s _ hi hs' (by simp only [List.length_take]; omega)
          rw [fuel_irrel law f f' _ _ hc (by omega) (by omega)]

theorem run_short (m : Machine S O) (s : S) (d : Bytes) (hs : m.stopped s = false) (hd : d ≠ [])
    (hl : d.length < m.need s) : m.run s d = (m.absorb s d, []) := by
  have : d.isEmpty = false := by cases d <;> simp_all
  simp [run, trace_unfold, this, hs, hl]

theorem run_full (law : Lawful m Inv) (s : S) (d : Bytes) (hi : Inv s) (hs : m.stopped s = false) (hd : d ≠ [])
    (hl : ¬ d.length < m.need s) :
    m.run s d =
      ((m.run (m.complete s (d.take (m.need s))).1 (d.drop (m.need s))).1,
       (m.complete s (d.take (m.need s))).2 ++
       (m.run (m.complete s (d.take (m.need s))).1 (d.drop (m.need s))).2) := by
  have hne : d.isEmpty = false := by cases d <;> simp_all
  have hneed := law.need_pos s hi hs
  have hpos : 0 < d.length := by cases d <;> simp_all
  have hc : Inv (m.complete s (d.take (m.need s))).1 :=
    law.inv_complete s _ hi hs (by simp only [List.length_take]; omega)
  unfold run
  rw [trace_unfold]
  simp only [hne, hs, Bool.false_eq_true, if_false, hl]
  rw [fuel_irrel law d.length ((d.drop (m.need s)).length + 1) _ _ hc
    (by simp only [List.length_drop]; omega) (by omega)]

/-- the invariant is preserved by a call -/
theorem inv_run (law : Lawful m Inv) : ∀ (n : Nat) (d : Bytes), d.length ≤ n → ∀ s, Inv s → Inv (m.run s d).1
  | _, [], _, s, hi => by rw [run_nil]; exact hi
  | 0, _ :: _, h, _, _ => by simp at h
  | n+1, x :: a, hlen, s, hi => by
    by_cases hs : m.stopped s = true
    · rw [run_stopped m s _ hs]; exact hi
    · have hs' : m.stopped s = false := by simpa using hs
      by_cases hl : (x :: a).length < m.need s
      · rw [run_short m s _ hs' (by simp) hl]; exact law.inv_absorb s _ hi hs' hl
      · rw [run_full law s _ hi hs' (by simp) hl]
        have hneed := law.need_pos s hi hs'
        have hc : Inv (m.complete s ((x :: a).take (m.need s))).1 :=
          law.inv_complete s _ hi hs' (by simp only [List.length_take]; omega)
        exact inv_run law n _ (by simp only [List.length_drop, List.length_cons] at hlen ⊢; omega) _ hc

/-- **Chunk independence**: one call on `a ++ b` = a call on `a` followed by a call on `b`. -/
theorem run_append_aux (law : Lawful m Inv) : ∀ (n : Nat) (a : Bytes), a.length ≤ n → ∀ (s : S) (b : Bytes), Inv s →
    m.run s (a ++ b) = comb (m.run s a) (fun s' => m.run s' b)
  | _, [], _, s, b, _ => by simp [run_nil, comb]
  | 0, _ :: _, h, _, _, _ => by simp at h
  | n+1, x :: a, hlen, s, b, hi => by
    by_cases hs : m.stopped s = true
    · rw [run_stopped m s _ hs, run_stopped m s _ hs]; simp [comb, run_stopped m s _ hs]
    have hs' : m.stopped s = false := by simpa using hs
    have hd : (x :: a) ≠ [] := by simp
    have hdab : (x :: a) ++ b ≠ [] := by simp
    have hneed := law.need_pos s hi hs'
    by_cases hl : (x :: a).length < m.need s
    · rw [run_short m s _ hs' hd hl]
      have hsa := law.stopped_absorb s _ hi hs' hl
      have hna := law.need_absorb s _ hi hs' hl
      have hia := law.inv_absorb s _ hi hs' hl
      by_cases hl2 : ((x :: a) ++ b).length < m.need s
      · rw [run_short m s _ hs' hdab hl2]
        by_cases hb : b = []
        · subst hb; simp [comb, run_nil]
        · have hl3 : b.length < m.need (m.absorb s (x :: a)) := by
            rw [hna]; simp only [List.length_append] at hl2; omega
          simp only [comb]
          rw [run_short m _ b hsa hb hl3, law.absorb_absorb s _ _ hi hs' (by simp only [List.length_append] at hl2; omega)]
          simp
      · have hb : b ≠ [] := by
          intro hb; subst hb; simp only [List.append_nil] at hl2; exact hl2 hl
        have hl3 : ¬ b.length < m.need (m.absorb s (x :: a)) := by
          rw [hna]; simp only [List.length_append] at hl2; omega
        rw [run_full law s _ hi hs' hdab hl2]
        simp only [comb]
        rw [run_full law _ b hia hsa hb hl3, hna]
        have e1 : ((x :: a) ++ b).take (m.need s) = (x :: a) ++ b.take (m.need s - (x :: a).length) := by
          rw [List.take_append, List.take_of_length_le (by omega)]
        have e2 : ((x :: a) ++ b).drop (m.need s) = b.drop (m.need s - (x :: a).length) := by
          rw [List.drop_append, List.drop_of_length_le (by omega)]
          simp
        have hbl : 0 < (b.take (m.need s - (x :: a).length)).length := by
          simp only [List.length_take, List.length_append] at hl2 ⊢
          have : 0 < b.length := by cases b <;> simp_all
          omega
        have e3 := law.complete_absorb s (x :: a) (b.take (m.need s - (x :: a).length)) hi hs'
          (by simp only [List.length_take, List.length_append] at hl2 ⊢; omega) hbl
        rw [e1, e2, e3]
        simp
    · have hl2 : ¬ ((x :: a) ++ b).length < m.need s := by
        simp only [List.length_append]; omega
      rw [run_full law s _ hi hs' hdab hl2, run_full law s _ hi hs' hd hl]
      have e1 : ((x :: a) ++ b).take (m.need s) = (x :: a).take (m.need s) := by
        rw [List.take_append_of_le_length (by omega)]
      have e2 : ((x :: a) ++ b).drop (m.need s) = (x :: a).drop (m.need s) ++ b := by
        rw [List.drop_append_of_le_length (by omega)]
      rw [e1, e2]
      have hshort : ((x :: a).drop (m.need s)).length ≤ n := by
        simp only [List.length_drop, List.length_cons] at hlen ⊢; omega
      have hc : Inv (m.complete s ((x :: a).take (m.need s))).1 :=
        law.inv_complete s _ hi hs' (by simp only [List.length_take]; omega)
      rw [run_append_aux law n _ hshort _ b hc]
      simp [comb, List.append_assoc]

theorem run_append (law : Lawful m Inv) (s : S) (a b : Bytes) (hi : Inv s) :
    m.run s (a ++ b) = comb (m.run s a) (fun s' => m.run s' b) :=
  run_append_aux law a.length a (Nat.le_refl _) s b hi

theorem inv_run' (law : Lawful m Inv) (s : S) (d : Bytes) (hi : Inv s) : Inv (m.run s d).1 :=
  inv_run law d.length d (Nat.le_refl _) s hi

/-- Any way of cutting a byte string into calls gives the result of the single call. -/
theorem runChunks_eq_run (law : Lawful m Inv) : ∀ (cs : List Bytes) (s : S), Inv s →
    m.runChunks s cs = m.run s cs.flatten
  | [], s, _ => by simp [runChunks, run_nil]
  | c :: cs, s, hi => by
    simp only [runChunks, List.flatten_cons]
    rw [run_append law s c cs.flatten hi]
    simp only [comb]
    rw [runChunks_eq_run law cs _ (inv_run' law s c hi)]

end Machine
end ConfModel.H2
