import ConfModel.Driver.Common
namespace ConfModel.Driver.C04
open Lean ConfModel.Driver

def handle : Handler := fun op _inp _impl => bad ("C04: unknown op " ++ op)

end ConfModel.Driver.C04
