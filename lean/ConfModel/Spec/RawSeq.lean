/-
Declarative side of the history / status part of C17: what the destination of one raw body must
have seen when it fails after `k` bytes, and what "sends the given status (200 if unset)" means
for a plain client that also sees informational responses.
-/
import ConfModel.Model.RawSeq
import ConfModel.Spec.RawBody
namespace ConfModel.RawSeqSpec
open ConfModel.RawBody ConfModel.RawBodySpec ConfModel.RawSeq

/-- a destination that takes `k` bytes of the body `b` has exactly its first `k` bytes, and the
writer was told about the failure iff something is missing; a sound destination has all of `b` -/
def cutHolds (budget : Option Nat) (b : Bytes) (o : Obs) : Bool :=
  match budget with
  | none => o.out == b && !o.err
  | some k => o.out == b.take k && o.err == decide (k < b.length)

/-- one write of a history, judged on its own definition only: the specified bytes (cut where the
destination failed), nothing else — in particular nothing of an earlier write -/
def stepHolds (compress : Compress) (st : Step) (o : Obs) : Bool :=
  match st.body with
  | .unary c =>
    match payloadOf compress c with
    | none => o.err && o.out.isEmpty
    | some b => cutHolds st.budget b o
  | .stream items =>
    if items.all (itemOk compress) then cutHolds st.budget (streamBytes compress items) o
    else
      -- a malformed definition is refused; what precedes the bad item is written (cut likewise)
      let pre := streamBytes compress (goodPrefix compress items)
      o.err && (match st.budget with
        | none => pre.isPrefixOf o.out
        | some k => (pre.take k).isPrefixOf o.out && o.out.length ≤ k)

/-- only the bytes (the writer's error is not visible to the peer) -/
def stepBytesHold (compress : Compress) (st : Step) (out : Bytes) : Bool :=
  match st.body with
  | .unary c =>
    match payloadOf compress c with
    | none => out.isEmpty
    | some b => out == (match st.budget with | none => b | some k => b.take k)
  | .stream items =>
    if items.all (itemOk compress) then
      out == (match st.budget with | none => streamBytes compress items | some k => (streamBytes compress items).take k)
    else true

/-- statuses that cannot have a body (RFC 9110: 1xx, 204, 304) -/
def bodyless (status : Nat) : Bool := (100 ≤ status && status ≤ 199) || status == 204 || status == 304

/-- "sends the given status (200 if unset)", for a client that saw the informational responses
`info` and the final status `final`: unset ⇒ 200 and nothing else; a final code (200..999) is the
final status and nothing precedes it; an informational code (100..199) is on the wire, as an
informational response or as the final status.  Codes that HTTP cannot carry (1..99, ≥ 1000)
leave nothing to demand. -/
def statusHonoured (c : Nat) (info : List Nat) (final : Nat) : Bool :=
  if c == 0 then final == 200 && info.isEmpty
  else if 200 ≤ c && c ≤ 999 then final == c && info.isEmpty
  else if 100 ≤ c && c ≤ 199 then (info ++ [final]).contains c
  else true

end ConfModel.RawSeqSpec
