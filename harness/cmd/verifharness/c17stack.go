package main

// C17, sequences of exchanges with one reference-server process (op `stackseq`).
//
// Every line starts a createServer stack of its own (CORS -> rawResponder -> referenceServerChecks
// -> connect-go mux with serverNameHandlerInterceptor and rawResponseRecorder; an HTTP/1.1 and an
// h2c instance), sends the whole sequence to it - raw responses with headers and trailers, with and
// without an Origin (CORS then shares slices of its own with the header map the raw responder
// snapshots and restores), asked for by every kind of RPC, and RPCs without a raw response that the
// handler answers - and shuts it down. State a layer kept from one request to the next would show in
// a later exchange: each one is judged on its own definition alone.

import (
	"context"
	"crypto/tls"
	"encoding/hex"
	"encoding/json"
	"fmt"
	"net"
	"net/http"

	"connectrpc.com/conformance/internal/app/referenceserver"
	conformancev1 "connectrpc.com/conformance/internal/gen/proto/go/connectrpc/conformance/v1"
	"connectrpc.com/conformance/internal/verifharness/gen"
	"golang.org/x/net/http2"
	"google.golang.org/protobuf/proto"
)

func init() {
	gen.RegisterOp("c17", "stackseq", func(_ *gen.Ctx, raw json.RawMessage) any { return c17StackSeq(gen.Into[c17StackSeqIn](raw)) })
}

// c17StackStep: one exchange. Normal = the response definition holds no raw response: a unary
// Connect RPC the handler answers with Data and the response headers RespHdrs. Otherwise the
// fields of rawsrv (the raw response and what else the definition holds).
type c17StackStep struct {
	c17RawSrvIn
	Normal   bool     `json:"normal"`
	Data     string   `json:"data"`     // hex
	RespHdrs []c17Hdr `json:"respHdrs"` // response_headers of a normal step
}
type c17StackSeqIn struct {
	Steps []c17StackStep `json:"steps"`
}
type c17StackObs struct {
	c17RawSrvOut
	Decoded bool   `json:"decoded"` // normal step: the body is a UnaryResponse
	Data    string `json:"data"`    // ... with this payload data
}
type c17StackSeqOut struct {
	Err    string        `json:"err,omitempty"`
	Steps  []c17StackObs `json:"steps"`
	Oracle []c17Enc      `json:"oracle"`
}

// c17Proc: the two instances of one "process" and plain clients of their own
type c17Proc struct {
	addr  map[string]string
	stop  []func()
	h1    *http.Transport
	h2    *http2.Transport
	cl    map[string]*http.Client
	start error
}

func c17NewProc() *c17Proc {
	p := &c17Proc{addr: map[string]string{}, cl: map[string]*http.Client{}}
	for name, v := range map[string]int32{"h1": 1, "h2c": 2} {
		addr, stop, err := referenceserver.VerifC17StartRealStop(v)
		if err != nil {
			p.start = err
			return p
		}
		p.addr[name] = addr
		p.stop = append(p.stop, stop)
	}
	p.h1 = &http.Transport{DisableCompression: true, MaxIdleConnsPerHost: 4}
	p.h2 = &http2.Transport{AllowHTTP: true, DisableCompression: true,
		DialTLSContext: func(ctx context.Context, network, addr string, _ *tls.Config) (net.Conn, error) {
			var d net.Dialer
			return d.DialContext(ctx, network, addr)
		}}
	p.cl["h1"], p.cl["h2c"] = &http.Client{Transport: p.h1}, &http.Client{Transport: p.h2}
	return p
}

func (p *c17Proc) close() {
	if p.h1 != nil {
		p.h1.CloseIdleConnections()
		p.h2.CloseIdleConnections()
	}
	for _, s := range p.stop {
		s()
	}
}

func c17StackSeq(in c17StackSeqIn) c17StackSeqOut {
	out := c17StackSeqOut{Steps: []c17StackObs{}}
	var ps []*c17Payload
	for _, st := range in.Steps {
		ps = append(ps, c17BodyPayloads(st.Body)...)
	}
	out.Oracle = c17Oracle(ps)
	subject, ref := c17NewProc(), c17NewProc() // the sequence / the baselines
	defer subject.close()
	defer ref.close()
	if subject.start != nil || ref.start != nil {
		out.Err = "start"
		return out
	}
	for i, st := range in.Steps {
		if _, ok := subject.addr[st.Proto]; !ok {
			out.Err = "unknown proto"
			return out
		}
		obs := c17StackObs{c17RawSrvOut: c17RawSrvOut{Headers: []c17Hdr{}, Trailers: []c17Hdr{}, Base: []c17Hdr{}, Oracle: []c17Enc{}}}
		name := fmt.Sprintf("C17/exchange %d of a sequence", i+1)
		if st.Normal {
			rin := st.c17RawSrvIn
			rin.Proc, rin.Codec, rin.Rpc = "Unary", "proto", ""
			rin.Extra = &c17Extra{Data: []string{st.Data}, Headers: st.RespHdrs}
			// what the stack and the handler send for this request without the response headers
			bin := rin
			bin.Extra = &c17Extra{Data: []string{st.Data}}
			if _, base, _, _, err := c17RawExchangeAt(ref.addr[st.Proto], ref.cl[st.Proto], bin, nil, name+" (baseline)"); err == nil {
				obs.Base = c17CanonHeader(base)
			} else {
				obs.Err = "baseline"
			}
			status, hdr, trl, body, err := c17RawExchangeAt(subject.addr[st.Proto], subject.cl[st.Proto], rin, nil, name)
			if err != nil {
				obs.Err = "exchange"
			} else {
				obs.Status, obs.Headers, obs.Trailers, obs.Body = status, c17CanonHeader(hdr), c17CanonHeader(trl), gen.Hex(body)
				var resp conformancev1.UnaryResponse
				if proto.Unmarshal(body, &resp) == nil && resp.GetPayload() != nil {
					obs.Decoded, obs.Data = true, hex.EncodeToString(resp.GetPayload().GetData())
				}
			}
			out.Steps = append(out.Steps, obs)
			continue
		}
		raw := &conformancev1.RawHTTPResponse{StatusCode: st.Status}
		c17RawBody(st.Body, raw)
		if _, base, _, _, err := c17RawExchangeAt(ref.addr[st.Proto], ref.cl[st.Proto], st.c17RawSrvIn, raw, name+" (baseline)"); err == nil {
			obs.Base = c17CanonHeader(base)
		} else {
			obs.Err = "baseline"
		}
		raw = &conformancev1.RawHTTPResponse{StatusCode: st.Status, Headers: c17Headers(st.Headers), Trailers: c17Headers(st.Trailers)}
		c17RawBody(st.Body, raw)
		status, hdr, trl, body, err := c17RawExchangeAt(subject.addr[st.Proto], subject.cl[st.Proto], st.c17RawSrvIn, raw, name)
		if err != nil {
			obs.Err = "exchange"
		} else {
			obs.Status, obs.Headers, obs.Trailers, obs.Body = status, c17CanonHeader(hdr), c17CanonHeader(trl), gen.Hex(body)
		}
		out.Steps = append(out.Steps, obs)
	}
	return out
}

// ---------------------------------------------------------------- generator (n)

func runC17StackSeq(c *gen.Ctx) {
	r := c.R
	e := c.E
	n := 120
	if c.Thorough() {
		n = 2500
	}
	// names the CORS layer uses itself (its values then sit in slices CORS owns) and others
	corsNames := []string{"Vary", "vary", "Access-Control-Expose-Headers", "Access-Control-Allow-Origin", "access-control-allow-credentials"}
	names := append(append([]string{}, corsNames...), "X-Raw-A", "x-raw-b", "Content-Type", "X-RAW-A", "X-Seq")
	vals := []string{"Accept-Encoding", "Origin", "*", "X-Custom", "true", "false", "https://other.example", "a, b", "application/json"}
	origins := []string{"", "https://verif.example", "http://localhost:8080"}
	var jobs []any
	for i := 0; i < n; i++ {
		steps := make([]c17StackStep, r.Range(2, 6))
		// most sequences keep one Origin and one protocol (the same connection, the same CORS
		// branch, again and again); the others mix
		origin, proto := gen.Pick(r, origins), gen.Pick(r, []string{"h1", "h2c"})
		mix := r.Chance(1, 3)
		for k := range steps {
			st := c17StackStep{RespHdrs: []c17Hdr{}}
			st.Proto, st.Origin = proto, origin
			if mix {
				st.Proto, st.Origin = gen.Pick(r, []string{"h1", "h2c"}), gen.Pick(r, origins)
			}
			st.Headers, st.Trailers = []c17Hdr{}, []c17Hdr{}
			if r.Chance(1, 4) && k > 0 {
				// the handler answers: nothing of an earlier raw response may show
				st.Normal, st.Proc, st.Codec = true, "Unary", "proto"
				st.Data = gen.Hex([]byte(fmt.Sprintf("normal-%d.%d:%s", i, k, gen.Hex(r.Bytes(r.Intn(6))))))
				st.Body = c17Body{Kind: "none"}
				if r.Bool() {
					st.RespHdrs = []c17Hdr{{N: gen.Pick(r, []string{"X-Normal", "Vary", "X-Raw-A"}), V: []string{fmt.Sprintf("n%d", k)}}}
				}
				e.Count("kind:stackseq-normal-step")
				steps[k] = st
				continue
			}
			st.Proc, st.Codec = gen.Pick(r, []string{"Unary", "Unary", "ServerStream", "ClientStream", "BidiStream"}), "proto"
			st.Rpc = gen.Pick(r, []string{"", "", "grpc", "grpcweb"})
			if st.Proto == "h1" && st.Rpc == "grpc" {
				st.Rpc = "grpcweb"
			}
			if st.Proto == "h1" && st.Proc == "BidiStream" {
				st.Proc = "ServerStream"
			}
			st.Status = gen.Pick(r, []uint32{0, 200, 200, 201, 204, 304, 404, 500, 799})
			st.Body = c17Body{Kind: "stream", Stream: c17FreshItems(r, fmt.Sprintf("s%d.%d", i, k))}
			if r.Chance(1, 4) {
				st.Body = c17RandBody(r, false)
			}
			st.Headers = make([]c17Hdr, r.Range(1, 3))
			for j := range st.Headers {
				ns := names
				if j == 0 {
					ns = corsNames
				}
				vs := make([]string, r.Range(1, 2))
				for q := range vs {
					vs[q] = fmt.Sprintf("%s#%d.%d", gen.Pick(r, vals), i, k) // recognisable in a later exchange
				}
				st.Headers[j] = c17Hdr{N: gen.Pick(r, ns), V: vs}
			}
			if st.Status != 204 && st.Status != 304 {
				st.Trailers = c17SameSpelling(c17RandHdrs(r, []string{"X-Trl-A", "x-trl-b", "X-TRL-C"}, 2))
			}
			if r.Chance(1, 4) {
				st.Extra = &c17Extra{Data: []string{gen.Hex([]byte("handler-data"))}, Headers: []c17Hdr{{N: "X-Handler-Hdr", V: []string{"from-definition"}}}, Trailers: []c17Hdr{}}
				if r.Bool() {
					st.Extra.Error = &c17Err{Code: int32(r.Range(1, 16)), Message: "handler error"}
				}
			}
			e.Count("kind:stackseq-raw-step")
			steps[k] = st
		}
		jobs = append(jobs, c17StackSeqIn{steps})
	}
	e.Add("stackseq-sequences", len(jobs))
	c.DoParallel("stackseq", jobs, 6)
}
