/-
Model of the wire-level walk behind `StrictProtoCodec.Unmarshal` (`internal/codec.go`):
`proto.Unmarshal` splits the top level of the message into fields (tag varint, value by wire
type, groups up to their matching end-group), keeps every field whose number the message type
does not know - or knows with another wire type - as raw bytes in the unknown-field set, and the
strict codec rejects a non-empty set, naming the first field in it (`protowire.ConsumeTag`).
What the known fields contain (nested messages, UTF-8, …) is the protobuf library's business:
an oracle of the correspondence run.
-/
namespace ConfModel.ProtoWire

abbrev Bytes := List UInt8

/-- `protowire.ConsumeVarint`: base-128 little endian, at most ten bytes, the tenth at most 1;
`i` = bytes consumed so far -/
def varintGo : Nat → Nat → Bytes → Option (Nat × Bytes)
  | _, _, [] => none
  | i, acc, c :: t =>
    if i == 9 then (if c.toNat ≤ 1 then some (acc + c.toNat * 2 ^ 63, t) else none)
    else if c.toNat < 128 then some (acc + c.toNat * 2 ^ (7 * i), t)
    else varintGo (i + 1) (acc + (c.toNat - 128) * 2 ^ (7 * i)) t

def consumeVarint (b : Bytes) : Option (Nat × Bytes) := varintGo 0 0 b

/-- a tag: field number (1 .. `maxNum`) and wire type -/
def consumeTag (maxNum : Nat) (b : Bytes) : Option (Nat × Nat × Bytes) :=
  match consumeVarint b with
  | none => none
  | some (v, r) => if 1 ≤ v / 8 && v / 8 ≤ maxNum then some (v / 8, v % 8, r) else none

def maxTop : Nat := 2 ^ 29 - 1
def maxNested : Nat := 2 ^ 31 - 1

mutual
/-- `protowire.ConsumeFieldValue`: what follows the value of a field of wire type `wt` -/
def skipValue : Nat → Nat → Nat → Bytes → Option Bytes
  | 0, _, _, _ => none
  | fuel + 1, num, wt, b =>
    if wt == 0 then (consumeVarint b).map (·.2)
    else if wt == 1 then (if b.length < 8 then none else some (b.drop 8))
    else if wt == 5 then (if b.length < 4 then none else some (b.drop 4))
    else if wt == 2 then
      match consumeVarint b with
      | some (l, r) => if r.length < l then none else some (r.drop l)
      | none => none
    else if wt == 3 then skipGroup fuel num b
    else none
/-- the fields of a group up to the end-group tag with the group's number -/
def skipGroup : Nat → Nat → Bytes → Option Bytes
  | 0, _, _ => none
  | fuel + 1, num, b =>
    match consumeTag maxNested b with
    | none => none
    | some (n2, wt2, r) =>
      if wt2 == 4 then (if n2 == num then some r else none)
      else match skipValue fuel n2 wt2 r with
        | some r' => skipGroup fuel num r'
        | none => none
end

structure Field where
  num : Nat
  wt : Nat
  /-- the bytes of the field: tag and value -/
  raw : Bytes
  /-- the value of a length-delimited field (wire type 2) without its length; empty otherwise -/
  payload : Bytes := []
  deriving Repr

/-- the top-level fields of a message -/
def walk : Nat → Bytes → Option (List Field)
  | 0, b => if b.isEmpty then some [] else none
  | fuel + 1, b =>
    if b.isEmpty then some [] else
    match consumeTag maxTop b with
    | none => none
    | some (num, wt, r) =>
      if wt == 4 then none else
      match skipValue (r.length + 2) num wt r with
      | none => none
      | some rest =>
        match walk fuel rest with
        | none => none
        | some fs =>
          let payload := if wt == 2 then (match consumeVarint r with | some (l, r2) => r2.take l | none => []) else []
          some ({ num := num, wt := wt, raw := b.take (b.length - rest.length), payload := payload } :: fs)

def fields (b : Bytes) : Option (List Field) := walk (b.length + 1) b

/-- the message type's fields: number and the wire types it accepts -/
abbrev Known := List (Nat × List Nat)

def isKnown (k : Known) (f : Field) : Bool := k.any (fun e => e.1 == f.num && e.2.contains f.wt)

/-- the unknown-field set `proto.Unmarshal` leaves at the top level: every field the type does not
know (or knows with another wire type), in order -/
def unknownFields (k : Known) (fs : List Field) : List Field := fs.filter (fun f => !isKnown k f)

inductive Outcome
  | ok
  | malformed
  /-- "unrecognized field `num` with … wire type": the first field of the unknown set -/
  | unknown (num wt : Nat)
  deriving DecidableEq, Repr

/-- `StrictProtoCodec.Unmarshal` as far as the top-level wire goes (the known fields' contents
parse: oracle) -/
def strictTop (k : Known) (b : Bytes) : Outcome :=
  match fields b with
  | none => .malformed
  | some fs =>
    match unknownFields k fs with
    | [] => .ok
    | f :: _ => .unknown f.num f.wt

/-! ## nested messages (the repaired `StrictProtoCodec`: `findUnrecognized`)

After the repair the codec also looks into nested messages: singular and repeated message
fields and map values, recursively (`google.protobuf.Any` is a message with a string and a
bytes field: its `value` is opaque).  The message type is described by a list of field tables
regenerated from the descriptor, one per message type reachable from the root (index 0); a field
entry of kind `message` names the table of its message type (so recursive types are finite).
A map field is a repeated field of entry messages (`key` = 1, `value` = 2); the protobuf library
*skips* other field numbers inside a map entry, hence the entry's table is `lenient`. -/

structure Entry where
  num : Nat
  /-- the wire types the field accepts -/
  wts : List Nat
  /-- the field holds a message (singular, repeated, or a map entry) described by table `sub` -/
  isMessage : Bool
  sub : Nat
  deriving Repr

structure Table where
  /-- unknown field numbers are skipped, not kept (map entries) -/
  lenient : Bool
  entries : List Entry
  deriving Repr

abbrev Tables := List Table

def entryFor (t : Table) (f : Field) : Option Entry :=
  t.entries.find? (fun e => e.num == f.num && e.wts.contains f.wt)

def knownIn (t : Table) (f : Field) : Bool := (entryFor t f).isSome

/-- the table and bytes to descend into for a field, if it holds a message -/
def descend (t : Table) (f : Field) : Option (Nat × Bytes) :=
  match entryFor t f with
  | some e => if e.isMessage && f.wt == 2 then some (e.sub, f.payload) else none
  | none => none

/-- the unknown fields of the nested messages held by the given fields, in wire order -/
def nestedUnknowns (rec : Nat → Bytes → Option (List (Nat × Nat))) (t : Table) :
    List Field → Option (List (Nat × Nat))
  | [] => some []
  | f :: rest =>
    match descend t f with
    | none => nestedUnknowns rec t rest
    | some (sub, payload) =>
      match rec sub payload, nestedUnknowns rec t rest with
      | some a, some b => some (a ++ b)
      | _, _ => none

/-- every unknown field (number, wire type) of the message of table `ti` encoded by `b`: its own
first (what `GetUnknown` holds), then those of its nested messages; `none`: the wire is malformed
at some depth -/
def unknownsIn : Nat → Tables → Nat → Bytes → Option (List (Nat × Nat))
  | 0, _, _, _ => none
  | fuel + 1, T, ti, b =>
    match T[ti]?, fields b with
    | some t, some fs =>
      let own := if t.lenient then [] else (fs.filter (fun f => !knownIn t f)).map (fun f => (f.num, f.wt))
      match nestedUnknowns (unknownsIn fuel T) t fs with
      | some ns => some (own ++ ns)
      | none => none
    | _, _ => none

/-- `StrictProtoCodec.Unmarshal` after the repair, as far as the wire goes -/
def strictDeep (T : Tables) (b : Bytes) : Outcome :=
  match unknownsIn (b.length + 2) T 0 b with
  | none => .malformed
  | some [] => .ok
  | some ((num, wt) :: _) => .unknown num wt

end ConfModel.ProtoWire
