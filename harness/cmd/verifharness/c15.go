package main

// C15 — HTTP/2 connection tracing (internal/tracer/http2.go): transparent, frames attributed
// to the right call.  The generator describes exchanges abstractly (frames in global order +
// the script of Read/Write/Close calls); the op builds the bytes with the real x/net/http2
// Framer and hpack.Encoder, feeds tracer.TracingHTTP2Conn over a scripted net.Conn and
// reports the traces delivered, the transparency verdict and what the real Framer decodes
// for every frame unit (the model's frame-parsing parameter).

import (
	"bytes"
	"context"
	"crypto/tls"
	"encoding/hex"
	"encoding/json"
	"errors"
	"fmt"
	"io"
	"math"
	"net"
	"net/http"
	"os"
	"sort"
	"strings"
	"sync"
	"time"

	"connectrpc.com/conformance/internal/tracer"
	"connectrpc.com/conformance/internal/verifharness/gen"
	"golang.org/x/net/http2"
	"golang.org/x/net/http2/h2c"
	"golang.org/x/net/http2/hpack"
)

func init() {
	areas["c15"] = runC15
	areas["c15facts"] = runC15Facts
	gen.RegisterOp("c15", "conn", func(c *gen.Ctx, raw json.RawMessage) any {
		in := gen.Into[c15In](raw)
		return c15Conn(&in)
	})
	gen.RegisterOp("c15", "retry", func(c *gen.Ctx, raw json.RawMessage) any {
		in := gen.Into[c15RetryIn](raw)
		var m map[string][]int
		slow := true
		for attempt := 0; attempt < 3 && slow; attempt++ {
			t0 := time.Now()
			m = tracer.VerifC15Retry(in.Ops)
			slow = time.Since(t0) >= tracer.VerifC15RetryWait()/3 // the real timer may have fired: again
		}
		if slow {
			return map[string]any{"out": [][]any{}, "slow": true}
		}
		names := make([]string, 0, len(m))
		for k := range m {
			names = append(names, k)
		}
		sort.Strings(names)
		out := [][]any{}
		for _, k := range names {
			out = append(out, []any{k, m[k]})
		}
		return map[string]any{"out": out}
	})
	gen.RegisterOp("c15", "bigframe", func(c *gen.Ctx, raw json.RawMessage) any {
		in := gen.Into[c15In](raw)
		in.Compact = true
		return c15Conn(&in)
	})
	gen.RegisterOp("c15", "live", func(c *gen.Ctx, raw json.RawMessage) any {
		in := gen.Into[c15LiveIn](raw)
		return c15Live(&in)
	})
}

// ---------------------------------------------------------------- real stacks over loopback

type c15LiveReq struct {
	Name     string `json:"name"`
	CT       string `json:"ct"`
	Path     string `json:"path"`
	Big      int    `json:"big"` // length of an extra request header value (forces CONTINUATION frames when large)
	ReqBody  string `json:"reqBody"`
	RespBody string `json:"respBody"`
	Status   int    `json:"status"`
}

type c15LiveIn struct {
	Reqs []c15LiveReq `json:"reqs"`
	HTS  uint32       `json:"hts,omitempty"` // both peers: MaxDecoderHeaderTableSize = MaxEncoderHeaderTableSize (0: the library's default, 4096)
}

type c15LiveOut struct {
	Client []c15Obs `json:"client"`
	Server []c15Obs `json:"server"`
	Err    string   `json:"err,omitempty"`
}

// c15Live runs the requests one after the other over one real HTTP/2 (h2c) connection between
// net/http + x/net/http2 peers on loopback, both ends wrapped by the tracer.
func c15Live(in *c15LiveIn) c15LiveOut {
	var out c15LiveOut
	clientSink, serverSink := &c15Sink{}, &c15Sink{}
	listener, err := net.Listen("tcp", "127.0.0.1:0")
	if err != nil {
		out.Err = "listen"
		return out
	}
	byName := map[string]c15LiveReq{}
	for _, r := range in.Reqs {
		byName[r.Name] = r
	}
	handler := http.HandlerFunc(func(w http.ResponseWriter, req *http.Request) {
		_, _ = io.Copy(io.Discard, req.Body)
		spec := byName[req.Header.Get("X-Test-Case-Name")]
		w.Header().Set("Content-Type", spec.CT)
		if spec.Big > 0 {
			w.Header().Set("X-Rbig", strings.Repeat("r", spec.Big%7000))
		}
		w.WriteHeader(spec.Status)
		_, _ = w.Write(c15Unhex(spec.RespBody))
	})
	server := &http.Server{Handler: h2c.NewHandler(handler, &http2.Server{MaxReadFrameSize: 16384,
		MaxDecoderHeaderTableSize: in.HTS, MaxEncoderHeaderTableSize: in.HTS}), ReadHeaderTimeout: 5 * time.Second}
	go func() { _ = server.Serve(tracer.TracingHTTP2Listener(listener, serverSink)) }()
	transport := &http2.Transport{
		AllowHTTP:                 true,
		DisableCompression:        true,
		MaxDecoderHeaderTableSize: in.HTS,
		MaxEncoderHeaderTableSize: in.HTS,
		DialTLSContext: func(ctx context.Context, network, addr string, _ *tls.Config) (net.Conn, error) {
			conn, err := (&net.Dialer{}).DialContext(ctx, network, addr)
			if err != nil {
				return nil, err
			}
			return tracer.TracingHTTP2Conn(conn, false, clientSink), nil
		},
	}
	for _, r := range in.Reqs {
		req, _ := http.NewRequest(http.MethodPost, "http://"+listener.Addr().String()+r.Path, bytes.NewReader(c15Unhex(r.ReqBody)))
		req.Header.Set("Content-Type", r.CT)
		req.Header.Set("X-Test-Case-Name", r.Name)
		if r.Big > 0 {
			req.Header.Set("X-Big", strings.Repeat("v", r.Big))
		}
		resp, err := transport.RoundTrip(req)
		if err != nil {
			out.Err = "roundtrip " + r.Name
			break
		}
		_, _ = io.Copy(io.Discard, resp.Body)
		_ = resp.Body.Close()
	}
	// everything is traced synchronously inside Read/Write; allow the server goroutine a moment
	deadline := time.Now().Add(3 * time.Second)
	for time.Now().Before(deadline) {
		clientSink.mu.Lock()
		nc := len(clientSink.got)
		clientSink.mu.Unlock()
		serverSink.mu.Lock()
		ns := len(serverSink.got)
		serverSink.mu.Unlock()
		if nc >= len(in.Reqs) && ns >= len(in.Reqs) {
			break
		}
		time.Sleep(5 * time.Millisecond)
	}
	clientSink.mu.Lock()
	for _, t := range clientSink.got {
		out.Client = append(out.Client, c15Observe(t))
	}
	clientSink.mu.Unlock()
	serverSink.mu.Lock()
	for _, t := range serverSink.got {
		out.Server = append(out.Server, c15Observe(t))
	}
	serverSink.mu.Unlock()
	transport.CloseIdleConnections()
	_ = server.Close()
	return out
}

// ---------------------------------------------------------------- input / output types

type c15Frame struct {
	D    string      `json:"d"` // "q" request direction (client to server), "p" response direction
	T    string      `json:"t"` // H headers, D data, R rst_stream, G goaway, O other (ignored by the tracer), X raw bytes
	ID   uint32      `json:"id"`
	F    [][2]string `json:"f,omitempty"`
	ES   bool        `json:"es,omitempty"`
	X    string      `json:"x,omitempty"` // hex: DATA payload / raw bytes
	Code uint32      `json:"code,omitempty"`
	Last uint32      `json:"last,omitempty"`
	Cont int         `json:"cont,omitempty"` // header block cut into this many pieces (HEADERS + CONTINUATION...)
	Pad  int         `json:"pad,omitempty"`
	Prio bool        `json:"prio,omitempty"`
	Kind string      `json:"kind,omitempty"` // for O: settings | ack | ping | window | priority | unknown
	S    [][2]uint32 `json:"s,omitempty"`    // for O/settings: the (id, value) pairs of the SETTINGS frame (default: MAX_FRAME_SIZE, INITIAL_WINDOW_SIZE)
	TS   []c15TS     `json:"ts,omitempty"`   // for H: operations on this direction's hpack.Encoder before the block is encoded
	Fill int         `json:"fill,omitempty"` // for O/unknown: Fill filler bytes (c15Filler) behind X — payloads too large to write down
}

// c15TS is one operation on a direction's hpack.Encoder: "l" SetMaxDynamicTableSizeLimit(v)
// (what the peer's SETTINGS_HEADER_TABLE_SIZE allows), "s" SetMaxDynamicTableSize(v).  The
// encoder emits the resulting dynamic-table-size update(s) at the start of the next block.
type c15TS struct {
	Op string `json:"op"`
	V  uint32 `json:"v"`
}

// Calls of c15In, the script of the inner connection:
// ["r", n, kind, tag]: the inner Read returns the next n bytes AND the error of that kind in one call;
// ["w", n, kind, tag, wn]: Write of the next n bytes, the inner Write returns (min(wn, n), error) (wn absent: n, or n/2 with an error);
// ["c", kind, tag] Close; ["t"] retryWait elapses.
// kind: ok | eof (io.EOF) | timeout | deadline (*net.OpError wrapping os.ErrDeadlineExceeded) | fail
type c15In struct {
	Server bool              `json:"server"`
	Legal  bool              `json:"legal"` // every frame is one the real Framer accepts (no X, no mutation)
	Frames []c15Frame        `json:"frames"`
	Calls  [][]any           `json:"calls"`
	Mut    [][]any           `json:"mut,omitempty"` // [dir, offset, xor]
	Raw    map[string]string `json:"raw,omitempty"` // whole byte string of a direction (fuzz)
	Note   string            `json:"note,omitempty"`
	// Reuse > 0: the caller behaves like a bufio.Reader / bufio.Writer: ONE backing array per direction
	// is used for every Read (every Write) of the script; before each call the whole array is
	// overwritten with a canary that differs from call to call (what a real caller's next fill does
	// to the bytes of the previous call), the slice handed to the wrapper starts Reuse-1 bytes into
	// the array and has spare capacity behind its length.  After the call the caller looks at the
	// WHOLE array: the bytes of this call where the inner connection put them, the canary everywhere
	// else (in front of the slice, beyond n, in the capacity region).
	Reuse int `json:"reuse,omitempty"`
	// Compact (op bigframe): the bytes and the decode units are not reported (frames of up to
	// 2^24-1 bytes), only their number per direction
	Compact bool `json:"compact,omitempty"`
}

type c15Unit struct {
	B string    `json:"b"`
	F *c15Frame `json:"f"`
}

type c15Obs struct {
	Name         string  `json:"name"`
	Method       string  `json:"method"`
	Scheme       string  `json:"scheme"`
	Authority    string  `json:"authority"`
	Path         string  `json:"path"`
	Query        string  `json:"query"`
	FQ           bool    `json:"fq"`
	Headers      [][]any `json:"headers"`
	HasResp      bool    `json:"hasResp"`
	Status       int     `json:"status"`
	RespHeaders  [][]any `json:"respHeaders"`
	RespTrailers [][]any `json:"respTrailers"`
	Err          string  `json:"err"`
	Events       [][]any `json:"events"`
}

type c15Out struct {
	Q           string               `json:"q"`
	P           string               `json:"p"`
	Lens        []int                `json:"lens"`
	Units       map[string][]c15Unit `json:"units"`
	Traces      []c15Obs             `json:"traces"`
	Transparent bool                 `json:"transparent"`
	Viol        string               `json:"viol,omitempty"`
	// Slow: three attempts in a row the calls of the script took so long that the retry timer of the
	// code under test (3 s) may have fired outside a "t" call: the observation is not judged
	Slow bool `json:"slow,omitempty"`
	// NUnits (op bigframe): number of decode units per direction instead of Units
	NUnits map[string]int `json:"nunits,omitempty"`
}

type c15RetryIn struct {
	Ops [][]string `json:"ops"`
}

// ---------------------------------------------------------------- building the bytes

const c15Preface = "PRI * HTTP/2.0\r\n\r\nSM\r\n\r\n"

const c15MaxFrame = 16384

type c15Side struct {
	buf  bytes.Buffer
	fr   *http2.Framer
	hbuf bytes.Buffer
	enc  *hpack.Encoder
}

func c15NewSide() *c15Side {
	s := &c15Side{}
	s.fr = http2.NewFramer(&s.buf, nil)
	s.fr.AllowIllegalWrites = true
	s.enc = hpack.NewEncoder(&s.hbuf)
	return s
}

func c15Unhex(s string) []byte {
	b, err := hex.DecodeString(s)
	if err != nil {
		panic("bad hex in input: " + s)
	}
	return b
}

// c15Build encodes the frames with the real Framer / hpack encoder (one dynamic table per direction).
func c15Build(frames []c15Frame) (q, p []byte, lens []int) {
	sides := map[string]*c15Side{"q": c15NewSide(), "p": c15NewSide()}
	lens = make([]int, len(frames))
	for i, f := range frames {
		s := sides[f.D]
		if s == nil {
			panic("bad direction " + f.D)
		}
		before := s.buf.Len()
		switch f.T {
		case "H":
			s.hbuf.Reset()
			for _, ts := range f.TS {
				switch ts.Op {
				case "l":
					s.enc.SetMaxDynamicTableSizeLimit(ts.V)
				case "s":
					s.enc.SetMaxDynamicTableSize(ts.V)
				}
			}
			for _, kv := range f.F {
				s.enc.WriteField(hpack.HeaderField{Name: kv[0], Value: kv[1]})
			}
			block := append([]byte{}, s.hbuf.Bytes()...)
			pieces := f.Cont
			if pieces < 1 {
				pieces = 1
			}
			if need := (len(block) + c15MaxFrame - 1) / c15MaxFrame; pieces < need {
				pieces = need // a block larger than the default SETTINGS_MAX_FRAME_SIZE continues in CONTINUATION frames
			}
			if pieces > len(block) {
				pieces = len(block)
			}
			if pieces < 1 {
				pieces = 1
			}
			cut := func(k int) int { return len(block) * k / pieces }
			param := http2.HeadersFrameParam{StreamID: f.ID, BlockFragment: block[:cut(1)], EndStream: f.ES, EndHeaders: pieces == 1, PadLength: uint8(f.Pad)}
			if f.Prio {
				param.Priority = http2.PriorityParam{StreamDep: 0, Weight: 15}
			}
			s.fr.WriteHeaders(param)
			for k := 1; k < pieces; k++ {
				s.fr.WriteContinuation(f.ID, k == pieces-1, block[cut(k):cut(k+1)])
			}
		case "D":
			data := c15Unhex(f.X)
			if f.Pad > 0 {
				s.fr.WriteDataPadded(f.ID, f.ES, data, make([]byte, f.Pad))
			} else {
				s.fr.WriteData(f.ID, f.ES, data)
			}
		case "R":
			s.fr.WriteRSTStream(f.ID, http2.ErrCode(f.Code))
		case "G":
			s.fr.WriteGoAway(f.Last, http2.ErrCode(f.Code), c15Unhex(f.X))
		case "O":
			switch f.Kind {
			case "settings":
				if len(f.S) > 0 {
					var set []http2.Setting
					for _, kv := range f.S {
						set = append(set, http2.Setting{ID: http2.SettingID(kv[0]), Val: kv[1]})
					}
					s.fr.WriteSettings(set...)
					break
				}
				s.fr.WriteSettings(http2.Setting{ID: http2.SettingMaxFrameSize, Val: 16384}, http2.Setting{ID: http2.SettingInitialWindowSize, Val: 65535})
			case "ack":
				s.fr.WriteSettingsAck()
			case "ping":
				s.fr.WritePing(false, [8]byte{1, 2, 3, 4, 5, 6, 7, 8})
			case "window":
				s.fr.WriteWindowUpdate(f.ID, 1000)
			case "priority":
				s.fr.WritePriority(f.ID|1, http2.PriorityParam{StreamDep: 0, Weight: 3})
			default:
				s.fr.WriteRawFrame(http2.FrameType(0xfa), 0, f.ID, append(c15Unhex(f.X), c15Filler(f.Fill)...))
			}
		case "X":
			s.buf.Write(c15Unhex(f.X))
		default:
			panic("bad frame type " + f.T)
		}
		lens[i] = s.buf.Len() - before
	}
	q = append([]byte(c15Preface), sides["q"].buf.Bytes()...)
	p = append([]byte{}, sides["p"].buf.Bytes()...)
	return q, p, lens
}

// c15Units cuts a direction's bytes into the units the tracer hands to the framer (frames by
// their 24-bit length, header blocks joined up to END_HEADERS) and decodes each with the real
// Framer exactly as configured by the tracer (fresh Framer per unit, shared hpack decoder).
func c15Units(stream []byte, isReq bool) []c15Unit {
	units := []c15Unit{}
	if isReq {
		if len(stream) < len(c15Preface) || string(stream[:len(c15Preface)]) != c15Preface {
			return units
		}
		stream = stream[len(c15Preface):]
	}
	dec := hpack.NewDecoder(math.MaxUint32, nil)
	var acc []byte
	for len(stream) >= 9 {
		l := int(stream[0])<<16 | int(stream[1])<<8 | int(stream[2])
		if len(stream) < 9+l {
			break
		}
		typ, flags := stream[3], stream[4]
		acc = append(acc, stream[:9+l]...)
		stream = stream[9+l:]
		if (typ == 1 || typ == 9) && flags&4 == 0 {
			continue
		}
		u := c15Unit{B: gen.Hex(acc)}
		fr := http2.NewFramer(io.Discard, bytes.NewReader(acc))
		fr.ReadMetaHeaders = dec
		frame, err := fr.ReadFrame()
		acc = nil
		if err != nil {
			units = append(units, u)
			break
		}
		u.F = c15Abstract(frame)
		units = append(units, u)
	}
	return units
}

func c15Abstract(frame http2.Frame) *c15Frame {
	switch f := frame.(type) {
	case *http2.MetaHeadersFrame:
		out := &c15Frame{T: "H", ID: f.StreamID, ES: f.StreamEnded(), F: [][2]string{}}
		for _, hf := range f.Fields {
			out.F = append(out.F, [2]string{hf.Name, hf.Value})
		}
		return out
	case *http2.DataFrame:
		return &c15Frame{T: "D", ID: f.StreamID, ES: f.StreamEnded(), X: gen.Hex(f.Data())}
	case *http2.RSTStreamFrame:
		return &c15Frame{T: "R", ID: f.StreamID, Code: uint32(f.ErrCode)}
	case *http2.GoAwayFrame:
		return &c15Frame{T: "G", Last: f.LastStreamID, Code: uint32(f.ErrCode)}
	default:
		return &c15Frame{T: "O"}
	}
}

// ---------------------------------------------------------------- scripted inner connection

type c15Err struct {
	tag     string
	timeout bool
}

func (e *c15Err) Error() string   { return "injected " + e.tag }
func (e *c15Err) Timeout() bool   { return e.timeout }
func (e *c15Err) Temporary() bool { return e.timeout }

type c15Inner struct {
	// next Read
	rData []byte
	rErr  error
	// next Write
	wN   int
	wErr error
	wGot []byte
	// Close
	cErr   error
	closed int
}

func (c *c15Inner) Read(p []byte) (int, error) {
	n := copy(p, c.rData)
	return n, c.rErr
}
func (c *c15Inner) Write(p []byte) (int, error) {
	c.wGot = append([]byte{}, p...)
	n := c.wN
	if n > len(p) {
		n = len(p)
	}
	return n, c.wErr
}
func (c *c15Inner) Close() error                     { c.closed++; return c.cErr }
func (c *c15Inner) LocalAddr() net.Addr              { return nil }
func (c *c15Inner) RemoteAddr() net.Addr             { return nil }
func (c *c15Inner) SetDeadline(time.Time) error      { return nil }
func (c *c15Inner) SetReadDeadline(time.Time) error  { return nil }
func (c *c15Inner) SetWriteDeadline(time.Time) error { return nil }

type c15Sink struct {
	mu  sync.Mutex
	got []tracer.Trace
}

func (s *c15Sink) Complete(t tracer.Trace) {
	s.mu.Lock()
	s.got = append(s.got, t)
	s.mu.Unlock()
}

func c15MkErr(kind, tag string) error {
	switch kind {
	case "eof":
		return io.EOF
	case "deadline":
		return &net.OpError{Op: "read", Net: "tcp", Err: os.ErrDeadlineExceeded}
	case "timeout":
		return &c15Err{tag: tag, timeout: true}
	case "fail":
		return &c15Err{tag: tag}
	}
	return nil
}

func c15ErrClass(err error) string {
	if err == nil {
		return "nil"
	}
	wrapped := strings.HasPrefix(err.Error(), "socket closed; ")
	if err == io.EOF {
		return "io:EOF"
	}
	if wrapped && errors.Is(err, io.EOF) {
		return "closed:EOF"
	}
	var oe *net.OpError
	if errors.As(err, &oe) && errors.Is(err, os.ErrDeadlineExceeded) {
		if err == error(oe) {
			return "io:deadline"
		}
		if wrapped {
			return "closed:deadline"
		}
	}
	var ie *c15Err
	if errors.As(err, &ie) {
		if err == error(ie) {
			return "io:" + ie.tag
		}
		return "closed:" + ie.tag
	}
	var se http2.StreamError
	if errors.As(err, &se) {
		return fmt.Sprintf("stream:%d:%d", se.StreamID, uint32(se.Code))
	}
	var ce http2.ConnectionError
	if errors.As(err, &ce) {
		return fmt.Sprintf("conn:%d", uint32(ce))
	}
	if errors.Is(err, context.Canceled) {
		return "io:canceled"
	}
	if strings.HasPrefix(err.Error(), "socket closed") {
		return "closed:"
	}
	return "io:?other"
}

func c15Num(v any) int {
	switch x := v.(type) {
	case float64:
		return int(x)
	case int:
		return x
	}
	return 0
}

func c15Str(v any) string {
	s, _ := v.(string)
	return s
}

func c15Headers(h http.Header) [][]any {
	type kv struct {
		k string
		v []string
	}
	m := map[string][]string{}
	for k, v := range h {
		lk := strings.ToLower(k)
		m[lk] = append(m[lk], v...)
	}
	keys := make([]string, 0, len(m))
	for k := range m {
		keys = append(keys, k)
	}
	sort.Strings(keys)
	out := [][]any{}
	for _, k := range keys {
		out = append(out, []any{k, append([]string{}, m[k]...)})
	}
	return out
}

func c15Env(e *tracer.Envelope) (int, int) {
	if e == nil {
		return -1, -1
	}
	return int(e.Flags), int(e.Len)
}

func c15Observe(t tracer.Trace) c15Obs {
	o := c15Obs{Name: t.TestName, Err: c15ErrClass(t.Err), Headers: [][]any{}, RespHeaders: [][]any{}, RespTrailers: [][]any{}, Events: [][]any{}}
	if t.Request != nil {
		o.Method = t.Request.Method
		if t.Request.URL != nil {
			o.Scheme, o.Authority, o.Path, o.Query, o.FQ = t.Request.URL.Scheme, t.Request.URL.Host, t.Request.URL.Path, t.Request.URL.RawQuery, t.Request.URL.ForceQuery
		}
		o.Headers = c15Headers(t.Request.Header)
	}
	if t.Response != nil {
		o.HasResp = true
		o.Status = t.Response.StatusCode
		o.RespHeaders = c15Headers(t.Response.Header)
		o.RespTrailers = c15Headers(t.Response.Trailer)
	}
	for _, ev := range t.Events {
		switch e := ev.(type) {
		case *tracer.RequestStart:
			o.Events = append(o.Events, []any{"reqStart"})
		case *tracer.RequestBodyData:
			f, l := c15Env(e.Envelope)
			o.Events = append(o.Events, []any{"reqData", f, l, int(e.Len), e.MessageIndex})
		case *tracer.RequestBodyEnd:
			o.Events = append(o.Events, []any{"reqEnd", c15ErrClass(e.Err)})
		case *tracer.ResponseStart:
			o.Events = append(o.Events, []any{"respStart", e.Response.StatusCode})
		case *tracer.ResponseBodyData:
			f, l := c15Env(e.Envelope)
			o.Events = append(o.Events, []any{"respData", f, l, int(e.Len), e.MessageIndex})
		case *tracer.ResponseBodyEndStream:
			o.Events = append(o.Events, []any{"respEos", gen.Hex([]byte(e.Content))})
		case *tracer.ResponseBodyEnd:
			o.Events = append(o.Events, []any{"respEnd", c15ErrClass(e.Err)})
		case *tracer.RequestCanceled:
			o.Events = append(o.Events, []any{"canceled"})
		default:
			o.Events = append(o.Events, []any{"canceled", "?"})
		}
	}
	return o
}

// c15Conn is the op: a pure function of its input.
// c15Conn: the script's calls take microseconds; the model knows the retry timer only through the
// script's explicit "t" calls. On a machine so loaded that the calls themselves take a good part of
// the timer's period, the run is repeated; three slow runs in a row are set aside (Slow).
func c15Conn(in *c15In) c15Out {
	var out c15Out
	for attempt := 0; attempt < 3; attempt++ {
		var busy time.Duration
		out, busy = c15ConnOnce(in)
		if busy < tracer.VerifC15RetryWait()/3 {
			return out
		}
	}
	out.Slow = true
	return out
}

func c15ConnOnce(in *c15In) (c15Out, time.Duration) {
	t0 := time.Now()
	var slept time.Duration
	q, p, lens := c15Bytes(in)
	var out c15Out
	if in.Compact {
		out = c15Out{Lens: lens, Transparent: true, NUnits: map[string]int{"q": len(c15Units(q, true)), "p": len(c15Units(p, false))}}
	} else {
		out = c15Out{Q: gen.Hex(q), P: gen.Hex(p), Lens: lens, Transparent: true,
			Units: map[string][]c15Unit{"q": c15Units(q, true), "p": c15Units(p, false)}}
	}
	rbytes, wbytes := p, q
	if in.Server {
		rbytes, wbytes = q, p
	}
	viol := func(format string, args ...any) {
		if out.Transparent {
			out.Transparent = false
			out.Viol = fmt.Sprintf(format, args...)
		}
	}
	sink := &c15Sink{}
	inner := &c15Inner{}
	conn := tracer.TracingHTTP2Conn(inner, in.Server, sink)
	rpos, wpos := 0, 0
	rarr, warr := c15NewArray(in.Calls, "r", in.Reuse), c15NewArray(in.Calls, "w", in.Reuse)
	take := func(b []byte, pos, n int) []byte {
		if pos > len(b) {
			pos = len(b)
		}
		if pos+n > len(b) {
			n = len(b) - pos
		}
		return b[pos : pos+n]
	}
	for ci, call := range in.Calls {
		// tolerate cut-down scripts (the shrinker drops elements)
		if len(call) == 0 || (c15Str(call[0]) == "c" && len(call) < 3) || ((c15Str(call[0]) == "r" || c15Str(call[0]) == "w") && len(call) < 4) {
			continue
		}
		switch c15Str(call[0]) {
		case "r":
			chunk := take(rbytes, rpos, c15Num(call[1]))
			rpos += c15Num(call[1])
			inner.rData = chunk
			inner.rErr = c15MkErr(c15Str(call[2]), c15Str(call[3]))
			slack := (len(chunk)*7 + 3) % 5
			var buf, arr []byte
			canary := byte(0xA5)
			off := 0
			if in.Reuse > 0 {
				canary, off = c15Canary(ci), in.Reuse-1
				arr = rarr.get(off + len(chunk) + slack)
				buf = arr[off : off+len(chunk)+slack]
			} else {
				buf = make([]byte, len(chunk)+slack)
				arr = buf
			}
			for i := range arr {
				arr[i] = canary
			}
			n, err := conn.Read(buf)
			if n != len(chunk) || err != inner.rErr {
				viol("call %d: Read returned (%d, %v), the inner connection (%d, %v)", ci, n, err, len(chunk), inner.rErr)
			} else if !bytes.Equal(buf[:n], chunk) {
				viol("call %d: Read delivered different bytes", ci)
			} else if k := c15NotCanary(arr[:off], canary); k >= 0 {
				viol("call %d: Read touched the caller's array in front of the buffer", ci)
			} else if k := c15NotCanary(arr[off+n:], canary); k >= 0 {
				viol("call %d: Read touched the buffer beyond n (offset n+%d)", ci, k)
			}
		case "w":
			chunk := take(wbytes, wpos, c15Num(call[1]))
			wpos += c15Num(call[1])
			inner.wErr = c15MkErr(c15Str(call[2]), c15Str(call[3]))
			inner.wN = len(chunk)
			if inner.wErr != nil {
				inner.wN = len(chunk) / 2
			}
			if len(call) >= 5 {
				if wn := c15Num(call[4]); wn >= 0 && wn < len(chunk) {
					inner.wN = wn
				} else {
					inner.wN = len(chunk)
				}
			}
			inner.wGot = nil
			var arg, arr []byte
			canary := byte(0xA5)
			off := 0
			if in.Reuse > 0 {
				canary, off = c15Canary(ci), in.Reuse-1
				arr = warr.get(off + len(chunk))
				for i := range arr {
					arr[i] = canary
				}
				arg = arr[off : off+len(chunk)]
				copy(arg, chunk)
			} else {
				arg = append([]byte{}, chunk...)
				arr = arg
			}
			n, err := conn.Write(arg)
			if n != inner.wN || err != inner.wErr {
				viol("call %d: Write returned (%d, %v), the inner connection (%d, %v)", ci, n, err, inner.wN, inner.wErr)
			} else if !bytes.Equal(inner.wGot, chunk) {
				viol("call %d: the inner connection was given different bytes", ci)
			} else if !bytes.Equal(arg, chunk) {
				viol("call %d: Write modified its argument", ci)
			} else if c15NotCanary(arr[:off], canary) >= 0 || c15NotCanary(arr[off+len(chunk):], canary) >= 0 {
				viol("call %d: Write touched the caller's array outside its argument", ci)
			}
		case "c":
			inner.cErr = c15MkErr(c15Str(call[1]), c15Str(call[2]))
			before := inner.closed
			err := conn.Close()
			if err != inner.cErr || inner.closed != before+1 {
				viol("call %d: Close returned %v, the inner connection %v (inner closes %d)", ci, err, inner.cErr, inner.closed-before)
			}
		case "t":
			ts := time.Now()
			time.Sleep(tracer.VerifC15RetryWait() + 400*time.Millisecond)
			slept += time.Since(ts)
		}
	}
	sink.mu.Lock()
	got := append([]tracer.Trace{}, sink.got...)
	sink.mu.Unlock()
	busy := time.Since(t0) - slept
	out.Traces = []c15Obs{}
	for _, t := range got {
		out.Traces = append(out.Traces, c15Observe(t))
	}
	sort.SliceStable(out.Traces, func(i, j int) bool { return out.Traces[i].Name < out.Traces[j].Name })
	// release timers of traces still held back (after the observation)
	gen.Recover(func() { conn.Close() })
	return out, busy
}

// c15Bytes: the byte strings of the two directions of an input (frames built by the real Framer,
// replaced by raw bytes / mutated where the input says so).
func c15Bytes(in *c15In) (q, p []byte, lens []int) {
	q, p, lens = c15Build(in.Frames)
	if in.Raw != nil {
		if s, ok := in.Raw["q"]; ok {
			q = c15Unhex(s)
		}
		if s, ok := in.Raw["p"]; ok {
			p = c15Unhex(s)
		}
	}
	for _, m := range in.Mut {
		if len(m) < 3 {
			continue
		}
		b := q
		if c15Str(m[0]) == "p" {
			b = p
		}
		if len(b) > 0 {
			b[c15Num(m[1])%len(b)] ^= byte(c15Num(m[2]))
		}
	}
	return q, p, lens
}

// c15AllocLimit: inputs on which the tracer would pre-allocate more than this for one message are
// not run (counted in the evidence): the check has to fit a shared machine.
const c15AllocLimit = 64 << 20

// c15Array is the ONE backing array a reusing caller owns for a direction: allocated once, large
// enough for the largest call of the script (as a bufio buffer is sized once).
type c15Array struct{ b []byte }

func (a *c15Array) get(n int) []byte {
	if n > len(a.b) { // cannot happen: sized from the script
		panic("c15: caller array too small")
	}
	return a.b
}

func c15NewArray(calls [][]any, kind string, off int) *c15Array {
	m := 0
	for _, call := range calls {
		if len(call) >= 2 && c15Str(call[0]) == kind && c15Num(call[1]) > m {
			m = c15Num(call[1])
		}
	}
	return &c15Array{b: make([]byte, off+m+32)}
}

// c15Canary: what the caller's array is filled with before call ci (never the same for two
// successive calls).
func c15Canary(ci int) byte { return [...]byte{0xA5, 0x5A, 0xEE, 0x00, 0xFF}[ci%5] }

func c15NotCanary(b []byte, canary byte) int {
	for i, x := range b {
		if x != canary {
			return i
		}
	}
	return -1
}

// ---------------------------------------------------------------- generator

func c15H(d string, f [][2]string, es bool) c15Frame { return c15Frame{D: d, T: "H", F: f, ES: es} }
func c15D(d string, data []byte, es bool) c15Frame {
	return c15Frame{D: d, T: "D", X: gen.Hex(data), ES: es}
}
func c15R(d string, code uint32) c15Frame { return c15Frame{D: d, T: "R", Code: code} }

func c15ReqFields(name, ct, path string, extra ...[2]string) [][2]string {
	f := [][2]string{{":method", "POST"}, {":scheme", "http"}, {":path", path}, {":authority", "h.example:80"}}
	if ct != "" {
		f = append(f, [2]string{"content-type", ct})
	}
	if name != "" {
		f = append(f, [2]string{"x-test-case-name", name})
	}
	return append(f, extra...)
}

func c15RespFields(status, ct string, extra ...[2]string) [][2]string {
	f := [][2]string{}
	if status != "-" {
		f = append(f, [2]string{":status", status})
	}
	if ct != "" {
		f = append(f, [2]string{"content-type", ct})
	}
	return append(f, extra...)
}

func c15Msg(flags byte, payload []byte) []byte {
	l := len(payload)
	return append([]byte{flags, byte(l >> 24), byte(l >> 16), byte(l >> 8), byte(l)}, payload...)
}

// c15Split cuts body into 1..k DATA payloads (possibly empty ones).
func c15Split(r *gen.Rand, body []byte, k int) [][]byte {
	if k <= 1 || len(body) == 0 {
		return [][]byte{body}
	}
	cuts := []int{}
	for i := 0; i < k-1; i++ {
		cuts = append(cuts, r.Intn(len(body)+1))
	}
	sort.Ints(cuts)
	out := [][]byte{}
	prev := 0
	for _, c := range cuts {
		out = append(out, body[prev:c])
		prev = c
	}
	return append(out, body[prev:])
}

var c15CTs = []string{"application/grpc", "application/grpc+proto", "application/connect+proto", "application/proto", "application/json", "Application/GRPC-web"}

// c15RandStream returns the frames of one stream in per-stream order (ids are assigned after
// the merge).  named=false gives a stream without test-name header.
func c15RandStream(r *gen.Rand, name string) []c15Frame {
	ct := gen.Pick(r, c15CTs)
	path := gen.Pick(r, []string{"/svc.S/M", "/a/b?x=1&y=2", "/a?", "/"})
	extra := [][2]string{}
	if r.Chance(1, 3) {
		extra = append(extra, [2]string{"x-a", "1"}, [2]string{"x-b", "v"}, [2]string{"x-a", "2"})
	}
	if r.Chance(1, 6) {
		extra = append(extra, [2]string{"grpc-encoding", gen.Pick(r, []string{"identity", "zz"})})
	}
	if r.Chance(1, 12) {
		extra = append(extra, [2]string{"content-encoding", "zz"})
	}
	var req, resp []c15Frame
	// request
	nreq := r.Intn(4)
	var body []byte
	for i := 0; i < nreq; i++ {
		body = append(body, c15Msg(byte(r.Intn(2)), r.Bytes(r.Intn(12)))...)
	}
	if r.Chance(1, 10) && len(body) > 0 {
		body = body[:r.Intn(len(body))] // cut message
	}
	switch {
	case nreq == 0 && r.Chance(1, 2):
		req = append(req, c15H("q", c15ReqFields(name, ct, path, extra...), true))
	default:
		req = append(req, c15H("q", c15ReqFields(name, ct, path, extra...), false))
		parts := c15Split(r, body, 1+r.Intn(3))
		trailers := r.Chance(1, 8)
		for i, part := range parts {
			req = append(req, c15D("q", part, i == len(parts)-1 && !trailers))
		}
		if trailers {
			req = append(req, c15H("q", [][2]string{{"x-req-trailer", "t"}}, true))
		}
	}
	if r.Chance(1, 10) {
		// client resets instead of finishing
		k := 1 + r.Intn(len(req))
		req = append(req[:k:k], c15R("q", gen.Pick(r, []uint32{8, 7, 2})))
	} else if r.Chance(1, 12) {
		req = req[:1+r.Intn(len(req))] // request left open
	}
	// response
	rct := ct
	if r.Chance(1, 5) {
		rct = gen.Pick(r, c15CTs)
	}
	status := gen.Pick(r, []string{"200", "200", "200", "404", "503", "abc", "", "-"})
	rextra := [][2]string{}
	if r.Chance(1, 3) {
		rextra = append(rextra, [2]string{"x-r", "a"}, [2]string{"x-r", "b"})
	}
	switch r.Intn(10) {
	case 0: // trailers-only
		resp = append(resp, c15H("p", c15RespFields(status, rct, [2]string{"grpc-status", "12"}), true))
	case 1: // refused / reset before any response
		resp = append(resp, c15R("p", gen.Pick(r, []uint32{7, 7, 8, 2, 11})))
	default:
		resp = append(resp, c15H("p", c15RespFields(status, rct, rextra...), false))
		nresp := r.Intn(4)
		var rbody []byte
		for i := 0; i < nresp; i++ {
			rbody = append(rbody, c15Msg(byte(r.Intn(2)), r.Bytes(r.Intn(12)))...)
		}
		if r.Chance(1, 3) {
			// end-stream message (connect streaming: 2, grpc-web: 0x80)
			rbody = append(rbody, c15Msg(gen.Pick(r, []byte{2, 0x80, 3, 0x81}), []byte(gen.Pick(r, []string{"{}", "{\"error\":{}}", "grpc-status: 0\r\n", ""})))...)
		}
		if r.Chance(1, 10) && len(rbody) > 0 {
			rbody = rbody[:r.Intn(len(rbody))]
		}
		parts := c15Split(r, rbody, 1+r.Intn(3))
		trailers := r.Chance(2, 3)
		for i, part := range parts {
			resp = append(resp, c15D("p", part, i == len(parts)-1 && !trailers))
		}
		if trailers {
			resp = append(resp, c15H("p", [][2]string{{"grpc-status", "0"}, {"grpc-message", "ok"}}, true))
		}
		if r.Chance(1, 8) {
			k := 1 + r.Intn(len(resp))
			resp = append(resp[:k:k], c15R("p", gen.Pick(r, []uint32{8, 7, 2})))
		} else if r.Chance(1, 12) {
			resp = resp[:1+r.Intn(len(resp))]
		}
	}
	// decorations
	for i := range req {
		c15Decorate(r, &req[i])
	}
	for i := range resp {
		c15Decorate(r, &resp[i])
	}
	// merge the two directions: request HEADERS first; usually the response follows the request
	out := []c15Frame{req[0]}
	req = req[1:]
	early := r.Chance(1, 3)
	for len(req) > 0 || len(resp) > 0 {
		takeReq := len(resp) == 0 || (len(req) > 0 && (!early || r.Bool()))
		if takeReq {
			out = append(out, req[0])
			req = req[1:]
		} else {
			out = append(out, resp[0])
			resp = resp[1:]
		}
	}
	return out
}

func c15Decorate(r *gen.Rand, f *c15Frame) {
	switch f.T {
	case "H":
		if r.Chance(1, 5) {
			f.Cont = 2 + r.Intn(3)
		}
		if r.Chance(1, 10) {
			f.Pad = 1 + r.Intn(5)
		}
		if r.Chance(1, 10) {
			f.Prio = true
		}
	case "D":
		if r.Chance(1, 10) {
			f.Pad = 1 + r.Intn(5)
		}
	}
}

// c15Merge interleaves per-stream sequences (per-stream order kept) and assigns stream ids in
// the order the streams open.
func c15Merge(r *gen.Rand, streams [][]c15Frame) []c15Frame {
	idx := make([]int, len(streams))
	ids := make([]uint32, len(streams))
	next := uint32(1)
	var out []c15Frame
	remaining := 0
	for _, s := range streams {
		remaining += len(s)
	}
	for remaining > 0 {
		k := r.Intn(len(streams))
		for idx[k] >= len(streams[k]) {
			k = (k + 1) % len(streams)
		}
		if idx[k] == 0 {
			ids[k] = next
			next += 2
		}
		f := streams[k][idx[k]]
		f.ID = ids[k]
		out = append(out, f)
		idx[k]++
		remaining--
	}
	return out
}

// c15Runs groups the global frame order into maximal runs of one direction; the request
// direction's first run also carries the client preface.
type c15Run struct {
	dir string
	n   int
}

func c15Runs(frames []c15Frame, lens []int) []c15Run {
	var runs []c15Run
	seenQ := false
	for i, f := range frames {
		n := lens[i]
		if f.D == "q" && !seenQ {
			n += len(c15Preface)
			seenQ = true
		}
		if len(runs) > 0 && runs[len(runs)-1].dir == f.D {
			runs[len(runs)-1].n += n
		} else {
			runs = append(runs, c15Run{f.D, n})
		}
	}
	return runs
}

func c15Kind(server bool, dir string) string {
	if (dir == "q") == server {
		return "r"
	}
	return "w"
}

// c15Calls turns runs into calls, cutting each run with part(runIndex, n) -> chunk sizes.
func c15Calls(server bool, runs []c15Run, part func(i, n int) []int) [][]any {
	calls := [][]any{}
	for i, run := range runs {
		for _, n := range part(i, run.n) {
			calls = append(calls, []any{c15Kind(server, run.dir), n, "ok", ""})
		}
	}
	return calls
}

func c15Whole(_ int, n int) []int { return []int{n} }

func c15Fixed(k int) func(int, int) []int {
	return func(_ int, n int) []int {
		var out []int
		for n > 0 {
			c := k
			if c > n {
				c = n
			}
			out = append(out, c)
			n -= c
		}
		return out
	}
}

func c15RandPart(r *gen.Rand) func(int, int) []int {
	return func(_ int, n int) []int {
		var out []int
		for n > 0 {
			c := 1 + r.Intn(n)
			if r.Chance(1, 2) && c > 9 {
				c = 1 + r.Intn(9)
			}
			out = append(out, c)
			n -= c
		}
		return out
	}
}

// c15CutsAt cuts run `which` at the given offsets, the other runs whole.
func c15CutsAt(which int, cuts ...int) func(int, int) []int {
	return func(i, n int) []int {
		if i != which {
			return []int{n}
		}
		var out []int
		prev := 0
		for _, c := range cuts {
			if c > prev && c < n {
				out = append(out, c-prev)
				prev = c
			}
		}
		return append(out, n-prev)
	}
}

func c15SetIDs(frames []c15Frame, id uint32) []c15Frame {
	out := append([]c15Frame{}, frames...)
	for i := range out {
		out[i].ID = id
	}
	return out
}

type c15Gen struct {
	c     *gen.Ctx
	r     *gen.Rand
	batch []any
	n     int
}

func (g *c15Gen) emit(in c15In, class string) {
	g.n++
	if c15MaxEndStreamAlloc(&in) > c15AllocLimit {
		g.c.E.Count("skipped:declares-end-stream-message-above-64MiB")
		return
	}
	g.emit1(in, class)
	// ... and the same script with a caller that reuses ONE array per direction for all its
	// Reads / Writes (bufio-style); fuzzed inputs: every other one
	fuzzed := strings.HasPrefix(class, "random-bytes") || strings.HasPrefix(class, "illegal") || strings.HasPrefix(class, "mutated") || strings.HasPrefix(class, "scrambled")
	switch {
	case fuzzed && !g.c.Thorough() && g.n%2 == 0:
		return
	case fuzzed && g.c.Thorough() && g.n%4 != 1: // thorough tier (-race harness): one in four
		return
	case g.c.Thorough() && strings.Contains(class, "err") && g.n%2 == 0: // bytes-with-error families: every other one
		return
	}
	in.Reuse = 1 + g.n%4
	g.c.E.Count("caller:reused-array")
	g.emit1(in, class)
}

func (g *c15Gen) emit1(in c15In, class string) {
	g.c.E.Count("class:" + class)
	if in.Server {
		g.c.E.Count("side:server")
	} else {
		g.c.E.Count("side:client")
	}
	impl := g.c.Do("conn", in)
	if out, ok := impl.(c15Out); ok {
		// which branches of the model this case reaches (evidence only)
		for _, t := range c15Branches(&in, out.Units) {
			g.c.E.Count(t)
		}
	}
}

// variants emits the exchange on both sides under a few partitions of the bytes into calls.
func (g *c15Gen) variants(frames []c15Frame, legal bool, tail [][]any, class string, rich bool) {
	_, _, lens := c15Build(frames)
	runs := c15Runs(frames, lens)
	for _, server := range []bool{false, true} {
		parts := []func(int, int) []int{c15Whole, c15Fixed(1), c15RandPart(g.r)}
		if rich {
			parts = append(parts, c15Fixed(2), c15Fixed(3), c15Fixed(7), c15RandPart(g.r), c15RandPart(g.r))
		}
		for _, part := range parts {
			calls := append(c15Calls(server, runs, part), tail...)
			g.emit(c15In{Server: server, Legal: legal, Frames: frames, Calls: calls, Note: class}, class)
		}
		// the inner connection returns bytes together with an error: the last Read of the exchange
		// (the connection is used no further), and some call in the middle (the script goes on)
		calls := c15Calls(server, runs, gen.Pick(g.r, parts[:3]))
		if k := c15LastOf(calls, "r"); k >= 0 {
			ended := c15WithResult(calls, k, gen.Pick(g.r, []string{"eof", "eof", "fail"}), "EL", -1)
			g.emit(c15In{Server: server, Legal: legal, Frames: frames, Calls: ended[: k+1 : k+1], Note: class + "+err"}, class+"+err")
		}
		calls = c15Calls(server, runs, gen.Pick(g.r, parts[:3]))
		if len(calls) > 0 {
			k := g.r.Intn(len(calls))
			calls = c15WithResult(calls, k, gen.Pick(g.r, c15ErrKinds), "EM", g.r.Intn(c15Num(calls[k][1])+1))
			g.emit(c15In{Server: server, Legal: legal, Frames: frames, Calls: append(calls, tail...), Note: class + "+err"}, class+"+err")
		}
	}
}

// the error kinds of the inner connection; any of them may accompany any number of bytes
var c15ErrKinds = []string{"eof", "timeout", "deadline", "fail"}

// c15WithResult returns a copy of calls in which call k (a Read or a Write) ends with the given
// error kind — together with its bytes; a Write reports wn bytes written (wn < 0: all).
func c15WithResult(calls [][]any, k int, kind, tag string, wn int) [][]any {
	out := append([][]any{}, calls...)
	n := c15Num(calls[k][1])
	if c15Str(calls[k][0]) == "w" {
		if wn < 0 || wn > n {
			wn = n
		}
		out[k] = []any{"w", n, kind, tag, wn}
	} else {
		out[k] = []any{"r", n, kind, tag}
	}
	return out
}

func c15LastOf(calls [][]any, kind string) int {
	for k := len(calls) - 1; k >= 0; k-- {
		if c15Str(calls[k][0]) == kind {
			return k
		}
	}
	return -1
}

// errData: one exchange; every call of a few partitions, on both sides, ends with every error
// kind together with its bytes (Reads) / with every count 0, n/2, n (Writes; also short without
// an error); the connection is then either used no further, or the script goes on and closes.
func (g *c15Gen) errData(frames []c15Frame, note string, parts []func(int, int) []int) {
	_, _, lens := c15Build(frames)
	runs := c15Runs(frames, lens)
	for _, server := range []bool{false, true} {
		for _, part := range parts {
			calls := c15Calls(server, runs, part)
			for k := range calls {
				n := c15Num(calls[k][1])
				wns := []int{-1}
				if c15Str(calls[k][0]) == "w" {
					wns = []int{0, n}
					if n/2 > 0 {
						wns = []int{0, n / 2, n}
					}
				}
				for _, kind := range append([]string{"ok"}, c15ErrKinds...) {
					for _, wn := range wns {
						if kind == "ok" && (wn < 0 || wn == n) {
							continue // the plain call
						}
						mod := c15WithResult(calls, k, kind, "EK", wn)
						g.emit(c15In{Server: server, Legal: true, Frames: frames, Calls: mod[: k+1 : k+1], Note: note}, note)
						g.emit(c15In{Server: server, Legal: true, Frames: frames, Calls: append(mod, c15Close...), Note: note}, note)
					}
				}
			}
		}
	}
}

var c15Close = [][]any{{"c", "ok", ""}}

func c15Basic(name string) []c15Frame {
	return c15SetIDs([]c15Frame{
		c15H("q", c15ReqFields(name, "application/grpc", "/svc.S/M"), false),
		c15D("q", c15Msg(0, []byte("hello")), true),
		c15H("p", c15RespFields("200", "application/grpc"), false),
		c15D("p", c15Msg(0, []byte("world!")), false),
		c15H("p", [][2]string{{"grpc-status", "0"}}, true),
	}, 1)
}

func runC15(c *gen.Ctx) error {
	g := &c15Gen{c: c, r: c.R}
	r := c.R
	thorough := c.Thorough()

	// ---- G5: retry collector, all short operation sequences
	syms := [][]string{{"c", "a", "ok"}, {"c", "a", "refused"}, {"c", "a", "goaway0"}, {"c", "b", "refused"}, {"c", "b", "cancel"},
		{"n", "a"}, {"n", "b"}, {"t", "a"}, {"x"}}
	maxLen := 4
	if thorough {
		maxLen = 5
	}
	var seqs func(prefix [][]string)
	seqs = func(prefix [][]string) {
		if len(prefix) > 0 {
			ops := make([][]string, len(prefix))
			for i, s := range prefix {
				ops[i] = append([]string{}, s...)
				if s[0] == "c" {
					ops[i] = append(ops[i], fmt.Sprint(i+1))
				}
			}
			c.Do("retry", c15RetryIn{Ops: ops})
		}
		if len(prefix) == maxLen {
			return
		}
		for _, s := range syms {
			seqs(append(append([][]string{}, prefix...), s))
		}
	}
	seqs(nil)
	for i := 0; i < 300; i++ {
		n := 5 + r.Intn(12)
		ops := make([][]string, n)
		for k := range ops {
			s := gen.Pick(r, syms)
			ops[k] = append([]string{}, s...)
			if s[0] == "c" {
				ops[k] = append(ops[k], fmt.Sprint(k+1))
			}
		}
		c.Do("retry", c15RetryIn{Ops: ops})
	}

	// ---- G1: one exchange, dense partitions of the first bytes of each direction
	basic := c15Basic("t1")
	_, _, lens := c15Build(basic)
	runs := c15Runs(basic, lens)
	for _, server := range []bool{false, true} {
		for which := 0; which < 2; which++ {
			lim := 40
			if thorough {
				lim = 64
			}
			if lim > runs[which].n-1 {
				lim = runs[which].n - 1
			}
			for c1 := 1; c1 <= lim; c1++ {
				g.emit(c15In{Server: server, Legal: true, Frames: basic, Calls: append(c15Calls(server, runs, c15CutsAt(which, c1)), c15Close...), Note: "cut1"}, "cut1")
				// ... and the call that ends at the cut / the one that starts there returns its bytes together with an error
				cut := c15Calls(server, runs, c15CutsAt(which, c1))
				for _, k := range []int{which, which + 1} {
					kinds := []string{c15ErrKinds[(c1+k)%len(c15ErrKinds)]}
					if thorough {
						kinds = c15ErrKinds
					}
					for _, kind := range kinds {
						g.emit(c15In{Server: server, Legal: true, Frames: basic, Calls: append(c15WithResult(cut, k, kind, "EC", c1/2), c15Close...), Note: "cut1+err"}, "cut1+err")
					}
				}
			}
			lim2 := 14
			if thorough {
				lim2 = 30
			}
			for c1 := 1; c1 <= lim2; c1++ {
				for c2 := c1 + 1; c2 <= lim2+which*20; c2++ {
					g.emit(c15In{Server: server, Legal: true, Frames: basic, Calls: append(c15Calls(server, runs, c15CutsAt(which, c1, c2)), c15Close...), Note: "cut2"}, "cut2")
				}
			}
		}
		for k := 1; k <= 12; k++ {
			g.emit(c15In{Server: server, Legal: true, Frames: basic, Calls: append(c15Calls(server, runs, c15Fixed(k)), c15Close...), Note: "fixed"}, "fixed")
		}
	}

	// ---- G1b: bytes together with an error, at every call of a few partitions
	edParts := []func(int, int) []int{c15Whole, c15Fixed(23), c15RandPart(r)}
	if thorough {
		edParts = append(edParts, c15Fixed(1), c15Fixed(5), c15Fixed(9), c15RandPart(r), c15RandPart(r))
	}
	g.errData(basic, "errdata", edParts)
	two := []c15Frame{
		{D: "q", T: "H", ID: 1, F: c15ReqFields("t1", "application/grpc", "/svc.S/M")},
		{D: "q", T: "H", ID: 3, F: c15ReqFields("t2", "application/connect+proto", "/svc.S/N"), ES: true},
		{D: "p", T: "H", ID: 3, F: c15RespFields("200", "application/connect+proto")},
		{D: "q", T: "D", ID: 1, X: gen.Hex(c15Msg(0, []byte("ab"))), ES: true},
		{D: "p", T: "D", ID: 3, X: gen.Hex(c15Msg(0, []byte("xyz"))), ES: true},
		{D: "p", T: "H", ID: 1, F: c15RespFields("200", "application/grpc", [2]string{"grpc-status", "0"}), ES: true},
	}
	g.errData(two, "errdata2", []func(int, int) []int{c15Whole, c15RandPart(r)})

	// ---- G2: scenario families
	for _, sc := range c15Scenarios() {
		g.c.E.Count("scenario:" + sc.name)
		g.variants(sc.frames, sc.legal, sc.tail, "scenario", false)
	}

	// ---- G2a: header tables other than the default (SETTINGS_HEADER_TABLE_SIZE, size updates, large indexed values)
	for _, sc := range c15HpackScenarios() {
		g.c.E.Count("scenario:" + sc.name)
		_, _, ls := c15Build(sc.frames)
		rs := c15Runs(sc.frames, ls)
		for _, server := range []bool{false, true} {
			for _, part := range []func(int, int) []int{c15Whole, c15BigPart(r)} {
				calls := append(c15Calls(server, rs, part), sc.tail...)
				g.emit(c15In{Server: server, Legal: true, Frames: sc.frames, Calls: calls, Note: "hpack"}, "hpack")
			}
		}
	}

	// ---- G2c: frames longer than the default SETTINGS_MAX_FRAME_SIZE (16384 .. 2^24-1)
	g.bigFrames()

	// ---- G2b: random concurrent exchanges
	nRand := 500
	if thorough {
		nRand = 8000
	}
	for i := 0; i < nRand; i++ {
		g.randomExchange(i)
	}

	// ---- G3/G4: malformed and fuzzed
	nFuzz := 1500
	if thorough {
		nFuzz = 40000
	}
	for i := 0; i < nFuzz; i++ {
		g.fuzz(i)
	}

	// ---- real x/net/http2 peers over loopback (ties the scripted connection to reality)
	nLive := 2
	if thorough {
		nLive = 20
	}
	for i := 0; i < nLive; i++ {
		var reqs []c15LiveReq
		for k := 0; k < 2+r.Intn(3); k++ {
			ct := gen.Pick(r, []string{"application/grpc", "application/connect+proto", "application/proto"})
			var rb, pb []byte
			for m := 0; m < r.Intn(3); m++ {
				rb = append(rb, c15Msg(0, r.Bytes(r.Intn(40)))...)
			}
			for m := 0; m < r.Intn(3); m++ {
				pb = append(pb, c15Msg(byte(r.Intn(2)), r.Bytes(r.Intn(40)))...)
			}
			big := 0
			if k == 1 {
				big = 20000 + r.Intn(20000) // larger than the peer's max frame size: HEADERS + CONTINUATION
			}
			reqs = append(reqs, c15LiveReq{Name: fmt.Sprintf("live%d", k), CT: ct, Path: gen.Pick(r, []string{"/svc.S/M", "/a/b?x=1"}), Big: big,
				ReqBody: gen.Hex(rb), RespBody: gen.Hex(pb), Status: gen.Pick(r, []int{200, 200, 404})})
		}
		c.E.Count("class:live")
		c.Do("live", c15LiveIn{Reqs: reqs})
		if i%4 == 0 {
			// the same requests between peers configured with a larger / smaller header table:
			// real SETTINGS_HEADER_TABLE_SIZE and real dynamic-table-size updates
			for k := range reqs {
				if reqs[k].Big == 0 {
					reqs[k].Big = 3000 + 100*k
				}
			}
			c.E.Count("class:live-tables")
			c.Do("live", c15LiveIn{Reqs: reqs, HTS: gen.Pick(r, []uint32{65536, 8192, 1 << 20, 1000})})
		}
	}

	// ---- the few scenarios that wait for retryWait (run in parallel)
	var waits []any
	refused := c15SetIDs([]c15Frame{
		c15H("q", c15ReqFields("tw", "application/grpc", "/svc.S/M"), true),
		c15R("p", 7),
	}, 1)
	goaway := append(c15SetIDs([]c15Frame{c15H("q", c15ReqFields("tg", "application/grpc", "/svc.S/M"), true)}, 1), c15Frame{D: "p", T: "G", Last: 0, Code: 0})
	nWait := 1
	if thorough {
		nWait = 10
	}
	for i := 0; i < nWait; i++ {
		// the retry timers fire while nothing is held back (only once: it costs a retryWait)
		kinds := [][]c15Frame{refused, goaway}
		if i == 0 {
			kinds = append(kinds, c15Basic("td"))
		}
		for k, fr := range kinds {
			_, _, ls := c15Build(fr)
			server := (i+k)%2 == 1
			calls := append(c15Calls(server, c15Runs(fr, ls), c15RandPart(r)), []any{"t"})
			win := c15In{Server: server, Legal: true, Frames: fr, Calls: calls, Note: "wait"}
			waits = append(waits, win)
			c.E.Count("class:wait")
			wq, wp, _ := c15Build(fr)
			for _, t := range c15Branches(&win, map[string][]c15Unit{"q": c15Units(wq, true), "p": c15Units(wp, false)}) {
				c.E.Count(t)
			}
		}
	}
	c.DoParallel("conn", waits, len(waits))
	return nil
}

type c15Scenario struct {
	name   string
	frames []c15Frame
	legal  bool
	tail   [][]any
}

func c15Scenarios() []c15Scenario {
	var out []c15Scenario
	add := func(name string, legal bool, tail [][]any, frames ...c15Frame) {
		out = append(out, c15Scenario{name, frames, legal, tail})
	}
	reqH := func(name string, es bool) c15Frame {
		f := c15H("q", c15ReqFields(name, "application/grpc", "/svc.S/M"), es)
		f.ID = 1
		return f
	}
	id := func(f c15Frame, id uint32) c15Frame { f.ID = id; return f }
	respH := id(c15H("p", c15RespFields("200", "application/grpc"), false), 1)
	trailers := id(c15H("p", [][2]string{{"grpc-status", "0"}}, true), 1)
	msg := c15Msg(0, []byte("abc"))
	none := [][]any{}
	for _, tail := range [][][]any{c15Close, none, {{"c", "fail", "EC"}}} {
		tn := fmt.Sprint(len(tail))
		if len(tail) == 1 && tail[0][1] == "fail" {
			tn = "closeerr"
		}
		// resets
		for _, code := range []uint32{8, 7, 2} {
			add(fmt.Sprintf("rst-before-headers-%d-%s", code, tn), true, tail, reqH("t1", true), id(c15R("p", code), 1))
			add(fmt.Sprintf("rst-after-headers-%d-%s", code, tn), true, tail, reqH("t1", true), respH, id(c15R("p", code), 1))
			add(fmt.Sprintf("rst-mid-message-%d-%s", code, tn), true, tail, reqH("t1", true), respH, id(c15D("p", msg[:6], false), 1), id(c15R("p", code), 1))
			add(fmt.Sprintf("client-rst-%d-%s", code, tn), true, tail, reqH("t1", false), id(c15D("q", msg, false), 1), id(c15R("q", code), 1))
			add(fmt.Sprintf("client-rst-after-resp-%d-%s", code, tn), true, tail, reqH("t1", false), respH, id(c15R("q", code), 1))
		}
		// retry on the same connection
		add("retry-refused-"+tn, true, tail, reqH("t1", true), id(c15R("p", 7), 1),
			id(reqH("t1", true), 3), id(respH, 3), id(trailers, 3))
		add("retry-refused-after-headers-"+tn, true, tail, reqH("t1", true), respH, id(c15R("p", 7), 1),
			id(reqH("t1", false), 3), id(c15D("q", msg, true), 3), id(respH, 3), id(c15D("p", msg, false), 3), id(trailers, 3))
		add("retry-twice-"+tn, true, tail, reqH("t1", true), id(c15R("p", 7), 1), id(reqH("t1", true), 3), id(c15R("p", 7), 3),
			id(reqH("t1", true), 5), id(respH, 5), id(trailers, 5))
		add("retry-refused-again-"+tn, true, tail, reqH("t1", true), id(c15R("p", 7), 1), id(reqH("t1", true), 3), id(c15R("p", 7), 3))
		add("refused-other-name-"+tn, true, tail, reqH("t1", true), id(c15R("p", 7), 1), id(reqH("t2", true), 3), id(respH, 3), id(trailers, 3))
		// goaway
		for _, code := range []uint32{0, 2} {
			for _, last := range []uint32{0, 1, 3} {
				add(fmt.Sprintf("goaway-%d-last%d-%s", code, last, tn), true, tail, reqH("t1", true), id(reqH("t2", false), 3), id(reqH("", true), 5),
					id(respH, 3), c15Frame{D: "p", T: "G", Last: last, Code: code}, respH, trailers, id(c15D("q", msg, true), 3), id(trailers, 3))
			}
		}
		add("goaway-from-client-"+tn, true, tail, reqH("t1", true), c15Frame{D: "q", T: "G", Last: 0, Code: 0}, respH, trailers)
		// unnamed streams, trailers on them
		add("unnamed-"+tn, true, tail, reqH("", true), respH, id(c15D("p", msg, false), 1), trailers)
		add("unnamed-and-named-"+tn, true, tail, reqH("", false), id(reqH("t2", true), 3), respH, id(respH, 3), trailers, id(trailers, 3), id(c15D("q", msg, true), 1))
		// bodies
		add("trailers-only-"+tn, true, tail, reqH("t1", true), id(c15H("p", c15RespFields("200", "application/grpc", [2]string{"grpc-status", "5"}), true), 1))
		add("no-trailers-"+tn, true, tail, reqH("t1", true), respH, id(c15D("p", msg, true), 1))
		add("empty-data-end-"+tn, true, tail, reqH("t1", false), id(c15D("q", nil, true), 1), respH, id(c15D("p", msg, false), 1), id(c15D("p", nil, true), 1))
		add("unary-"+tn, true, tail, id(c15H("q", c15ReqFields("t1", "application/proto", "/svc.S/M?enc=1"), false), 1), id(c15D("q", []byte("abcdefg"), true), 1),
			id(c15H("p", c15RespFields("404", "application/json", [2]string{"content-encoding", "zz"}), false), 1), id(c15D("p", []byte("{\"code\":5}"), true), 1))
		add("connect-eos-"+tn, true, tail, id(c15H("q", c15ReqFields("t1", "application/connect+proto", "/svc.S/M"), false), 1), id(c15D("q", msg, true), 1),
			id(c15H("p", c15RespFields("200", "application/connect+proto"), false), 1), id(c15D("p", append(append([]byte{}, msg...), c15Msg(2, []byte("{\"metadata\":{}}"))...), true), 1))
		add("connect-unknown-encoding-"+tn, true, tail,
			id(c15H("q", c15ReqFields("t1", "application/connect+proto", "/svc.S/M", [2]string{"connect-content-encoding", "zz"}), false), 1), id(c15D("q", msg, true), 1),
			id(c15H("p", c15RespFields("200", "application/connect+proto", [2]string{"connect-content-encoding", "zz"}), false), 1),
			id(c15D("p", append(append([]byte{}, msg...), c15Msg(2, []byte("{\"metadata\":{}}"))...), true), 1))
		add("early-response-"+tn, true, tail, reqH("t1", false), respH, id(c15D("q", msg, false), 1), trailers, id(c15D("q", msg, true), 1))
		// continuation
		c1 := reqH("t1", true)
		c1.Cont = 3
		c2 := respH
		c2.Cont = 2
		c3 := trailers
		c3.Cont = 2
		add("continuation-"+tn, true, tail, c1, c2, id(c15D("p", msg, false), 1), c3)
		// control frames in between
		add("control-"+tn, true, tail, c15Frame{D: "q", T: "O", Kind: "settings"}, c15Frame{D: "p", T: "O", Kind: "settings"}, c15Frame{D: "q", T: "O", Kind: "ack"},
			reqH("t1", false), c15Frame{D: "p", T: "O", Kind: "window"}, id(c15D("q", msg, true), 1), c15Frame{D: "q", T: "O", Kind: "ping"}, respH,
			c15Frame{D: "p", T: "O", Kind: "unknown", X: "0102"}, id(c15D("p", msg, false), 1), c15Frame{D: "q", T: "O", Kind: "priority", ID: 1}, trailers)
		// legal frames, odd order
		add("data-before-headers-"+tn, true, tail, reqH("t1", true), id(c15D("p", msg, false), 1))
		add("data-before-headers-goaway-"+tn, true, tail, reqH("t1", true), id(c15D("p", msg, false), 1), c15Frame{D: "p", T: "G", Last: 0, Code: 0})
		add("data-before-headers-then-headers-"+tn, true, tail, reqH("t1", true), id(c15D("p", msg, false), 1), respH, id(c15D("p", msg, false), 1), trailers)
		add("data-before-headers-then-headers-3-"+tn, true, tail, reqH("t1", true), id(c15D("p", []byte("abc"), false), 1), respH, id(c15D("p", msg, false), 1), trailers)
		add("response-end-before-headers-"+tn, true, tail, reqH("t1", true), id(c15D("p", msg, true), 1))
		add("same-name-twice-"+tn, true, tail, reqH("t1", false), id(reqH("t1", true), 3), respH, id(respH, 3), trailers, id(trailers, 3))
		// two open streams with the same test name (not well-formed): the collector's branches "a
		// retryable completion replaces the held one" and "a completion is dropped while one is held"
		add("same-name-both-refused-"+tn, true, tail, reqH("t1", true), id(reqH("t1", true), 3), id(c15R("p", 7), 1), id(c15R("p", 7), 3))
		add("same-name-refused-then-done-"+tn, true, tail, reqH("t1", true), id(reqH("t1", true), 3), id(c15R("p", 7), 1), id(respH, 3), id(trailers, 3))
		add("data-after-end-"+tn, true, tail, reqH("t1", true), id(c15D("q", msg, true), 1), respH, trailers, id(c15D("p", msg, true), 1))
		add("response-unknown-stream-"+tn, true, tail, id(respH, 7), reqH("t1", true), id(trailers, 9), respH, trailers)
		add("stream-after-goaway-"+tn, true, tail, reqH("t1", true), c15Frame{D: "p", T: "G", Last: 1, Code: 0}, id(reqH("t2", true), 3), respH, trailers)
		add("reuse-after-client-rst-"+tn, true, tail, reqH("t1", false), id(c15R("q", 8), 1), reqH("t3", false), respH, trailers)
		add("reuse-after-end-"+tn, true, tail, reqH("t1", true), respH, trailers, reqH("t3", true), respH, trailers)
		add("open-"+tn, true, tail, reqH("t1", false), id(c15D("q", msg[:7], false), 1), respH, id(c15D("p", msg[:2], false), 1))
	}
	// connection errors while streams are open
	open := []c15Frame{reqH("t1", false), id(c15D("q", msg[:6], false), 1), id(reqH("t2", true), 3), id(respH, 3), id(c15D("p", msg[:7], false), 3), id(reqH("t3", true), 5)}
	add("read-fail", true, [][]any{{"r", 0, "fail", "E1"}}, open...)
	add("write-fail", true, [][]any{{"w", 0, "fail", "E2"}}, open...)
	add("write-timeout", true, [][]any{{"w", 0, "timeout", "E3"}}, open...)
	add("read-timeout-then-close", true, [][]any{{"r", 0, "timeout", "E4"}, {"c", "ok", ""}}, open...)
	add("read-fail-then-close", true, [][]any{{"r", 0, "fail", "E5"}, {"c", "fail", "E6"}}, open...)
	// ... and while none is open
	idle := []c15Frame{reqH("t1", true), respH, trailers}
	add("write-timeout-idle", true, [][]any{{"w", 0, "timeout", "E7"}}, idle...)
	add("write-fail-idle-then-close", true, [][]any{{"w", 0, "fail", "E8"}, {"c", "ok", ""}}, idle...)
	return out
}

// randomExchange: 1-4 concurrent streams, random interleaving, control frames, GOAWAY, endings.
func (g *c15Gen) randomExchange(i int) {
	r := g.r
	n := 1 + r.Intn(4)
	var streams [][]c15Frame
	for k := 0; k < n; k++ {
		name := fmt.Sprintf("t%d", k+1)
		if r.Chance(1, 6) {
			name = ""
		}
		streams = append(streams, c15RandStream(r, name))
	}
	frames := c15Merge(r, streams)
	// retry of a refused stream: a later stream reuses the name of a stream that was refused
	if r.Chance(1, 4) {
		nextID := uint32(2*n + 1)
		frames = append(frames, c15SetIDs(c15RandStream(r, "t1"), nextID)...)
	}
	if r.Chance(1, 8) {
		pos := r.Intn(len(frames) + 1)
		ga := c15Frame{D: gen.Pick(r, []string{"p", "p", "q"}), T: "G", Last: uint32(r.Intn(2*n + 2)), Code: gen.Pick(r, []uint32{0, 0, 2})}
		frames = append(frames[:pos:pos], append([]c15Frame{ga}, frames[pos:]...)...)
	}
	for k := 0; k < r.Intn(3); k++ {
		pos := r.Intn(len(frames) + 1)
		ctl := c15Frame{D: gen.Pick(r, []string{"p", "q"}), T: "O", Kind: gen.Pick(r, []string{"settings", "ack", "ping", "window", "priority", "unknown"}), X: "00"}
		frames = append(frames[:pos:pos], append([]c15Frame{ctl}, frames[pos:]...)...)
	}
	class := "random"
	big := false
	if r.Chance(1, 5) {
		// header tables other than the default 4096 bytes, large indexed values
		frames = c15RandTables(r, frames)
		class, big = "random-hpack", true
	}
	_, _, lens := c15Build(frames)
	runs := c15Runs(frames, lens)
	server := r.Bool()
	var part func(int, int) []int
	switch r.Intn(4) {
	case 0:
		part = c15Whole
	case 1:
		part = c15Fixed(1 + r.Intn(4))
		if big {
			part = c15Fixed(50 + r.Intn(3000))
		}
	default:
		part = c15RandPart(r)
		if big {
			part = c15BigPart(r)
		}
	}
	calls := c15Calls(server, runs, part)
	// endings
	switch r.Intn(8) {
	case 0:
		// the connection dies somewhere in the middle: an error on its own or together with bytes
		if r.Bool() && len(calls) > 0 {
			k := r.Intn(len(calls))
			calls = c15WithResult(calls, k, gen.Pick(r, []string{"eof", "fail"}), fmt.Sprintf("E%d", i), r.Intn(c15Num(calls[k][1])+1))[: k+1 : k+1]
		} else {
			k := r.Intn(len(calls) + 1)
			calls = append(calls[:k:k], []any{gen.Pick(r, []string{"r", "w"}), 0, gen.Pick(r, []string{"fail", "fail", "eof"}), fmt.Sprintf("E%d", i)})
		}
		if r.Bool() {
			calls = append(calls, []any{"c", "ok", ""})
		}
	case 1:
		// a Read times out (and the connection goes on): on its own or together with bytes
		if k := r.Intn(len(calls) + 1); r.Bool() && k < len(calls) && c15Str(calls[k][0]) == "r" {
			calls = c15WithResult(calls, k, gen.Pick(r, []string{"timeout", "deadline"}), "T", -1)
		} else {
			calls = append(calls[:k:k], append([][]any{{"r", 0, gen.Pick(r, []string{"timeout", "deadline"}), "T"}}, calls[k:]...)...)
		}
		calls = append(calls, []any{"c", "ok", ""})
	case 2:
		// nothing: the connection stays open
	case 3:
		calls = append(calls, []any{"c", "fail", fmt.Sprintf("C%d", i)})
	default:
		calls = append(calls, []any{"c", "ok", ""})
	}
	g.emit(c15In{Server: server, Legal: true, Frames: frames, Calls: calls, Note: class}, class)
}

// ---------------------------------------------------------------- HPACK dynamic table sizes

var c15TableSizes = []uint32{0, 4096, 8192, 65536}

// c15Settings is a SETTINGS frame announcing the sender's SETTINGS_HEADER_TABLE_SIZE value(s):
// the upper bound for the dynamic table of the *other* direction's encoder.
func c15Settings(d string, hts ...uint32) c15Frame {
	f := c15Frame{D: d, T: "O", Kind: "settings"}
	for _, v := range hts {
		f.S = append(f.S, [2]uint32{uint32(http2.SettingHeaderTableSize), v})
	}
	f.S = append(f.S, [2]uint32{uint32(http2.SettingMaxFrameSize), c15MaxFrame})
	return f
}

func c15Other(d string) string {
	if d == "q" {
		return "p"
	}
	return "q"
}

// c15BigPart cuts a run into calls of up to 4 KiB (now and then a few bytes only).
func c15BigPart(r *gen.Rand) func(int, int) []int {
	return func(_ int, n int) []int {
		var out []int
		for n > 0 {
			c := 1 + r.Intn(4096)
			if r.Chance(1, 6) {
				c = 1 + r.Intn(9)
			}
			if c > n {
				c = n
			}
			out = append(out, c)
			n -= c
		}
		return out
	}
}

// c15Big is a header value of the given length (compresses badly enough to stay large).
func c15Big(seed byte, n int) string {
	b := make([]byte, n)
	for i := range b {
		b[i] = "abcdefghijklmnopqrstuvwxyz0123456789"[(int(seed)*7+i*i+i/3)%36]
	}
	return string(b)
}

// c15ApplyTables walks the frames in global order as two protocol-abiding peers would: the
// encoder of a direction keeps its dynamic table within the last SETTINGS_HEADER_TABLE_SIZE the
// other side has sent (4096 before any); want(d, limit) proposes, for a header block of
// direction d, a table size to switch to (< 0: keep).  The table-size operations are recorded
// on the HEADERS frames (the real hpack.Encoder emits the updates at the start of the block).
func c15ApplyTables(frames []c15Frame, want func(d string, limit uint32) int64) []c15Frame {
	out := append([]c15Frame{}, frames...)
	limit := map[string]uint32{"q": 4096, "p": 4096}
	pending := map[string]bool{}
	for i := range out {
		f := &out[i]
		switch {
		case f.T == "O" && f.Kind == "settings":
			for _, kv := range f.S {
				if kv[0] == uint32(http2.SettingHeaderTableSize) {
					limit[c15Other(f.D)] = kv[1]
					pending[c15Other(f.D)] = true
				}
			}
		case f.T == "H":
			var ts []c15TS
			if pending[f.D] {
				ts = append(ts, c15TS{"l", limit[f.D]}) // shrinks the table if it is larger
				pending[f.D] = false
			}
			if w := want(f.D, limit[f.D]); w >= 0 && uint32(w) <= limit[f.D] {
				ts = append(ts, c15TS{"s", uint32(w)})
			}
			f.TS = ts
		}
	}
	return out
}

// c15RandTables decorates a random exchange: SETTINGS with HEADER_TABLE_SIZE in both directions
// (at the start, sometimes again later), encoders that follow / shrink / grow, and large header
// values that are indexed when the table is large enough and reused by later streams.
func c15RandTables(r *gen.Rand, frames []c15Frame) []c15Frame {
	out := []c15Frame{c15Settings("q", gen.Pick(r, c15TableSizes)), c15Settings("p", gen.Pick(r, c15TableSizes)),
		{D: "q", T: "O", Kind: "ack"}, {D: "p", T: "O", Kind: "ack"}}
	bigQ, bigP := c15Big(1, gen.Pick(r, []int{40, 3000, 5000})), c15Big(2, gen.Pick(r, []int{40, 3000, 6000}))
	for _, f := range frames {
		if f.T == "H" && len(f.F) > 0 && f.F[0][0] == ":method" && r.Chance(2, 3) {
			f.F = append(append([][2]string{}, f.F...), [2]string{"x-big", bigQ})
		}
		if f.T == "H" && len(f.F) > 0 && f.F[0][0] == ":status" && r.Chance(2, 3) {
			f.F = append(append([][2]string{}, f.F...), [2]string{"x-rbig", bigP})
		}
		out = append(out, f)
		if r.Chance(1, 12) {
			d := gen.Pick(r, []string{"q", "p"})
			out = append(out, c15Settings(d, gen.Pick(r, c15TableSizes)), c15Frame{D: c15Other(d), T: "O", Kind: "ack"})
		}
	}
	return c15ApplyTables(out, func(_ string, limit uint32) int64 {
		switch r.Intn(6) {
		case 0:
			return int64(limit)
		case 1:
			return int64(r.Intn(int(limit) + 1))
		case 2:
			return int64(gen.Pick(r, []uint32{0, 100, 4096}))
		}
		return -1
	})
}

// hpackScenarios: fixed exchanges around SETTINGS_HEADER_TABLE_SIZE.  Every combination of the
// two peers' announced sizes, the encoders switching to the announced size at their first block
// (three streams sharing two 3000-byte request values and one response value: literal with
// indexing on the first stream, index references or literals later, depending on the table);
// encoders that stay at 4096 or below although more is allowed; shrink / grow sequences,
// including shrink-to-0-then-grow between two blocks (two size updates at the start of a block)
// and a peer lowering its limit in the middle of the connection.
func c15HpackScenarios() []c15Scenario {
	var out []c15Scenario
	bigA, bigB, bigR := c15Big(3, 3000), c15Big(4, 3000), c15Big(5, 3500)
	stream := func(id uint32, name string) []c15Frame {
		return c15SetIDs([]c15Frame{
			c15H("q", c15ReqFields(name, "application/grpc", "/svc.S/M", [2]string{"x-big-a", bigA}, [2]string{"x-big-b", bigB}), false),
			c15D("q", c15Msg(0, []byte("hi")), true),
			c15H("p", c15RespFields("200", "application/grpc", [2]string{"x-big-r", bigR}), false),
			c15D("p", c15Msg(0, []byte("ho")), false),
			c15H("p", [][2]string{{"grpc-status", "0"}}, true),
		}, id)
	}
	three := func() []c15Frame {
		fr := append(stream(1, "t1"), stream(3, "t2")...)
		return append(fr, stream(5, "t3")...)
	}
	start := func(vq, vp uint32) []c15Frame {
		return []c15Frame{c15Settings("q", vq), c15Settings("p", vp), {D: "q", T: "O", Kind: "ack"}, {D: "p", T: "O", Kind: "ack"}}
	}
	for _, vq := range c15TableSizes {
		for _, vp := range c15TableSizes {
			// both encoders go to what the peer allows, at their first block
			first := map[string]bool{}
			fr := c15ApplyTables(append(start(vq, vp), three()...), func(d string, limit uint32) int64 {
				if !first[d] {
					first[d] = true
					return int64(limit)
				}
				return -1
			})
			out = append(out, c15Scenario{fmt.Sprintf("hpack-follow-%d-%d", vq, vp), fr, true, c15Close})
		}
	}
	// the peers allow more, the encoders do not use it / use less
	for _, w := range []int64{-1, 4096, 1000, 0} {
		w := w
		first := map[string]bool{}
		fr := c15ApplyTables(append(start(65536, 8192), three()...), func(d string, _ uint32) int64 {
			if !first[d] {
				first[d] = true
				return w
			}
			return -1
		})
		out = append(out, c15Scenario{fmt.Sprintf("hpack-stay-%d", w), fr, true, c15Close})
	}
	// shrink / grow sequences on the request side (one operation list per request block)
	seqs := [][]int64{{65536, 100, 65536}, {8192, 0, 8192}, {65536, 4096, 4097}, {4097, 8192, 65536}, {0, 4096, 0}, {5000, 3000, 6000}}
	for si, seq := range seqs {
		k := 0
		fr := c15ApplyTables(append(start(4096, 65536), three()...), func(d string, _ uint32) int64 {
			if d == "q" && k < len(seq) {
				k++
				return seq[k-1]
			}
			return -1
		})
		out = append(out, c15Scenario{fmt.Sprintf("hpack-seq-%d", si), fr, true, c15Close})
	}
	// two operations before one block: shrink to 0 then grow (the block opens with two size updates)
	{
		fr := append(start(65536, 65536), three()...)
		fr = c15ApplyTables(fr, func(string, uint32) int64 { return -1 })
		n := 0
		for i := range fr {
			if fr[i].T == "H" && len(fr[i].F) > 0 && fr[i].F[0][0] == ":method" {
				n++
				if n == 2 {
					fr[i].TS = append(fr[i].TS, c15TS{"s", 0}, c15TS{"s", 20000})
				}
			}
		}
		out = append(out, c15Scenario{"hpack-flush-and-grow", fr, true, c15Close})
	}
	// a peer lowers / raises its limit in the middle of the connection; one SETTINGS frame with two values
	for mi, mid := range [][]uint32{{4096}, {0}, {100}, {65536}, {0, 8192}} {
		fr := append(start(8192, 8192), stream(1, "t1")...)
		fr = append(fr, c15Settings("p", mid...), c15Frame{D: "q", T: "O", Kind: "ack"}, c15Settings("q", mid...), c15Frame{D: "p", T: "O", Kind: "ack"})
		fr = append(fr, stream(3, "t2")...)
		fr = append(fr, stream(5, "t3")...)
		first := map[string]int{}
		fr = c15ApplyTables(fr, func(d string, limit uint32) int64 {
			first[d]++
			if first[d] == 1 || first[d] == 4 {
				return int64(limit)
			}
			return -1
		})
		out = append(out, c15Scenario{fmt.Sprintf("hpack-mid-%d", mi), fr, true, c15Close})
	}
	return out
}

// fuzz: structurally malformed sequences, mutated bytes, random bytes.
func (g *c15Gen) fuzz(i int) {
	r := g.r
	server := r.Bool()
	switch r.Intn(6) {
	case 0, 1:
		// legal frames in a scrambled order: drop / duplicate / swap
		var streams [][]c15Frame
		for k := 0; k < 1+r.Intn(2); k++ {
			streams = append(streams, c15RandStream(r, fmt.Sprintf("t%d", k+1)))
		}
		frames := c15Merge(r, streams)
		for k := 0; k < 1+r.Intn(2) && len(frames) > 1; k++ {
			a := r.Intn(len(frames))
			switch r.Intn(4) {
			case 0:
				frames = append(frames[:a:a], frames[a+1:]...)
			case 1:
				frames = append(frames[:a+1:a+1], frames[a:]...)
			case 2:
				b := r.Intn(len(frames))
				frames[a], frames[b] = frames[b], frames[a]
			case 3:
				ga := c15Frame{D: gen.Pick(r, []string{"p", "q"}), T: "G", Last: uint32(r.Intn(4)), Code: gen.Pick(r, []uint32{0, 2})}
				frames = append(frames[:a:a], append([]c15Frame{ga}, frames[a:]...)...)
			}
		}
		_, _, lens := c15Build(frames)
		calls := c15Calls(server, c15Runs(frames, lens), c15RandPart(r))
		if r.Chance(2, 3) {
			calls = append(calls, []any{"c", "ok", ""})
		}
		g.emit(c15In{Server: server, Legal: true, Frames: frames, Calls: calls, Note: "scrambled"}, "scrambled")
	case 2:
		// frames the framer rejects
		frames := c15Basic("t1")
		bad := []c15Frame{
			{D: "q", T: "D", ID: 0, X: "00"},
			{D: "p", T: "H", ID: 0, F: [][2]string{{":status", "200"}}},
			{D: "q", T: "H", ID: 3, F: [][2]string{{"x-a", "b"}, {":method", "GET"}}},
			{D: "q", T: "H", ID: 3, F: [][2]string{{"X-Upper", "b"}}},
			{D: "p", T: "H", ID: 1, F: [][2]string{{":status", "200"}, {":path", "/"}}},
			{D: "p", T: "X", X: "000004030000000001" + "0000"},                      // RST_STREAM with a short payload
			{D: "q", T: "X", X: "000001090400000001" + "82"},                        // CONTINUATION out of the blue
			{D: "q", T: "X", X: "000001010000000003" + "82" + "000000000100000003"}, // HEADERS without END_HEADERS then DATA
			{D: "p", T: "X", X: "000001010400000001" + "ff"},                        // bad hpack
			{D: "p", T: "X", X: "000000090000000001"},                               // CONTINUATION without END_HEADERS, never ended
			{D: "q", T: "X", X: "0000000800000000"},                                 // short header only
		}
		pos := r.Intn(len(frames) + 1)
		frames = append(frames[:pos:pos], append([]c15Frame{gen.Pick(r, bad)}, frames[pos:]...)...)
		_, _, lens := c15Build(frames)
		calls := append(c15Calls(server, c15Runs(frames, lens), c15RandPart(r)), []any{"c", "ok", ""})
		g.emit(c15In{Server: server, Legal: false, Frames: frames, Calls: calls, Note: "illegal"}, "illegal")
	case 3, 4:
		// mutated bytes of a valid exchange
		var streams [][]c15Frame
		for k := 0; k < 1+r.Intn(2); k++ {
			streams = append(streams, c15RandStream(r, fmt.Sprintf("t%d", k+1)))
		}
		frames := c15Merge(r, streams)
		_, _, lens := c15Build(frames)
		var mut [][]any
		for k := 0; k < 1+r.Intn(3); k++ {
			off := r.Intn(400)
			if r.Chance(1, 3) {
				off = r.Intn(40)
			}
			mut = append(mut, []any{gen.Pick(r, []string{"q", "p"}), off, 1 << r.Intn(8)})
		}
		calls := c15Calls(server, c15Runs(frames, lens), c15RandPart(r))
		if r.Chance(2, 3) {
			calls = append(calls, []any{"c", "ok", ""})
		}
		g.emit(c15In{Server: server, Legal: false, Frames: frames, Calls: calls, Mut: mut, Note: "mutated"}, "mutated")
	default:
		// random bytes (sometimes behind a valid preface / with plausible frame headers)
		mk := func(isReq bool) []byte {
			var b []byte
			if isReq && r.Chance(3, 4) {
				b = append(b, c15Preface...)
			}
			for k := 0; k < r.Intn(5); k++ {
				if r.Chance(2, 3) {
					l := r.Intn(20)
					b = append(b, 0, 0, byte(l), byte(r.Intn(11)), byte(r.Intn(256)), 0, 0, 0, byte(r.Intn(6)))
					b = append(b, r.Bytes(l)...)
				} else {
					b = append(b, r.Bytes(r.Intn(30))...)
				}
			}
			return b
		}
		q, p := mk(true), mk(false)
		var calls [][]any
		lq, lp := len(q), len(p)
		for lq > 0 || lp > 0 {
			dir, rem := "q", &lq
			if lq == 0 || (lp > 0 && r.Bool()) {
				dir, rem = "p", &lp
			}
			n := 1 + r.Intn(*rem)
			if n > 16 && r.Bool() {
				n = 1 + r.Intn(16)
			}
			*rem -= n
			calls = append(calls, []any{c15Kind(server, dir), n, "ok", ""})
		}
		if r.Bool() {
			calls = append(calls, []any{"c", "ok", ""})
		}
		g.emit(c15In{Server: server, Legal: false, Frames: []c15Frame{}, Calls: calls, Raw: map[string]string{"q": gen.Hex(q), "p": gen.Hex(p)}, Note: "random-bytes"}, "random-bytes")
	}
}

// ---------------------------------------------------------------- facts

func runC15Facts(c *gen.Ctx) error {
	preface, hl, rw, tt := tracer.VerifC15Consts()
	var b strings.Builder
	b.WriteString("/- Generated from the working tree by `verifharness c15facts` (internal/tracer constants). Do not edit. -/\n")
	b.WriteString("namespace ConfModel.Generated.C15Facts\n\n")
	b.WriteString("def clientPreface : List UInt8 := [")
	for i := 0; i < len(preface); i++ {
		if i > 0 {
			b.WriteString(", ")
		}
		fmt.Fprintf(&b, "%d", preface[i])
	}
	b.WriteString("]\n")
	fmt.Fprintf(&b, "def frameHeaderLen : Nat := %d\n", hl)
	fmt.Fprintf(&b, "def retryWaitMs : Nat := %d\n", rw)
	fmt.Fprintf(&b, "def traceTimeoutMs : Nat := %d\n", tt)
	// the counters of http2FrameTracer at their Go widths (reflection over the compiled types)
	kinds, maxWire := tracer.VerifC15Widths()
	bits := map[string][2]string{
		"uint8": {"8", "false"}, "uint16": {"16", "false"}, "uint32": {"32", "false"}, "uint64": {"64", "false"}, "uint": {"64", "false"}, "uintptr": {"64", "false"},
		"int8": {"8", "true"}, "int16": {"16", "true"}, "int32": {"32", "true"}, "int64": {"64", "true"}, "int": {"64", "true"},
	}
	b.WriteString("\n")
	for _, f := range []string{"ftExpecting", "ftActual", "frameLength"} {
		bs, ok := bits[kinds[f]]
		if !ok {
			bs = [2]string{"0", "false"} // missing field / not an integer: contradicts the theorem
		}
		fmt.Fprintf(&b, "/-- Go kind: %s -/\ndef %sBits : Nat := %s\ndef %sSigned : Bool := %s\n", kinds[f], f, bs[0], f, bs[1])
	}
	fmt.Fprintf(&b, "/-- http2.ReadFrameHeader on length bytes ff ff ff -/\ndef maxWireFrameLen : Nat := %d\n", maxWire)
	b.WriteString("\nend ConfModel.Generated.C15Facts\n")
	// --out is handled by main (stdout of this area is the emitter); write through the emitter's file
	return c15WriteFacts(c, b.String())
}

func c15WriteFacts(c *gen.Ctx, content string) error {
	// main opened --out as the emitter's sink; the facts file is the raw content, so write it
	// directly to the path given on the command line
	for i, a := range os.Args {
		if a == "--out" && i+1 < len(os.Args) {
			return os.WriteFile(os.Args[i+1], []byte(content), 0o644)
		}
	}
	_, err := os.Stdout.WriteString(content)
	return err
}
