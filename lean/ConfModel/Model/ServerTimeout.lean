/-
Model of `extractTimeout` in `internal/app/referenceserver/checks.go` (as repaired by the
`fix:` commit for F08) together with the part of Go's `strconv.ParseInt` (base 10) it and
`enumValue` rely on.  Header values are byte strings (`List UInt8`): Go indexes bytes.

Durations are `Int` nanoseconds; the `int64` multiplication `time.Duration(n) * unit` wraps
(`wrap64`), and the round-trip test `d.Hours()/Minutes()/…/Nanoseconds() != n` is modelled
by truncating integer division (for every `d` that is reachable here the `float64`
computation of `Hours/Minutes/Seconds` yields the same integer: an exact multiple of the unit
has no fractional part, and a wrapped product is bounded by 2^63 < (n+1)·unit).
-/
namespace ConfModel.ServerTimeout

abbrev Bytes := List UInt8

def isDigit (b : UInt8) : Bool := 48 ≤ b.toNat && b.toNat ≤ 57

def maxUint64 : Nat := 18446744073709551615
def maxInt64 : Int := 9223372036854775807

/-- main loop of `strconv.ParseUint(s, 10, bitSize)`: `none` is `ErrSyntax` or `ErrRange`
(both make `err != nil`).  `maxVal = 2^bitSize - 1`, `cutoff = maxUint64/10 + 1`. -/
def parseUintLoop (maxVal cutoff : Nat) : Bytes → Nat → Option Nat
  | [], n => some n
  | c :: cs, n =>
    if !isDigit c then none
    else if n ≥ cutoff then none
    else
      let n1 := n * 10 + (c.toNat - 48)
      if n1 > maxVal then none else parseUintLoop maxVal cutoff cs n1

/-- `strconv.ParseInt(s, 10, bitSize)`; `none` iff `err != nil`. -/
def parseInt (bitSize : Nat) (s : Bytes) : Option Int :=
  match s with
  | [] => none
  | c :: rest =>
    let neg := c.toNat == 45
    let body := if c.toNat == 43 || c.toNat == 45 then rest else s
    if body.isEmpty then none else
    match parseUintLoop (2 ^ bitSize - 1) (maxUint64 / 10 + 1) body 0 with
    | none => none
    | some un =>
      let cutoff := 2 ^ (bitSize - 1)
      if !neg && un ≥ cutoff then none
      else if neg && un > cutoff then none
      else some (if neg then -(un : Int) else (un : Int))

/-- the helper added by the repair: every byte is an ASCII digit -/
def isASCIIDigits (s : Bytes) : Bool := s.all isDigit

/-- `int64` wrap-around -/
def wrap64 (x : Int) : Int := (x + 9223372036854775808) % 18446744073709551616 - 9223372036854775808

/-- Go's truncating `/` on `int64` -/
def quotT (a b : Int) : Int := if a ≥ 0 then a / b else -((-a) / b)

inductive Unit | H | M | S | m | u | n
  deriving DecidableEq, Repr

def Unit.nanos : Unit → Int
  | .H => 3600000000000 | .M => 60000000000 | .S => 1000000000
  | .m => 1000000 | .u => 1000 | .n => 1

/-- `strings.ContainsRune("HMSmun", rune(b))` and the `switch unit` -/
def unitOf (b : UInt8) : Option Unit :=
  match b.toNat with
  | 72 => some .H | 77 => some .M | 83 => some .S
  | 109 => some .m | 117 => some .u | 110 => some .n
  | _ => none

/-- `time.Duration(n) * unit`, then the round-trip test with saturation -/
def scale (n : Int) (unit : Int) : Int :=
  let d := wrap64 (n * unit)
  if quotT d unit != n then maxInt64 else d

inductive TFb
  | dup            -- "… header appears %d times; should appear just once"
  | emptyValue     -- gRPC: `val == ""`
  | invalidUnit
  | invalidNumeric
  | tooManyDigits
  deriving DecidableEq, Repr

structure Result where
  feedback : List TFb := []
  /-- `some d`: accepted (second result `true`), duration in ns -/
  timeout : Option Int := none
  /-- the header was deleted from the request -/
  removed : Bool := false
  deriving DecidableEq, Repr

inductive Proto | connect | grpc | grpcWeb | other
  deriving DecidableEq, Repr

def dupFb (vals : List Bytes) : List TFb := if vals.length > 1 then [.dup] else []

/-- the Connect branch on the values of `Connect-Timeout-Ms` -/
def connectTimeout (vals : List Bytes) : Result :=
  match vals with
  | [] => {}
  | val :: _ =>
    let fb := dupFb vals
    match parseInt 64 val with
    | none => { feedback := fb ++ [.invalidNumeric], removed := true }
    | some n =>
      if n < 0 || !isASCIIDigits val then { feedback := fb ++ [.invalidNumeric], removed := true }
      else if val.length > 10 then { feedback := fb ++ [.tooManyDigits], removed := true }
      else { feedback := fb, timeout := some (scale n 1000000), removed := true }

/-- the gRPC / gRPC-Web branch on the values of `Grpc-Timeout` -/
def grpcTimeout (vals : List Bytes) : Result :=
  match vals with
  | [] => {}
  | val :: _ =>
    let fb := dupFb vals
    match val.getLast? with
    | none => { feedback := fb ++ [.emptyValue], removed := true }
    | some ub =>
      let digits := val.dropLast
      match unitOf ub with
      | none => { feedback := fb ++ [.invalidUnit], removed := true }
      | some unit =>
        match parseInt 64 digits with
        | none => { feedback := fb ++ [.invalidNumeric], removed := true }
        | some n =>
          if n < 0 || !isASCIIDigits digits then { feedback := fb ++ [.invalidNumeric], removed := true }
          else if digits.length > 8 then { feedback := fb ++ [.tooManyDigits], removed := true }
          else { feedback := fb, timeout := some (scale n unit.nanos), removed := true }

/-- `extractTimeout(headers, protocol, feedback)`: `connectVals`/`grpcVals` are
`headers.Values("Connect-Timeout-Ms")` / `headers.Values("Grpc-Timeout")`. -/
def extractTimeout (p : Proto) (connectVals grpcVals : List Bytes) : Result :=
  match p with
  | .connect => connectTimeout connectVals
  | .grpc | .grpcWeb => grpcTimeout grpcVals
  | .other => {}

/-- `timeout.Milliseconds()` as echoed in `RequestInfo.timeout_ms` -/
def timeoutMs (d : Int) : Int := quotT d 1000000

/-- the code before the repair (F08): no digit test, numeric instead of length limits -/
def connectTimeoutOld (vals : List Bytes) : Result :=
  match vals with
  | [] => {}
  | val :: _ =>
    let fb := dupFb vals
    match parseInt 64 val with
    | none => { feedback := fb ++ [.invalidNumeric], removed := true }
    | some n =>
      if n < 0 then { feedback := fb ++ [.invalidNumeric], removed := true }
      else if n > 9999999999 then { feedback := fb ++ [.tooManyDigits], removed := true }
      else { feedback := fb, timeout := some (scale n 1000000), removed := true }

end ConfModel.ServerTimeout
