import ConfModel.Driver.Common
import ConfModel.Model.ReportScript
import ConfModel.Spec.RunVerdict
namespace ConfModel.Driver.C04
open Lean ConfModel.Driver ConfModel.Report ConfModel.RunVerdict

def parseKind : Char → Option Kind
  | 'p' => some .pass | 'a' => some .assertFail | 'c' => some .clientErr | 's' => some .setupErr
  | 'n' => some .noResult | 'r' => some .couldNotRun | 'm' => some .missing | _ => none

def parseMark : Char → Option Mark
  | 'u' => some .unmarked | 'f' => some .failing | 'k' => some .flaky | _ => none

def parseBit : Char → Option Bool
  | '0' => some false | '1' => some true | _ => none

def parseStep (i : Nat) (code : String) : Option Step :=
  match code.toList with
  | [k, m, fb, sf] => do
    let k ← parseKind k
    let m ← parseMark m
    let fb ← parseBit fb
    let sf ← parseBit sf
    pure { c := { name := "s/c" ++ toString i, kind := k, mark := m, feedback := fb }, sbFirst := sf }
  | _ => none

def parseSteps (codes : List String) : Option (List Step) :=
  (codes.zipIdx.map (fun (c, i) => parseStep i c)).mapM id

def handle : Handler := fun op inp impl =>
  match op with
  | "report" =>
    match parseSteps (strList (field inp "cases")) with
    | none => bad "malformed case code"
    | some steps =>
    if !(isNull (field impl "panic")) then
      { agree := false, holds := false, why := "panic: " ++ str (field impl "panic") } else
    let total := nat (field inp "total")
    let cases := steps.map (·.c)
    -- implementation's observation
    let iOk := bool (field impl "ok")
    let iTot : Totals := { passed := nat (field impl "passed"), failed := nat (field impl "failed"),
                           expected := nat (field impl "expected"), notRun := nat (field impl "notRun") }
    let iCases := int (field impl "total")
    let iFailed := sortStrings (strList (field impl "failedNames"))
    let iInfo := sortStrings (strList (field impl "infoNames"))
    let unparsed := strList (field impl "unparsed")
    -- model
    let m := scriptReport total steps
    let mTot : Totals := { passed := m.succeeded, failed := m.failed, expected := m.expectedFailures, notRun := m.couldNotRun }
    -- the API call sequence must amount to the outcome map the theorems (`assignment_report`) speak of
    let m2 := report (marksOf cases) total (finalMap cases) []
    let scriptIsMap := m.ok == m2.ok && m.totalCases == m2.totalCases && m.succeeded == m2.succeeded
      && m.failed == m2.failed && m.expectedFailures == m2.expectedFailures && m.couldNotRun == m2.couldNotRun
      && sortStrings m.failedNames == sortStrings m2.failedNames && sortStrings m.infoNames == sortStrings m2.infoNames
    let agree := scriptIsMap && unparsed.isEmpty && iOk == m.ok && iTot == mTot && iCases == (m.totalCases : Int)
      && iFailed == sortStrings m.failedNames && iInfo == sortStrings m.infoNames
    let model := Json.mkObj [("ok", m.ok), ("total", m.totalCases), ("passed", m.succeeded), ("failed", m.failed),
      ("expected", m.expectedFailures), ("notRun", m.couldNotRun),
      ("failedNames", toJson (sortStrings m.failedNames)), ("infoNames", toJson (sortStrings m.infoNames))]
    let nontrivial := cases.any (fun c => c.kind != .pass || c.mark != .unmarked || c.feedback)
    if total < cases.length then
      -- the number of selected cases was not configured: the property does not speak; clamp only
      { agree := agree, holds := true, nontrivial := false, model := model, cls := "unconfigured-total" }
    else
    let extra := total - cases.length
    -- the property's own rule, on the implementation's output
    let wantOk := specOk cases extra
    let wantTot := specTotals cases extra
    let unnamed := (specFailedNames cases).filter (fun n => !iFailed.contains n)
    let sum := iTot.passed + iTot.failed + iTot.expected + iTot.notRun
    let why :=
      if iOk != wantOk then
        "verdict: report returned " ++ toString iOk ++ " but " ++
          (if wantOk then "every selected case ran and met its expectation"
           else "not every selected case ran and met its expectation (" ++
             toString (cases.filter (fun c => !c.meets) |>.map (·.name)) ++ ", unknown " ++ toString extra ++ ")")
      else if !unnamed.isEmpty then "unnamed: failing cases not named on a FAILED line: " ++ toString unnamed
      else if sum != total then "totals: the printed totals account for " ++ toString sum ++ " of " ++ toString total ++ " selected cases"
      else if iTot != wantTot then "classes: printed totals " ++ reprStr iTot ++ " but the assignment has " ++ reprStr wantTot
      else ""
    { agree := agree, holds := why.isEmpty, nontrivial := nontrivial, model := model, why := why,
      cls := if wantOk then "success" else "failure" }
  | "feedback" =>
    -- every case of the batch passes; the reference server's stderr carries one feedback line for
    -- the target case: the run must fail and name that case (C04: peer feedback turns an
    -- otherwise matching result into a failure)
    if !(isNull (field impl "panic")) || bool (field impl "hang") then
      { agree := false, holds := false, why := "batch with reference-server feedback panicked or hung" } else
    let target := "Suite/case" ++ toString (nat (field inp "target"))
    let failed := strList (field impl "failed")
    let holds := !(bool (field impl "ok")) && failed.contains target
    { agree := holds && failed == [target], holds := holds, nontrivial := true, cls := "feedback",
      why := if holds then "" else "reference-server feedback for " ++ target ++ " (message " ++ str (field inp "msg") ++ ") did not fail the run / was not named; FAILED names: " ++ toString failed }
  | "run" =>
    if !(isNull (field impl "panic")) then
      { agree := false, holds := false, why := "panic: " ++ str (field impl "panic") } else
    let client := str (field inp "client")
    let codes := strList (field inp "cases")
    let mk (i : Nat) (code : String) : Option Case :=
      match code.toList with
      | [x, m] => do
        let m ← parseMark m
        let k ← (match client, x with
          | "reference", 'r' => some Kind.pass
          | "reference", 'w' => some Kind.assertFail
          | "exit0", _ => some Kind.couldNotRun   -- the client was gone: no case ran
          | "exit1", _ => some Kind.couldNotRun
          | _, _ => none)
        pure { name := "c" ++ toString i, kind := k, mark := m, feedback := false }
      | _ => none
    match (codes.zipIdx.map (fun (c, i) => mk i c)).mapM id with
    | none => bad "malformed run input"
    | some cases =>
    let iOk := bool (field impl "ok")
    let iFailed := (strList (field impl "failedNames")).map (fun n => (n.splitOn "/").getLast?.getD n)
    let want := specOk cases 0
    let mOk := runVerdict (report (marksOf cases) cases.length (finalMap cases) []) false
    -- with a client that really ran, every failing case must be named; when the client was gone the
    -- cases are setup errors or could-not-run, whichever the race produced: only the verdict is fixed
    let unnamed := if client == "reference" then (specFailedNames cases).filter (fun n => !iFailed.contains n) else []
    let why :=
      if iOk != want then "verdict: Run returned " ++ toString iOk ++ " with client " ++ client ++ " but " ++
        (if want then "every selected case ran and met its expectation" else "not every selected case ran and met its expectation")
      else if !unnamed.isEmpty then "unnamed: failing cases not named on a FAILED line: " ++ toString unnamed
      else ""
    { agree := iOk == mOk, holds := why.isEmpty, nontrivial := true, model := Json.mkObj [("ok", mOk)], why := why,
      cls := client ++ (if want then ":success" else ":failure") }
  | _ => bad ("C04: unknown op " ++ op)

end ConfModel.Driver.C04
