"""C01 — reference implementations pass every embedded test permutation.

The statement is a finite enumeration of real executions of connect-go, grpc-go, net/http,
quic-go and TLS; no model expresses those stacks, so this check is the *implementation half at
the embedded corpus*: it builds the five commands from the tree, runs the runner exactly as
`make runconformance` does (shipped configs + shipped known-failing lists; quick tier: a reduced
HTTP/compression matrix for the reference pair, the gRPC runs in full) and requires: exit status
0, zero unexpected failures, nothing "could not be run", passed + expected failures = total =
the number of permutations the runner computed, and every known-failing pattern matched (the
runner enforces the last itself).  The expected number of permutations per run is additionally
computed by the Lean model of config + suite expansion (C06/C07 driver) when available.

A failure is re-run up to 3 times in isolation (`--run <name>`); it is reported only if it
fails every time (deadline/cancellation suites depend on timing).
"""
import os, re, json, subprocess, time, concurrent.futures as cf


def parse_log(text):
    g = lambda rx: (lambda m: int(m.group(1)) if m else None)(re.search(rx, text, re.M))
    out = {
        "computed": g(r"^Computed (\d+) test case permutation"),
        "filtered": g(r"^Filtered tests to (\d+) test case permutation"),
        "total": g(r"^Total cases: (\d+)"),
        "passed": g(r"^(\d+) passed, \d+ failed"),
        "failed": g(r"^\d+ passed, (\d+) failed"),
        "could_not_run": g(r"^Another (\d+) could not be run") or 0,
        "expected_failures": g(r"Another (\d+) failed as expected") or 0,
        "known_patterns": g(r"^Loaded (\d+) known failing test case pattern"),
        "known_matched": g(r"known failing test case pattern\(s\) that match (\d+) test case"),
        "failed_names": re.findall(r"^FAILED: (.*?)(?::| was expected to fail but did not)$", text, re.M),
        "info_names": re.findall(r"^INFO: (.*?) failed \(as expected\):$", text, re.M),
    }
    return out


def run(pid, cfg, tier, seed, replay, ck):
    t0 = time.time()
    VERIF, BUILD, REPO, BIN = ck.VERIF, ck.BUILD, ck.REPO, ck.BIN_DIR
    ev = {"property_id": pid, "tier": tier, "seed": seed, "level": "other", "coverage": {}, "assumptions": cfg.get("assumptions", []), "wall_s": 0.0, "violations": 0}
    cov = ev["coverage"]
    violations = []

    def finish():
        ev["wall_s"] = round(time.time() - t0, 2)
        ev["violations"] = len(violations)
        ck.write_evidence(pid, ev)
        for p, suffix in violations:
            print(f"VIOLATION property={pid} replay={p}{(' ' + suffix) if suffix else ''}")
        return 1 if violations else 0

    with ck.Lock("build"):
        ok, log = ck.build_bins(cfg["bins"])
        hok, hlog, _ = ck.build_harness()
        dok, dlog = ck.lake_build(["confdriver"])
    if not ok:
        cov["explanation"] = "repository commands do not build"
        violations.append((ck.write_replay(pid, "unbuildable", "the repository's commands no longer build", seed, tier, [], {"build_log": log[-6000:]}), "no-failing-input-found"))
        return finish()

    T = os.path.join(REPO, "testing")
    wd = os.path.join(BUILD, "c01")
    os.makedirs(wd, exist_ok=True)
    comps = ["COMPRESSION_BR", "COMPRESSION_ZSTD", "COMPRESSION_DEFLATE", "COMPRESSION_SNAPPY", "COMPRESSION_GZIP"]
    third = comps[seed % len(comps)]
    if tier == "quick":
        tmpl = open(os.path.join(VERIF, "configs", "quick-reference.yaml.tmpl")).read()
        refcfg = os.path.join(wd, "quick-reference.yaml")
        open(refcfg, "w").write(tmpl.replace("@SECOND@", third))
        # HTTP/3 (QUIC, TLS only) has its own transport glue in both reference peers: same reduction,
        # another second compression (HTTP/2 is listed because gRPC requires it; --run selects HTTP/3)
        h3cfg = os.path.join(wd, "quick-reference-h3.yaml")
        open(h3cfg, "w").write(tmpl.replace("@SECOND@", comps[(seed + 2) % len(comps)]).replace("  - HTTP_VERSION_1\n  - HTTP_VERSION_2\n", "  - HTTP_VERSION_2\n  - HTTP_VERSION_3\n"))
        assert "HTTP_VERSION_3" in open(h3cfg).read()
    else:
        refcfg = os.path.join(T, "reference-impls-config.yaml")
    b = lambda n: os.path.join(BIN, n)
    runs = [
        ("reference-server", ["--conf", refcfg, "--mode", "server", "--known-failing", "@" + os.path.join(T, "referenceserver-known-failing.txt"), "--", b("referenceserver")]),
        ("reference-client", ["--conf", refcfg, "--mode", "client", "--known-failing", "@" + os.path.join(T, "referenceclient-known-failing.txt"), "--", b("referenceclient")]),
        ("grpc-server", ["--conf", os.path.join(T, "grpc-impls-config.yaml"), "--mode", "server", "--known-failing", "@" + os.path.join(T, "grpcserver-known-failing.txt"), "--", b("grpcserver")]),
        ("grpc-client", ["--conf", os.path.join(T, "grpc-impls-config.yaml"), "--mode", "client", "--known-failing", "@" + os.path.join(T, "grpcclient-known-failing.txt"), "--", b("grpcclient")]),
        ("grpc-web-server", ["--conf", os.path.join(T, "grpc-web-server-impl-config.yaml"), "--mode", "server", "--known-failing", "@" + os.path.join(T, "grpcserver-web-known-failing.txt"), "--", b("grpcserver")]),
    ]
    if tier == "quick":
        runs += [
            ("reference-server-h3", ["--run", "**/HTTPVersion:3/**", "--conf", h3cfg, "--mode", "server", "--known-failing", "@" + os.path.join(T, "referenceserver-known-failing.txt"), "--", b("referenceserver")]),
            ("reference-client-h3", ["--run", "**/HTTPVersion:3/**", "--conf", h3cfg, "--mode", "client", "--known-failing", "@" + os.path.join(T, "referenceclient-known-failing.txt"), "--", b("referenceclient")]),
        ]
    if replay:
        rp = json.load(open(replay))
        names = [l.get("name") for l in rp.get("lines", []) if l.get("name")]
        runs = [(r, a) for r, a in runs if any(l.get("run") == r for l in rp.get("lines", []))]

    def one(run_name, args, extra=None, tag=""):
        cmd = [b("connectconformance"), "-v", "--trace"] + (extra or []) + args
        logp = os.path.join(wd, f"{run_name}{tag}.log")
        t = time.time()
        # a run that hangs (the runner or a peer wedged) must end as a verdict, not as a check that
        # never returns: complete runs get 20 min (thorough: 60), isolated re-runs 6 min (thorough: 15);
        # the whole process group is killed so that no peer is left behind
        limit = (3600 if tier == "thorough" else 1200) if not tag else (900 if tier == "thorough" else 360)
        with open(logp, "w") as f:
            pr = subprocess.Popen(cmd, stdout=f, stderr=subprocess.STDOUT, cwd=wd, start_new_session=True)
            try:
                rc = pr.wait(timeout=limit)
            except subprocess.TimeoutExpired:
                import signal
                try:
                    os.killpg(pr.pid, signal.SIGKILL)
                except ProcessLookupError:
                    pass
                pr.wait()
                rc = -9
        text = open(logp, errors="replace").read()
        r = parse_log(text)
        r.update({"run": run_name, "exit": rc, "wall_s": round(time.time() - t, 1), "log": logp, "cmd": " ".join(cmd)})
        return r, text

    results = []
    with cf.ThreadPoolExecutor(max_workers=len(runs)) as ex:
        futs = [ex.submit(one, n, a) for n, a in runs]
        for f in futs:
            results.append(f.result())

    known_f22 = next((k for k in ck.load_known() if k.get("id") == "F22-C01" and k.get("status") == "known"), None)
    # ---- what the Lean models of config expansion (C06) and suite expansion (C07) predict
    predicted, model_note = {}, ""
    if hok and dok:
        spec = ",".join(f"{a[a.index('--conf') + 1]}:{2 if 'server' in a[a.index('--mode') + 1] else 1}" for _, a in runs)
        f_in, f_out = os.path.join(wd, "count.jsonl"), os.path.join(wd, "count.out.jsonl")
        p = subprocess.run([ck.HARNESS_BIN, "c01", "--out", f_in, "--work", BUILD, "--repo", REPO], env=dict(os.environ, C01_RUNS=spec), capture_output=True, text=True)
        if p.returncode == 0:
            ck.run_driver("c01", f_in, f_out)
            for (li, v), (run_name, a) in zip(ck.read_pairs(f_in, f_out), runs):
                m = v.get("model") or {}
                predicted[run_name] = {"agree": v.get("agree"), "count": m.get("allTF" if "server" in a[a.index("--mode") + 1] else "allFT"), "library": m.get("perms")}
        else:
            model_note = "count harness failed: " + (p.stdout + p.stderr)[-500:]
    else:
        model_note = "harness or driver does not build: " + (hlog if not hok else dlog)[-800:]
    lines, total_cases, nontrivial = [], 0, 0
    rerun_log = []
    for (r, text), (run_name, args) in zip(results, runs):
        problems = []
        if r["total"] is None:
            problems.append("no summary printed: " + text[-400:])
        else:
            total_cases += r["total"]
            if r["computed"] is not None and r["total"] != (r["filtered"] or r["computed"]):
                problems.append(f"total {r['total']} != computed permutations {r['computed']}")
            if r["passed"] + r["failed"] + r["expected_failures"] + 0 != r["total"] - 0 and r["could_not_run"] == 0:
                problems.append("passed + failed + expected failures != total")
            pr = predicted.get(run_name)
            if pr is not None and r["computed"] is not None:
                if pr["count"] != r["computed"]:
                    problems.append(f"the runner computed {r['computed']} permutations, the Lean models of config and suite expansion predict {pr['count']}")
                if not pr["agree"]:
                    problems.append("the real test-case library disagrees with the Lean model on the permutation counts of this run")
            if r["could_not_run"]:
                problems.append(f"{r['could_not_run']} case(s) could not be run")
            if run_name.startswith("reference") and (r["expected_failures"] or r["known_patterns"]):
                problems.append("reference known-failing list is not empty")
            if r["known_matched"] is not None and r["expected_failures"] != r["known_matched"] and not r["failed_names"]:
                problems.append(f"known-failing: {r['known_matched']} listed permutations but {r['expected_failures']} failed as expected")
        # re-run unexpected failures in isolation
        # alone and sequentially: client mode -> the client under test gets "-p 1", server mode ->
        # --parallel 1; one server at a time. All failing names go into one invocation (several
        # --run patterns); a name is persistent only if it fails in each of 3 such re-runs.
        persistent = list(r["failed_names"][:200])
        for k in range(3):
            if not persistent:
                break
            base = list(args)
            while "--run" in base:  # the run's own selection is replaced by the failing names
                i = base.index("--run")
                del base[i:i + 2]
            a2 = (base + ["-p", "1"]) if "client" in run_name else base
            ex2 = ["--max-servers", "1"] + ([] if "client" in run_name else ["--parallel", "1"])
            for name in persistent:
                ex2 += ["--run", name]
            rr, tt = one(run_name, a2, extra=ex2, tag=f".rerun{k}")
            rerun_log.append({"run": run_name, "names": len(persistent), "attempt": k, "exit": rr["exit"], "failed": rr["failed"], "total": rr["total"]})
            if rr["exit"] == -9:
                # the isolated re-run hung: that is a finding in itself, not noise to be retried
                problems.append("an isolated re-run of the failing permutations did not end within its time limit (the runner or a peer hangs)")
                break
            if not rr["total"]:
                continue  # the re-run itself did not complete: everything stays suspect
            still = set(rr["failed_names"])
            persistent = [n for n in persistent if n in still]
        if len(r["failed_names"]) > 200:
            persistent += r["failed_names"][200:]
        # known finding F22 (schedule-dependent race of the grpc-go server behind grpc-web over HTTP/1.1)
        f22 = []
        for n in list(persistent):
            i = text.find("FAILED: " + n)
            if known_f22 and "HTTPVersion:1/Protocol:PROTOCOL_GRPC_WEB/" in n and "(grpc server impl)" in n and "http: invalid Read on closed Body" in text[i:i + 600]:
                f22.append(n); persistent.remove(n)
        if f22:
            print(f"KNOWN-FINDING: property={pid} F22-C01: {known_f22.get('what','')} ({len(f22)} permutation(s) this run)")
        if r["exit"] != 0 and not r["failed_names"] and not problems:
            problems.append(f"runner exit status {r['exit']}: " + text[-600:])
        if persistent:
            problems.append(f"{len(persistent)} unexpected failure(s) persisting over 3 isolated re-runs")
        # Re-running in isolation is meant to set aside the rare schedule-dependent failure of the real
        # stacks; it must not hide failures that depend on what ran BEFORE in the same peer process
        # (state carried from one call to the next: caches, pools, reused connections) - those vanish
        # in a small isolated re-run as well, but they come in numbers.  More than a handful of
        # failures that vanish (F22 signatures aside) is reported.
        vanished = [n for n in r["failed_names"] if n not in persistent and n not in f22
                    and not ("HTTPVersion:1/Protocol:PROTOCOL_GRPC_WEB/" in n and "(grpc server impl)" in n)]
        if len(vanished) > max(5, (r["total"] or 0) // 100):
            problems.append(f"{len(vanished)} unexpected failure(s) of the complete run vanish when the failing permutations are re-run "
                            f"in isolation (first: {vanished[:3]}): the failures depend on what the same peer process ran before")
        rec = {k: r[k] for k in ("run", "exit", "computed", "total", "passed", "failed", "expected_failures", "could_not_run", "known_patterns", "known_matched", "wall_s")}
        rec["transient_failures"] = [n for n in r["failed_names"] if n not in persistent and n not in f22]
        rec["known_finding_F22"] = f22
        rec["persistent_failures"] = persistent
        rec["predicted_by_lean_model"] = predicted.get(run_name)
        rec["problems"] = problems
        lines.append(rec)
        if r["total"]:
            nontrivial += 1
        if problems:
            excerpt = ""
            for n in persistent[:3]:
                i = text.find("FAILED: " + n)
                excerpt += text[i:i + 1500] + "\n...\n"
            p = ck.write_replay(pid, "failing-run", f"{run_name}: " + "; ".join(problems), seed, tier,
                                [{"run": run_name, "name": n} for n in persistent] or [{"run": run_name}],
                                {"cmd": r["cmd"], "summary": rec, "excerpt": excerpt, "reruns": rerun_log})
            violations.append((p, ""))
    cov.update({
        "explanation": "exhaustive enumeration of the implementation half: the runner built from the tree executes every permutation of the embedded corpus for the "
                       + ("five shipped runs unreduced" if tier == "thorough" else f"reference pair on the reduced matrices HTTP/1.1+2 x identity+{third} and HTTP/3 x identity+{comps[(seed + 2) % len(comps)]}, and the three gRPC-peer runs in full")
                       + "; requires exit 0, zero unexpected failures, nothing could-not-run, totals = computed permutations, known-failing lists exact; failures re-run 3x in isolation",
        "evaluations": total_cases, "distinct_nontrivial": total_cases if nontrivial >= 1 else 0,
        "rule": "one evaluation = one permutation (config case x embedded test case) executed by the real runner against real peers; each is distinct by name; non-trivial = it produced an outcome",
        "samples": lines, "exhaustive": tier == "thorough", "reruns": rerun_log, "lean_model_note": model_note,
    })
    if model_note and not violations:
        violations.append((ck.write_replay(pid, "model-unavailable", "the Lean-model prediction of the permutation counts could not be computed: " + model_note, seed, tier, []), "no-failing-input-found"))
    return finish()
