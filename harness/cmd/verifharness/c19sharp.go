package main

// C19, second sentence: the receive limit is sharp. The real reference server (in reference
// mode — with the rawResponseRecorder interceptor and the request checks — and in plain mode)
// and the real reference client (reference mode with the wire-capture transport, and plain)
// run in-process, talking over loopback; requests are sized with the real expandRequestData.
// The message under the limit test may sit at any position of the request stream (server
// side) or of the response stream (client side; there the peer is a small connect-go
// fixture server of this file, because the reference server echoes the whole response
// definition in its first response, which is therefore always the largest one).

import (
	"context"
	"encoding/json"
	"errors"
	"fmt"
	"io"
	"net"
	"net/http"
	"strings"
	"sync"
	"sync/atomic"
	"time"

	"connectrpc.com/conformance/internal"
	cc "connectrpc.com/conformance/internal/app/connectconformance"
	"connectrpc.com/conformance/internal/app/referenceclient"
	"connectrpc.com/conformance/internal/app/referenceserver"
	"connectrpc.com/conformance/internal/compression"
	conformancev1 "connectrpc.com/conformance/internal/gen/proto/go/connectrpc/conformance/v1"
	"connectrpc.com/conformance/internal/gen/proto/go/connectrpc/conformance/v1/conformancev1connect"
	"connectrpc.com/conformance/internal/verifharness/gen"
	"connectrpc.com/connect"
	"golang.org/x/net/http2"
	"golang.org/x/net/http2/h2c"
	"google.golang.org/protobuf/proto"
	"google.golang.org/protobuf/types/known/anypb"
)

func init() {
	gen.RegisterOp("c19", "sharp", func(c *gen.Ctx, raw json.RawMessage) any {
		in := gen.Into[c19SharpIn](raw)
		out := c19Sharp(in)
		c.E.Count("sharp:" + in.Side + ":" + c19Mode(in.Mode) + ":" + in.Stream + ":" + out.Outcome)
		return out
	})
}

type c19SharpIn struct {
	Side        string `json:"side"`           // server | client: whose receive limit is tested
	Mode        string `json:"mode,omitempty"` // ref (default) | plain: the peer under test runs in reference mode or not
	Peer        string `json:"peer,omitempty"` // client side: refserver (default; unary only) | fixture
	Protocol    int32  `json:"protocol"`       // 1 connect, 2 grpc, 3 grpc-web
	Compression int32  `json:"compression"`    // 1 identity, 2 gzip, 3 br, 4 zstd, 5 deflate, 6 snappy
	HTTP        int32  `json:"http,omitempty"` // 1 | 2 (default 2, cleartext)
	Stream      string `json:"stream"`         // unary | idempotent | serverstream | clientstream | halfbidi | fullbidi
	N           int    `json:"n,omitempty"`    // messages in the tested direction (default 1)
	Pos         int    `json:"pos,omitempty"`  // index of the message under the limit test
	Limit       int64  `json:"limit,omitempty"`
	Delta       int64  `json:"delta"` // message size - limit
	// server side: "" = the server was started with message_receive_limit = serverReceiveLimit;
	// "runner" = with the ServerCompatRequest that the real runTestCasesForServer writes for a
	// server instance of THIS protocol (HTTP/2, cleartext), captured from a scripted process
	Cfg string `json:"cfg,omitempty"`
}

type c19SharpOut struct {
	Limit   int64  `json:"limit"`
	Size    int64  `json:"size"`    // uncompressed size of the message the limit applies to
	Outcome string `json:"outcome"` // ok | resource_exhausted | code:N | internal
	// what the receiving side handed on when it accepted: number of messages of the tested
	// direction that arrived, and the size of the one at Pos (0 if it is not there)
	Got    int    `json:"got"`
	Echo   int64  `json:"echo"`
	Detail string `json:"detail,omitempty"`
}

func c19Mode(m string) string {
	if m == "" {
		return "ref"
	}
	return m
}

type c19NopCloser struct{ io.Writer }

func (c19NopCloser) Close() error { return nil }

// ---- peers ---------------------------------------------------------------------------

type c19Server struct {
	once sync.Once
	err  error
	host string
	port uint32
}

type c19Client struct {
	err      error
	toClient io.WriteCloser
	fromCl   io.ReadCloser
}

type c19ClientPool struct {
	once sync.Once
	free chan *c19Client
}

const c19PoolSize = 4

var (
	c19Servers = map[string]*c19Server{"ref": {}, "plain": {}, "fixture": {},
		"ref@1": {}, "ref@2": {}, "ref@3": {}, "plain@1": {}, "plain@2": {}, "plain@3": {}}
	c19Clients = map[string]*c19ClientPool{"ref": {}, "plain": {}}
	c19Seq     atomic.Int64
)

func (s *c19Server) start(kind string) {
	if kind == "fixture" {
		s.host, s.port, s.err = c19StartFixture()
		return
	}
	ctx := context.Background()
	compat := &conformancev1.ServerCompatRequest{
		Protocol:            conformancev1.Protocol_PROTOCOL_CONNECT,
		HttpVersion:         conformancev1.HTTPVersion_HTTP_VERSION_2, // cleartext: serves HTTP/1.1 and h2c
		MessageReceiveLimit: uint32(cc.VerifC19ServerReceiveLimit()),  // as runTestCasesForServer does
	}
	if base, p, ok := strings.Cut(kind, "@"); ok {
		// configured by the runner itself: whatever the real runTestCasesForServer writes for a
		// server instance of this protocol
		obs := cc.VerifC19ServerRequest(cc.VerifC19SrvSpec{Protocol: int32(p[0] - '0'), HTTPVersion: 2, IsRef: base == "ref"})
		if obs.Req == nil {
			s.err = fmt.Errorf("the runner wrote no server request: %s", obs.Err)
			return
		}
		compat, kind = obs.Req, base
	}
	sin, sinW := io.Pipe()
	soutR, sout := io.Pipe()
	go func() {
		var err error
		args := []string{"referenceserver", "-port", "0", "-bind", "127.0.0.1"}
		if kind == "ref" {
			err = referenceserver.RunInReferenceMode(ctx, args, sin, sout, c19NopCloser{io.Discard}, nil)
		} else {
			err = referenceserver.Run(ctx, args, sin, sout, c19NopCloser{io.Discard})
		}
		sout.CloseWithError(fmt.Errorf("reference server ended: %v", err))
	}()
	go func() {
		_ = internal.WriteDelimitedMessage(sinW, compat)
		sinW.Close()
	}()
	var resp conformancev1.ServerCompatResponse
	if err := internal.ReadDelimitedMessage(soutR, &resp, "reference server", 20*time.Second, 1<<20); err != nil {
		s.err = err
		return
	}
	s.host, s.port = resp.Host, resp.Port
}

func c19ServerAddr(kind string) (string, uint32, error) {
	s := c19Servers[kind]
	if s == nil {
		return "", 0, fmt.Errorf("server kind %q?", kind)
	}
	s.once.Do(func() { s.start(kind) })
	return s.host, s.port, s.err
}

func c19NewClient(kind string) *c19Client {
	cin, cinW := io.Pipe()
	coutR, cout := io.Pipe()
	go func() {
		var err error
		if kind == "ref" {
			err = referenceclient.RunInReferenceMode(context.Background(), []string{"referenceclient"}, cin, cout, c19NopCloser{io.Discard}, nil)
		} else {
			err = referenceclient.Run(context.Background(), []string{"referenceclient"}, cin, cout, c19NopCloser{io.Discard})
		}
		cout.CloseWithError(fmt.Errorf("reference client ended: %v", err))
	}()
	return &c19Client{toClient: cinW, fromCl: coutR}
}

func (p *c19ClientPool) start(kind string) {
	p.free = make(chan *c19Client, c19PoolSize)
	for i := 0; i < c19PoolSize; i++ {
		p.free <- c19NewClient(kind)
	}
}

// c19Call sends one request through a reference client of the given kind to the server of
// the given kind and returns its result.
func c19Call(clientKind, serverKind string, req *conformancev1.ClientCompatRequest) (*conformancev1.ClientResponseResult, error) {
	host, port, err := c19ServerAddr(serverKind)
	if err != nil {
		return nil, err
	}
	pool := c19Clients[clientKind]
	if pool == nil {
		return nil, fmt.Errorf("client kind %q?", clientKind)
	}
	pool.once.Do(func() { pool.start(clientKind) })
	cl := <-pool.free
	defer func() {
		if cl.err != nil {
			// a client that did not answer is abandoned (its input is closed, which ends it once
			// the stuck call returns), so that one failure does not spoil the calls after it
			_ = cl.toClient.Close()
			cl = c19NewClient(clientKind)
		}
		pool.free <- cl
	}()
	req.TestName = fmt.Sprintf("verif/c19/%08d", c19Seq.Add(1)) // fixed width: the name is echoed in the response
	req.Host, req.Port = host, port
	req.RequestHeaders = []*conformancev1.Header{{Name: "x-test-case-name", Value: []string{req.TestName}}} // as the runner does
	if req.HttpVersion == 0 {
		req.HttpVersion = conformancev1.HTTPVersion_HTTP_VERSION_2
	}
	req.Codec = conformancev1.Codec_CODEC_PROTO
	errc := make(chan error, 1)
	go func() { errc <- internal.WriteDelimitedMessage(cl.toClient, req) }()
	var resp conformancev1.ClientCompatResponse
	if err := internal.ReadDelimitedMessage(cl.fromCl, &resp, "reference client", 30*time.Second, 64<<20); err != nil {
		cl.err = err
		return nil, err
	}
	if err := <-errc; err != nil {
		cl.err = err
		return nil, err
	}
	if resp.TestName != req.TestName {
		return nil, fmt.Errorf("response for %q, want %q", resp.TestName, req.TestName)
	}
	if e := resp.GetError(); e != nil {
		return nil, fmt.Errorf("client error: %s", e.Message)
	}
	return resp.GetResponse(), nil
}

func c19Outcome(res *conformancev1.ClientResponseResult) string {
	if res.GetError() == nil {
		return "ok"
	}
	if res.GetError().GetCode() == conformancev1.Code_CODE_RESOURCE_EXHAUSTED {
		return "resource_exhausted"
	}
	return fmt.Sprintf("code:%d", int32(res.GetError().GetCode()))
}

// ---- fixture server (client side: responses of chosen sizes at chosen positions) -----------

// c19Fixture answers with exactly the response_data of the first request's definition, one
// response message per item (Payload.Data only: no request echo, so the sizes are those the
// harness chose). Full-duplex bidi: one response per request while there are requests, the
// rest after the client's half-close.
type c19Fixture struct {
	conformancev1connect.UnimplementedConformanceServiceHandler
}

func c19Payload(d []byte) *conformancev1.ConformancePayload {
	return &conformancev1.ConformancePayload{Data: d}
}

func (c19Fixture) Unary(_ context.Context, req *connect.Request[conformancev1.UnaryRequest]) (*connect.Response[conformancev1.UnaryResponse], error) {
	return connect.NewResponse(&conformancev1.UnaryResponse{Payload: c19Payload(req.Msg.GetResponseDefinition().GetResponseData())}), nil
}

func (c19Fixture) IdempotentUnary(_ context.Context, req *connect.Request[conformancev1.IdempotentUnaryRequest]) (*connect.Response[conformancev1.IdempotentUnaryResponse], error) {
	return connect.NewResponse(&conformancev1.IdempotentUnaryResponse{Payload: c19Payload(req.Msg.GetResponseDefinition().GetResponseData())}), nil
}

func (c19Fixture) ClientStream(_ context.Context, stream *connect.ClientStream[conformancev1.ClientStreamRequest]) (*connect.Response[conformancev1.ClientStreamResponse], error) {
	var def *conformancev1.UnaryResponseDefinition
	first := true
	for stream.Receive() {
		if first {
			def, first = stream.Msg().GetResponseDefinition(), false
		}
	}
	if err := stream.Err(); err != nil {
		return nil, err
	}
	return connect.NewResponse(&conformancev1.ClientStreamResponse{Payload: c19Payload(def.GetResponseData())}), nil
}

func (c19Fixture) ServerStream(_ context.Context, req *connect.Request[conformancev1.ServerStreamRequest], stream *connect.ServerStream[conformancev1.ServerStreamResponse]) error {
	for _, d := range req.Msg.GetResponseDefinition().GetResponseData() {
		if err := stream.Send(&conformancev1.ServerStreamResponse{Payload: c19Payload(d)}); err != nil {
			return err
		}
	}
	return nil
}

func (c19Fixture) BidiStream(_ context.Context, stream *connect.BidiStream[conformancev1.BidiStreamRequest, conformancev1.BidiStreamResponse]) error {
	var data [][]byte
	full, first, sent := false, true, 0
	for {
		req, err := stream.Receive()
		if errors.Is(err, io.EOF) {
			break
		}
		if err != nil {
			return err
		}
		if first {
			data, full, first = req.GetResponseDefinition().GetResponseData(), req.GetFullDuplex(), false
		}
		if full && sent < len(data) {
			if err := stream.Send(&conformancev1.BidiStreamResponse{Payload: c19Payload(data[sent])}); err != nil {
				return err
			}
			sent++
		}
	}
	for ; sent < len(data); sent++ {
		if err := stream.Send(&conformancev1.BidiStreamResponse{Payload: c19Payload(data[sent])}); err != nil {
			return err
		}
	}
	return nil
}

func c19StartFixture() (string, uint32, error) {
	mux := http.NewServeMux()
	mux.Handle(conformancev1connect.NewConformanceServiceHandler(c19Fixture{},
		connect.WithCompression(compression.Brotli, compression.NewBrotliDecompressor, compression.NewBrotliCompressor),
		connect.WithCompression(compression.Deflate, compression.NewDeflateDecompressor, compression.NewDeflateCompressor),
		connect.WithCompression(compression.Snappy, compression.NewSnappyDecompressor, compression.NewSnappyCompressor),
		connect.WithCompression(compression.Zstd, compression.NewZstdDecompressor, compression.NewZstdCompressor),
	))
	handler := http.Handler(http.HandlerFunc(func(w http.ResponseWriter, r *http.Request) {
		if strings.HasSuffix(r.URL.Path, conformancev1connect.ConformanceServiceBidiStreamProcedure) && r.ProtoMajor == 1 {
			r.ProtoMajor, r.ProtoMinor = 2, 0 // half-duplex bidi over HTTP/1.1, as the reference server allows
		}
		mux.ServeHTTP(w, r)
	}))
	lis, err := net.Listen("tcp", "127.0.0.1:0")
	if err != nil {
		return "", 0, err
	}
	srv := &http.Server{Handler: h2c.NewHandler(handler, &http2.Server{}), ReadHeaderTimeout: 5 * time.Second}
	go func() { _ = srv.Serve(lis) }()
	addr, ok := lis.Addr().(*net.TCPAddr)
	if !ok {
		return "", 0, fmt.Errorf("listener address %v", lis.Addr())
	}
	return "127.0.0.1", uint32(addr.Port), nil
}

// ---- the operation ------------------------------------------------------------------------------

var c19StreamTypes = map[string]struct {
	method string
	typ    conformancev1.StreamType
}{
	"unary":        {"Unary", conformancev1.StreamType_STREAM_TYPE_UNARY},
	"idempotent":   {"IdempotentUnary", conformancev1.StreamType_STREAM_TYPE_UNARY},
	"serverstream": {"ServerStream", conformancev1.StreamType_STREAM_TYPE_SERVER_STREAM},
	"clientstream": {"ClientStream", conformancev1.StreamType_STREAM_TYPE_CLIENT_STREAM},
	"halfbidi":     {"BidiStream", conformancev1.StreamType_STREAM_TYPE_HALF_DUPLEX_BIDI_STREAM},
	"fullbidi":     {"BidiStream", conformancev1.StreamType_STREAM_TYPE_FULL_DUPLEX_BIDI_STREAM},
}

// c19Requests builds nReq request messages of the stream kind; the first carries a response
// definition asking for the given response data.
func c19Requests(stream string, nReq int, respData [][]byte) ([]*anypb.Any, error) {
	var msgs []*anypb.Any
	if len(respData) == 0 {
		respData = [][]byte{[]byte("test response")}
	}
	udef := &conformancev1.UnaryResponseDefinition{Response: &conformancev1.UnaryResponseDefinition_ResponseData{ResponseData: respData[0]}}
	sdef := &conformancev1.StreamResponseDefinition{ResponseData: respData}
	for i := 0; i < nReq; i++ {
		var m proto.Message
		data := []byte(fmt.Sprintf("request %d", i))
		switch stream {
		case "unary":
			m = &conformancev1.UnaryRequest{ResponseDefinition: udef, RequestData: data}
		case "idempotent":
			m = &conformancev1.IdempotentUnaryRequest{ResponseDefinition: udef, RequestData: data}
		case "serverstream":
			m = &conformancev1.ServerStreamRequest{ResponseDefinition: sdef, RequestData: data}
		case "clientstream":
			r := &conformancev1.ClientStreamRequest{RequestData: data}
			if i == 0 {
				r.ResponseDefinition = udef
			}
			m = r
		case "halfbidi", "fullbidi":
			r := &conformancev1.BidiStreamRequest{RequestData: data}
			if i == 0 {
				r.ResponseDefinition, r.FullDuplex = sdef, stream == "fullbidi"
			}
			m = r
		default:
			return nil, fmt.Errorf("stream %q?", stream)
		}
		a, err := anypb.New(m)
		if err != nil {
			return nil, err
		}
		msgs = append(msgs, a)
	}
	return msgs, nil
}

// c19ResponseOfSize returns data such that the response message of the stream kind carrying
// it has exactly the given size.
func c19ResponseOfSize(stream string, size int64) ([]byte, error) {
	mk := func(d []byte) proto.Message {
		switch stream {
		case "unary":
			return &conformancev1.UnaryResponse{Payload: c19Payload(d)}
		case "idempotent":
			return &conformancev1.IdempotentUnaryResponse{Payload: c19Payload(d)}
		case "clientstream":
			return &conformancev1.ClientStreamResponse{Payload: c19Payload(d)}
		case "serverstream":
			return &conformancev1.ServerStreamResponse{Payload: c19Payload(d)}
		}
		return &conformancev1.BidiStreamResponse{Payload: c19Payload(d)}
	}
	for l := size; l >= 0 && l >= size-24; l-- {
		d := make([]byte, l)
		if int64(proto.Size(mk(d))) == size {
			return d, nil
		}
	}
	return nil, fmt.Errorf("no response of %d bytes", size)
}

func c19Sharp(in c19SharpIn) c19SharpOut {
	fail := func(err error) c19SharpOut {
		return c19SharpOut{Outcome: "internal", Detail: strings.SplitN(err.Error(), "\n", 2)[0]}
	}
	st, ok := c19StreamTypes[in.Stream]
	if !ok {
		return fail(fmt.Errorf("stream %q?", in.Stream))
	}
	n := in.N
	if n <= 0 {
		n = 1
	}
	if in.Pos < 0 || in.Pos >= n {
		return fail(fmt.Errorf("pos %d of %d?", in.Pos, n))
	}
	mode := c19Mode(in.Mode)
	svc := conformancev1connect.ConformanceServiceName
	req := &conformancev1.ClientCompatRequest{
		Protocol:    conformancev1.Protocol(in.Protocol),
		Compression: conformancev1.Compression(in.Compression),
		HttpVersion: conformancev1.HTTPVersion(in.HTTP),
		Service:     &svc,
		Method:      proto.String(st.method),
		StreamType:  st.typ,
	}
	switch in.Side {
	case "server":
		switch in.Stream {
		case "unary", "idempotent", "serverstream":
			if n != 1 {
				return fail(fmt.Errorf("%s has one request", in.Stream))
			}
		}
		limit := cc.VerifC19ServerReceiveLimit()
		// one small response per request, so that a full-duplex exchange echoes every request
		respData := make([][]byte, n)
		for i := range respData {
			respData[i] = []byte(fmt.Sprintf("response %d", i))
		}
		msgs, err := c19Requests(in.Stream, n, respData)
		if err != nil {
			return fail(err)
		}
		req.RequestMessages = msgs
		tc := &conformancev1.TestCase{Request: req, ExpandRequests: make([]*conformancev1.TestCase_ExpandedSize, n)}
		for i := range tc.ExpandRequests {
			tc.ExpandRequests[i] = &conformancev1.TestCase_ExpandedSize{}
		}
		tc.ExpandRequests[in.Pos].SizeRelativeToLimit = proto.Int32(int32(in.Delta))
		if err := cc.VerifC19ExpandRequestData(tc); err != nil {
			return fail(err)
		}
		m, err := req.RequestMessages[in.Pos].UnmarshalNew()
		if err != nil {
			return fail(err)
		}
		serverKind := mode
		switch {
		case in.Cfg == "runner" && in.Protocol >= 1 && in.Protocol <= 3:
			serverKind = fmt.Sprintf("%s@%d", mode, in.Protocol)
		case in.Cfg != "":
			return fail(fmt.Errorf("cfg %q?", in.Cfg))
		}
		res, err := c19Call("ref", serverKind, req)
		if err != nil {
			return fail(err)
		}
		out := c19SharpOut{Limit: limit, Size: int64(proto.Size(m)), Outcome: c19Outcome(res)}
		// what the handler received: the requests echoed in the payloads' request info
		var echoed []*anypb.Any
		for _, p := range res.GetPayloads() {
			echoed = append(echoed, p.GetRequestInfo().GetRequests()...)
		}
		out.Got = len(echoed)
		if in.Pos < len(echoed) {
			if em, err := echoed[in.Pos].UnmarshalNew(); err == nil {
				out.Echo = int64(proto.Size(em))
			}
		}
		return out
	case "client":
		if in.Peer == "fixture" {
			limit := in.Limit
			if limit <= 0 {
				limit = 4096
			}
			switch in.Stream {
			case "unary", "idempotent", "clientstream":
				if n != 1 {
					return fail(fmt.Errorf("%s has one response", in.Stream))
				}
			}
			respData := make([][]byte, n)
			for i := range respData {
				respData[i] = []byte(fmt.Sprintf("response %d", i))
			}
			sized, err := c19ResponseOfSize(in.Stream, limit+in.Delta)
			if err != nil {
				return fail(err)
			}
			respData[in.Pos] = sized
			nReq := 1
			switch in.Stream {
			case "clientstream", "halfbidi":
				nReq = 2
			case "fullbidi":
				// fewer requests than responses: the last response is read after the half-close
				if nReq = n - 1; nReq < 1 {
					nReq = 1
				}
			}
			msgs, err := c19Requests(in.Stream, nReq, respData)
			if err != nil {
				return fail(err)
			}
			req.RequestMessages = msgs
			req.MessageReceiveLimit = uint32(limit)
			res, err := c19Call(mode, "fixture", req)
			if err != nil {
				return fail(err)
			}
			out := c19SharpOut{Limit: limit, Size: limit + in.Delta, Outcome: c19Outcome(res), Got: len(res.GetPayloads())}
			if in.Pos < len(res.GetPayloads()) {
				out.Echo = c19RespSize(in.Stream, res.GetPayloads()[in.Pos])
			}
			return out
		}
		// the reference server as the peer: one response, measured by a call without a limit
		if in.Stream != "unary" || n != 1 {
			return fail(fmt.Errorf("client side against the reference server: unary only"))
		}
		def := &conformancev1.UnaryResponseDefinition{Response: &conformancev1.UnaryResponseDefinition_ResponseData{ResponseData: make([]byte, 3000)}}
		a1, _ := anypb.New(&conformancev1.UnaryRequest{ResponseDefinition: def})
		req.RequestMessages = []*anypb.Any{a1}
		probe, _ := proto.Clone(req).(*conformancev1.ClientCompatRequest)
		res, err := c19Call(mode, "ref", probe)
		if err != nil {
			return fail(err)
		}
		if len(res.GetPayloads()) != 1 {
			return fail(fmt.Errorf("probe call: %d payloads, error %v", len(res.GetPayloads()), res.GetError()))
		}
		size := c19RespSize("unary", res.GetPayloads()[0])
		limit := size - in.Delta
		req.MessageReceiveLimit = uint32(limit)
		res, err = c19Call(mode, "ref", req)
		if err != nil {
			return fail(err)
		}
		out := c19SharpOut{Limit: limit, Size: size, Outcome: c19Outcome(res), Got: len(res.GetPayloads())}
		if len(res.GetPayloads()) == 1 {
			// the message that actually passed the limit
			out.Echo = c19RespSize("unary", res.GetPayloads()[0])
		}
		return out
	}
	return fail(fmt.Errorf("side?"))
}

// c19RespSize is the size of the response message that carried the payload.
func c19RespSize(stream string, p *conformancev1.ConformancePayload) int64 {
	switch stream {
	case "unary":
		return int64(proto.Size(&conformancev1.UnaryResponse{Payload: p}))
	case "idempotent":
		return int64(proto.Size(&conformancev1.IdempotentUnaryResponse{Payload: p}))
	case "clientstream":
		return int64(proto.Size(&conformancev1.ClientStreamResponse{Payload: p}))
	case "serverstream":
		return int64(proto.Size(&conformancev1.ServerStreamResponse{Payload: p}))
	}
	return int64(proto.Size(&conformancev1.BidiStreamResponse{Payload: p}))
}

// ---- generator --------------------------------------------------------------------------

func c19SharpGen(c *gen.Ctx) {
	var ins []any
	add := func(in c19SharpIn) { ins = append(ins, in) }
	type shape struct {
		stream string
		n, pos int
	}
	// every position (first, middle, last) of the multi-message directions
	reqShapes := []shape{{"unary", 1, 0}, {"idempotent", 1, 0}, {"serverstream", 1, 0},
		{"clientstream", 3, 0}, {"clientstream", 3, 1}, {"clientstream", 3, 2},
		{"halfbidi", 3, 0}, {"halfbidi", 3, 1}, {"halfbidi", 3, 2},
		{"fullbidi", 3, 0}, {"fullbidi", 3, 1}, {"fullbidi", 3, 2}}
	respShapes := []shape{{"unary", 1, 0}, {"idempotent", 1, 0}, {"clientstream", 1, 0},
		{"serverstream", 3, 0}, {"serverstream", 3, 1}, {"serverstream", 3, 2},
		{"halfbidi", 3, 0}, {"halfbidi", 3, 1}, {"halfbidi", 3, 2},
		{"fullbidi", 3, 0}, {"fullbidi", 3, 1}, {"fullbidi", 3, 2}}
	deltas := []int64{-1, 0, 1}
	k := 0
	for _, mode := range []string{"ref", "plain"} {
		for protocol := int32(1); protocol <= 3; protocol++ {
			for _, sh := range reqShapes {
				for comp := int32(1); comp <= 6; comp++ {
					// quick: identity and one rotating other compression per (mode, protocol, shape);
					// thorough: all six
					k++
					if !c.Thorough() && comp != 1 && comp != int32(2+k%5) && !(sh.stream == "unary" && mode == "ref") {
						continue
					}
					for _, delta := range deltas {
						add(c19SharpIn{Side: "server", Mode: mode, Protocol: protocol, Compression: comp, Stream: sh.stream, N: sh.n, Pos: sh.pos, Delta: delta})
					}
				}
			}
			for _, sh := range respShapes {
				if protocol == 2 && sh.stream == "fullbidi" && sh.pos != sh.n-1 {
					// connect-go's gRPC client drains the response body before it returns a receive
					// error; while the server of a full-duplex stream still waits for requests that
					// never returns. Only the response read after the half-close is tested there.
					continue
				}
				for comp := int32(1); comp <= 6; comp++ {
					k++
					if !c.Thorough() && comp != 1 && comp != int32(2+k%5) {
						continue
					}
					for _, delta := range deltas {
						add(c19SharpIn{Side: "client", Mode: mode, Peer: "fixture", Protocol: protocol, Compression: comp, Stream: sh.stream, N: sh.n, Pos: sh.pos, Delta: delta})
					}
				}
			}
			// the reference server as the client's peer
			for comp := int32(1); comp <= 6; comp++ {
				if mode == "plain" && !c.Thorough() && comp > 2 {
					continue
				}
				for _, delta := range deltas {
					add(c19SharpIn{Side: "client", Mode: mode, Protocol: protocol, Compression: comp, Stream: "unary", Delta: delta})
				}
			}
		}
		// HTTP/1.1 (Connect and gRPC-Web; no full duplex there)
		for _, protocol := range []int32{1, 3} {
			for _, comp := range []int32{1, 2, 4} {
				if !c.Thorough() && comp == 4 {
					continue
				}
				for _, delta := range deltas {
					for _, sh := range reqShapes {
						if sh.stream != "fullbidi" {
							add(c19SharpIn{Side: "server", Mode: mode, HTTP: 1, Protocol: protocol, Compression: comp, Stream: sh.stream, N: sh.n, Pos: sh.pos, Delta: delta})
						}
					}
					for _, sh := range respShapes {
						if sh.stream != "fullbidi" {
							add(c19SharpIn{Side: "client", Mode: mode, Peer: "fixture", HTTP: 1, Protocol: protocol, Compression: comp, Stream: sh.stream, N: sh.n, Pos: sh.pos, Delta: delta})
						}
					}
				}
			}
		}
	}
	// the limit the runner really hands to clients
	big := cc.VerifC19ClientReceiveLimit()
	for _, sh := range respShapes {
		if !c.Thorough() && sh.pos != sh.n-1 || sh.stream == "idempotent" {
			continue // (the fixture is told the response data in the request: too large for a GET URL)
		}
		for _, delta := range deltas {
			add(c19SharpIn{Side: "client", Peer: "fixture", Protocol: 1 + int32(len(ins)%3), Compression: 1 + int32(len(ins)%6), Stream: sh.stream, N: sh.n, Pos: sh.pos, Limit: big, Delta: delta})
		}
	}
	if c.Thorough() {
		for _, delta := range []int64{-100, 2, 10, 1000} {
			for comp := int32(1); comp <= 6; comp++ {
				for _, mode := range []string{"ref", "plain"} {
					add(c19SharpIn{Side: "server", Mode: mode, Protocol: 1, Compression: comp, Stream: "unary", Delta: delta})
					add(c19SharpIn{Side: "server", Mode: mode, Protocol: 2, Compression: comp, Stream: "fullbidi", N: 3, Pos: int(comp) % 3, Delta: delta})
					add(c19SharpIn{Side: "client", Mode: mode, Protocol: 2, Compression: comp, Stream: "unary", Delta: delta})
					add(c19SharpIn{Side: "client", Mode: mode, Peer: "fixture", Protocol: 3, Compression: comp, Stream: "serverstream", N: 3, Pos: int(comp) % 3, Delta: delta})
				}
			}
		}
	}
	// the server configured by the runner itself for an instance of the call's protocol: every
	// protocol, around the limit and around the 5-byte envelope prefix above it
	for _, mode := range []string{"ref", "plain"} {
		for protocol := int32(1); protocol <= 3; protocol++ {
			for i, delta := range []int64{-1, 0, 1, 5, 6} {
				add(c19SharpIn{Side: "server", Mode: mode, Cfg: "runner", Protocol: protocol, Compression: 1, Stream: "unary", Delta: delta})
				add(c19SharpIn{Side: "server", Mode: mode, Cfg: "runner", Protocol: protocol, Compression: 1, Stream: "clientstream", N: 3, Pos: i % 3, Delta: delta})
				if c.Thorough() || mode == "ref" {
					add(c19SharpIn{Side: "server", Mode: mode, Cfg: "runner", Protocol: protocol, Compression: int32(2 + (i+int(protocol))%5), Stream: "fullbidi", N: 3, Pos: (i + 1) % 3, Delta: delta})
				}
				if c.Thorough() {
					for _, st := range []string{"idempotent", "serverstream"} {
						add(c19SharpIn{Side: "server", Mode: mode, Cfg: "runner", Protocol: protocol, Compression: 1, Stream: st, Delta: delta})
					}
					add(c19SharpIn{Side: "server", Mode: mode, Cfg: "runner", Protocol: protocol, Compression: 2, Stream: "halfbidi", N: 3, Pos: (i + 2) % 3, Delta: delta})
				}
			}
		}
	}
	c.DoParallel("sharp", ins, c19PoolSize)
}
