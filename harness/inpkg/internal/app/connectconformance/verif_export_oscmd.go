//go:build verif

package connectconformance

import (
	"context"
	"errors"
	"sort"
	"sync"
	"syscall"
	"time"

	conformancev1 "connectrpc.com/conformance/internal/gen/proto/go/connectrpc/conformance/v1"
)

// Real OS processes (runCommand: exec, SIGTERM, WaitDelay, pipes) behind the client multiplexer
// (C10) and the server batch runner (C11, C05). The peers are /bin/sh scripts.

// VerifOSClientSpec: runClient(runCommand(sh -c Script)); Small small requests are sent one after
// the other, then (if BigBytes > 0) one request of that size, all from one goroutine.  The first
// request is sent DelayMs after the start of the process and the sender pauses GapMs between two
// requests: a client that exits early is then certainly gone when the next request is written to it
// (without the pauses everything may sit in the kernel's pipe buffer before the process has exited).
type VerifOSClientSpec struct {
	Script   string `json:"script"`
	Small    int    `json:"small"`
	BigBytes int    `json:"bigBytes"`
	TimeoutS int    `json:"timeoutS"`
	DelayMs  int    `json:"delayMs,omitempty"`
	GapMs    int    `json:"gapMs,omitempty"`
}

type VerifOSClientObs struct {
	Rets      []string `json:"rets"` // per send: nil | error | unsent
	Cbs       []int    `json:"cbs"`  // callbacks fired per send
	Wait      string   `json:"wait"` // nil | error | hang
	Hang      bool     `json:"hang"` // a send or waitForResponses did not return within the timeout
	IsRunning bool     `json:"isRunning"`
	// CbRunning: completion callbacks that reported the failure of the client's output stream (an
	// error other than errNoOutcome) while isRunning(), sampled inside the callback, was still true
	CbRunning int `json:"cbRunning"`
	// RunAtDone: isRunning() was still true when the output reader had finished after such a failure
	RunAtDone bool  `json:"runAtDone"`
	ElapsedMs int64 `json:"elapsedMs"`
}

func VerifOSClient(spec VerifOSClientSpec) VerifOSClientObs {
	n := spec.Small
	if spec.BigBytes > 0 {
		n++
	}
	obs := VerifOSClientObs{Rets: make([]string, n), Cbs: make([]int, n)}
	for i := range obs.Rets {
		obs.Rets[i] = "unsent"
	}
	t0 := time.Now()
	ctx, cancel := context.WithCancel(context.Background())
	defer cancel()
	runner, err := runClient(ctx, runCommand([]string{"/bin/sh", "-c", spec.Script}))
	if err != nil {
		obs.Wait = "runClient: " + err.Error()
		return obs
	}
	defer func() { go runner.stop() }()
	var mu sync.Mutex
	if cr, ok := runner.(*clientProcessRunner); ok {
		go func() {
			<-cr.done
			if e := cr.err.Load(); e != nil && *e != nil && !errors.Is(*e, errClosed) && runner.isRunning() {
				mu.Lock()
				obs.RunAtDone = true
				mu.Unlock()
			}
		}()
	}
	done := make(chan struct{})
	go func() {
		defer close(done)
		if spec.DelayMs > 0 && spec.DelayMs <= 5000 {
			time.Sleep(time.Duration(spec.DelayMs) * time.Millisecond)
		}
		for i := 0; i < n; i++ {
			if i > 0 && spec.GapMs > 0 && spec.GapMs <= 5000 {
				time.Sleep(time.Duration(spec.GapMs) * time.Millisecond)
			}
			req := &conformancev1.ClientCompatRequest{TestName: VerifC10Name(i)}
			if i == spec.Small && spec.BigBytes > 0 {
				req.ServerTlsCert = make([]byte, spec.BigBytes)
			}
			i := i
			err := runner.sendRequest(req, func(_ string, _ *conformancev1.ClientCompatResponse, cbErr error) {
				stillRunning := cbErr != nil && !errors.Is(cbErr, errNoOutcome) && runner.isRunning()
				mu.Lock()
				obs.Cbs[i]++
				if stillRunning {
					obs.CbRunning++
				}
				mu.Unlock()
			})
			mu.Lock()
			if err == nil {
				obs.Rets[i] = "nil"
			} else {
				obs.Rets[i] = "error"
			}
			mu.Unlock()
		}
		runner.closeSend()
		werr := runner.waitForResponses()
		mu.Lock()
		if werr == nil {
			obs.Wait = "nil"
		} else {
			obs.Wait = "error"
		}
		mu.Unlock()
	}()
	dog := VerifNewDog(spec.TimeoutS)
	defer dog.Stop()
	select {
	case <-done:
	case <-dog.C:
		mu.Lock()
		obs.Hang = true
		if obs.Wait == "" {
			obs.Wait = "hang"
		}
		mu.Unlock()
	}
	// the process-exit notification (whenDone) runs in its own goroutine: give it time
	for deadline := time.Now().Add(2 * time.Second); runner.isRunning() && time.Now().Before(deadline); {
		time.Sleep(time.Millisecond)
	}
	mu.Lock()
	defer mu.Unlock()
	out := obs
	out.Rets = append([]string{}, obs.Rets...)
	out.Cbs = append([]int{}, obs.Cbs...)
	out.IsRunning = runner.isRunning()
	out.ElapsedMs = time.Since(t0).Milliseconds()
	return out
}

// VerifOSServerSpec: runTestCasesForServer with runCommand(sh -c Script) as the server and a
// client that answers every request at once with a passing result.
type VerifOSServerSpec struct {
	Script    string `json:"script"`
	N         int    `json:"n"`
	UseTLS    bool   `json:"useTLS"`
	CredBytes int    `json:"credBytes"`
	TimeoutS  int    `json:"timeoutS"`
}

type VerifOSServerObs struct {
	Outcomes  [][2]string `json:"outcomes"`
	Hang      bool        `json:"hang"`
	Alive     bool        `json:"alive"` // the server process is still alive after the batch returned
	Requests  int         `json:"requests"`
	ElapsedMs int64       `json:"elapsedMs"`
}

type verifOSClientRunner struct {
	mu    sync.Mutex
	reqs  int
	async sync.WaitGroup // callbacks still to fire (the real client answers asynchronously too)
}

func (c *verifOSClientRunner) sendRequest(req *conformancev1.ClientCompatRequest, whenDone func(string, *conformancev1.ClientCompatResponse, error)) error {
	c.mu.Lock()
	c.reqs++
	c.mu.Unlock()
	c.async.Add(1)
	go func() {
		defer c.async.Done()
		whenDone(req.TestName, &conformancev1.ClientCompatResponse{TestName: req.TestName,
			Result: &conformancev1.ClientCompatResponse_Response{Response: &conformancev1.ClientResponseResult{Payloads: []*conformancev1.ConformancePayload{{Data: []byte("data")}}}}}, nil)
	}()
	return nil
}
func (c *verifOSClientRunner) closeSend()              {}
func (c *verifOSClientRunner) waitForResponses() error { return nil }
func (c *verifOSClientRunner) isRunning() bool         { return true }
func (c *verifOSClientRunner) stop()                   {}

func VerifOSServerBatch(spec VerifOSServerSpec) VerifOSServerObs {
	cases := make([]*conformancev1.TestCase, spec.N)
	for i := range cases {
		cases[i] = &conformancev1.TestCase{
			Request:          &conformancev1.ClientCompatRequest{TestName: VerifC10Name(i)},
			ExpectedResponse: &conformancev1.ClientResponseResult{Payloads: []*conformancev1.ConformancePayload{{Data: []byte("data")}}},
		}
	}
	results := newResults(len(cases), &testTrie{}, &testTrie{}, nil)
	var pid int
	var pidMu sync.Mutex
	inner := runCommand([]string{"/bin/sh", "-c", spec.Script})
	starter := func(ctx context.Context, pipeStderr bool) (*process, error) {
		p, err := inner(ctx, pipeStderr)
		if err == nil {
			if cp, ok := p.processController.(*cmdProcess); ok && cp.cmd.Process != nil {
				pidMu.Lock()
				pid = cp.cmd.Process.Pid
				pidMu.Unlock()
			}
		}
		return p, err
	}
	var creds *conformancev1.TLSCreds
	if spec.UseTLS {
		creds = &conformancev1.TLSCreds{Cert: make([]byte, spec.CredBytes), Key: make([]byte, 16)}
	}
	client := &verifOSClientRunner{}
	meta := serverInstance{protocol: conformancev1.Protocol_PROTOCOL_CONNECT, httpVersion: conformancev1.HTTPVersion_HTTP_VERSION_1, useTLS: spec.UseTLS}
	t0 := time.Now()
	done := make(chan struct{})
	go func() {
		defer close(done)
		runTestCasesForServer(context.Background(), false, false, meta, cases, creds, nil, starter,
			verifNopPrinter{}, verifNopPrinter{}, results, client, nil, false)
	}()
	var obs VerifOSServerObs
	dog := VerifNewDog(spec.TimeoutS)
	defer dog.Stop()
	select {
	case <-done:
	case <-dog.C:
		obs.Hang = true
	}
	obs.ElapsedMs = time.Since(t0).Milliseconds()
	pidMu.Lock()
	p := pid
	pidMu.Unlock()
	if p > 0 {
		obs.Alive = syscall.Kill(p, 0) == nil
		if obs.Alive {
			_ = syscall.Kill(p, syscall.SIGKILL) // do not leak the script
		}
	}
	client.mu.Lock()
	obs.Requests = client.reqs
	client.mu.Unlock()
	if !obs.Hang {
		client.async.Wait() // the client drain: answers to requests already handed out
		results.mu.Lock()
		for name, o := range results.outcomes {
			obs.Outcomes = append(obs.Outcomes, [2]string{name, verifC11Class(o)})
		}
		results.mu.Unlock()
	}
	sort.Slice(obs.Outcomes, func(i, j int) bool { return obs.Outcomes[i][0] < obs.Outcomes[j][0] })
	if obs.Outcomes == nil {
		obs.Outcomes = [][2]string{}
	}
	return obs
}
