/-
Declarative side of the strict binary codec on arbitrary bytes: "the wire is well formed and
every field number at every depth of message-typed fields is known".
-/
import ConfModel.Model.ProtoWire
namespace ConfModel.ProtoWireSpec
open ConfModel.ProtoWire

/-- the nested messages held by the given fields are all well formed and fully known -/
def nestedAll (rec : Nat → Bytes → Bool) (t : Table) : List Field → Bool
  | [] => true
  | f :: rest =>
    (match descend t f with
     | none => true
     | some (sub, payload) => rec sub payload) && nestedAll rec t rest

/-- the bytes split into well-formed fields, every field number is one the message type knows
with that wire type (map entries: other numbers are skipped by the library), and the same holds
of every message held by a message-typed field, to any depth -/
def allKnown : Nat → Tables → Nat → Bytes → Bool
  | 0, _, _, _ => false
  | fuel + 1, T, ti, b =>
    match T[ti]?, fields b with
    | some t, some fs => (t.lenient || fs.all (knownIn t)) && nestedAll (allKnown fuel T) t fs
    | _, _ => false

end ConfModel.ProtoWireSpec
