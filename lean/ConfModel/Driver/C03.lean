import ConfModel.Driver.Common
import ConfModel.Model.Assert
import ConfModel.Spec.Agree
import ConfModel.Generated.C03Facts
namespace ConfModel.Driver.C03
open Lean ConfModel.Driver ConfModel.Assert ConfModel.Agree

def grace : Int := ConfModel.Generated.C03Facts.grace

def optInt (j : Json) : Option Int := if isNull j then none else some (int j)
def optStr (j : Json) : Option String := if isNull j then none else some (str j)

def pHeaders (j : Json) : List Header :=
  (arr j).map fun h => { name := str (field h "n"), values := (strList (field h "v")).map String.toList }

def pMsg (j : Json) : Msg := { tag := str (field j "t"), data := unhex (str (field j "d")) }

def pReqInfo (j : Json) : ReqInfo :=
  { headers := pHeaders (field j "h"), timeoutMs := optInt (field j "to"),
    requests := (arr (field j "rq")).map pMsg, queryParams := pHeaders (field j "q") }

def pPayload (j : Json) : Payload :=
  { data := unhex (str (field j "d")),
    reqInfo := if isNull (field j "ri") then none else some (pReqInfo (field j "ri")) }

def pDetail (j : Json) : Detail :=
  if isNull (field j "ri") then .other (pMsg (field j "o")) else .reqInfo (pReqInfo (field j "ri"))

def pErr (j : Json) : Option Err :=
  if isNull j then none else
  some { code := nat (field j "c"), message := optStr (field j "m"), details := (arr (field j "d")).map pDetail }

def pResult (j : Json) : Result :=
  { headers := pHeaders (field j "h"), payloads := (arr (field j "p")).map pPayload, error := pErr (field j "e"),
    trailers := pHeaders (field j "t"), numUnsent := nat (field j "u"), httpStatus := optInt (field j "s") }

def pStream : Nat → StreamType
  | 1 => .unary | 2 => .clientStream | 3 => .serverStream | 4 => .halfDuplexBidi | 5 => .fullDuplexBidi
  | _ => .unspecified

def whatStr : What → String
  | .responseHeaders => "response headers" | .responseTrailers => "response trailers"
  | .responseMetadata => "response metadata" | .requestHeaders => "request headers"
  | .queryParams => "request query params"

def render : Discrepancy → String
  | .unexpectedError => "unexpectedError" | .missingError => "missingError" | .code => "code"
  | .message => "message" | .detailCount => "detailCount" | .detail i => "detail:" ++ toString i
  | .payloadCount => "payloadCount" | .payloadData i => "payloadData:" ++ toString i
  | .headerMissing w n => "headerMissing:" ++ whatStr w ++ ":" ++ n
  | .headerValues w n => "headerValues:" ++ whatStr w ++ ":" ++ n
  | .timeoutMissing => "timeoutMissing" | .timeoutRange => "timeoutRange"
  | .timeoutUnexpected => "timeoutUnexpected" | .requestCount => "requestCount"
  | .request k => "request:" ++ toString k | .status => "status"

/-- a value the leniency "joined or split on commas" speaks of: no comma, no space at either end -/
def cleanVal (v : Val) : Bool := !v.contains ',' && v.head? != some ' ' && v.getLast? != some ' '

def handle : Handler := fun op inp impl =>
  if !(isNull (field impl "panic")) then
    { agree := false, holds := false, why := "panic: " ++ str (field impl "panic") } else
  match op with
  | "assert" =>
    let st := pStream (nat (field inp "st"))
    let other := natList (field inp "other")
    let e := pResult (field inp "exp")
    let a := pResult (field inp "act")
    let expect := str (field inp "expect")
    let mutn := str (field inp "mut")
    let iErrs := strList (field impl "errs")
    let recorded := bool (field impl "recorded")
    let m := (assert grace st other e a).map render
    let agree := recorded && iErrs == m
    let model := toJson m
    let kind := ((mutn.splitOn ":").getLast?.getD mutn).takeWhile (fun c => c != '@' && c != '=') |>.toString
    if !decide (WellFormed e a) then
      { agree := agree, holds := true, nontrivial := false, model := model, cls := "not-well-formed" }
    else
    let agrees := decide (Agree grace st other e a)
    let passed := iErrs.isEmpty
    let named := expect.isEmpty || iErrs.contains expect
    let why :=
      if !recorded then "unrecorded: assert recorded no outcome for the case"
      else if passed && !agrees then "missed: the results do not agree (" ++ mutn ++ ") but no discrepancy was reported"
      else if !passed && agrees then "spurious: the results agree up to the documented leniencies (" ++ mutn ++ ") but " ++ toString iErrs ++ " was reported"
      else if !named then "unnamed: deviation " ++ mutn ++ " must be named as " ++ expect ++ " but the report is " ++ toString iErrs
      else ""
    { agree := agree, holds := why.isEmpty, nontrivial := mutn != "identical", model := model, why := why,
      cls := (if agrees then "agree:" else "deviate:") ++ kind }
  | "canon" =>
    let vals := (strList (field inp "vals")).map String.toList
    let ic := (strList (field impl "canon")).map String.toList
    let ij := (strList (field impl "joinedComma")).map String.toList
    let is := (strList (field impl "joinedSpace")).map String.toList
    let comma : Val := [',']
    let commaSp : Val := [',', ' ']
    let mc := canon vals
    let mj := canon [comma.intercalate vals]
    let ms := canon [commaSp.intercalate vals]
    let agree := ic == mc && ij == mj && is == ms
    -- the leniency: clean values, joined with "," or ", ", canonicalise to the values themselves
    let clean := !vals.isEmpty && vals.all cleanVal
    let holds := !clean || (ic == vals && ij == vals && is == vals)
    { agree := agree, holds := holds, nontrivial := vals.any (fun v => v.contains ',' || v.contains ' '),
      model := Json.mkObj [("canon", toJson (mc.map String.ofList)), ("joinedComma", toJson (mj.map String.ofList)),
        ("joinedSpace", toJson (ms.map String.ofList))],
      why := if holds then "" else "join: clean values joined on commas do not canonicalise to themselves",
      cls := if clean then "clean" else "other" }
  | _ => bad ("C03: unknown op " ++ op)

end ConfModel.Driver.C03
