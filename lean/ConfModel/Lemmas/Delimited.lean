/-
Helper lemmas for C09: the read loops of `Model/Delimited.lean` do not depend on the caps.
-/
import ConfModel.Model.Delimited
import ConfModel.Spec.Framing
namespace ConfModel.Delimited

/-- what a read of `n` bytes gives when only `k < n` bytes are still to come -/
def short (e : Ending) (k : Nat) (r : Reader) : RN :=
  match e with
  | .eofSeparate => .err (if k > 0 then .unexpectedEOF else .eof) k r
  | .eofWithLastData => .err (if k > 0 then .unexpectedEOF else .eof) k r
  | .fail => .err .fail k r
  | .stall => .stall k r

theorem read_nil (caps : List Nat) (e : Ending) (k : Nat) (hk : k ≠ 0) :
    (Reader.mk [] caps e).read k =
      (match e with
        | .eofSeparate => Step.eof
        | .eofWithLastData => Step.eof
        | .fail => Step.fail
        | .stall => Step.stall, Reader.mk [] caps e) := by
  cases e <;> simp [Reader.read, hk]

theorem read_cons (x : UInt8) (xs : Bytes) (caps : List Nat) (e : Ending) (k : Nat) (hk : k ≠ 0) :
    (Reader.mk (x :: xs) caps e).read k =
      (.data ((x :: xs).take ((Reader.mk (x :: xs) caps e).cap k))
          (((x :: xs).drop ((Reader.mk (x :: xs) caps e).cap k)).isEmpty && e == .eofWithLastData),
       Reader.mk ((x :: xs).drop ((Reader.mk (x :: xs) caps e).cap k)) caps.tail e) := by
  simp [Reader.read, hk]

theorem cap_le (r : Reader) (k : Nat) : r.cap k ≤ k := by
  unfold Reader.cap; split <;> omega

theorem cap_nil (d : Bytes) (e : Ending) (k : Nat) : (Reader.mk d [] e).cap k = k := rfl

theorem readLoop_succ (n fuel : Nat) (acc : Bytes) (r : Reader) :
    readLoop n (fuel+1) acc r =
    match r.read (n - acc.length) with
    | (.data bs eofToo, r') =>
      if acc.length + bs.length = n then .ok (acc ++ bs) r'
      else if eofToo then
        .err (if acc.length + bs.length > 0 then .unexpectedEOF else .eof) (acc.length + bs.length) r'
      else readLoop n fuel (acc ++ bs) r'
    | (.eof, r') => .err (if acc.length > 0 then .unexpectedEOF else .eof) acc.length r'
    | (.fail, r') => .err .fail acc.length r'
    | (.stall, r') => .stall acc.length r' := rfl

/-- The loop of `read(n)`, whatever the caps: with enough bytes it returns exactly the next
`n - |acc|` bytes and leaves the rest; with too few it reports the ending with all of them
counted as progress. -/
theorem readLoop_spec (n : Nat) (e : Ending) : ∀ (fuel : Nat) (caps : List Nat) (acc data : Bytes),
    caps.length + 2 ≤ fuel → acc.length < n →
    (n ≤ acc.length + data.length →
      ∃ caps', readLoop n fuel acc ⟨data, caps, e⟩ =
        .ok (acc ++ data.take (n - acc.length)) ⟨data.drop (n - acc.length), caps', e⟩) ∧
    (acc.length + data.length < n →
      ∃ caps', readLoop n fuel acc ⟨data, caps, e⟩ = short e (acc.length + data.length) ⟨[], caps', e⟩)
  | 0, _, _, _, hf, _ => by omega
  | fuel+1, caps, acc, [], hf, hlt => by
    have hk : n - acc.length ≠ 0 := by omega
    refine ⟨fun h => by simp at h; omega, fun _ => ⟨caps, ?_⟩⟩
    rw [readLoop_succ, read_nil _ _ _ hk]
    cases e <;> simp [short]
  | fuel+1, caps, acc, x :: xs, hf, hlt => by
    have hk : n - acc.length ≠ 0 := by omega
    rw [readLoop_succ, read_cons _ _ _ _ _ hk]
    generalize hc : (Reader.mk (x :: xs) caps e).cap (n - acc.length) = c
    have hcle : c ≤ n - acc.length := hc ▸ cap_le _ _
    simp only
    have hlen : ((x :: xs).take c).length = min c (xs.length + 1) := by simp
    by_cases hdone : acc.length + ((x :: xs).take c).length = n
    · -- this read completes the unit
      rw [if_pos hdone]
      have hc' : c = n - acc.length := by omega
      refine ⟨fun _ => ⟨caps.tail, by rw [hc']⟩, fun h => ?_⟩
      simp only [List.length_cons] at h; omega
    · rw [if_neg hdone]
      by_cases hrest : ((x :: xs).drop c).isEmpty = true
      · -- the script's bytes are used up and the unit is incomplete
        have hall : xs.length + 1 ≤ c := by
          have := List.isEmpty_iff.mp hrest
          have h2 := congrArg List.length this
          simp at h2; omega
        have htk : (x :: xs).take c = x :: xs := List.take_of_length_le (by simpa using hall)
        have hdr : (x :: xs).drop c = [] := List.isEmpty_iff.mp hrest
        rw [htk] at hdone ⊢
        rw [hdr]
        have hshort : acc.length + (x :: xs).length < n := by simp at hdone ⊢; omega
        refine ⟨fun h => by omega, fun _ => ?_⟩
        cases e
        · -- eofSeparate: one more round, which sees EOF
          simp only [List.isEmpty_nil, Bool.true_and]
          have : (Ending.eofSeparate == Ending.eofWithLastData) = false := by decide
          rw [this]
          simp only [Bool.false_eq_true, if_false]
          cases fuel with
          | zero => simp at hf
          | succ f =>
            rw [readLoop_succ, read_nil _ _ _ (by rw [List.length_append]; omega)]
            exact ⟨caps.tail, by simp [short]⟩
        · -- eofWithLastData
          simp only [List.isEmpty_nil, Bool.true_and]
          have : (Ending.eofWithLastData == Ending.eofWithLastData) = true := by decide
          rw [this]
          exact ⟨caps.tail, by simp [short]⟩
        · simp only [List.isEmpty_nil, Bool.true_and]
          have : (Ending.fail == Ending.eofWithLastData) = false := by decide
          rw [this]
          simp only [Bool.false_eq_true, if_false]
          cases fuel with
          | zero => simp at hf
          | succ f =>
            rw [readLoop_succ, read_nil _ _ _ (by rw [List.length_append]; omega)]
            exact ⟨caps.tail, by simp [short]⟩
        · simp only [List.isEmpty_nil, Bool.true_and]
          have : (Ending.stall == Ending.eofWithLastData) = false := by decide
          rw [this]
          simp only [Bool.false_eq_true, if_false]
          cases fuel with
          | zero => simp at hf
          | succ f =>
            rw [readLoop_succ, read_nil _ _ _ (by rw [List.length_append]; omega)]
            exact ⟨caps.tail, by simp [short]⟩
      · -- bytes remain: go round again with one cap fewer
        have hrest' : ((x :: xs).drop c).isEmpty = false := by simpa using hrest
        rw [hrest']
        simp only [Bool.false_and, Bool.false_eq_true, if_false]
        have hclt : c < xs.length + 1 := by
          have : (x :: xs).drop c ≠ [] := by
            intro h; rw [h] at hrest'; simp at hrest'
          have h2 : 0 < ((x :: xs).drop c).length := List.length_pos_iff.mpr this
          simp at h2; omega
        have hcaps : caps ≠ [] := by
          intro h; subst h
          rw [cap_nil] at hc
          simp at hdone hlen; omega
        have hf' : caps.tail.length + 2 ≤ fuel := by
          cases caps with
          | nil => exact absurd rfl hcaps
          | cons _ t => simp at hf ⊢; omega
        have htl : ((x :: xs).take c).length = c := by rw [hlen]; omega
        have hlt' : (acc ++ (x :: xs).take c).length < n := by
          rw [List.length_append, htl]; rw [htl] at hdone; omega
        have ih := readLoop_spec n e fuel caps.tail (acc ++ (x :: xs).take c) ((x :: xs).drop c) hf' hlt'
        have hsum : (acc ++ (x :: xs).take c).length + ((x :: xs).drop c).length
            = acc.length + (x :: xs).length := by
          simp only [List.length_append, List.length_drop, List.length_cons, htl]; omega
        rw [hsum] at ih
        refine ⟨fun h => ?_, fun h => ?_⟩
        · obtain ⟨caps', h'⟩ := ih.1 h
          refine ⟨caps', ?_⟩
          rw [h']
          have e1 : n - (acc ++ (x :: xs).take c).length = n - acc.length - c := by
            rw [List.length_append, htl]; omega
          rw [e1, List.append_assoc, List.drop_drop]
          have e2 : (x :: xs).take c ++ ((x :: xs).drop c).take (n - acc.length - c)
              = (x :: xs).take (n - acc.length) := by
            have : n - acc.length = c + (n - acc.length - c) := by omega
            conv => rhs; rw [this, List.take_add]
          have e3 : c + (n - acc.length - c) = n - acc.length := by omega
          rw [e2, e3]
        · obtain ⟨caps', h'⟩ := ih.2 h
          exact ⟨caps', h'⟩

/-- `read(n)` with at least `n` bytes to come: exactly the next `n` bytes, the rest stays. -/
theorem readN_enough (n : Nat) (d : Bytes) (caps : List Nat) (e : Ending) (h : n ≤ d.length) :
    ∃ caps', readN n ⟨d, caps, e⟩ = .ok (d.take n) ⟨d.drop n, caps', e⟩ := by
  by_cases hn : n = 0
  · subst hn
    exact ⟨caps, by simp [readN]⟩
  · have := (readLoop_spec n e (caps.length + 2) caps [] d (Nat.le_refl _) (by simp; omega)).1
      (by simpa using h)
    simpa [readN, hn] using this

/-- `read(n)` with fewer than `n` bytes to come. -/
theorem readN_short (n : Nat) (d : Bytes) (caps : List Nat) (e : Ending) (h : d.length < n) :
    ∃ caps', readN n ⟨d, caps, e⟩ = short e d.length ⟨[], caps', e⟩ := by
  have hn : n ≠ 0 := by omega
  have := (readLoop_spec n e (caps.length + 2) caps [] d (Nat.le_refl _) (by simp; omega)).2
    (by simpa using h)
  simpa [readN, hn] using this

theorem read_data_len (r : Reader) (k : Nat) (bs : Bytes) (b : Bool) (r' : Reader)
    (h : r.read k = (.data bs b, r')) : bs.length ≤ k := by
  obtain ⟨d, caps, e⟩ := r
  by_cases hk : k = 0
  · subst hk
    simp [Reader.read] at h
    simp [← h.1]
  · cases d with
    | nil =>
      rw [read_nil _ _ _ hk] at h
      cases e <;> simp at h
    | cons x xs =>
      rw [read_cons _ _ _ _ _ hk] at h
      have h1 := (Prod.mk.inj h).1
      injection h1 with h1 _
      rw [← h1, List.length_take]
      have := cap_le (Reader.mk (x :: xs) caps e) k
      omega

theorem fullLoop_succ (n fuel : Nat) (acc : Bytes) (r : Reader) :
    fullLoop n (fuel+1) acc r =
    match r.read (n - acc.length) with
    | (.data bs eofToo, r') =>
      if acc.length + bs.length ≥ n then .ok (acc ++ bs) r'
      else if eofToo then
        .err (if acc.length + bs.length > 0 then .unexpectedEOF else .eof) (acc.length + bs.length) r'
      else fullLoop n fuel (acc ++ bs) r'
    | (.eof, r') => .err (if acc.length > 0 then .unexpectedEOF else .eof) acc.length r'
    | (.fail, r') => .err .fail acc.length r'
    | (.stall, r') => .stall acc.length r' := rfl

/-- `io.ReadFull` and `timeoutDelimitedReader.read` are the same loop. -/
theorem fullLoop_eq (n : Nat) : ∀ (fuel : Nat) (acc : Bytes) (r : Reader), acc.length ≤ n →
    fullLoop n fuel acc r = readLoop n fuel acc r
  | 0, _, _, _ => rfl
  | f+1, acc, r, hle => by
    rw [fullLoop_succ, readLoop_succ]
    generalize hs : r.read (n - acc.length) = s
    obtain ⟨st, r'⟩ := s
    cases st with
    | data bs b =>
      have hb := read_data_len r _ bs b r' hs
      simp only
      by_cases hd : acc.length + bs.length = n
      · rw [if_pos (by omega), if_pos hd]
      · rw [if_neg (by omega), if_neg hd]
        rw [fullLoop_eq n f (acc ++ bs) r' (by rw [List.length_append]; omega)]
    | eof => rfl
    | fail => rfl
    | stall => rfl

theorem readFull_eq (n : Nat) (r : Reader) : readFull n r = readN n r := by
  unfold readFull readN
  by_cases hn : n = 0
  · subst hn; simp
  · rw [if_neg hn, if_neg hn, fullLoop_eq n _ [] r (by simp)]

theorem be32_putBe32 (n : Nat) (h : n < 4294967296) : be32 (putBe32 n) = n := by
  simp only [be32, putBe32, List.foldl_cons, List.foldl_nil, UInt8.toNat_ofNat']
  omega

theorem be32_lt (p : Bytes) (h : p.length = 4) : be32 p < 4294967296 := by
  match p, h with
  | [a, b, c, d], _ =>
    simp only [be32, List.foldl_cons, List.foldl_nil]
    have := a.toNat_lt; have := b.toNat_lt; have := c.toNat_lt; have := d.toNat_lt
    omega

theorem putBe32_length (n : Nat) : (putBe32 n).length = 4 := rfl

theorem encode_length (m : Bytes) : (encode m).length = 4 + m.length := by
  simp [encode, putBe32_length]

open ConfModel.Framing

theorem ofErr_short (k : Nat) :
    Res.ofErr (if 0 < k then RErr.unexpectedEOF else RErr.eof) =
      if (!false && k == 0) = true then Res.eof else Res.unexpectedEOF := by
  by_cases hk : k = 0
  · subst hk; rfl
  · have : 0 < k := by omega
    simp [this, hk, Res.ofErr]

theorem readN_ok_len (n : Nat) (r : Reader) (p : Bytes) (r' : Reader) (h : readN n r = .ok p r') :
    p.length = n := by
  obtain ⟨d, caps, e⟩ := r
  by_cases hn : n ≤ d.length
  · obtain ⟨caps', h'⟩ := readN_enough n d caps e hn
    rw [h'] at h
    injection h with h1 _
    rw [← h1, List.length_take]; omega
  · obtain ⟨caps', h'⟩ := readN_short n d caps e (by omega)
    rw [h'] at h
    cases e <;> simp [short] at h

/-! ### the 32-bit prefix arithmetic -/

theorem or_shiftLeft_eq (a b i : Nat) (hb : b < 2 ^ i) : b ||| (a <<< i) = a * 2 ^ i + b := by
  rw [Nat.or_comm, ← Nat.shiftLeft_add_eq_or_of_lt hb, Nat.shiftLeft_eq]

/-- `binary.BigEndian.Uint32` in `uint32` arithmetic is the positional value of the four bytes -/
theorem beU32_toNat (b0 b1 b2 b3 : UInt8) :
    (beU32 b0 b1 b2 b3).toNat = be32 [b0, b1, b2, b3] := by
  have h0 := b0.toNat_lt
  have h1 := b1.toNat_lt
  have h2 := b2.toNat_lt
  have h3 := b3.toNat_lt
  simp only [beU32, UInt32.toNat_or, UInt32.toNat_shiftLeft, UInt8.toNat_toUInt32, be32,
    List.foldl_cons, List.foldl_nil]
  have e8 : (UInt32.toNat 8) % 32 = 8 := by decide
  have e16 : (UInt32.toNat 16) % 32 = 16 := by decide
  have e24 : (UInt32.toNat 24) % 32 = 24 := by decide
  rw [e8, e16, e24]
  have m2 : (b2.toNat <<< 8) % 2 ^ 32 = b2.toNat <<< 8 := by
    apply Nat.mod_eq_of_lt; rw [Nat.shiftLeft_eq]; omega
  have m1 : (b1.toNat <<< 16) % 2 ^ 32 = b1.toNat <<< 16 := by
    apply Nat.mod_eq_of_lt; rw [Nat.shiftLeft_eq]; omega
  have m0 : (b0.toNat <<< 24) % 2 ^ 32 = b0.toNat <<< 24 := by
    apply Nat.mod_eq_of_lt; rw [Nat.shiftLeft_eq]; omega
  rw [m2, m1, m0]
  rw [or_shiftLeft_eq b2.toNat b3.toNat 8 (by omega)]
  rw [or_shiftLeft_eq b1.toNat _ 16 (by omega)]
  rw [or_shiftLeft_eq b0.toNat _ 24 (by omega)]
  omega

/-- the `int` the reader computes from a 4-byte prefix is the (non-negative) big-endian value -/
theorem msgSize_eq_be32 (p : Bytes) (h : p.length = 4) : msgSize p = Int.ofNat (be32 p) := by
  match p, h with
  | [a, b, c, d], _ => simp only [msgSize, intOfU32, beU32_toNat]

/-- `readMessage` in terms of natural numbers: the `int` arithmetic never leaves 0 … 2^32-1 -/
theorem readMessage_def (max : Nat) (r : Reader) : readMessage max r =
    match readN 4 r with
    | .err e _ r' => ⟨Res.ofErr e, r', [4]⟩
    | .stall offs r' => ⟨.timeout false offs 4, r', [4]⟩
    | .ok p r' =>
      if be32 p > max then ⟨.tooLarge (be32 p), r', [4]⟩ else
      match readN (be32 p) r' with
      | .ok b r'' => ⟨.msg b, r'', [4, be32 p]⟩
      | .err e _ r'' => ⟨(match e with | .eof => .unexpectedEOF | e => Res.ofErr e), r'', [4, be32 p]⟩
      | .stall offs r'' => ⟨.timeout true offs (be32 p), r'', [4, be32 p]⟩ := by
  unfold readMessage
  cases h : readN 4 r with
  | err e o r' => rfl
  | stall o r' => rfl
  | ok p r' =>
    have hl := readN_ok_len 4 r p r' h
    simp only [msgSize_eq_be32 p hl, Int.ofNat_eq_natCast, Int.toNat_natCast, gt_iff_lt, Int.ofNat_lt]
    split
    · rfl
    · cases readN (be32 p) r' <;> rfl

theorem readMessage_prefix_short (max : Nat) (d : Bytes) (caps : List Nat) (e : Ending)
    (h : d.length < 4) :
    ∃ caps', readMessage max ⟨d, caps, e⟩ = ⟨endRes e false d.length 4, ⟨[], caps', e⟩, [4]⟩ := by
  obtain ⟨caps', h'⟩ := readN_short 4 d caps e h
  refine ⟨caps', ?_⟩
  rw [readMessage_def]
  rw [h']
  cases e
  · simp only [short, endRes, gt_iff_lt]; rw [ofErr_short]
  · simp only [short, endRes, gt_iff_lt]; rw [ofErr_short]
  · simp [short, endRes, Res.ofErr]
  · simp [short, endRes]

theorem readMessage_tooLarge (max : Nat) (d : Bytes) (caps : List Nat) (e : Ending)
    (h : 4 ≤ d.length) (hb : be32 (d.take 4) > max) :
    ∃ caps', readMessage max ⟨d, caps, e⟩ =
      ⟨.tooLarge (be32 (d.take 4)), ⟨d.drop 4, caps', e⟩, [4]⟩ := by
  obtain ⟨caps', h'⟩ := readN_enough 4 d caps e h
  refine ⟨caps', ?_⟩
  rw [readMessage_def]
  rw [h']
  simp only [if_pos hb]

theorem readMessage_body_short (max : Nat) (d : Bytes) (caps : List Nat) (e : Ending)
    (h : 4 ≤ d.length) (hb : be32 (d.take 4) ≤ max) (hs : d.length - 4 < be32 (d.take 4)) :
    ∃ caps', readMessage max ⟨d, caps, e⟩ =
      ⟨endRes e true (d.length - 4) (be32 (d.take 4)), ⟨[], caps', e⟩, [4, be32 (d.take 4)]⟩ := by
  obtain ⟨caps1, h1⟩ := readN_enough 4 d caps e h
  obtain ⟨caps2, h2⟩ := readN_short (be32 (d.take 4)) (d.drop 4) caps1 e (by simpa using hs)
  refine ⟨caps2, ?_⟩
  rw [readMessage_def]
  rw [h1]
  simp only [if_neg (Nat.not_lt.mpr hb)]
  rw [h2]
  have hl : (d.drop 4).length = d.length - 4 := by simp
  rw [hl]
  cases e
  · by_cases hk : 0 < d.length - 4 <;> simp [short, endRes, Res.ofErr, hk]
  · by_cases hk : 0 < d.length - 4 <;> simp [short, endRes, Res.ofErr, hk]
  · simp [short, endRes, Res.ofErr]
  · simp [short, endRes]

theorem readMessage_msg (max : Nat) (d : Bytes) (caps : List Nat) (e : Ending)
    (h : 4 ≤ d.length) (hb : be32 (d.take 4) ≤ max) (hs : be32 (d.take 4) ≤ d.length - 4) :
    ∃ caps', readMessage max ⟨d, caps, e⟩ =
      ⟨.msg ((d.drop 4).take (be32 (d.take 4))), ⟨d.drop (4 + be32 (d.take 4)), caps', e⟩,
        [4, be32 (d.take 4)]⟩ := by
  obtain ⟨caps1, h1⟩ := readN_enough 4 d caps e h
  obtain ⟨caps2, h2⟩ := readN_enough (be32 (d.take 4)) (d.drop 4) caps1 e (by simpa using hs)
  refine ⟨caps2, ?_⟩
  rw [readMessage_def]
  rw [h1]
  simp only [if_neg (Nat.not_lt.mpr hb)]
  rw [h2, List.drop_drop]

theorem readAllWith_succ (next : Reader → MsgOut) (k : Nat) (r : Reader) :
    readAllWith next (k+1) r =
      if (next r).res.isMsg then
        ⟨(next r).res :: (readAllWith next k (next r).rest).results,
         (readAllWith next k (next r).rest).rest,
         (next r).allocs ++ (readAllWith next k (next r).rest).allocs⟩
      else ⟨[(next r).res], (next r).rest, (next r).allocs⟩ := rfl

theorem endRes_not_msg (e : Ending) (b : Bool) (k n : Nat) : (endRes e b k n).isMsg = false := by
  cases e
  · unfold endRes; simp only; split <;> rfl
  · unfold endRes; simp only; split <;> rfl
  · rfl
  · rfl

/-- The whole reading loop, whatever the caps: results and bytes consumed are those of the
declarative cut of the byte string. -/
theorem readAll_spec (max : Nat) (e : Ending) : ∀ (count : Nat) (d : Bytes) (caps : List Nat),
    ∃ caps', (readAll max count ⟨d, caps, e⟩).results = expected max count d e ∧
      (readAll max count ⟨d, caps, e⟩).rest = ⟨d.drop (consumed max count d), caps', e⟩
  | 0, d, caps => ⟨caps, by simp [readAll, readAllWith, expected, frames, tailRes, consumed]⟩
  | k+1, d, caps => by
    unfold readAll
    rw [readAllWith_succ]
    by_cases h4 : d.length < 4
    · obtain ⟨caps', h'⟩ := readMessage_prefix_short max d caps e h4
      refine ⟨caps', ?_⟩
      rw [h']
      simp only [endRes_not_msg, Bool.false_eq_true, if_false]
      have hc : consumed max (k+1) d = d.length := by simp [consumed, h4]
      rw [hc, List.drop_length]
      refine ⟨?_, rfl⟩
      by_cases h0 : d.length = 0
      · simp [expected, frames, h0, tailRes]
      · simp [expected, frames, h0, h4, tailRes]
    · have h4' : 4 ≤ d.length := Nat.not_lt.mp h4
      by_cases hb : be32 (d.take 4) > max
      · obtain ⟨caps', h'⟩ := readMessage_tooLarge max d caps e h4' hb
        refine ⟨caps', ?_⟩
        rw [h']
        have h0 : d.length ≠ 0 := by omega
        simp [Res.isMsg, expected, frames, consumed, h0, h4, hb, tailRes]
      · have hb' : be32 (d.take 4) ≤ max := Nat.not_lt.mp hb
        by_cases hs : d.length - 4 < be32 (d.take 4)
        · obtain ⟨caps', h'⟩ := readMessage_body_short max d caps e h4' hb' hs
          refine ⟨caps', ?_⟩
          rw [h']
          have h0 : d.length ≠ 0 := by omega
          simp [endRes_not_msg, expected, frames, consumed, h0, h4, hb, hs, tailRes]
        · have hs' : be32 (d.take 4) ≤ d.length - 4 := Nat.not_lt.mp hs
          obtain ⟨caps1, h1⟩ := readMessage_msg max d caps e h4' hb' hs'
          rw [h1]
          obtain ⟨caps', ih1, ih2⟩ := readAll_spec max e k (d.drop (4 + be32 (d.take 4))) caps1
          refine ⟨caps', ?_⟩
          unfold readAll at ih1 ih2
          have h0 : d.length ≠ 0 := by omega
          simp only [Res.isMsg, if_true]
          rw [ih1, ih2]
          simp [expected, frames, consumed, h0, h4, hb, hs, List.drop_drop]

/-- `DecodeNext` is `readDelimitedMessageRaw` with a limit no 32-bit prefix can exceed. -/
theorem decodeNext_eq (r : Reader) : decodeNext r = readMessage 4294967295 r := by
  unfold decodeNext
  rw [readMessage_def]
  rw [readFull_eq]
  cases h : readN 4 r with
  | err e o r' => rfl
  | stall o r' => rfl
  | ok p r' =>
    have hl := readN_ok_len 4 r p r' h
    have := be32_lt p hl
    simp only [readFull_eq]
    rw [if_neg (by omega)]
    cases readN (be32 p) r' <;> rfl

theorem decodeAll_eq (k : Nat) (r : Reader) : decodeAll k r = readAll 4294967295 k r := by
  unfold decodeAll readAll
  have : decodeNext = readMessage 4294967295 := funext decodeNext_eq
  rw [this]

/-! ### the declarative cut on encoded messages -/

theorem encode_append_take4 (m rest : Bytes) : (encode m ++ rest).take 4 = putBe32 m.length := by
  simp [encode, putBe32]

theorem frames_succ (max k : Nat) (d : Bytes) :
    frames max (k+1) d =
      if d.length = 0 then ([], .clean)
      else if d.length < 4 then ([], .inPrefix d.length)
      else
        if be32 (d.take 4) > max then ([], .tooLarge (be32 (d.take 4)))
        else if d.length - 4 < be32 (d.take 4) then ([], .inBody (d.length - 4) (be32 (d.take 4)))
        else
          ((d.drop 4).take (be32 (d.take 4)) :: (frames max k (d.drop (4 + be32 (d.take 4)))).1,
           (frames max k (d.drop (4 + be32 (d.take 4)))).2) := rfl

theorem consumed_succ (max k : Nat) (d : Bytes) :
    consumed max (k+1) d =
      if d.length < 4 then d.length
      else
        if be32 (d.take 4) > max then 4
        else if d.length - 4 < be32 (d.take 4) then d.length
        else 4 + be32 (d.take 4) + consumed max k (d.drop (4 + be32 (d.take 4))) := rfl

theorem frames_encode (max k : Nat) (m rest : Bytes) (hm : m.length ≤ max)
    (h32 : m.length < 4294967296) :
    frames max (k+1) (encode m ++ rest) = (m :: (frames max k rest).1, (frames max k rest).2) := by
  have hlen : (encode m ++ rest).length = 4 + m.length + rest.length := by
    simp [encode_length]
  have hsz : be32 ((encode m ++ rest).take 4) = m.length := by
    rw [encode_append_take4, be32_putBe32 _ h32]
  have hdrop : (encode m ++ rest).drop (4 + m.length) = rest :=
    List.drop_left' (encode_length m)
  have htake : ((encode m ++ rest).drop 4).take m.length = m := by
    have : (encode m ++ rest).drop 4 = m ++ rest := by
      simp [encode, putBe32]
    rw [this]; exact List.take_left' rfl
  rw [frames_succ]
  simp only [hsz, hlen, hdrop, htake]
  rw [if_neg (by omega), if_neg (by omega), if_neg (by omega), if_neg (by omega)]

theorem frames_msgs (max : Nat) : ∀ (msgs : List Bytes) (k : Nat) (tail : Bytes), Fits max msgs →
    frames max (msgs.length + k) (msgs.flatMap encode ++ tail) =
      (msgs ++ (frames max k tail).1, (frames max k tail).2)
  | [], k, tail, _ => by simp
  | m :: ms, k, tail, hf => by
    have hm := hf m (by simp)
    have hms : Fits max ms := fun x hx => hf x (by simp [hx])
    have : (m :: ms).length + k = (ms.length + k) + 1 := by simp; omega
    rw [this, List.flatMap_cons, List.append_assoc, frames_encode max _ m _ hm.1 hm.2,
      frames_msgs max ms k tail hms]
    simp

theorem frames_nil (max k : Nat) : frames max (k+1) [] = ([], .clean) := by
  simp [frames]

theorem frames_cut_prefix (max k j : Nat) (m : Bytes) (h0 : 0 < j) (h4 : j < 4) :
    frames max (k+1) ((encode m).take j) = ([], .inPrefix j) := by
  have hl : ((encode m).take j).length = j := by
    rw [List.length_take, encode_length]; omega
  rw [frames_succ, hl, if_neg (by omega), if_pos h4]

theorem frames_cut_body (max k j : Nat) (m : Bytes) (hm : m.length ≤ max)
    (h32 : m.length < 4294967296) (h4 : 4 ≤ j) (hj : j < 4 + m.length) :
    frames max (k+1) ((encode m).take j) = ([], .inBody (j - 4) m.length) := by
  have hl : ((encode m).take j).length = j := by
    rw [List.length_take, encode_length]; omega
  have ht : ((encode m).take j).take 4 = putBe32 m.length := by
    rw [List.take_take, Nat.min_eq_left h4]
    have := encode_append_take4 m []
    simpa using this
  rw [frames_succ]
  simp only [hl, ht, be32_putBe32 _ h32]
  rw [if_neg (by omega), if_neg (by omega), if_neg (by omega), if_pos (by omega)]

theorem frames_oversize (max k n : Nat) (rest : Bytes) (hn : max < n) (h32 : n < 4294967296) :
    frames max (k+1) (putBe32 n ++ rest) = ([], .tooLarge n) := by
  have hl : (putBe32 n ++ rest).length = 4 + rest.length := by simp [putBe32_length]
  have ht : (putBe32 n ++ rest).take 4 = putBe32 n := List.take_left' rfl
  rw [frames_succ]
  simp only [hl, ht, be32_putBe32 _ h32]
  rw [if_neg (by omega), if_neg (by omega), if_pos hn]

theorem consumed_msgs (max : Nat) : ∀ (msgs : List Bytes) (k : Nat) (tail : Bytes), Fits max msgs →
    consumed max (msgs.length + k) (msgs.flatMap encode ++ tail) =
      (msgs.flatMap encode).length + consumed max k tail
  | [], k, tail, _ => by simp
  | m :: ms, k, tail, hf => by
    have hm := hf m (by simp)
    have hms : Fits max ms := fun x hx => hf x (by simp [hx])
    have : (m :: ms).length + k = (ms.length + k) + 1 := by simp; omega
    rw [this, List.flatMap_cons, List.append_assoc]
    have hlen : (encode m ++ (ms.flatMap encode ++ tail)).length
        = 4 + m.length + (ms.flatMap encode ++ tail).length := by simp [encode_length]
    have hsz : be32 ((encode m ++ (ms.flatMap encode ++ tail)).take 4) = m.length := by
      rw [encode_append_take4, be32_putBe32 _ hm.2]
    have hdrop : (encode m ++ (ms.flatMap encode ++ tail)).drop (4 + m.length)
        = ms.flatMap encode ++ tail := List.drop_left' (encode_length m)
    rw [consumed_succ]
    simp only [hsz, hlen, hdrop]
    rw [if_neg (by omega), if_neg (by omega), if_neg (by omega), consumed_msgs max ms k tail hms]
    simp only [List.length_append, encode_length]; omega

theorem consumed_oversize (max k n : Nat) (rest : Bytes) (hn : max < n) (h32 : n < 4294967296) :
    consumed max (k+1) (putBe32 n ++ rest) = 4 := by
  have hl : (putBe32 n ++ rest).length = 4 + rest.length := by simp [putBe32_length]
  have ht : (putBe32 n ++ rest).take 4 = putBe32 n := List.take_left' rfl
  rw [consumed_succ]
  simp only [hl, ht, be32_putBe32 _ h32]
  rw [if_neg (by omega), if_pos hn]

theorem expected_msgs (max : Nat) (msgs : List Bytes) (tail : Bytes) (e : Ending)
    (hf : Fits max msgs) :
    expected max (msgs.length + 1) (msgs.flatMap encode ++ tail) e =
      msgs.map Res.msg ++ ((frames max 1 tail).1.map Res.msg ++ tailRes e (frames max 1 tail).2) := by
  unfold expected
  simp only [frames_msgs max msgs 1 tail hf, List.map_append, List.append_assoc]

theorem readMessage_allocs (max : Nat) (r : Reader) :
    ∀ a ∈ (readMessage max r).allocs, a = 4 ∨ a ≤ max := by
  rw [readMessage_def]
  cases readN 4 r with
  | err e o r' => simp
  | stall o r' => simp
  | ok p r' =>
    simp only
    by_cases hb : be32 p > max
    · simp [hb]
    · rw [if_neg hb]
      cases readN (be32 p) r' <;> simp <;> omega

theorem readAll_allocs (max : Nat) : ∀ (k : Nat) (r : Reader),
    ∀ a ∈ (readAll max k r).allocs, a = 4 ∨ a ≤ max
  | 0, r => by simp [readAll, readAllWith]
  | k+1, r => by
    unfold readAll
    rw [readAllWith_succ]
    split
    · intro a ha
      simp only [List.mem_append] at ha
      rcases ha with ha | ha
      · exact readMessage_allocs max r a ha
      · exact readAll_allocs max k _ a ha
    · exact readMessage_allocs max r

theorem foldl_writeStep (h : List (Option Bytes)) : ∀ s : Bytes,
    h.foldl writeStep s = s ++ (h.filterMap id).flatMap encode := by
  induction h with
  | nil => intro s; simp
  | cons x xs ih =>
    intro s
    cases x with
    | none => simp [writeStep, ih]
    | some m => simp [writeStep, ih]

theorem writeHistory_eq (h : List (Option Bytes)) :
    writeHistory h = (h.filterMap id).flatMap encode := by
  unfold writeHistory
  rw [foldl_writeStep]; simp

end ConfModel.Delimited
