//go:build verif

package connectconformance

import (
	"bytes"
	"context"
	"fmt"
	"io"
	"sort"
	"sync"
	"sync/atomic"
	"syscall"
	"time"

	"connectrpc.com/conformance/internal"
	conformancev1 "connectrpc.com/conformance/internal/gen/proto/go/connectrpc/conformance/v1"
	"google.golang.org/protobuf/proto"
)

// C05, op "handshake": one batch through the real runTestCasesForServer against a server that starts
// properly but reads its ServerCompatRequest in one of the ways a server legitimately may:
//
//	blind  answers first, reads its input afterwards
//	msg    reads exactly the one length-prefixed message, then answers
//	eof    reads its input to its END, then decodes the message and answers
//
// as a real OS process (a /bin/sh script started through the repository's runCommand: real exec,
// real pipes) or in-process (the repository's runInProcess: io.Pipe).  The client records what it is
// handed and answers every request with the expected response.
type VerifC05HandshakeSpec struct {
	Kind     string `json:"kind"` // sh | inproc
	Read     string `json:"read"` // blind | msg | eof
	N        int    `json:"n"`
	UseTLS   bool   `json:"useTLS"`
	DelayMs  int    `json:"delayMs"` // the server waits this long before it answers (after it has read what it wants to read)
	TimeoutS int    `json:"timeoutS"`
}

type VerifC05HandshakeObs struct {
	Names    []string    `json:"names"`    // the permutations of the batch
	Handed   []string    `json:"handed"`   // test names handed to the client, one entry per sendRequest
	AddrOK   bool        `json:"addrOK"`   // every handed request carries the server's host and port (and certificate iff TLS)
	SeenOK   bool        `json:"seenOK"`   // in-process: the request the server decoded is the one for this instance
	Outcomes [][2]string `json:"outcomes"` // sorted (name, class)
	Hang     bool        `json:"hang"`
	Alive    bool        `json:"alive"` // the server is still running after the batch returned
	Script   string      `json:"script,omitempty"`
	Elapsed  int64       `json:"elapsedMs"`
}

type verifC05RecClient struct {
	mu     sync.Mutex
	handed []string
	addrOK bool
	tls    bool
	async  sync.WaitGroup
}

func (c *verifC05RecClient) sendRequest(req *conformancev1.ClientCompatRequest, whenDone func(string, *conformancev1.ClientCompatResponse, error)) error {
	c.mu.Lock()
	c.handed = append(c.handed, req.TestName)
	if req.Host != "127.0.0.1" || req.Port != 9 || (len(req.ServerTlsCert) > 0) != c.tls {
		c.addrOK = false
	}
	c.mu.Unlock()
	c.async.Add(1)
	go func() {
		defer c.async.Done()
		whenDone(req.TestName, &conformancev1.ClientCompatResponse{TestName: req.TestName,
			Result: &conformancev1.ClientCompatResponse_Response{Response: &conformancev1.ClientResponseResult{Payloads: []*conformancev1.ConformancePayload{{Data: []byte("data")}}}}}, nil)
	}()
	return nil
}
func (c *verifC05RecClient) closeSend()              {}
func (c *verifC05RecClient) waitForResponses() error { return nil }
func (c *verifC05RecClient) isRunning() bool         { return true }
func (c *verifC05RecClient) stop()                   {}

func verifC05Octal(b []byte) string {
	var sb bytes.Buffer
	for _, x := range b {
		fmt.Fprintf(&sb, "\\%03o", x)
	}
	return sb.String()
}

func VerifC05Handshake(spec VerifC05HandshakeSpec) VerifC05HandshakeObs {
	obs := VerifC05HandshakeObs{Names: []string{}, Handed: []string{}, Outcomes: [][2]string{}}
	if spec.N < 0 || spec.N > 64 || (spec.Kind != "sh" && spec.Kind != "inproc") ||
		(spec.Read != "blind" && spec.Read != "msg" && spec.Read != "eof") || spec.DelayMs < 0 || spec.DelayMs > 5000 {
		return obs // not a scenario (mutated input)
	}
	cases := make([]*conformancev1.TestCase, spec.N)
	for i := range cases {
		cases[i] = &conformancev1.TestCase{
			Request:          &conformancev1.ClientCompatRequest{TestName: VerifC10Name(i)},
			ExpectedResponse: &conformancev1.ClientResponseResult{Payloads: []*conformancev1.ConformancePayload{{Data: []byte("data")}}},
		}
		obs.Names = append(obs.Names, VerifC10Name(i))
	}
	meta := serverInstance{protocol: conformancev1.Protocol_PROTOCOL_GRPC_WEB, httpVersion: conformancev1.HTTPVersion_HTTP_VERSION_2, useTLS: spec.UseTLS}
	var creds *conformancev1.TLSCreds
	if spec.UseTLS {
		creds = &conformancev1.TLSCreds{Cert: []byte("server certificate"), Key: []byte("server key")}
	}
	// the request the runner will write (for the length the `msg` script has to consume, and to
	// compare with what the in-process server decodes)
	want := &conformancev1.ServerCompatRequest{Protocol: meta.protocol, HttpVersion: meta.httpVersion, UseTls: meta.useTLS,
		ServerCreds: creds, MessageReceiveLimit: serverReceiveLimit}
	var framed bytes.Buffer
	if err := internal.WriteDelimitedMessage(&framed, want); err != nil {
		panic(err)
	}
	resp := &conformancev1.ServerCompatResponse{Host: "127.0.0.1", Port: 9}
	if spec.UseTLS {
		resp.PemCert = []byte("cert")
	}
	var respFramed bytes.Buffer
	if err := internal.WriteDelimitedMessage(&respFramed, resp); err != nil {
		panic(err)
	}

	var pid int
	var pidMu sync.Mutex
	var inprocRunning atomic.Bool
	var seenOK atomic.Bool
	seenOK.Store(true)
	var starter processStarter
	switch spec.Kind {
	case "sh":
		answer := fmt.Sprintf("sleep %d.%03d; printf '%s'", spec.DelayMs/1000, spec.DelayMs%1000, verifC05Octal(respFramed.Bytes()))
		var script string
		switch spec.Read {
		case "blind":
			script = answer + "; cat >/dev/null; exec sleep 40"
		case "msg":
			script = fmt.Sprintf("head -c %d >/dev/null; %s; exec sleep 40", framed.Len(), answer)
		case "eof":
			script = "cat >/dev/null; " + answer + "; exec sleep 40"
		}
		obs.Script = script
		inner := runCommand([]string{"/bin/sh", "-c", script})
		starter = func(ctx context.Context, pipeStderr bool) (*process, error) {
			p, err := inner(ctx, pipeStderr)
			if err == nil {
				if cp, ok := p.processController.(*cmdProcess); ok && cp.cmd.Process != nil {
					pidMu.Lock()
					pid = cp.cmd.Process.Pid
					pidMu.Unlock()
				}
			}
			return p, err
		}
	case "inproc":
		starter = runInProcess([]string{"verif-server"}, func(ctx context.Context, _ []string, in io.ReadCloser, out, _ io.WriteCloser) error {
			inprocRunning.Store(true)
			defer inprocRunning.Store(false)
			var got conformancev1.ServerCompatRequest
			check := func(err error) {
				if err != nil || !proto.Equal(&got, want) {
					seenOK.Store(false)
				}
			}
			answer := func() error {
				select {
				case <-time.After(time.Duration(spec.DelayMs) * time.Millisecond):
				case <-ctx.Done():
					return ctx.Err()
				}
				_, err := out.Write(respFramed.Bytes())
				return err
			}
			switch spec.Read {
			case "blind":
				if err := answer(); err != nil {
					return err
				}
				all, err := io.ReadAll(in)
				if err == nil {
					err = internal.ReadDelimitedMessage(bytes.NewReader(all), &got, "runner", time.Second, 1<<20)
				}
				check(err)
			case "msg":
				check(internal.ReadDelimitedMessage(in, &got, "runner", 20*time.Second, 1<<20))
				if err := answer(); err != nil {
					return err
				}
			case "eof":
				all, err := io.ReadAll(in)
				if err == nil {
					err = internal.ReadDelimitedMessage(bytes.NewReader(all), &got, "runner", time.Second, 1<<20)
				}
				check(err)
				if err := answer(); err != nil {
					return err
				}
			}
			<-ctx.Done()
			return nil
		})
	}

	client := &verifC05RecClient{addrOK: true, tls: spec.UseTLS}
	results := newResults(len(cases), &testTrie{}, &testTrie{}, nil)
	t0 := time.Now()
	done := make(chan struct{})
	go func() {
		defer close(done)
		runTestCasesForServer(context.Background(), false, false, meta, cases, creds, nil, starter,
			verifNopPrinter{}, verifNopPrinter{}, results, client, nil, false)
	}()
	timeout := spec.TimeoutS
	if timeout <= 0 || timeout > 60 {
		timeout = 30
	}
	dog := VerifNewDog(timeout)
	defer dog.Stop()
	select {
	case <-done:
	case <-dog.C:
		obs.Hang = true
	}
	obs.Elapsed = time.Since(t0).Milliseconds()
	switch spec.Kind {
	case "sh":
		pidMu.Lock()
		p := pid
		pidMu.Unlock()
		if p > 0 {
			obs.Alive = syscall.Kill(p, 0) == nil
			if obs.Alive {
				_ = syscall.Kill(p, syscall.SIGKILL) // do not leak the script
			}
		}
	case "inproc":
		obs.Alive = inprocRunning.Load()
	}
	client.mu.Lock()
	obs.Handed = append(obs.Handed, client.handed...)
	obs.AddrOK = client.addrOK
	client.mu.Unlock()
	obs.SeenOK = seenOK.Load()
	if !obs.Hang {
		client.async.Wait()
		results.mu.Lock()
		for name, o := range results.outcomes {
			obs.Outcomes = append(obs.Outcomes, [2]string{name, verifC11Class(o)})
		}
		results.mu.Unlock()
	}
	sort.Strings(obs.Handed)
	sort.Slice(obs.Outcomes, func(i, j int) bool { return obs.Outcomes[i][0] < obs.Outcomes[j][0] })
	return obs
}
