import ConfModel.Driver.Common
import ConfModel.Model.Expand
import ConfModel.Spec.Padding
namespace ConfModel.Driver.C19
open Lean ConfModel.Driver ConfModel.Expand ConfModel.Padding

/-- error class as the harness reports it (`negLen` is worded "can't pad ..." too) -/
def clsOf : Out → String
  | .ok _ => "ok"
  | .range => "range"
  | .negLen => "cantPad"
  | .cantPad _ => "cantPad"
  | .panic => "panic"

structure Dir where
  r : Nat
  l0 : Nat
  off : Option Int

/-- `expandRequestData` over the directives: stops at the first error; messages before it
keep their new padding, the failing one and those after it are untouched -/
def run (limit : Nat) : List Dir → String × List Nat
  | [] => ("ok", [])
  | d :: ds =>
    match d.off with
    | none => let (c, ls) := run limit ds; (c, d.l0 :: ls)
    | some off =>
      match expand limit d.r d.l0 off with
      | .ok L => let (c, ls) := run limit ds; (c, L :: ls)
      | o => (clsOf o, d.l0 :: ds.map (·.l0))

def handle : Handler := fun op inp impl =>
  match op with
  | "expand" =>
    let cls := str (field impl "class")
    if cls == "panic" then
      { agree := false, holds := false, cls := "panic",
        why := "panic in expandRequestData (neither padded nor an error)" } else
    let limit := nat (field impl "limit")
    let ims := arr (field impl "msgs")
    let inMsgs := arr (field inp "msgs")
    let extra := int (field inp "extra")
    let nDir : Int := (inMsgs.length : Int) + extra
    let offs : List (Option Int) := inMsgs.zipIdx.map (fun (m, i) =>
      if (i : Int) < nDir && !(isNull (field m "off")) then some (int (field m "off")) else none)
    let dirs : List Dir := (ims.zip offs).map (fun (o, off) => ⟨nat (field o "r"), nat (field o "l0"), off⟩)
    let (mCls, mLs) : String × List Nat :=
      if nDir > inMsgs.length then ("count", dirs.map (·.l0)) else run limit dirs
    let iLs := ims.map (fun o => nat (field o "l"))
    let rest := bool (field impl "restEqual")
    -- the property: accepted => every expanded message has exactly limit+off bytes and only
    -- its padding field changed, the others are untouched; otherwise an error was returned
    let perMsg := (ims.zip offs).all (fun (o, off) =>
      match off with
      | some off => holdsExpand limit off true false (nat (field o "size")) (bool (field o "others"))
      | none => bool (field o "unchanged"))
    let holds := if cls == "ok" then perMsg && rest else true
    let zero := ims.all (fun o => bool (field o "zeroPad"))
    { agree := cls == mCls && iLs == mLs && zero && ims.length == inMsgs.length,
      holds := holds,
      nontrivial := offs.any (·.isSome),
      cls := cls,
      model := Json.mkObj [("class", mCls), ("l", toJson mLs)],
      why := if holds then "" else
        s!"expand: accepted but sizes {ims.map (fun o => nat (field o "size"))} for offsets {offs.map (·.getD 0)} at limit {limit}, others/unchanged/rest flags {ims.map (fun o => bool (field o "others"))} {ims.map (fun o => bool (field o "unchanged"))} {rest}" }
  | "sharp" =>
    -- end to end, implementation half only: the real reference server / client enforce the
    -- limit through connect-go; the predicate is the property's sentence itself
    let limit := nat (field impl "limit")
    let size := nat (field impl "size")
    let outcome := str (field impl "outcome")
    let got := nat (field impl "got")
    let echo := nat (field impl "echo")
    let n := if isNull (field inp "n") then 1 else nat (field inp "n")
    let want := if accepts limit size then "ok" else "resource_exhausted"
    let holds := holdsSharp limit size (outcome == "ok") (outcome == "resource_exhausted") n got echo
      && size > 0
    { agree := holds, holds := holds, nontrivial := true,
      cls := str (field inp "side") ++ ":" ++ str (field inp "stream") ++ ":" ++ outcome,
      model := Json.mkObj [("outcome", want)],
      why := if holds then "" else
        s!"limit not sharp: message of {size} bytes (position {nat (field inp "pos")} of {n}) against limit {limit} gave {outcome} with {got} messages handed on, the tested one with {echo} bytes ({str (field impl "detail")}); want {want}" }
  | _ => bad ("unknown op " ++ op)

end ConfModel.Driver.C19
