import ConfModel.Lemmas.DataTracer
import ConfModel.Model.H2Body
namespace ConfModel.DataTracer

theorem unfinished_init : unfinished init = [] := by decide

theorem brun_append (c : Cfg) : ∀ (a b : List BOp) (s : St),
    brun c s (a ++ b) = ((brun c (brun c s a).1 b).1, (brun c s a).2 ++ (brun c (brun c s a).1 b).2)
  | [], b, s => by simp [brun]
  | o :: a, b, s => by
    simp only [List.cons_append, brun]
    rw [brun_append c a b]
    simp [List.append_assoc]

theorem brun_datas (c : Cfg) : ∀ (chunks : List Bytes) (s : St),
    brun c s (chunks.map BOp.data) = feedAll c s chunks
  | [], s => by simp [brun, feedAll]
  | d :: ds, s => by
    simp only [List.map_cons, brun, bstep, feedAll]
    rw [brun_datas c ds]

/-- any number of `emitUnfinished` calls on a fresh state emit nothing and leave it fresh -/
theorem brun_flushes_init (c : Cfg) : ∀ k : Nat, brun c init (List.replicate k BOp.flush) = (init, [])
  | 0 => rfl
  | k+1 => by
    simp only [List.replicate_succ, brun, bstep, unfinished_init, List.nil_append]
    rw [brun_flushes_init c k]

theorem qEvs_append (a b : List HOut) : qEvs (a ++ b) = qEvs a ++ qEvs b := by
  induction a with
  | nil => rfl
  | cons x t ih => cases x <;> simp [qEvs, ih]

theorem pEvs_append (a b : List HOut) : pEvs (a ++ b) = pEvs a ++ pEvs b := by
  induction a with
  | nil => rfl
  | cons x t ih => cases x <;> simp [pEvs, ih]

theorem qEvs_mapq (l : List Ev) : qEvs (l.map HOut.q) = l := by
  induction l with
  | nil => rfl
  | cons x t ih => simp [qEvs, ih]

theorem qEvs_mapp (l : List Ev) : qEvs (l.map HOut.p) = [] := by
  induction l with
  | nil => rfl
  | cons x t ih => simp [qEvs, ih]

theorem pEvs_mapp (l : List Ev) : pEvs (l.map HOut.p) = l := by
  induction l with
  | nil => rfl
  | cons x t ih => simp [pEvs, ih]

theorem pEvs_mapq (l : List Ev) : pEvs (l.map HOut.q) = [] := by
  induction l with
  | nil => rfl
  | cons x t ih => simp [pEvs, ih]

theorem qEnds_append (a b : List HOut) : qEnds (a ++ b) = qEnds a + qEnds b := by
  induction a with
  | nil => simp [qEnds]
  | cons x t ih => cases x <;> simp [qEnds, ih] <;> omega

theorem qEnds_mapq (l : List Ev) : qEnds (l.map HOut.q) = 0 := by
  induction l with
  | nil => rfl
  | cons x t ih => simp [qEnds, ih]

theorem qEnds_mapp (l : List Ev) : qEnds (l.map HOut.p) = 0 := by
  induction l with
  | nil => rfl
  | cons x t ih => simp [qEnds, ih]

/-- the code adds one `RequestBodyEnd` per request-ending operation — it does not look whether the
request had ended before -/
theorem hrun_qEnds (cq cp : Cfg) : ∀ (ops : List HOp) (h : HSt),
    qEnds (hrun cq cp h ops).2 = (ops.filter isReqEndOp).length
  | [], _ => by simp [hrun, qEnds]
  | o :: os, h => by
    cases o <;>
      simp [hrun, hstep, qEnds_append, qEnds_mapq, qEnds_mapp, qEnds, isReqEndOp, hrun_qEnds cq cp os, List.filter_cons]

/-- the request-side events of a stream are those of its request tracer alone -/
theorem hrun_req (cq cp : Cfg) : ∀ (ops : List HOp) (h : HSt),
    qEvs (hrun cq cp h ops).2 = (brun cq h.req (reqProj ops)).2 ∧ (hrun cq cp h ops).1.req = (brun cq h.req (reqProj ops)).1
  | [], h => by simp [hrun, brun, reqProj, qEvs]
  | o :: os, h => by
    cases o <;>
      simp [hrun, hstep, reqProj, brun, bstep, qEvs_append, qEvs_mapq, qEvs_mapp, qEvs,
        (hrun_req cq cp os _).1, (hrun_req cq cp os _).2]

/-- … and the response-side events those of its response tracer -/
theorem hrun_resp (cq cp : Cfg) : ∀ (ops : List HOp) (h : HSt),
    pEvs (hrun cq cp h ops).2 = (brun cp h.resp (respProj ops)).2 ∧ (hrun cq cp h ops).1.resp = (brun cp h.resp (respProj ops)).1
  | [], h => by simp [hrun, brun, respProj, pEvs]
  | o :: os, h => by
    cases o <;>
      simp [hrun, hstep, respProj, brun, bstep, pEvs_append, pEvs_mapq, pEvs_mapp, pEvs,
        (hrun_resp cq cp os _).1, (hrun_resp cq cp os _).2]

end ConfModel.DataTracer
