/-
C04 — the run succeeds iff every selected case ran and met its expectation.
Property theorems only; helper lemmas live in `ConfModel.Lemmas.Report`.
The model (`ConfModel.Model.Report`) is `results.go` after the repair of finding F03.
All statements are for every number of selected cases, every outcome map and every sideband.
-/
import ConfModel.Lemmas.Report
import ConfModel.Lemmas.ReportScript
import ConfModel.Lemmas.RunLoop
import ConfModel.Lemmas.FeedbackRun
import ConfModel.Lemmas.ReportMsg
import ConfModel.Model.FeedbackLineRepair
import ConfModel.Model.FeedbackLabel
import ConfModel.Model.Cli
import ConfModel.Model.SrvFeedback
import ConfModel.Props.C10
import ConfModel.Props.C11
namespace ConfModel.Props.C04
open ConfModel.Report ConfModel.RunVerdict

/-- the outcomes `report` looks at: recorded outcomes with the peer feedback merged in -/
local notation "merged" => processSideband

/-- the case failed (its result deviated, the client reported an error, a peer complained, …) -/
def Failed (o : Outcome) : Prop := o.failure ≠ .none

/-- an outcome meets its expectation: it is not a setup error, the case could be run, a
known-failing case failed, an unmarked case did not fail (a known-flaky one may do either) -/
def Meets (o : Outcome) : Prop :=
  o.setupError = false ∧ o.failure ≠ .couldNotRun ∧
  (o.knownFailing = true → Failed o) ∧
  (o.knownFailing = false → o.knownFlaky = false → ¬ Failed o)

instance (o : Outcome) : Decidable (Meets o) := by unfold Meets Failed; exact inferInstance

/-- `testOutcome`'s documented invariant: `setupError` qualifies an error (every call site of
`setOutcome(_, true, err)` passes a non-nil `err`) -/
def WF (os : Outcomes) : Prop := ∀ e ∈ os, e.2.setupError = true → e.2.failure ≠ .none

theorem classify_good_iff (o : Outcome) (h : o.setupError = true → o.failure ≠ .none) :
    goodClass (classify o) = true ↔ Meets o := by
  obtain ⟨f, s, kf, kl⟩ := o
  cases f <;> cases s <;> cases kf <;> cases kl <;> simp_all [classify, expectError, goodClass, Meets, Failed]

theorem wf_mergeOne (mk : Marks) (os : Outcomes) (n : String) (h : WF os) : WF (mergeOne mk os n) := by
  intro x hx hs
  unfold mergeOne at hx
  cases ho : get? os n with
  | some o =>
    rw [ho] at hx
    rcases mem_of_mem_put _ _ _ _ _ hx with ⟨_, hv⟩ | hm
    · have hmem := get?_some_mem _ _ _ ho
      have := h _ hmem
      rw [hv] at hs ⊢
      simp only at hs ⊢
      split
      · simp
      · assumption
    · exact h _ hm hs
  | none =>
    rw [ho] at hx
    rcases mem_of_mem_put _ _ _ _ _ hx with ⟨_, hv⟩ | hm
    · rw [hv] at hs; simp at hs
    · exact h _ hm hs

theorem wf_merged (mk : Marks) (os : Outcomes) (sb : Sideband) (h : WF os) : WF (merged mk os sb) := by
  unfold processSideband
  induction sb generalizing os with
  | nil => exact h
  | cons e t ih => exact ih _ (wf_mergeOne mk os e.1 h)

/-- **Headline.**  `report` returns success exactly when no selected case is without an outcome
and every outcome meets its expectation. -/
theorem report_ok_iff (mk : Marks) (t : Nat) (os : Outcomes) (sb : Sideband) (h : WF os) :
    (report mk t os sb).ok = true ↔
      t ≤ (merged mk os sb).length ∧ ∀ e ∈ merged mk os sb, Meets e.2 := by
  have hw := wf_merged mk os sb h
  simp only [report, reportWith, Bool.and_eq_true, beq_iff_eq, Nat.add_eq_zero_iff, count_eq_zero_iff]
  constructor
  · rintro ⟨⟨h1, h2⟩, h3, h4⟩
    refine ⟨by omega, fun e he => ?_⟩
    rw [← classify_good_iff _ (hw e he)]
    have a := h1 e he; have b := h2 e he; have c := h4 e he
    cases hc : classify e.2 <;> simp_all [goodClass]
  · rintro ⟨h1, h2⟩
    have key : ∀ e ∈ merged mk os sb, goodClass (classify e.2) = true :=
      fun e he => (classify_good_iff _ (hw e he)).2 (h2 e he)
    refine ⟨⟨fun e he hc => ?_, fun e he hc => ?_⟩, by omega, fun e he hc => ?_⟩ <;>
      (have := key e he; rw [hc] at this; cases this)

example : (report ⟨fun _ => false, fun n => n == "b"⟩ 2 [("a", ⟨.none, false, false, false⟩), ("b", ⟨.assertion, false, false, true⟩)] []).ok = true := by decide

/-- A setup error is never excused, whatever the marking. -/
theorem setup_never_excused (mk : Marks) (t : Nat) (os : Outcomes) (sb : Sideband) (h : WF os)
    (n : String) (o : Outcome) (hm : (n, o) ∈ merged mk os sb) (hs : o.setupError = true) :
    (report mk t os sb).ok = false := by
  cases hr : (report mk t os sb).ok
  · rfl
  · have := ((report_ok_iff mk t os sb h).1 hr).2 _ hm
    simp [Meets, hs] at this

/-- A case that could not be run is never excused, whatever the marking. -/
theorem couldNotRun_never_excused (mk : Marks) (t : Nat) (os : Outcomes) (sb : Sideband) (h : WF os)
    (n : String) (o : Outcome) (hm : (n, o) ∈ merged mk os sb) (hs : o.failure = .couldNotRun) :
    (report mk t os sb).ok = false := by
  cases hr : (report mk t os sb).ok
  · rfl
  · have := ((report_ok_iff mk t os sb h).1 hr).2 _ hm
    simp [Meets, hs] at this

/-- A selected case without any outcome is never excused. -/
theorem missing_never_excused (mk : Marks) (t : Nat) (os : Outcomes) (sb : Sideband) (h : WF os)
    (hlt : (merged mk os sb).length < t) : (report mk t os sb).ok = false := by
  cases hr : (report mk t os sb).ok
  · rfl
  · have := ((report_ok_iff mk t os sb h).1 hr).1
    omega

/-- The verdict of `Run` is success only if `report` succeeded and `run` returned no error. -/
theorem runVerdict_iff (r : Report) (runErr : Bool) :
    runVerdict r runErr = true ↔ r.ok = true ∧ runErr = false := by
  simp [runVerdict]

/-- The printed totals account for every selected case exactly once, and the numbers printed
as failed / failed-as-expected are the numbers of names on the `FAILED` / `INFO` lines. -/
theorem totals_partition (mk : Marks) (t : Nat) (os : Outcomes) (sb : Sideband)
    (ht : (merged mk os sb).length ≤ t) :
    let r := report mk t os sb
    r.succeeded + r.failed + r.expectedFailures + r.couldNotRun = t ∧
    r.totalCases = (merged mk os sb).length ∧
    r.couldNotRun = count .couldNotRun (merged mk os sb) + (t - (merged mk os sb).length) ∧
    r.failedNames.length = r.failed ∧ r.infoNames.length = r.expectedFailures := by
  have hp := count_partition (merged mk os sb)
  simp only [report, reportWith, namesOf_length_failed, namesOf_length_info]
  exact ⟨by omega, trivial, by omega, trivial, trivial⟩

/-- Exactly the cases that ran but did not meet their expectation are named `FAILED`;
exactly the expected failures are named `INFO`. -/
theorem failing_named (mk : Marks) (t : Nat) (os : Outcomes) (sb : Sideband) (n : String) :
    (n ∈ (report mk t os sb).failedNames ↔
      ∃ o, (n, o) ∈ merged mk os sb ∧ (classify o = .failed ∨ classify o = .unexpectedPass)) ∧
    (n ∈ (report mk t os sb).infoNames ↔ ∃ o, (n, o) ∈ merged mk os sb ∧ classify o = .info) := by
  simp only [report, reportWith, mem_namesOf]
  constructor
  · constructor
    · rintro ⟨o, hm, hp⟩; refine ⟨o, hm, ?_⟩; cases hc : classify o <;> simp_all [isFailedClass]
    · rintro ⟨o, hm, hp | hp⟩ <;> exact ⟨o, hm, by simp [hp, isFailedClass]⟩
  · constructor
    · rintro ⟨o, hm, hp⟩; refine ⟨o, hm, ?_⟩; cases hc : classify o <;> simp_all [isInfoClass]
    · rintro ⟨o, hm, hp⟩; exact ⟨o, hm, by simp [hp, isInfoClass]⟩

/-- Every outcome that does not meet its expectation and is not a could-not-run is named. -/
theorem unmet_named (mk : Marks) (t : Nat) (os : Outcomes) (sb : Sideband) (h : WF os)
    (n : String) (o : Outcome) (hm : (n, o) ∈ merged mk os sb) (hu : ¬ Meets o)
    (hc : o.failure ≠ .couldNotRun) : n ∈ (report mk t os sb).failedNames := by
  rw [(failing_named mk t os sb n).1]
  refine ⟨o, hm, ?_⟩
  have hw := wf_merged mk os sb h _ hm
  have hg : ¬ goodClass (classify o) = true := fun hg => hu ((classify_good_iff o hw).1 hg)
  cases hcl : classify o <;> simp_all [goodClass]
  simp [classify, hc] at hcl
  split at hcl <;> try split at hcl <;> try split at hcl
  all_goals simp_all

private theorem mergeOne_self (mk : Marks) (os : Outcomes) (n : String) :
    ∃ o, (n, o) ∈ mergeOne mk os n ∧ Failed o := by
  unfold mergeOne
  cases ho : get? os n with
  | some o =>
    refine ⟨_, mem_put_self _ _ _, ?_⟩
    simp only [Failed]
    split
    · simp
    · assumption
  | none => exact ⟨_, mem_put_self _ _ _, by simp [Failed]⟩

private theorem mergeOne_keeps (mk : Marks) (os : Outcomes) (n m : String)
    (h : ∃ o, (n, o) ∈ os ∧ Failed o) : ∃ o, (n, o) ∈ mergeOne mk os m ∧ Failed o := by
  by_cases hmn : m = n
  · subst hmn; exact mergeOne_self mk os m
  · obtain ⟨o, ho, hf⟩ := h
    refine ⟨o, ?_, hf⟩
    unfold mergeOne
    cases get? os m with
    | some o' => exact mem_put_of_ne _ _ _ _ _ (fun e => hmn e.symm) ho
    | none => exact mem_put_of_ne _ _ _ _ _ (fun e => hmn e.symm) ho

private theorem merged_failed (mk : Marks) (sb : Sideband) (os : Outcomes) (n : String)
    (h : (∃ o, (n, o) ∈ os ∧ Failed o) ∨ ∃ msg, (n, msg) ∈ sb) :
    ∃ o, (n, o) ∈ merged mk os sb ∧ Failed o := by
  unfold processSideband
  induction sb generalizing os with
  | nil =>
    rcases h with h | ⟨_, h⟩
    · exact h
    · cases h
  | cons e t ih =>
    apply ih
    rcases h with h | ⟨msg, h⟩
    · exact Or.inl (mergeOne_keeps mk os n e.1 h)
    · rcases List.mem_cons.1 h with h | h
      · left; rw [← h]; exact mergeOne_self mk os n
      · exact Or.inr ⟨msg, h⟩

/-- Peer feedback turns a case into a failed one: a case with feedback has, when `report` looks,
an outcome that failed; unless it is marked known-failing or known-flaky the run does not
succeed and the case is named `FAILED` (or counted among those that could not be run). -/
theorem feedback_fails (mk : Marks) (t : Nat) (os : Outcomes) (sb : Sideband) (h : WF os)
    (n msg : String) (hn : (n, msg) ∈ sb) :
    ∃ o, (n, o) ∈ merged mk os sb ∧ Failed o ∧
      (o.knownFailing = false → o.knownFlaky = false →
        (report mk t os sb).ok = false ∧
        (o.failure = .couldNotRun ∨ n ∈ (report mk t os sb).failedNames)) := by
  obtain ⟨o, hm, hf⟩ := merged_failed mk sb os n (Or.inr ⟨msg, hn⟩)
  refine ⟨o, hm, hf, fun h1 h2 => ?_⟩
  have hu : ¬ Meets o := fun hmeets => hmeets.2.2.2 h1 h2 hf
  constructor
  · cases hr : (report mk t os sb).ok
    · rfl
    · exact absurd (((report_ok_iff mk t os sb h).1 hr).2 _ hm) hu
  · by_cases hc : o.failure = .couldNotRun
    · exact Or.inl hc
    · exact Or.inr (unmet_named mk t os sb h n o hm hu hc)

example : (report ⟨fun _ => false, fun _ => false⟩ 1 [("a", ⟨.none, false, false, false⟩)] [("a", "odd wire format")]).ok = false ∧
    (report ⟨fun _ => false, fun _ => false⟩ 1 [("a", ⟨.none, false, false, false⟩)] [("a", "odd wire format")]).failedNames = ["a"] := by
  decide

/-- **The rule of the property, on assignments.**  For every assignment of
{pass, assertion failure, client error, setup error, no result, could-not-run, nothing recorded}
× marking × peer feedback to any number of selected cases, plus `extra` selected cases about
which nothing is known: `report` on the resulting outcome map succeeds exactly when the
declarative rule `specOk` says so, prints exactly the totals `specTotals`, names exactly the
failing cases on `FAILED` lines and the expected failures on `INFO` lines. -/
theorem assignment_report (mk : Marks) (cases : List Case) (extra : Nat) :
    let r := report mk (cases.length + extra) (finalMap cases) []
    r.ok = specOk cases extra ∧
    (⟨r.succeeded, r.failed, r.expectedFailures, r.couldNotRun⟩ : Totals) = specTotals cases extra ∧
    r.failedNames = specFailedNames cases ∧ r.infoNames = specInfoNames cases := by
  have e1 : onClass isFailedClass false = Case.countsFailed := funext fun c => (countsFailed_eq c).symm
  have e2 : onClass isInfoClass false = Case.countsExpected := funext fun c => (countsExpected_eq c).symm
  have e3 : onClass (fun k => decide (k = Class.succeeded)) false = Case.countsPassed :=
    funext fun c => (countsPassed_eq c).symm
  have hS : count .succeeded (finalMap cases) = cases.countP Case.countsPassed := by
    have := countP_finalMap (fun k => decide (k = Class.succeeded)) cases
    rw [e3] at this; exact this
  have hF : count .failed (finalMap cases) + count .unexpectedPass (finalMap cases) = cases.countP Case.countsFailed := by
    rw [count_failed_add, countP_finalMap, e1]
  have hI : count .info (finalMap cases) = cases.countP Case.countsExpected := by
    have := countP_finalMap isInfoClass cases
    rw [e2] at this
    rw [← this, ← namesOf_length, namesOf_length_info]
  have hN : (cases.length + extra - (finalMap cases).length) + count .couldNotRun (finalMap cases)
      = cases.countP Case.notRun + extra := by
    have := countP_finalMap (fun k => decide (k = Class.couldNotRun)) cases
    have hle : cases.countP (fun c => (classOf c).isSome) ≤ cases.length := List.countP_le_length
    rw [countP_notRun, length_finalMap]
    unfold count
    rw [this]
    omega
  simp only [report, reportWith, processSideband_nil]
  refine ⟨?_, ?_, ?_, ?_⟩
  · rw [hF, hN, Bool.eq_iff_iff]
    simp only [specOk, Bool.and_eq_true, beq_iff_eq, all_meets_iff]
    omega
  · rw [hS, hF, hI, hN]; rfl
  · rw [namesOf_finalMap, e1]; rfl
  · rw [namesOf_finalMap, e2]; rfl

/-- non-vacuity / the witness of DESIGN.md: one pass and two cases that never ran is a failure;
a known-failing case that fails, a flaky one that passes and a passing one are a success. -/
example : specOk [⟨"a", .pass, .unmarked, false⟩] 2 = false ∧
    specOk [⟨"a", .assertFail, .failing, false⟩, ⟨"b", .pass, .flaky, false⟩, ⟨"c", .pass, .unmarked, false⟩] 0 = true ∧
    specOk [⟨"a", .setupErr, .failing, false⟩] 0 = false ∧ specOk [⟨"a", .pass, .unmarked, true⟩] 0 = false := by decide

/-- **The API call sequence realises the assignment.**  Driving `testResults` as the
correspondence wrapper does (`assert` / `failed` / `failedToStart` / `setOutcome` with a
`couldNotRunError` per case in any interleaving with `recordSideband`, then `failRemaining` over
the cases whose batch ran, then `report`) yields, for every assignment to cases with distinct
names and `extra` further selected cases: the verdict `specOk`, the totals `specTotals`, and
`FAILED` / `INFO` lines naming exactly the failing cases / the expected failures. -/
theorem script_report_spec (steps : List Step) (extra : Nat)
    (hd : ((steps.map (·.c)).map (·.name)).Nodup) :
    let cases := steps.map (·.c)
    let r := scriptReport (cases.length + extra) steps
    r.ok = specOk cases extra ∧
    (⟨r.succeeded, r.failed, r.expectedFailures, r.couldNotRun⟩ : Totals) = specTotals cases extra ∧
    r.failedNames.Perm (specFailedNames cases) ∧ r.infoNames.Perm (specInfoNames cases) := by
  intro cases r
  have hperm : (scriptMap steps).Perm (finalMap cases) := scriptMap_perm steps hd
  have hA := assignment_report (marksOf cases) cases extra
  simp only [report, reportWith, processSideband_nil] at hA
  obtain ⟨h1, h2, h3, h4⟩ := hA
  have hr : r = reportWith (fun failed couldNotRun => failed == 0 && couldNotRun == 0) (marksOf cases)
      (cases.length + extra) (runSteps (marksOf cases) steps).1 (runSteps (marksOf cases) steps).2 := rfl
  have hM : processSideband (marksOf cases) (runSteps (marksOf cases) steps).1 (runSteps (marksOf cases) steps).2
      = scriptMap steps := rfl
  have hc : ∀ k, count k (scriptMap steps) = count k (finalMap cases) := fun k => hperm.countP_eq _
  have hl : (scriptMap steps).length = (finalMap cases).length := hperm.length_eq
  have hn : ∀ p, (namesOf p (scriptMap steps)).Perm (namesOf p (finalMap cases)) :=
    fun p => (hperm.filter _).map _
  rw [hr]
  simp only [reportWith, hM, hc, hl]
  refine ⟨h1, h2, ?_, ?_⟩
  · rw [← h3]; exact hn _
  · rw [← h4]; exact hn _

/-! ### What a peer SAYS never changes what happened

The message of a client-reported error and the feedback text of a reference peer are arbitrary
strings — empty, blank, many lines, format verbs, very long.  `ConfModel.ReportMsg` is the model of
results.go that keeps them (error VALUES built as the Go code builds them, `report` looking at them
with `!= nil` and `errors.As` only).  Its report is the report of the text-free model on the same
calls, for all texts; hence verdict, totals and names do not depend on any text. -/

open ConfModel.ReportMsg in
/-- `report` with the texts = `report` of the text-free view (outcome map and sideband) -/
theorem report_texts_erased (mk : Marks) (total : Nat) (os : MOutcomes) (sb : Sideband) :
    ReportMsg.report mk total os sb = Report.report mk total (eraseAll os) (eraseSb sb) :=
  report_erase mk total os sb

open ConfModel.ReportMsg in
/-- **report_message_irrelevant.**  Two states of `testResults` that differ only in texts — the same
names with the same kinds of error values, flags and feedback for the same names, but any messages
whatsoever — are reported identically: same verdict, same totals, same FAILED / INFO names. -/
theorem report_message_irrelevant (mk : Marks) (total : Nat) (os₁ os₂ : MOutcomes) (sb₁ sb₂ : Sideband)
    (hos : eraseAll os₁ = eraseAll os₂) (hsb : sb₁.map (·.1) = sb₂.map (·.1)) :
    ReportMsg.report mk total os₁ sb₁ = ReportMsg.report mk total os₂ sb₂ := by
  have e : ∀ sb : Sideband, eraseSb sb = (sb.map (·.1)).map (fun n => (n, feedbackMsg)) := by
    intro sb; simp [eraseSb, mapVals]
  rw [report_erase, report_erase, hos, e sb₁, e sb₂, hsb]

open ConfModel.ReportMsg in
/-- **The call script with texts realises the text-free script**, for every assignment of messages
to the client-reported errors and to the peers' feedback. -/
theorem script_report_texts (total : Nat) (steps : List MStep) :
    ReportMsg.scriptReport total steps = Report.scriptReport total (steps.map (·.s)) := by
  have h := erase_runSteps (marksOf (steps.map (·.s.c))) steps
  have h1 := congrArg Prod.fst h
  have h2 := congrArg Prod.snd h
  simp only [] at h1 h2
  simp only [ReportMsg.scriptReport, Report.scriptReport, report_erase, h1, h2, List.map_map, Function.comp_def]

open ConfModel.ReportMsg in
/-- **report_message_irrelevant (call scripts).**  Two runs that differ only in what the peers said
(the same cases, kinds, marks, feedback flags and call order) produce the same report. -/
theorem script_message_irrelevant (total : Nat) (steps₁ steps₂ : List MStep)
    (h : steps₁.map (·.s) = steps₂.map (·.s)) :
    ReportMsg.scriptReport total steps₁ = ReportMsg.scriptReport total steps₂ := by
  rw [script_report_texts, script_report_texts, h]

open ConfModel.ReportMsg in
/-- A client-reported error is a failure whatever its message (the empty one included): unmarked it
is classified `failed`, marked known-failing / known-flaky `info`; it is never a pass. -/
theorem client_error_never_passes (msg : String) (knownFailing knownFlaky : Bool) :
    ReportMsg.classify ⟨some (.leaf .clientError msg), false, knownFailing, knownFlaky⟩ =
      (if knownFailing || knownFlaky then .info else .failed) := by
  cases knownFailing <;> cases knownFlaky <;> rfl

open ConfModel.ReportMsg in
/-- `report_message_irrelevant` / `script_message_irrelevant` on concrete runs: a client error with an
empty message and feedback with an empty text against ordinary ones -/
example :
    let a : Case := ⟨"a", .clientErr, .unmarked, false⟩
    let b : Case := ⟨"b", .pass, .failing, true⟩
    let quiet : List MStep := [⟨⟨a, false⟩, "", ""⟩, ⟨⟨b, true⟩, " \r\n\t\n", ""⟩]
    let loud : List MStep := [⟨⟨a, false⟩, "could not connect: %s", "x"⟩, ⟨⟨b, true⟩, "y", "expected compression gzip"⟩]
    quiet.map (·.s.c.name) = loud.map (·.s.c.name) ∧
    (ReportMsg.scriptReport 2 quiet).ok = false ∧ (ReportMsg.scriptReport 2 quiet).failedNames = ["a"] ∧
    (ReportMsg.scriptReport 2 quiet).infoNames = ["b"] ∧ (ReportMsg.scriptReport 2 loud).failedNames = ["a"] ∧
    eraseAll [("a", ⟨some (.leaf .clientError ""), false, false, false⟩)] =
      eraseAll [("a", ⟨some (.wrap "fb" (.leaf .clientError "boom")), false, false, false⟩)] := by decide

/-- Before the repair (F03) the verdict ignored cases that could not be run or never produced
an outcome: one passing case of three selected ones was reported as success. -/
theorem unrepaired_witness :
    (reportUnrepaired ⟨fun _ => false, fun _ => false⟩ 3 [("a", ⟨.none, false, false, false⟩)] []).ok = true ∧
    (report ⟨fun _ => false, fun _ => false⟩ 3 [("a", ⟨.none, false, false, false⟩)] []).ok = false := by
  decide


/-! ## Composition: the batch loop of `run()` with the producers of outcomes (C11, C10)

`ConfModel.Model.RunLoop`: process fates are inputs.  Hypotheses of the theorems (all decidable):
every batch is non-empty (`run()` skips empty ones), `names` are the test names of the cases of
the batch, test names are distinct over the whole run (C07), no name is marked both known-failing
and known-flaky (`run()` rejects that). -/

open ConfModel.RunLoop
open ConfModel.ServerRunner (Script runBatch)
open ConfModel.ClientRunner (State Event Name run init) 
open ConfModel.ClientRunner.Spec (Terminal retOf cbsOf reqOK)

/-- `report` looks at the merged outcome map only up to the order of its entries (Go map
iteration): if it is the outcome map of an assignment, the verdict, the totals and the names
printed are those of the declarative rule. -/
theorem report_of_perm (mk : Marks) (cases : List Case) (extra : Nat) (os : Outcomes) (sb : Sideband)
    (hperm : (merged mk os sb).Perm (finalMap cases)) :
    let r := report mk (cases.length + extra) os sb
    r.ok = specOk cases extra ∧
    (⟨r.succeeded, r.failed, r.expectedFailures, r.couldNotRun⟩ : Totals) = specTotals cases extra ∧
    r.failedNames.Perm (specFailedNames cases) ∧ r.infoNames.Perm (specInfoNames cases) := by
  intro r
  have hA := assignment_report mk cases extra
  simp only [report, reportWith, processSideband_nil] at hA
  obtain ⟨h1, h2, h3, h4⟩ := hA
  have hc : ∀ k, count k (merged mk os sb) = count k (finalMap cases) := fun k => hperm.countP_eq _
  have hl : (merged mk os sb).length = (finalMap cases).length := hperm.length_eq
  have hn : ∀ p, (namesOf p (merged mk os sb)).Perm (namesOf p (finalMap cases)) :=
    fun p => (hperm.filter _).map _
  have hr : r = reportWith (fun failed couldNotRun => failed == 0 && couldNotRun == 0) mk
      (cases.length + extra) os sb := rfl
  rw [hr]
  simp only [reportWith, hc, hl]
  refine ⟨h1, h2, ?_, ?_⟩
  · rw [← h3]; exact hn _
  · rw [← h4]; exact hn _

/-- **The report of a run is the rule of the property applied to what happened.**  Whatever the
fates of the client and server processes: the verdict of `report`, the printed totals and the
`FAILED` / `INFO` names after the batch loop are those the declarative rule gives for the
assignment that says, for every selected case, what happened to it (`assignment`: the class of the
one outcome its batch recorded for it — C11 —, peer feedback from the server's stderr, or
"nothing known" when its batch was never spawned). -/
theorem run_report_spec (mk : Marks) (w : List Client)
    (hnamed : ∀ s ∈ allScripts w, s.names.length = s.cases.length)
    (hd : (allNames w).Nodup)
    (hex : ∀ n ∈ allNames w, (mk.failing n && mk.flaky n) = false)
    (r : Report) (hr : runReport mk w = some r) :
    r.ok = specOk (assignment mk w) 0 ∧
    (⟨r.succeeded, r.failed, r.expectedFailures, r.couldNotRun⟩ : Totals) = specTotals (assignment mk w) 0 ∧
    r.failedNames.Perm (specFailedNames (assignment mk w)) ∧
    r.infoNames.Perm (specInfoNames (assignment mk w)) := by
  have hp := merged_perm mk w hnamed hd hex
  have hrep := report_of_perm mk (assignment mk w) 0 _ _ hp
  rw [Nat.add_zero, assignment_length] at hrep
  unfold runReport at hr
  split at hr
  · cases hr
  · injection hr with hr; subst hr; exact hrep

/-- Under the declarative rule every selected case is counted under exactly one of the four
printed totals (passed, failed, failed as expected, could not be run). -/
theorem specTotals_sum (cases : List Case) (extra : Nat) :
    (specTotals cases extra).passed + (specTotals cases extra).failed + (specTotals cases extra).expected
      + (specTotals cases extra).notRun = cases.length + extra := by
  have one : ∀ c : Case, (if c.countsPassed then 1 else 0) + (if c.countsFailed then 1 else 0)
      + (if c.countsExpected then 1 else 0) + (if c.notRun then 1 else 0) = 1 := by
    intro c
    obtain ⟨n, k, m, f⟩ := c
    cases k <;> cases m <;> cases f <;> rfl
  have key : ∀ l : List Case, l.countP Case.countsPassed + l.countP Case.countsFailed
      + l.countP Case.countsExpected + l.countP Case.notRun = l.length := by
    intro l
    induction l with
    | nil => rfl
    | cons c cs ih =>
      have h1 := one c
      simp only [List.countP_cons, List.length_cons]
      omega
  have hk := key cases
  simp only [specTotals]
  omega

/-- **The totals of a run account for every selected case exactly once** — also for the cases of
batches that were never spawned (the client had stopped before their turn came): whatever the fates
of the processes, the four numbers printed after the batch loop add up to the number of selected
permutations (`total`: the sum of the batch sizes, what `run()` counts as `filteredTestCount`
independently of its verbosity, before any batch is spawned). -/
theorem run_totals_account (mk : Marks) (w : List Client)
    (hnamed : ∀ s ∈ allScripts w, s.names.length = s.cases.length)
    (hd : (allNames w).Nodup)
    (hex : ∀ n ∈ allNames w, (mk.failing n && mk.flaky n) = false)
    (r : Report) (hr : runReport mk w = some r) :
    r.succeeded + r.failed + r.expectedFailures + r.couldNotRun = total w := by
  have h := (run_report_spec mk w hnamed hd hex r hr).2.1
  have hs := specTotals_sum (assignment mk w) 0
  rw [← h, assignment_length] at hs
  simpa using hs

/-- **run_success_iff (interface layer).**  For every list of clients, every list of batches per
client, every fate of every server process, every observation of the client runner per request
(refused / accepted and answered / accepted and failed), every outcome of every liveness check and
of every final wait: `Run` returns success iff every selected case received a real answer meeting
its expectation (`specOk` of the assignment) and every client started and ended without error. -/
theorem run_success_iff_interface (mk : Marks) (w : List Client)
    (hne : ∀ s ∈ allScripts w, 0 < s.cases.length)
    (hnamed : ∀ s ∈ allScripts w, s.names.length = s.cases.length)
    (hd : (allNames w).Nodup)
    (hex : ∀ n ∈ allNames w, (mk.failing n && mk.flaky n) = false) :
    Run mk w = true ↔
      specOk (assignment mk w) 0 = true ∧ ∀ c ∈ w, c.startErr = false ∧ c.waitErr = false := by
  obtain ⟨t, ht, hok, hclean⟩ := sched_prefix w
  have hp := merged_perm mk w hnamed hd hex
  have hrep := (report_of_perm mk (assignment mk w) 0 _ _ hp).1
  rw [Nat.add_zero, assignment_length] at hrep
  have hrun : ∀ e, (sched w).2 = e → e ≠ .noResults →
      Run mk w = ((report mk (total w) (resultsOf mk (sched w).1).os (resultsOf mk (sched w).1).sb).ok && !(e == .err)) := by
    intro e he hne'
    unfold Run RunWith
    rw [he]
    cases e <;> first | rfl | exact absurd rfl hne'
  constructor
  · intro h
    cases he : (sched w).2 with
    | noResults => simp [Run, RunWith, he] at h
    | err => rw [hrun _ he (by decide)] at h; simp at h
    | ok =>
      rw [hrun _ he (by decide)] at h
      simp only [Bool.and_eq_true] at h
      exact ⟨by rw [← hrep]; exact h.1, (hok he).2⟩
  · rintro ⟨hs, hc⟩
    rcases hclean hc with he | ⟨he, hne'⟩
    · rw [hrun _ he (by decide), hrep, hs]; rfl
    · exfalso
      cases t with
      | nil => exact hne' rfl
      | cons s t' =>
        have hs_mem : s ∈ allScripts w := by rw [← ht]; simp
        obtain ⟨c, hc1, hc2⟩ := missing_not_meets mk s (hne s hs_mem)
        have hin : c ∈ assignment mk w := by
          rw [assignment_eq mk w _ ht]
          exact List.mem_append_right _ (List.mem_flatMap.2 ⟨s, List.mem_cons_self, hc1⟩)
        simp only [specOk, Bool.and_eq_true, List.all_eq_true] at hs
        rw [hs.2 c hin] at hc2
        cases hc2


/-- **The interleaving of concurrently running batches is irrelevant** (`--max-servers` > 1).
Whatever order the `setOutcome` calls of the spawned batches reach `testResults` in (any
permutation `ws` of them), the map `report` looks at is the outcome map of the same assignment —
hence the same verdict, totals and names (`report_of_perm`).  The model records batch after batch;
this is why that loses nothing. -/
theorem interleaving_irrelevant (mk : Marks) (w : List Client)
    (hnamed : ∀ s ∈ allScripts w, s.names.length = s.cases.length)
    (hd : (allNames w).Nodup)
    (hex : ∀ n ∈ allNames w, (mk.failing n && mk.flaky n) = false)
    (ws : List (String × ServerRunner.Class)) (hp : ws.Perm ((sched w).1.flatMap writesOf)) :
    (merged mk (applyWrites mk [] ws) (resultsOf mk (sched w).1).sb).Perm (finalMap (assignment mk w)) := by
  refine List.Perm.trans ?_ (merged_perm mk w hnamed hd hex)
  obtain ⟨t, ht, _, _⟩ := sched_prefix w
  have hdl : ((sched w).1.flatMap batchNames).Nodup := by
    have : ((sched w).1.flatMap batchNames ++ t.flatMap batchNames).Nodup := by
      rw [← List.flatMap_append, ht]; exact hd
    exact (List.nodup_append.1 this).1
  have hwn : (((sched w).1.flatMap writesOf).map (·.1)).Nodup :=
    ((flat_writes_keys_perm _).nodup_iff).2 hdl
  have hsb : (mkeys (resultsOf mk (sched w).1).sb).Nodup := by
    rw [resultsOf_sb]; exact applyNotes_nodup _ _ (by simp [mkeys])
  have n1 : (mkeys (merged mk (applyWrites mk [] ws) (resultsOf mk (sched w).1).sb)).Nodup := by
    rw [processSideband_eq]
    exact mergeAll_nodup _ _ _ (applyWrites_nodup _ _ _ (by simp [mkeys]))
  have n2 := mergedOf_nodup mk (sched w).1
  rw [List.perm_ext_iff_of_nodup (nodup_of_mkeys _ n1) (nodup_of_mkeys _ n2)]
  rintro ⟨n, o⟩
  rw [mem_iff_get? _ n1, mem_iff_get? _ n2]
  unfold mergedOf
  rw [processSideband_eq, processSideband_eq, mergeAll_get _ _ hsb, mergeAll_get _ _ hsb, resultsOf_os,
    writes_perm_get mk _ ws [] hp hwn n]

/-- **Link to C11.**  The one outcome a spawned batch records for case i is the verdict of the
client's own answer when the case got one (`realAnswer`: no set-up fault of the server, handed to
the client before the server died or a send was refused, answered by the client), and a set-up
error class — set-up error proper, could-not-run, no result — in every other situation.
(C11 `outcomes_as_demanded`.) -/
theorem classAt_real (s : Script) (i : Nat) (cls : ServerRunner.Class) (h : classAt s i = some cls) :
    match realAnswer s i with
    | some k => cls = ServerRunner.verdict k ∧ k ≠ .noresult
    | none => ServerRunner.Spec.isSetupErr cls = true := by
  have hd := ConfModel.Props.C11.outcomes_as_demanded s i cls (classAt_mem s i cls h)
  unfold ServerRunner.Spec.expectedOK at hd
  unfold realAnswer
  split at hd
  · rename_i hf
    simp only [hf, if_true]
    have : cls = .setup := by simpa using hd
    subst this; rfl
  · rename_i hf
    simp only [hf]
    split at hd
    · rename_i hlt
      simp only [hlt, if_true]
      split at hd
      · rename_i k a hc
        have hcls : cls = ServerRunner.verdict k := by simpa using hd
        rw [hc]
        cases k <;> simp_all [ServerRunner.verdict, ServerRunner.Spec.isSetupErr]
      · cases hd
    · rename_i hlt
      simp only [hlt, if_false]
      exact hd

/-- A case of a spawned batch "ran and met its expectation" (the spec's `meets`) exactly when it
received a real answer meeting its expectation (`answeredOK`, a predicate on the inputs). -/
theorem ran_meets (mk : Marks) (s : Script) (i : Nat) (hi : i < s.cases.length) :
    (ranCase mk s i).meets = answeredOK mk s i := by
  obtain ⟨cls, hcls, _⟩ := classAt_some s i hi
  have hr := classAt_real s i cls hcls
  simp only [ranCase, hcls]
  unfold answeredOK
  generalize markOf mk (caseName s i) = m
  generalize (notesOf s).any (fun e => e.1 == caseName s i) = fb
  cases hra : realAnswer s i with
  | none =>
    rw [hra] at hr
    cases cls <;> simp_all [kindOfClass, Case.meets, Case.ran, ServerRunner.Spec.isSetupErr]
  | some k =>
    rw [hra] at hr
    obtain ⟨rfl, hk⟩ := hr
    cases k <;> cases m <;> cases fb <;>
      simp_all [kindOfClass, Case.meets, Case.ran, Case.passedRun, Case.failedRun, ServerRunner.verdict] <;>
      decide

/-- The rule of the property on the assignment of a run, in terms of the inputs: every batch was
spawned and every case of every batch received a real answer meeting its expectation. -/
theorem spec_iff_answered (mk : Marks) (w : List Client)
    (hne : ∀ s ∈ allScripts w, 0 < s.cases.length) :
    specOk (assignment mk w) 0 = true ↔
      (sched w).1 = allScripts w ∧
        ∀ s ∈ allScripts w, ∀ i, i < s.cases.length → answeredOK mk s i = true := by
  obtain ⟨t, ht, _, _⟩ := sched_prefix w
  rw [assignment_eq mk w t ht]
  simp only [specOk, beq_self_eq_true, Bool.true_and, List.all_eq_true]
  constructor
  · intro h
    have htn : t = [] := by
      cases t with
      | nil => rfl
      | cons s t' =>
        exfalso
        have hs_mem : s ∈ allScripts w := by rw [← ht]; simp
        obtain ⟨c, hc1, hc2⟩ := missing_not_meets mk s (hne s hs_mem)
        rw [h c (List.mem_append_right _ (List.mem_flatMap.2 ⟨s, List.mem_cons_self, hc1⟩))] at hc2
        cases hc2
    subst htn
    rw [List.append_nil] at ht
    refine ⟨ht, fun s hs i hi => ?_⟩
    rw [← ran_meets mk s i hi]
    apply h
    apply List.mem_append_left
    rw [ht]
    exact List.mem_flatMap.2 ⟨s, hs, List.mem_map.2 ⟨i, List.mem_range.2 hi, rfl⟩⟩
  · rintro ⟨hall, h⟩ c hc
    have htn : t = [] := by
      have := congrArg List.length ht
      rw [hall, List.length_append] at this
      exact List.eq_nil_of_length_eq_zero (by omega)
    subst htn
    simp only [List.flatMap_nil, List.append_nil] at hc
    obtain ⟨s, hs, hcs⟩ := List.mem_flatMap.1 hc
    obtain ⟨i, hi, rfl⟩ := List.mem_map.1 hcs
    rw [ran_meets mk s i (List.mem_range.1 hi)]
    exact h s (hall ▸ hs) i (List.mem_range.1 hi)

/-- **run_success_iff (interface layer, in terms of the inputs only).**  `Run` returns success iff
every client started, no liveness check found the client stopped, every final wait returned
without error, and every case of every batch received a real answer meeting its expectation. -/
theorem run_success_iff_answers (mk : Marks) (w : List Client)
    (hne : ∀ s ∈ allScripts w, 0 < s.cases.length)
    (hnamed : ∀ s ∈ allScripts w, s.names.length = s.cases.length)
    (hd : (allNames w).Nodup)
    (hex : ∀ n ∈ allNames w, (mk.failing n && mk.flaky n) = false) :
    Run mk w = true ↔
      (∀ c ∈ w, c.startErr = false ∧ c.waitErr = false ∧ ∀ b ∈ c.batches, b.noticed = false) ∧
      ∀ s ∈ allScripts w, ∀ i, i < s.cases.length → answeredOK mk s i = true := by
  rw [run_success_iff_interface mk w hne hnamed hd hex, spec_iff_answered mk w hne]
  obtain ⟨t, ht, hok, hclean⟩ := sched_prefix w
  constructor
  · rintro ⟨⟨hall, ha⟩, hc⟩
    refine ⟨?_, ha⟩
    have hk : (sched w).2 = .ok := by
      rcases hclean hc with h | ⟨_, hne'⟩
      · exact h
      · exfalso
        have := congrArg List.length ht
        rw [hall, List.length_append] at this
        exact hne' (List.eq_nil_of_length_eq_zero (by omega))
    obtain ⟨_, hn⟩ := (sched_ok_iff w).1 hk
    exact fun c hcw => ⟨(hc c hcw).1, (hc c hcw).2, hn c hcw⟩
  · rintro ⟨h, ha⟩
    have hc : Clean w := fun c hcw => ⟨(h c hcw).1, (h c hcw).2.1⟩
    have hk : (sched w).2 = .ok := (sched_ok_iff w).2 ⟨hc, fun c hcw => (h c hcw).2.2⟩
    have htn := (hok hk).1
    subst htn
    rw [List.append_nil] at ht
    exact ⟨⟨ht, ha⟩, hc⟩


/-! ### fate layer: the client process as an input -/

/-- **run_success_iff (headline).**  For every list of clients whose processes are described by
their fate — answer the first k requests (any k, also 0 and also "all of them"), then exit with
any status / fall silent / write garbage —, every resolution of the races the fate leaves open
(a send after the stop is refused or still accepted and failed later; the liveness check before a
batch has or has not noticed the stop; a refused send has or has not latched the error), every
split of the selected cases into batches and every fate of every server process: `Run` returns
success iff every selected case received a real answer meeting its expectation (`specOk` of what
happened) and every client process started and ended cleanly (exit status 0 after its last answer,
nothing but responses on its stdout).

In particular (`cleanEnd` holds) for a client that exits with status 0 before all requests were
sent, at any point between or inside batches: the run succeeds iff every selected case was
answered and met its expectation — it does not (`early_stop_fails`). -/
theorem run_success_iff (mk : Marks) (w : List FClient)
    (hne : ∀ s ∈ allScripts (compile w), 0 < s.cases.length)
    (hnamed : ∀ s ∈ allScripts (compile w), s.names.length = s.cases.length)
    (hd : (allNames (compile w)).Nodup)
    (hex : ∀ n ∈ allNames (compile w), (mk.failing n && mk.flaky n) = false) :
    Run mk (compile w) = true ↔
      specOk (assignment mk (compile w)) 0 = true ∧
        ∀ c ∈ w, c.startErr = false ∧ cleanEnd c.fate = true := by
  rw [run_success_iff_interface mk _ hne hnamed hd hex]
  constructor
  · rintro ⟨hs, hc⟩
    refine ⟨hs, fun c hcw => ?_⟩
    have := hc (compileClient c) (List.mem_map.2 ⟨c, hcw, rfl⟩)
    refine ⟨this.1, ?_⟩
    have h2 := this.2
    simp only [compileClient, Bool.or_eq_false_iff, Bool.not_eq_false'] at h2
    exact h2.1
  · rintro ⟨hs, hc⟩
    refine ⟨hs, fun c' hc' => ?_⟩
    obtain ⟨c, hcw, rfl⟩ := List.mem_map.1 hc'
    refine ⟨(hc c hcw).1, ?_⟩
    have hans := ((spec_iff_answered mk _ hne).1 hs).2
    simp only [compileClient, Bool.or_eq_false_iff, Bool.not_eq_false', Bool.and_eq_false_iff]
    refine ⟨(hc c hcw).2, Or.inr ?_⟩
    rw [List.any_eq_false]
    intro s hsm hr
    have hall : s ∈ allScripts (compile w) :=
      List.mem_flatMap.2 ⟨compileClient c, List.mem_map.2 ⟨c, hcw, rfl⟩, batchSched_sub _ s hsm⟩
    obtain ⟨i, hi, hno⟩ := refused_not_answered mk s hr
    rw [hans s hall i hi] at hno
    cases hno

/-- **A client that stops early never lets the run succeed.**  If a client answers only k requests
and more than k cases are assigned to it — whatever it does then (exit with status 0 included),
wherever the k-th answer falls (between or inside batches), however the races resolve, whatever
the servers do — `Run` returns failure. -/
theorem early_stop_fails (mk : Marks) (w : List FClient)
    (hne : ∀ s ∈ allScripts (compile w), 0 < s.cases.length)
    (hnamed : ∀ s ∈ allScripts (compile w), s.names.length = s.cases.length)
    (hd : (allNames (compile w)).Nodup)
    (hex : ∀ n ∈ allNames (compile w), (mk.failing n && mk.flaky n) = false)
    (c : FClient) (hc : c ∈ w) (k : Nat) (hk : c.fate.answers = some k)
    (hlt : k < (c.batches.map (fun b => b.cases.length)).sum) :
    Run mk (compile w) = false := by
  cases hr : Run mk (compile w) with
  | false => rfl
  | true =>
    exfalso
    have ha := ((run_success_iff_answers mk _ hne hnamed hd hex).1 hr).2
    have := answered_all_le mk c.batches k (by
      intro b hb i hi
      apply ha b.s _ i hi
      refine List.mem_flatMap.2 ⟨compileClient c, List.mem_map.2 ⟨c, hc, rfl⟩, ?_⟩
      simp only [compileClient, hk]
      exact List.mem_map.2 ⟨b, hb, rfl⟩)
    omega

/-- **A request that was handed over and never answered is never excused.**  If for some case of
some batch the client runner accepted the request (`sendRequest` returned nil) and its callback
later carried an error instead of the client's answer — the client read the request and exited
with status 0, closed its stdout, timed out … — then `Run` returns failure: whatever the marks
(the case may be known-failing or known-flaky), whatever every other case, batch, server and
client did, and also when nothing else in the run reports an error (`waitErr = false`, no liveness
check noticed anything). -/
theorem accepted_unanswered_fails (mk : Marks) (w : List Client)
    (hne : ∀ s ∈ allScripts w, 0 < s.cases.length)
    (hnamed : ∀ s ∈ allScripts w, s.names.length = s.cases.length)
    (hd : (allNames w).Nodup)
    (hex : ∀ n ∈ allNames w, (mk.failing n && mk.flaky n) = false)
    (s : Script) (hs : s ∈ allScripts w) (i : Nat) (hi : i < s.cases.length) (a : Bool)
    (hc : s.cases[i]? = some (.answer .noresult a)) :
    Run mk w = false := by
  cases hr : Run mk w with
  | false => rfl
  | true =>
    exfalso
    have ha := ((run_success_iff_answers mk w hne hnamed hd hex).1 hr).2 s hs i hi
    have hn : realAnswer s i = none := by
      unfold realAnswer
      split
      · rfl
      · split
        · rw [hc]
        · rfl
    simp [answeredOK, hn] at ha

open ConfModel.FeedbackLine ConfModel.ServerRunner.Spec in
/-- **Feedback of the reference server fails the run, whatever the test case is called.**  If the
stderr of a started reference server carries — after any complete lines `pre`, before anything
`post` — the line its printer writes for case i of the batch (`prefixLine`: the test name, `": "`,
the message, a line break; the name is data, never part of a format), and that case is neither
known-failing nor known-flaky, then `Run` returns failure, whatever the client answered for it
(the expected result included).  For every test name the reader's framing can carry: no `": "`
and no line break inside, no white space in front — format verbs, colons, blanks, slashes,
anything else are just characters. -/
theorem feedback_line_fails (mk : Marks) (w : List Client)
    (hne : ∀ s ∈ allScripts w, 0 < s.cases.length)
    (hnamed : ∀ s ∈ allScripts w, s.names.length = s.cases.length)
    (hd : (allNames w).Nodup)
    (hex : ∀ n ∈ allNames w, (mk.failing n && mk.flaky n) = false)
    (s : Script) (hs : s ∈ allScripts w) (i : Nat) (hi : i < s.cases.length)
    (hstart : s.startErr = false) (href : s.isRef = true)
    (nm text : List Char) (hnm : s.names[i]? = some nm)
    (hsep : noSep nm = true) (hn : startsClean nm = true) (hnl : oneLine nm = true)
    (ht : endsClean text = true) (htl : oneLine text = true)
    (pre : List (List Char)) (hpre : ∀ l ∈ pre, oneLine l = true) (post : List Char)
    (herr : s.stderr = streamOf pre ++ prefixLine nm text ++ post)
    (hmark : markOf mk (caseName s i) = .unmarked) :
    Run mk w = false := by
  cases hr : Run mk w with
  | false => rfl
  | true =>
    exfalso
    have ha := ((run_success_iff_answers mk w hne hnamed hd hex).1 hr).2 s hs i hi
    have hmem : nm ∈ s.names := List.mem_of_getElem? hnm
    have hrec := recorded_in_stream s.names nm text hmem hsep hn hnl ht htl pre hpre post
    rw [← herr] at hrec
    have hnote := notesOf_of_recorded s hstart href i nm text hnm hrec
    unfold answeredOK at ha
    cases hk : realAnswer s i with
    | none => simp [hk] at ha
    | some k => simp [hk, hnote, hmark] at ha

open ConfModel.FeedbackLine ConfModel.ServerRunner ConfModel.ServerRunner.Spec in
/-- **Attribution of feedback is exact string equality, for EVERY label.**  What the batch runner's
reader does with the line the reference server's printer writes under a label `lbl` (any string the
framing can carry: no `": "` inside, no white space in front — per-cent escapes, `+`, upper and lower
case, non-ASCII, anything) is decided by whether `lbl` IS one of the batch's test names: then it is a
`recordSideband` call for exactly `lbl` with exactly `text`; otherwise the line is forwarded as noise
and nothing is recorded for anybody.  There is no normalisation between label and name. -/
theorem feedback_attribution_exact (names : List (List Char)) (lbl text : List Char)
    (hsep : noSep lbl = true) (hn : startsClean lbl = true) (ht : endsClean text = true) :
    lineAct names (prefixLine lbl text) =
      if lbl ∈ names then .record lbl text else .forward (prefixLine lbl text) := by
  rw [prefixLine_eq lbl text ht, lineAct_label names lbl text hsep hn ht]
  simp only [List.contains_eq_mem, decide_eq_true_eq]

open ConfModel.FeedbackLine ConfModel.ServerRunner ConfModel.ServerRunner.Spec in
/-- … hence a complaint reaches the case `nm` of the batch iff the server's label EQUALS `nm`: a
reference server that prints its complaint under any other string — the unescaped, case-folded,
trimmed, normalised form of the name — has it recorded for another case (if that string happens to
name one) or for nobody. -/
theorem feedback_label_must_equal_name (names : List (List Char)) (nm lbl text : List Char)
    (hm : nm ∈ names)
    (hsep : noSep lbl = true) (hn : startsClean lbl = true) (ht : endsClean text = true) :
    (∃ t, lineAct names (prefixLine lbl text) = .record nm t) ↔ lbl = nm := by
  rw [feedback_attribution_exact names lbl text hsep hn ht]
  constructor
  · rintro ⟨t, h⟩
    by_cases hl : lbl ∈ names
    · rw [if_pos hl] at h
      injection h
    · rw [if_neg hl] at h
      exact absurd h (by simp)
  · rintro rfl
    exact ⟨text, by rw [if_pos hm]⟩

open ConfModel.FeedbackLabel in
/-- **The label the reference server prints is the test name the runner sent, for EVERY name**: the
runner's `x-test-case-name` header read back by `getTestCaseName` is the name itself (only the empty
name, which `newTestCaseLibrary` rejects, does not come back). -/
theorem label_is_name (nm : List Char) (hne : nm ≠ []) :
    getTestCaseName (headerOf nm) = some nm := by
  cases nm with
  | nil => exact absurd rfl hne
  | cons c t => rfl

open ConfModel.FeedbackLine ConfModel.FeedbackLabel ConfModel.ServerRunner.Spec in
/-- **feedback_request_fails.**  `feedback_line_fails` from the REQUEST on: if the stderr of a started
reference server carries the complaint it writes about a request with the `x-test-case-name` header
the runner adds for case i (`complaint (headerOf nm) text`), the case is unmarked and its name is one
the framing can carry, `Run` fails — whatever else the name contains. -/
theorem feedback_request_fails (mk : Marks) (w : List Client)
    (hne : ∀ s ∈ allScripts w, 0 < s.cases.length)
    (hnamed : ∀ s ∈ allScripts w, s.names.length = s.cases.length)
    (hd : (allNames w).Nodup)
    (hex : ∀ n ∈ allNames w, (mk.failing n && mk.flaky n) = false)
    (s : Script) (hs : s ∈ allScripts w) (i : Nat) (hi : i < s.cases.length)
    (hstart : s.startErr = false) (href : s.isRef = true)
    (nm text : List Char) (hnm : s.names[i]? = some nm) (hnonempty : nm ≠ [])
    (hsep : noSep nm = true) (hn : startsClean nm = true) (hnl : oneLine nm = true)
    (ht : endsClean text = true) (htl : oneLine text = true)
    (pre : List (List Char)) (hpre : ∀ l ∈ pre, oneLine l = true) (post : List Char)
    (herr : s.stderr = streamOf pre ++ complaint (headerOf nm) text ++ post)
    (hmark : markOf mk (caseName s i) = .unmarked) :
    Run mk w = false := by
  have hc : complaint (headerOf nm) text = prefixLine nm text := by
    unfold complaint
    rw [label_is_name nm hnonempty]
  rw [hc] at herr
  exact feedback_line_fails mk w hne hnamed hd hex s hs i hi hstart href nm text hnm hsep hn hnl ht htl
    pre hpre post herr hmark

open ConfModel.FeedbackLine ConfModel.ServerRunner.Spec in
/-- **feedback_any_phase_fails.**  Feedback counts whenever the reference server prints it before it
has ENDED: the runner reads the server's stderr until the server is gone, so the stream is what the
server printed in every phase of its life (`Life.stderr`).  If the line the server's printer writes
for case i of the batch stands in ANY phase — before the first request, while the batch is answered,
after the last response, or during the graceful shutdown that follows the runner's abort — and the
case is not marked, `Run` returns failure, whatever the client answered for it. -/
theorem feedback_any_phase_fails (mk : Marks) (w : List Client)
    (hne : ∀ s ∈ allScripts w, 0 < s.cases.length)
    (hnamed : ∀ s ∈ allScripts w, s.names.length = s.cases.length)
    (hd : (allNames w).Nodup)
    (hex : ∀ n ∈ allNames w, (mk.failing n && mk.flaky n) = false)
    (s : Script) (hs : s ∈ allScripts w) (i : Nat) (hi : i < s.cases.length)
    (hstart : s.startErr = false) (href : s.isRef = true)
    (nm text : List Char) (hnm : s.names[i]? = some nm)
    (hsep : noSep nm = true) (hn : startsClean nm = true) (hnl : oneLine nm = true)
    (ht : endsClean text = true) (htl : oneLine text = true)
    (life : Life) (hall : ∀ l ∈ life.lines, oneLine l = true)
    (hphase : (nm ++ ':' :: ' ' :: text) ∈ life.beforeFirst ∨ (nm ++ ':' :: ' ' :: text) ∈ life.during ∨
      (nm ++ ':' :: ' ' :: text) ∈ life.afterLast ∨ (nm ++ ':' :: ' ' :: text) ∈ life.shutdown)
    (herr : s.stderr = life.stderr)
    (hmark : markOf mk (caseName s i) = .unmarked) :
    Run mk w = false := by
  have hmem : (nm ++ ':' :: ' ' :: text) ∈ life.lines := by
    simp only [Life.lines, List.mem_append]
    rcases hphase with h | h | h | h
    · exact Or.inl (Or.inl (Or.inl h))
    · exact Or.inl (Or.inl (Or.inr h))
    · exact Or.inl (Or.inr h)
    · exact Or.inr h
  obtain ⟨a, b, hab⟩ := List.append_of_mem hmem
  have hpre : ∀ l ∈ a, oneLine l = true := fun l hl => hall l (by rw [hab]; exact List.mem_append_left _ hl)
  refine feedback_line_fails mk w hne hnamed hd hex s hs i hi hstart href nm text hnm hsep hn hnl ht htl
    a hpre (streamOf b) ?_ hmark
  rw [herr, Life.stderr, hab, streamOf_split, prefixLine_eq nm text ht]

/-! ### non-vacuity: concrete runs -/

def okServer : ServerFate :=
  { isRef := true, useTLS := false, startErr := false, writeErr := false, closeErr := false,
    resp := .ok, dies := none, stderr := [] }

def tc (n : String) (a : Ans) (late : Bool) : TestCase := { name := n.toList, ans := a, async := true, late := late }

/-- two batches (2 + 1 cases) for one client -/
def demoBatches (noticed late : Bool) : List FBatch :=
  [ { cases := [tc "a" .pass late, tc "b" .mismatch late], srv := okServer, noticed := noticed },
    { cases := [tc "c" .pass late], srv := okServer, noticed := noticed } ]

def demoClient (k : Option Nat) (stop : Stop) (status : Nat) (noticed late : Bool) : FClient :=
  { startErr := false, fate := { answers := k, stop := stop, status := status, latch := late },
    batches := demoBatches noticed late }

/-- "b" is known to fail -/
def demoMarks : Marks := { failing := fun n => n == "b", flaky := fun _ => false }

def demoWorld := compile [demoClient (some 2) .exit 0 true true]

example : (∀ s ∈ allScripts demoWorld, 0 < s.cases.length) ∧
    (∀ s ∈ allScripts demoWorld, s.names.length = s.cases.length) ∧
    (allNames demoWorld).Nodup ∧
    (∀ n ∈ allNames demoWorld, (demoMarks.failing n && demoMarks.flaky n) = false) := by decide

/-- the client answers "a" and "b", exits with status 0, the check before the second batch finds it gone -/
example : (assignment demoMarks demoWorld).map (fun c => (c.name, c.kind, c.mark, c.feedback)) =
    [("a", .pass, .unmarked, false), ("b", .assertFail, .failing, false), ("c", .missing, .unmarked, false)] := by decide


/-- `run_report_spec` / `run_success_iff_interface` / `run_success_iff_answers` / `run_success_iff` /
`early_stop_fails` on concrete runs (hypotheses checked above): a client that serves everything and
exits 0 on the closing of its stdin, and one that exits 0 after exactly all three answers: success;
exits with status 0 after two answers — noticed or not by the check before the second batch, later
sends refused or accepted and failed —, after one answer inside the first batch, before any
request: failure; serves everything but exits with status 3: failure -/
example : Run demoMarks (compile [demoClient none .exit 0 false false]) = true ∧
    Run demoMarks (compile [demoClient (some 3) .exit 0 false false]) = true ∧
    Run demoMarks (compile [demoClient (some 2) .exit 0 false false]) = false ∧
    Run demoMarks (compile [demoClient (some 2) .exit 0 true false]) = false ∧
    Run demoMarks (compile [demoClient (some 2) .exit 0 false true]) = false ∧
    Run demoMarks (compile [demoClient (some 1) .exit 0 true true]) = false ∧
    Run demoMarks (compile [demoClient (some 0) .exit 0 false true]) = false ∧
    Run demoMarks (compile [demoClient none .exit 3 false true]) = false ∧
    Run demoMarks (compile [demoClient none .silent 0 false true]) = false := by decide

example : (runReport demoMarks demoWorld).map (fun r => [r.succeeded, r.failed, r.expectedFailures, r.couldNotRun]) = some [1, 0, 1, 1] ∧
    (runReport demoMarks demoWorld).map (fun r => (r.ok, r.failedNames, r.infoNames)) = some (false, [], ["b"]) := by decide

/-- `run_totals_account` on `demoWorld`: the second of the two batches is never spawned, its case
"c" is nevertheless counted (under "could not be run"): the totals add up to all three selected cases -/
example : (sched demoWorld).1.length = 1 ∧ (allScripts demoWorld).length = 2 ∧ total demoWorld = 3 ∧
    (runReport demoMarks demoWorld).map (fun r => r.succeeded + r.failed + r.expectedFailures + r.couldNotRun) = some 3 := by decide

/-- hypotheses of `report_of_perm`, `classAt_real`, `ran_meets` (first batch of `demoWorld`: "a"
answered as expected, "b" answered with a deviating response and known to fail) -/
example : (merged demoMarks (finalMap [⟨"a", .pass, .unmarked, false⟩]) []).Perm (finalMap [⟨"a", .pass, .unmarked, false⟩]) :=
  List.Perm.refl _

example : (allScripts demoWorld).map (fun s => (classAt s 0, realAnswer s 0, classAt s 1, realAnswer s 1, answeredOK demoMarks s 1)) =
    [(some .pass, some .pass, some .fail, some .mismatch, true), (some .noresult, none, none, none, false)] := by decide

/-- hypothesis of `interleaving_irrelevant`: a genuine reordering of the two `setOutcome` calls of the
spawned batch of `demoWorld` -/
example : ((sched demoWorld).1.flatMap writesOf).reverse.Perm ((sched demoWorld).1.flatMap writesOf) ∧
    ((sched demoWorld).1.flatMap writesOf).reverse = [("b", .fail), ("a", .pass)] :=
  ⟨List.reverse_perm _, by decide⟩

/-- hypotheses of `early_stop_fails` -/
example : (demoClient (some 2) .exit 0 true true).fate.answers = some 2 ∧
    2 < ((demoClient (some 2) .exit 0 true true).batches.map (fun b => b.cases.length)).sum := by decide

/-- hypotheses of `accepted_unanswered_fails`: the client answers "a" and "b", reads the request
for "c" and exits with status 0 (`late`: the send was accepted); "c" is known-flaky, "b" known-failing;
nothing else reports an error (`waitErr = false`), yet the run fails -/
example :
    let w := compile [demoClient (some 2) .exit 0 false true]
    let mk : Marks := { failing := fun n => n == "b", flaky := fun n => n == "c" }
    (allScripts w).map (·.cases) = [[.answer .pass true, .answer .mismatch true], [.answer .noresult true]] ∧
    w.map (·.waitErr) = [false] ∧ Run mk w = false := by decide

/-- a batch whose reference server complains about case "S/50%off" (the client answered as expected) -/
def fbWorld (line : List Char) : List Client :=
  [{ startErr := false, waitErr := false
     batches := [{ noticed := false
                   s := { cases := [.answer .pass true, .answer .pass true], isRef := true, useTLS := false,
                          startErr := false, writeErr := false, closeErr := false, resp := .ok, dies := none,
                          names := ["S/50%off".toList, "S/other".toList], stderr := line } }] }]

open ConfModel.FeedbackLine in
/-- hypotheses of `feedback_line_fails` — and what the run looks like when the test name *is* made
part of the format (`fmt` mangles `50%off` and the arguments; the reader cannot attribute the line):
the same run succeeds -/
example :
    let good := streamOf ["starting".toList] ++ prefixLine "S/50%off".toList "expected compression gzip; instead got identity".toList ++ "bye".toList
    let mangled := "starting\nS/50%!o(string=gzip)ff: expected compression identity; instead got %!s(MISSING)\nbye".toList
    let mk : Marks := { failing := fun _ => false, flaky := fun _ => false }
    Run mk (fbWorld good) = false ∧ Run mk (fbWorld mangled) = true ∧ Run mk (fbWorld []) = true ∧
    ServerRunner.Spec.noSep "S/50%off".toList = true ∧ startsClean "S/50%off".toList = true ∧
    markOf mk "S/50%off" = .unmarked := by decide

/-- a batch whose reference server complains about the case whose name holds a VALID per-cent escape -/
def fbWorldPct (line : List Char) : List Client :=
  [{ startErr := false, waitErr := false
     batches := [{ noticed := false
                   s := { cases := [.answer .pass true, .answer .pass true], isRef := true, useTLS := false,
                          startErr := false, writeErr := false, closeErr := false, resp := .ok, dies := none,
                          names := ["S/wrong-codec-100%25-compressible".toList, "S/a%41".toList], stderr := line } }] }]

open ConfModel.FeedbackLine ConfModel.FeedbackLabel ConfModel.ServerRunner in
/-- hypotheses of `feedback_attribution_exact`, `feedback_label_must_equal_name`, `label_is_name` and
`feedback_request_fails` on a name with `%25`: the complaint printed under the name as it was sent fails
the run; printed under the unescaped form of the name (`…100%-compressible`) it is forwarded as noise and
the run SUCCEEDS although the peer complained; the unescaped form `S/aA` of the twin `S/a%41` is nobody's
name either — and would be somebody else's if the batch held a case called `S/aA`. -/
example :
    let nm := "S/wrong-codec-100%25-compressible".toList
    let decoded := "S/wrong-codec-100%-compressible".toList
    let text := "expected codec proto; instead got json".toList
    let names := [nm, "S/a%41".toList]
    let mk : Marks := { failing := fun _ => false, flaky := fun _ => false }
    Spec.noSep nm = true ∧ startsClean nm = true ∧ endsClean text = true ∧ nm ∈ names ∧ decoded ∉ names ∧
    getTestCaseName (headerOf nm) = some nm ∧
    lineAct names (prefixLine nm text) = .record nm text ∧
    lineAct names (prefixLine decoded text) = .forward (prefixLine decoded text) ∧
    lineAct ("S/aA".toList :: names) (prefixLine "S/aA".toList text) = .record "S/aA".toList text ∧
    Run mk (fbWorldPct (streamOf ["starting".toList] ++ complaint (headerOf nm) text ++ "bye".toList)) = false ∧
    Run mk (fbWorldPct (streamOf ["starting".toList] ++ prefixLine decoded text ++ "bye".toList)) = true ∧
    markOf mk "S/wrong-codec-100%25-compressible" = .unmarked := by decide

open ConfModel.FeedbackLine in
/-- hypotheses of `feedback_any_phase_fails`: the complaint about `S/50%off` printed during the graceful
shutdown (after the abort) fails the run like one printed before the first request; a reader whose pipe
is closed at the abort (`stderrUntilAbort`, not the runner) would let the run succeed -/
example :
    let ln := "S/50%off: request should NOT include any HTTP trailers (1 trailer keys found)".toList
    let late : Life := { beforeFirst := ["listening".toList], during := [], afterLast := [], shutdown := [ln, "bye".toList] }
    let early : Life := { beforeFirst := [ln], during := [], afterLast := [], shutdown := [] }
    let mk : Marks := { failing := fun _ => false, flaky := fun _ => false }
    Run mk (fbWorld late.stderr) = false ∧ Run mk (fbWorld early.stderr) = false ∧
    Run mk (fbWorld late.stderrUntilAbort) = true ∧ (∀ l ∈ late.lines, oneLine l = true) := by decide

/-- a batch of two passing cases with the given names whose reference server wrote `line` -/
def fbWorldN (n0 n1 : String) (line : List Char) : List Client :=
  [{ startErr := false, waitErr := false
     batches := [{ noticed := false
                   s := { cases := [.answer .pass true, .answer .pass true], isRef := true, useTLS := false,
                          startErr := false, writeErr := false, closeErr := false, resp := .ok, dies := none,
                          names := [n0.toList, n1.toList], stderr := line } }] }]

open ConfModel.FeedbackLine in
/-- **Finding F32 (known, not repaired): feedback for a test case whose name contains `": "` is lost.**
Test names are not validated anywhere; `S/x: y` is a name a `--test-file` may use.  The reference
server's printer writes the complaint correctly (`prefixLine`), but the runner's reader splits the line
at the FIRST `": "`: the front part `S/x` is not a test case of the batch, the line is forwarded as
noise, nothing is recorded — and the run SUCCEEDS although the reference server complained about an
unmarked case (hypothesis `noSep` of `feedback_line_fails` fails, and so does its conclusion).  If the
batch also holds a case named by the front part, the complaint is recorded for THAT case.  A reader
that looks for the batch's names as prefixes of the line (`FeedbackLineRepair.lineAct`, longest name
first) attributes the same line correctly. -/
theorem feedback_sep_name_witness :
    let mk : Marks := { failing := fun _ => false, flaky := fun _ => false }
    let msg := "client sent another request (#2) for the same test case"
    let line := prefixLine "S/x: y".toList msg.toList
    ServerRunner.Spec.noSep "S/x: y".toList = false ∧
    readStream ["S/x: y".toList, "S/other".toList] line = ([line], []) ∧
    Run mk (fbWorldN "S/x: y" "S/other" line) = true ∧
    (readStream ["S/x: y".toList, "S/x".toList] line).2 = [("S/x".toList, ("y: " ++ msg).toList)] ∧
    FeedbackLineRepair.lineAct ["S/x: y".toList, "S/x".toList] line = .record "S/x: y".toList msg.toList ∧
    FeedbackLineRepair.lineAct ["S/x: y".toList, "S/other".toList] line = .record "S/x: y".toList msg.toList := by
  decide

/-- **The defect the two repairs removed (F03 + F04).**  With the verdict expression of the
unrepaired `report` (`failed == 0`) and a liveness check that never notices a clean exit (the
unrepaired exit hook), a client that exits with status 0 before any request was sent made `Run`
return success although no case ran; the repaired `report` alone already makes it a failure. -/
theorem early_exit_unrepaired_witness :
    RunWith (fun failed _ => failed == 0) demoMarks (compile [demoClient (some 0) .exit 0 false false]) = true ∧
    Run demoMarks (compile [demoClient (some 0) .exit 0 false false]) = false ∧
    specOk (assignment demoMarks (compile [demoClient (some 0) .exit 0 false false])) 0 = false := by
  decide

/-! ### the assumed link to C10, as far as it can be stated about the C10 transition system -/

/-- what a batch observes of the client runner for request i once the runner has come to rest -/
inductive Seen
  | notSent    -- `sendRequest` was never called for it
  | refused    -- `sendRequest` returned an error: no callback
  | answered   -- accepted; the callback got the client's response to this very request
  | failed     -- accepted; the callback got an error
  deriving DecidableEq, Repr

/-- `none`: anything else (two callbacks, a foreign response, a callback after a refusal, …) -/
def seen (names : Nat → Name) (s : State) (i : Nat) : Option Seen :=
  match retOf (s.spc i), cbsOf s i with
  | none, [] => some .notSent
  | some (.err _), [] => some .refused
  | some .dup, [] => some .refused
  | some .ok, [some m] => if m = names i then some .answered else none
  | some .ok, [none] => some .failed
  | _, _ => none

theorem client_interface_sound (names : Nat → Name) (evs : List Event)
    (ht : Terminal (run names init evs)) (i : Nat) :
    ∃ o, seen names (run names init evs) i = some o ∧
      (o = .answered ↔ ((run names init evs).spc i = .ret .ok ∧ i ∈ (run names init evs).matched)) := by
  have h1 := ConfModel.Props.C10.exactly_once names evs i ht
  have h2 := ConfModel.Props.C10.answered_iff_own names evs i ht
  generalize run names init evs = s at *
  unfold seen
  cases hp : s.spc i with
  | ret r =>
    cases r with
    | ok =>
      have h2' := h2 hp
      simp only [retOf]
      by_cases hm : i ∈ s.matched
      · rw [h2', if_pos hm]; exact ⟨.answered, by simp, by simp [hm]⟩
      · rw [h2', if_neg hm]; exact ⟨.failed, by simp, by simp [hm]⟩
    | dup =>
      simp only [hp, retOf, reqOK, List.isEmpty_iff] at h1
      simp only [retOf, h1]
      exact ⟨.refused, rfl, by simp⟩
    | err e =>
      simp only [hp, retOf, reqOK, List.isEmpty_iff] at h1
      simp only [retOf, h1]
      exact ⟨.refused, rfl, by simp⟩
  | idle =>
    simp only [hp, retOf, reqOK, List.isEmpty_iff] at h1
    simp only [retOf, h1]
    exact ⟨.notSent, rfl, by simp⟩
  | waitLock =>
    simp only [hp, retOf, reqOK, List.isEmpty_iff] at h1
    simp only [retOf, h1]
    exact ⟨.notSent, rfl, by simp⟩
  | locked =>
    simp only [hp, retOf, reqOK, List.isEmpty_iff] at h1
    simp only [retOf, h1]
    exact ⟨.notSent, rfl, by simp⟩
  | writing =>
    simp only [hp, retOf, reqOK, List.isEmpty_iff] at h1
    simp only [retOf, h1]
    exact ⟨.notSent, rfl, by simp⟩
  | failed =>
    simp only [hp, retOf, reqOK, List.isEmpty_iff] at h1
    simp only [retOf, h1]
    exact ⟨.notSent, rfl, by simp⟩


/-- a terminal schedule: request 0 answered, request 1 accepted but never answered, request 2
sent after the reader shut down -/
def demoSchedule : List Event :=
  [.sStart 0, .sLock 0, .sRegister 0, .sWriteOk 0, .sStart 1, .sLock 1, .sRegister 1, .sWriteOk 1,
   .rRecv 10, .rLookup, .rFire, .pExit 0, .rRecvEOF, .rCloseSend, .rDrain, .rDone, .sStart 2, .sLock 2]

example : let s := run (fun i => 10 + i) init demoSchedule
    seen (fun i => 10 + i) s 0 = some .answered ∧ seen (fun i => 10 + i) s 1 = some .failed ∧
    seen (fun i => 10 + i) s 2 = some .refused ∧ seen (fun i => 10 + i) s 3 = some .notSent ∧ s.rpc = .done := by
  decide

/-! ## The command line (`cmd/connectconformance/main.go`, model `ConfModel.Cli`)

The exit status of the command is the verdict of the run (op `runcli`); what the command decides
before it runs anything — which invocations it refuses, how the positional arguments become the
client and the server command, what a fixed `--port` does to the number of servers — is the model
`Cli.run`, tied to the real command by op `cliargs`. -/
section CommandLine
open ConfModel.Cli


/-- `positionOf` finds the FIRST separator: everything before it is no separator -/
theorem positionOf_spec (cmd : List String) (pos : Nat) (h : positionOf cmd = some pos) :
    cmd[pos]? = some "----" ∧ ∀ i, i < pos → cmd[i]? ≠ some "----" := by
  induction cmd generalizing pos with
  | nil => simp [positionOf] at h
  | cons x xs ih =>
    by_cases hx : x = "----"
    · simp [positionOf, hx] at h
      subst h
      simp [hx]
    · simp only [positionOf, hx, if_false, Option.map_eq_some_iff] at h
      obtain ⟨p, hp, rfl⟩ := h
      obtain ⟨h1, h2⟩ := ih p hp
      refine ⟨by simpa using h1, ?_⟩
      intro i hi
      cases i with
      | zero => simp [hx]
      | succ j => simpa using h2 j (by omega)

theorem positionOf_none (cmd : List String) : positionOf cmd = none ↔ "----" ∉ cmd := by
  induction cmd with
  | nil => simp [positionOf]
  | cons x xs ih =>
    by_cases hx : x = "----"
    · simp [positionOf, hx]
    · simp only [positionOf, hx, if_false, Option.map_eq_none_iff, ih, List.mem_cons]
      constructor
      · intro h hm; rcases hm with hm | hm
        · exact hx hm.symm
        · exact h hm
      · intro h hm; exact h (Or.inr hm)

/-- Mode `both`: the invocation goes on exactly when the separator is present and both sides are
non-empty; the client command is what precedes the FIRST separator, the server command what
follows it (later separators belong to the server command), and together with the separator they
are the positional arguments. -/
theorem both_split (cmd c s : List String) :
    splitCommand "both" cmd = .ok (c, s) ↔
      c ≠ [] ∧ s ≠ [] ∧ "----" ∉ c ∧ cmd = c ++ "----" :: s := by
  constructor
  · intro h
    simp only [splitCommand, show ("both" = "client") = False by decide, show ("both" = "server") = False by decide,
      if_false, if_true] at h
    cases hp : positionOf cmd with
    | none => simp [hp] at h
    | some pos =>
      simp only [hp] at h
      by_cases hc : (cmd.take pos).isEmpty = true
      · simp [hc] at h
      · by_cases hs : (cmd.drop (pos + 1)).isEmpty = true
        · simp [hc, hs] at h
        · simp only [hc, hs, Bool.false_eq_true, if_false, Except.ok.injEq, Prod.mk.injEq] at h
          obtain ⟨rfl, rfl⟩ := h
          obtain ⟨hat, hbefore⟩ := positionOf_spec cmd pos hp
          refine ⟨by simpa using hc, by simpa using hs, ?_, ?_⟩
          · intro hm
            obtain ⟨i, hi, hget⟩ := List.getElem_of_mem hm
            have hil : i < pos := by simp at hi; omega
            have := hbefore i hil
            rw [List.getElem_take] at hget
            apply this
            rw [List.getElem?_eq_getElem (by simp at hi; omega), hget]
          · have hlt : pos < cmd.length := by
              rcases Nat.lt_or_ge pos cmd.length with h | h
              · exact h
              · rw [List.getElem?_eq_none h] at hat; simp at hat
            have hd : cmd.drop pos = "----" :: cmd.drop (pos + 1) := by
              rw [List.drop_eq_getElem_cons hlt]
              congr 1
              rw [List.getElem?_eq_getElem hlt] at hat
              simpa using hat
            calc cmd = cmd.take pos ++ cmd.drop pos := (List.take_append_drop pos cmd).symm
              _ = _ := by rw [hd]
  · rintro ⟨hc, hs, hnot, rfl⟩
    have hp : positionOf (c ++ "----" :: s) = some c.length := by
      clear hc
      induction c with
      | nil => simp [positionOf]
      | cons x xs ih =>
        have hx : x ≠ "----" := by intro h; exact hnot (by simp [h])
        have hxs : "----" ∉ xs := by intro h; exact hnot (by simp [h])
        simp [positionOf, hx, ih hxs]
    simp only [splitCommand, show ("both" = "client") = False by decide, show ("both" = "server") = False by decide,
      if_false, if_true, hp]
    have h1 : (c ++ "----" :: s).take c.length = c := by simp
    have h2 : (c ++ "----" :: s).drop (c.length + 1) = s := by
      rw [← List.drop_drop]; simp
    simp [h1, h2, hc, hs]

/-- what an accepted invocation goes on with -/
theorem proceed_plan (a : Args) (p : Plan) (h : Cli.run a = .proceed p) :
    a.version = false ∧ a.command ≠ [] ∧ a.maxServers ≠ 0 ∧ a.parallel ≠ 0 ∧
    ¬ (a.port ≠ 0 ∧ a.maxServers > 1 ∧ a.maxServersGiven = true) ∧
    splitCommand a.mode a.command = .ok (p.client, p.server) ∧
    p.maxServers = (if a.port ≠ 0 then 1 else a.maxServers) ∧ p.parallel = a.parallel := by
  unfold Cli.run at h
  by_cases hv : a.version = true
  · rw [if_pos hv] at h; cases h
  rw [if_neg hv] at h
  by_cases hc : a.command.isEmpty = true
  · rw [if_pos hc] at h; cases h
  rw [if_neg hc] at h
  by_cases hm : a.maxServers = 0
  · rw [if_pos hm] at h; cases h
  rw [if_neg hm] at h
  by_cases hpm : a.port ≠ 0 ∧ a.maxServers > 1 ∧ a.maxServersGiven = true
  · rw [if_pos hpm] at h; cases h
  rw [if_neg hpm] at h
  by_cases hpar : a.parallel = 0
  · rw [if_pos hpar] at h; cases h
  rw [if_neg hpar] at h
  cases hs : splitCommand a.mode a.command with
  | error r => rw [hs] at h; cases h
  | ok cs =>
    obtain ⟨c, s⟩ := cs
    rw [hs] at h
    dsimp only at h
    by_cases g1 : a.mode ≠ "client" ∧ a.tlsCertGiven = true
    · rw [if_pos g1] at h; cases h
    rw [if_neg g1] at h
    by_cases g2 : a.mode ≠ "client" ∧ a.tlsKeyGiven = true
    · rw [if_pos g2] at h; cases h
    rw [if_neg g2] at h
    by_cases g3 : a.mode ≠ "client" ∧ a.portGiven = true
    · rw [if_pos g3] at h; cases h
    rw [if_neg g3] at h
    by_cases g4 : a.mode ≠ "client" ∧ a.bindGiven = true
    · rw [if_pos g4] at h; cases h
    rw [if_neg g4] at h
    by_cases g5 : a.mode ≠ "server" ∧ a.parallelGiven = true
    · rw [if_pos g5] at h; cases h
    rw [if_neg g5] at h
    by_cases g6 : a.tlsCert ≠ "" ∧ a.tlsKey = ""
    · rw [if_pos g6] at h; cases h
    rw [if_neg g6] at h
    by_cases g7 : a.tlsCert = "" ∧ a.tlsKey ≠ ""
    · rw [if_pos g7] at h; cases h
    rw [if_neg g7] at h
    injection h with h
    subst h
    refine ⟨by simpa using hv, ?_, hm, hpar, hpm, rfl, rfl, rfl⟩
    intro hnil; simp [hnil] at hc

/-- A fixed `--port` means one server at a time: whatever `--max-servers` says or defaults to, an
accepted invocation with a non-zero port runs with exactly one server, and asking for more
explicitly is refused. -/
theorem port_implies_single_server (a : Args) (p : Plan) (h : Cli.run a = .proceed p) (hp : a.port ≠ 0) :
    p.maxServers = 1 := by
  have := (proceed_plan a p h).2.2.2.2.2.2.1
  simpa [hp] using this

theorem port_with_more_servers_refused (a : Args) (hv : a.version = false) (hc : a.command ≠ [])
    (hp : a.port ≠ 0) (hm : a.maxServers > 1) (hg : a.maxServersGiven = true) :
    Cli.run a = .refused .maxServersWithPort := by
  have hc' : a.command.isEmpty = false := by cases h : a.command <;> simp_all
  have h0 : a.maxServers ≠ 0 := by omega
  simp [Cli.run, hv, hc', h0, hp, hm, hg]

/-- without a fixed port the number of servers is the one given (or the default), never zero -/
theorem no_port_keeps_max_servers (a : Args) (p : Plan) (h : Cli.run a = .proceed p) (hp : a.port = 0) :
    p.maxServers = a.maxServers ∧ p.maxServers > 0 := by
  obtain ⟨_, _, hm, _, _, _, hms, _⟩ := proceed_plan a p h
  simp only [hp, ne_eq, not_true_eq_false, if_false] at hms
  exact ⟨hms, by omega⟩

/-- in mode `both` an accepted invocation's two commands are the two sides of the first separator -/
theorem both_commands (a : Args) (p : Plan) (h : Cli.run a = .proceed p) (hm : a.mode = "both") :
    p.client ≠ [] ∧ p.server ≠ [] ∧ "----" ∉ p.client ∧ a.command = p.client ++ "----" :: p.server := by
  have hs := (proceed_plan a p h).2.2.2.2.2.1
  rw [hm] at hs
  exact (both_split a.command p.client p.server).mp hs

/-- in modes `client` / `server` the positional arguments are the client's / server's command, whole -/
theorem single_mode_commands (a : Args) (p : Plan) (h : Cli.run a = .proceed p) :
    (a.mode = "client" → p.client = a.command ∧ p.server = []) ∧
    (a.mode = "server" → p.server = a.command ∧ p.client = []) := by
  have hs := (proceed_plan a p h).2.2.2.2.2.1
  constructor
  · intro hm; rw [hm] at hs; simp [splitCommand] at hs; exact ⟨hs.1.symm, by rw [← hs.2]⟩
  · intro hm; rw [hm] at hs
    simp [splitCommand, show ("server" = "client") = False by decide] at hs
    exact ⟨hs.2.symm, by rw [← hs.1]⟩

/-! non-vacuity -/
example : Cli.run { mode := "both", command := ["c", "x", "----", "s", "----", "y"], port := 8080, portGiven := false } =
    .proceed { client := ["c", "x"], server := ["s", "----", "y"], maxServers := 1, parallel := 64 } := by decide
example : Cli.run { mode := "client", command := ["c"], port := 8080, maxServers := 2, maxServersGiven := true } =
    .refused .maxServersWithPort := by decide
example : Cli.run { mode := "server", command := ["s"], maxServers := 7, maxServersGiven := true } =
    .proceed { client := [], server := ["s"], maxServers := 7, parallel := 64 } := by decide


end CommandLine

/-! ### server mode: feedback of the reference CLIENT (ops srvloop / srvcli) -/
section ServerMode
open ConfModel.SrvFeedback

/-- **Symmetry of the two reference peers.**  In mode SERVER (`isReferenceClient = true`) a response of
the reference client that carries the feedback message `m` leaves `testResults` in exactly the state
in which a client-mode run is after the same answer and a feedback line `m` of the reference SERVER for
that case: the same `recordSideband` call, hence (the report being a function of that state) the same
failure. -/
theorem client_feedback_as_server_feedback (mk : Marks) (r : SrvFeedback.Results) (p : Resp) (m : String)
    (h : p.ans.hasResponse = true) :
    callback mk true r { p with feedback := [m] }
      = serverNote (callback mk false r { p with feedback := [] }) p.name m := by
  simp [callback, serverNote, recordAll, h]

example : (callback ⟨fun _ => false, fun _ => false⟩ true ⟨[], []⟩ ⟨"S/c0", .pass, ["invalid key"]⟩).sb
    = [("S/c0", "invalid key")] := by decide

/-- … and only for the reference client: feedback in the answers of any other client is not recorded
(`isReferenceClient = false`), as is feedback beside an error result. -/
theorem client_feedback_recorded_iff (mk : Marks) (r : SrvFeedback.Results) (p : Resp) (isRef : Bool) :
    (callback mk isRef r p).sb =
      if isRef && p.ans.hasResponse then recordAll r.sb p.name p.feedback else r.sb := by
  simp [callback]

/-- **Feedback of the reference client fails the case and the run** (one answered case, any number of
messages ≥ 1, any text): an unmarked case whose result matches the expectation (`Ans.pass`) is
reported failed, named on a FAILED line, and `report` returns false. -/
theorem client_feedback_fails (mk : Marks) (n m : String) (ms : List String)
    (hf : mk.failing n = false) (hk : mk.flaky n = false) :
    (srvReport mk true [⟨n, .pass, m :: ms⟩]).ok = false ∧
    (srvReport mk true [⟨n, .pass, m :: ms⟩]).failedNames = [n] ∧
    (srvReport mk true [⟨n, .pass, []⟩]).ok = true ∧
    (srvReport mk false [⟨n, .pass, m :: ms⟩]).ok = true := by
  have hsb : ∀ (ms : List String) (v : String), ∃ x,
      ms.foldl (fun sb m => recordSideband sb n m) [(n, v)] = [(n, x)] := by
    intro ms
    induction ms with
    | nil => intro v; exact ⟨v, rfl⟩
    | cons a t ih => intro v; simpa [recordSideband, put] using ih a
  obtain ⟨x, hx⟩ := hsb ms m
  have hx' : recordAll [] n (m :: ms) = [(n, x)] := by
    simpa [recordAll, recordSideband, put] using hx
  have h0 : recordAll ([] : Sideband) n [] = [] := rfl
  simp [srvReport, SrvFeedback.runBatch, callback, hx', h0, report, reportWith, processSideband, mergeOne, setOutcome,
    put, get?, failOfAns, Ans.hasResponse, count, classify, expectError, hf, hk, namesOf,
    isFailedClass]

example : (srvReport ⟨fun _ => false, fun _ => false⟩ true
    [⟨"S/c0", .pass, []⟩, ⟨"S/c1", .pass, ["connect error JSON: invalid key \"zz\""]⟩]).ok = false := by decide
example : (srvReport ⟨fun _ => false, fun _ => false⟩ true
    [⟨"S/c0", .pass, []⟩, ⟨"S/c1", .pass, ["x"]⟩]).failedNames = ["S/c1"] := by decide
example : (fun (_ : String) => false) "S/c1" = false ∧
    (srvReport ⟨fun _ => false, fun _ => false⟩ true [⟨"S/c1", .pass, ["a", "b"]⟩]).failedNames = ["S/c1"] := by decide

end ServerMode

end ConfModel.Props.C04
