import ConfModel.Driver.Common
import ConfModel.Model.Compression
import ConfModel.Model.CompressionRaw
import ConfModel.Spec.Compression
namespace ConfModel.Driver.C20
open Lean ConfModel.Driver ConfModel.Compression ConfModel.CompressionSpec

def kindOf (enc : Nat) : Kind :=
  match enc with
  | 2 => .gzip | 3 => .brotli | 4 => .zstd | 5 => .deflate | 6 => .snappy | _ => .noop

def parseLook (j : Json) : Look :=
  { resetOk := bool (field j "resetOk"),
    read := if isNull (field j "read") then none else some (unhex (str (field j "read"))) }

def parseOut (s : String) : Out :=
  if s == "ok" then .ok else if s == "err" then .err
  else if s.startsWith "data:" then .data (unhex (s.drop 5).toString)
  else .panic

def outStr : Out → String
  | .ok => "ok" | .err => "err" | .data b => "data:" ++ hex b | .panic => "panic"

/-- the library parameter, instantiated with what fresh instances of the real library did on
the sources of this history -/
def oracle (table : List (Bytes × Look)) (empty : Look) : Lib :=
  { enc := fun b => b,
    look := fun src => if src.isEmpty then empty else (table.lookup src).getD ⟨false, none⟩ }

structure Acc where
  st : St
  subs : List (List String) := []      -- model results of the method calls, per step
  outs : List Out := []                 -- model: what the caller gets, per step
  contract : List Bool := []            -- was the instance in a state the wrappers support

/-- run one step of the history on the model, call by call (as `cycle` / `hstep` do) -/
def modelStep (l : Lib) (a : Acc) (k : String) (src : Bytes) : Acc :=
  let s := a.st
  if k == "valid" || k == "corrupt" || k == "trunc" then
    let (s1, o1) := step l s (.reset src)
    if o1 != .ok then
      { st := s1, subs := a.subs ++ [[outStr o1]], outs := a.outs ++ [(cycle l s src).2], contract := a.contract ++ [true] }
    else
      let (s2, o2) := step l s1 .readAll
      let (s3, o3) := step l s2 .close
      let (s4, o4) := step l s3 (.reset [])
      { st := s4, subs := a.subs ++ [[outStr o1, outStr o2, outStr o3, outStr o4]],
        outs := a.outs ++ [(cycle l s src).2], contract := a.contract ++ [true] }
  else
    let h : HStep := if k == "close" then .close else if k == "resetEmpty" then .resetEmpty else .read
    let (s1, o) := hstep l s h
    { st := s1, subs := a.subs ++ [[outStr o]], outs := a.outs ++ [o],
      contract := a.contract ++ [safe s || k == "resetEmpty"] }

def normSub (s : String) : String := if s.startsWith "panic" then "panic" else s

/-- `gzip.Reader.Close` returns the inner flate reader's state, which the repository does not
wrap: its ok/err result is not compared (a panic is) -/
def maskGzipClose (kind : Kind) (k : String) (subs : List String) : List String :=
  if kind != .gzip then subs else
  let m (s : String) := if s == "panic" then s else "-"
  if k == "close" then subs.map m
  else match subs with
    | [a, b, c, d] => [a, b, m c, d]
    | _ => subs

def handle : Handler := fun op inp impl =>
  if !(isNull (field impl "panic")) then { agree := false, holds := false, why := "panic: " ++ str (field impl "panic") } else
  match op with
  | "hist" =>
    let enc := nat (field inp "enc")
    let kind := kindOf enc
    let steps := arr (field inp "steps")
    let isteps := arr (field impl "steps")
    let ks := steps.map (fun s => str (field s "k"))
    let srcs := isteps.map (fun s => unhex (str (field s "src")))
    let table := (isteps.filter (fun s => !(isNull (field s "fresh")))).map (fun s => (unhex (str (field s "src")), parseLook (field s "fresh")))
    let l := oracle table (parseLook (field impl "empty"))
    let acc := (ks.zip srcs).foldl (fun a p => modelStep l a p.1 p.2) { st := init kind }
    let implSubs := isteps.map (fun s => (strList (field s "subs")).map normSub)
    -- what the caller got, per step
    let implOuts : List Out := (ks.zip implSubs).map fun p =>
      if p.1 == "valid" || p.1 == "corrupt" || p.1 == "trunc" then
        match p.2 with
        | r :: rest => if r == "panic" then .panic else if r != "ok" then .err else
            (match rest with | x :: _ => parseOut x | [] => .err)
        | [] => .err
      else match p.2 with | x :: _ => parseOut x | [] => .err
    let expected : List (Option Bytes) := steps.map fun s =>
      if str (field s "k") == "valid" then some (unhex (str (field s "data"))) else none
    -- the property: valid messages byte-exact whatever happened before; no crash while the
    -- instance is used as the wrappers support (a reset before the first read/close)
    let anyPanic := ((implSubs.zip acc.contract).any fun p => p.2 && p.1.any (· == "panic"))
    let implOutsC := (implOuts.zip acc.contract).map fun p => if !p.2 && p.1 == .panic then Out.err else p.1
    let holds := historyOk expected implOutsC && !anyPanic
    let mask (subs : List (List String)) := (ks.zip subs).map fun p => maskGzipClose kind p.1 p.2
    { agree := mask implSubs == mask acc.subs && implOuts.length == steps.length, holds := holds,
      nontrivial := ks.any (fun k => k != "valid") && ks.length > 1,
      model := toJson acc.subs, cls := toString enc,
      why := if holds then "" else
        if anyPanic then "decompressor crashed" else "a valid message did not come back byte-exact on a reused instance" }
  | "comp" =>
    let msgs := (strList (field inp "msgs"))
    let outs := (arr (field impl "outs")).map fun j => if isNull j then none else some (str j)
    -- model: the pooled compressor over the Write calls the op really made (compressVia; theorem
    -- handover_irrelevant / compressor_reuse_any_handover), the library a lawful parameter (identity)
    let via := str (field inp "via")
    let split := bool (field inp "split")
    let chunksOf (m : Bytes) : List Bytes :=
      let (pre, rest) : List Bytes × Bytes := if split && m.length > 1 then ([m.take (m.length / 2)], m.drop (m.length / 2)) else ([], m)
      pre ++ (match via with
        | "writeto" => if rest.isEmpty then [] else [rest]
        | "readfrom" => if rest.isEmpty then [] else [rest]
        | "bytes" => rest.map ([·])
        | _ => [rest])
    let idLib : Lib := { enc := fun b => b, look := fun src => ⟨true, some src⟩ }
    let c := compressVia idLib cinit (msgs.map (fun m => chunksOf (unhex m)))
    let mOuts := (c.done ++ c.dst.toList).map (fun b => some (hex b))
    -- the property: every destination decodes (fresh decompressor) to its message
    let holds := outs == msgs.map some
    { agree := outs == mOuts, holds := holds, nontrivial := msgs.length > 1,
      cls := toString (nat (field inp "enc")) ++ (if via.isEmpty then "" else ":" ++ via),
      model := toJson mOuts,
      why := if holds then "" else "a reused compressor produced a stream that does not decode to the message" }
  | "procs" =>
    let enc := nat (field inp "enc")
    let procs := nat (field inp "procs")
    let msgs := (strList (field inp "msgs")).map unhex
    let outs : List Out := (strList (field impl "outs")).map fun s =>
      if s.startsWith "data:" then .data (unhex (s.drop 5).toString) else if s.startsWith "panic" then .panic else .err
    -- model: a pair freshly constructed in the environment, over a lawful library (the
    -- algorithms are a parameter: identity stands in for them)
    let l : Lib := { enc := fun b => b, look := fun src => ⟨true, some src⟩ }
    let m := freshRoundTrip l ⟨procs⟩ (kindOf enc) msgs
    -- the property: every message, the empty one included, comes back byte-exact from
    -- instances constructed under this GOMAXPROCS
    let holds := historyOk (msgs.map some) outs
    let stage := ((strList (field impl "outs")).find? fun s => !(s.startsWith "data:")).getD ""
    { agree := outs == m && nat (field impl "set") == procs, holds := holds, nontrivial := msgs.length > 1,
      cls := "procs:" ++ toString procs,
      model := toJson (m.map outStr),
      why := if holds then "" else
        s!"encoding {enc} via '{str (field inp "via")}': compressor/decompressor constructed while GOMAXPROCS={procs} do not round-trip ({stage}); every supported compression must round-trip in every process" }
  | "raw" =>
    let stream := bool (field inp "stream")
    let jitems := arr (field inp "items")
    let optHex (j : Json) : Option Bytes := if isNull j then none else some (unhex (str j))
    let present (j : Json) : Bool := let f := str (field j "form"); f != "unset" && f != "nil"
    let items : List RawItem := jitems.map fun j =>
      { enc := nat (field j "enc"), flags := nat (field j "flags"),
        data := if present j then some (unhex (str (field j "data"))) else none }
    let err := bool (field impl "err")
    let out := unhex (str (field impl "out"))
    let frames : List RawFrame := (arr (field impl "frames")).map fun j =>
      { flags := nat (field j "flags"), len := nat (field j "len"), payload := unhex (str (field j "payload")),
        dec := optHex (field j "dec"), ref := optHex (field j "ref") }
    let rest := unhex (str (field impl "rest"))
    -- model: internal/raw_http_body.go with the compression parameter instantiated by what a
    -- fresh compressor of that enum value writes for the data (null: GetCompressor refuses)
    let encs := (arr (field impl "encs")).map optHex
    let table : List ((Nat × Bytes) × Option Bytes) := (items.zip encs).filterMap fun p =>
      p.1.data.map fun d => ((p.1.enc, d), p.2)
    let compress : RawBody.Compress := fun e d => ((table.lookup (e, d)).getD none)
    let ritems : List RawBody.Item := (jitems.zip items).map fun p =>
      { flags := p.2.flags,
        length := if bool (field p.1 "explicit") then some ((str (field p.1 "data")).length / 2) else none,
        payload := if str (field p.1 "form") == "nil" then none else some { data := p.2.data, compression := p.2.enc } }
    let (mBytes, mErr) : Bytes × Bool :=
      if stream then let w := RawBody.writeStream compress ritems; (w.bytes, w.failed)
      else match RawBody.writeMessage compress ((ritems.head?).bind (·.payload)) with
        | some b => (b, false)
        | none => ([], true)
    -- the implementation's frames must be the frames of its own output
    let reparsed := if stream then splitFrames (frames.length + 1) out else ([(((items.head?).map (·.flags)).getD 0, out)], [])
    let framesOk := err && !stream || (reparsed.1 == frames.map (fun f => (f.flags, f.payload)) && reparsed.2 == rest)
    let claimed := rawClaimed items
    let holds := !claimed || rawOk items err frames rest
    { agree := out == mBytes && err == mErr && framesOk, holds := holds,
      nontrivial := claimed && items.any (fun it => it.data.isSome && algOfEnum it.enc != some .identity),
      model := Json.mkObj [("out", hex mBytes), ("err", mErr)],
      cls := if stream then "stream" else "message",
      why := if holds then "" else
        "raw-payload encoder: a payload does not come back byte-exact from the matching decompressor (or the output is not one frame per item)" }
  | "tres" =>
    let enc := nat (field inp "enc")
    let name := str (field inp "name")
    -- the state the tracer's instance starts in is given by the NAME (tracer.GetDecompressor)
    let kind : Option Kind := (algOfName (asciiLower name)).map fun a =>
      match a with | .identity => Kind.noop | .gzip => .gzip | .brotli => .brotli | .zstd => .zstd | .zlib => .deflate | .snappy => .snappy
    let msgs := arr (field inp "msgs")
    let imsgs := arr (field impl "msgs")
    let srcs := imsgs.map (fun m => unhex (str (field m "src")))
    let table := (imsgs.filter (fun m => !(isNull (field m "fresh")))).map (fun m => (unhex (str (field m "src")), parseLook (field m "fresh")))
    let l := oracle table (parseLook (field impl "empty"))
    let tmsgs : List TMsg := (msgs.zip srcs).map fun p => { flags := nat (field p.1 "flags"), src := p.2 }
    let mContents : List Bytes := match kind with
      | some k => tracerBody l (init k) tmsgs
      | none => tmsgs.map fun _ => []
    -- the implementation's events: every `pd` (message) with the `ps` (content) that follows it
    let events := strList (field impl "events")
    let reported : List Bytes := (events.foldl (fun (acc : List Bytes) ev =>
      if ev.startsWith "pd:" then [] :: acc
      else if ev.startsWith "ps:" then (match acc with | _ :: t => unhex (ev.drop 3).toString :: t | [] => acc)
      else acc) []).reverse
    let pds := (events.filter (·.startsWith "pd:")).map fun ev => ((ev.splitOn ":").drop 1).take 2
    let pdsOk := pds == tmsgs.map fun m => [toString m.flags, toString m.src.length]
    let isEnd (f : Nat) : Bool := !(f % 4 < 2 && f % 256 < 128)
    let expected : List (Option Bytes) := msgs.map fun m =>
      let f := nat (field m "flags")
      if !isEnd f then some []
      else if str (field m "k") == "valid" || f % 2 == 0 then some (unhex (str (field m "data")))
      else none
    let holds := tracerOk expected reported
    { agree := reported == mContents && pdsOk, holds := holds,
      nontrivial := msgs.length > 1 && msgs.any (fun m => str (field m "k") != "valid"),
      model := toJson (mContents.map hex), cls := "tracer:" ++ toString enc,
      why := if holds then "" else "wire tracer: the end-stream content reported for a valid message is not the message (a damaged message earlier in the body must not matter)" }
  | _ => bad ("C20: unknown op " ++ op)

end ConfModel.Driver.C20
