/-
End-to-end (C15), stream part: the relation between the property's view of a stream
(`Expect`) and the tracer's table entry (`Stream`), kept by every frame; when the stream
leaves the table the completed trace satisfies `traceOK`.
-/
import ConfModel.Lemmas.H2E2EBuilder
set_option linter.unusedSimpArgs false
set_option linter.unusedVariables false
namespace ConfModel.H2

/-! ### the request line -/

theorem dropWhile_q : ∀ (l : List Char), l.contains '?' = true →
    l.dropWhile (fun c => c != '?') = '?' :: (l.dropWhile (fun c => c != '?')).drop 1
  | [], h => by simp at h
  | c :: l, h => by
    by_cases hc : c = '?'
    · subst hc; simp [List.dropWhile]
    · have h' : l.contains '?' = true := by
        simp only [List.contains_cons] at h
        have : ('?' == c) = false := by simp; exact fun x => hc x.symm
        simpa [this] using h
      have hb : (c != '?') = true := by simp [hc]
      simp only [List.dropWhile, hb]
      exact dropWhile_q l h'

theorem path_roundtrip (f : Fields) :
    (if (pathOf f).2.1.isEmpty && !(pathOf f).2.2 then (pathOf f).1 else (pathOf f).1 ++ "?" ++ (pathOf f).2.1)
      = getPseudo f ":path" := by
  unfold pathOf
  generalize getPseudo f ":path" = p
  by_cases hq : p.toList.contains '?' = true
  · simp only [hq, if_true]
    have hcond : ((String.ofList ((p.toList.dropWhile (fun c => c != '?')).drop 1)).isEmpty &&
        !((p.toList.dropWhile (fun c => c != '?')).drop 1).isEmpty) = false := by
      cases hl : (p.toList.dropWhile (fun c => c != '?')).drop 1 with
      | nil => simp
      | cons a q =>
        have : (String.ofList (a :: q)).isEmpty = false := by
          cases h : (String.ofList (a :: q)).isEmpty with
          | false => rfl
          | true =>
            have := String.isEmpty_iff.mp h
            have h2 : (String.ofList (a :: q)).toList = "".toList := by rw [this]
            rw [String.toList_ofList] at h2
            simp at h2
        simp [this]
    rw [hcond]
    simp only [Bool.false_eq_true, if_false]
    have e : ("?" : String) = String.ofList ['?'] := rfl
    rw [e, ← String.ofList_append, ← String.ofList_append]
    have : p.toList.takeWhile (fun c => c != '?') ++ ['?'] ++ (p.toList.dropWhile (fun c => c != '?')).drop 1 = p.toList := by
      rw [List.append_assoc, List.singleton_append, ← dropWhile_q _ hq, List.takeWhile_append_dropWhile]
    rw [this, String.ofList_toList]
  · have hq' : p.toList.contains '?' = false := by
      cases h : p.toList.contains '?' <;> simp_all
    simp only [hq', Bool.false_eq_true, if_false]
    simp


theorem regular_regular (f : Fields) : regular (regular f) = regular f := by
  simp [regular, List.filter_filter]

theorem groupHeaders_regular (f : Fields) : groupHeaders (regular f) = groupHeaders f := by
  simp [groupHeaders, regular_regular]

/-! ### assembling `traceOK` -/

theorem traceOK_intro (isServer : Bool) (e : Expect) (t : Trace) (rm pm : List Msg)
    (hname : t.name = e.name) (hreq : t.req = e.fields) (hresp : t.resp = e.resp)
    (htrl : t.respTrailers = e.respTrailers.map regular) (herr : t.err = e.ending.err e.id)
    (fs : FinSum t rm pm e.reqEnded e.resp.isSome (e.lastEv isServer))
    (hrm : msgsOK e.ending e.reqCfg e.reqBody rm = true) (hpm : msgsOK e.ending e.respCfg e.respBody pm = true) :
    traceOK isServer e t.obs = true := by
  have hp := path_roundtrip e.fields
  have h1 := fs.head
  have h2 := fs.reqMsgs
  have h3 := fs.reqIdx
  have h4 := fs.respMsgs
  have h5 := fs.respIdx
  have h6 := fs.reqEnd
  have h7 := fs.respStart
  have h8 := fs.last
  unfold traceOK Trace.obs
  simp only [hname, hreq, hresp, htrl, herr, hp, h1, h2, h4, h6, h7, h8, hrm, hpm, beq_self_eq_true, Bool.and_true, Bool.true_and]
  rw [← h3, ← h5]
  simp only [beq_self_eq_true, Bool.and_true, Bool.true_and]
  cases hr : e.resp with
  | none => simp
  | some f =>
    cases ht : e.respTrailers with
    | none => simp
    | some tr => simp [groupHeaders_regular]

/-! ### the relation between an open stream of the property and the tracer's table entry -/

/-- request / response messages the trace under construction shows -/
def reqShown (e : Expect) : List Msg :=
  if e.reqEnded then specMsgs e.reqCfg e.reqBody else (dataTrace e.reqCfg DSt.init e.reqBody).2.map DEv.msg
def respShown (e : Expect) : List Msg := (dataTrace e.respCfg DSt.init e.respBody).2.map DEv.msg

structure BRel (e : Expect) (b : Builder) : Prop where
  req : b.trace.req = e.fields
  resp : b.trace.resp = e.resp
  trl : b.trace.respTrailers = e.respTrailers.map regular
  sum : BSum b (reqShown e) (respShown e) e.reqEnded e.resp.isSome

structure SRel (e : Expect) (st : Stream) : Prop where
  name : st.builder.trace.name = e.name
  got : st.gotResponse = e.resp.isSome
  reqCfg : st.reqCfg = e.reqCfg
  respCfg : st.respCfg = e.respCfg
  reqDT : st.reqDT = if e.reqEnded then DSt.init else (dataTrace e.reqCfg DSt.init e.reqBody).1
  respDT : st.respDT = (dataTrace e.respCfg DSt.init e.respBody).1
  nobody : e.resp = none → e.respBody = []
  b : e.name ≠ "" → BRel e st.builder

/-- what `SRel` looks at -/
def Expect.body (e : Expect) : Fields × Bytes × Bool × Option Fields × Bytes × Option Fields :=
  (e.fields, e.reqBody, e.reqEnded, e.resp, e.respBody, e.respTrailers)

/-- what `traceOK` looks at -/
def Expect.core (e : Expect) : Nat × Ending × Fields × Bytes × Bool × Option Fields × Bytes × Option Fields :=
  (e.id, e.ending, e.body)

theorem SRel_congr {e e' : Expect} {st : Stream} (h : SRel e st) (hb : e.body = e'.body) : SRel e' st := by
  cases e; cases e'
  simp only [Expect.body, Prod.mk.injEq] at hb
  obtain ⟨h1, h2, h3, h4, h5, h6⟩ := hb
  subst h1 h2 h3 h4 h5 h6
  exact ⟨h.name, h.got, h.reqCfg, h.respCfg, h.reqDT, h.respDT, h.nobody, fun hn => ⟨(h.b hn).req, (h.b hn).resp, (h.b hn).trl, (h.b hn).sum⟩⟩

theorem traceOK_congr (isServer : Bool) {e e' : Expect} (t : Obs) (hc : e.core = e'.core) :
    traceOK isServer e t = traceOK isServer e' t := by
  cases e; cases e'
  simp only [Expect.core, Expect.body, Prod.mk.injEq] at hc
  obtain ⟨h0, h00, h1, h2, h3, h4, h5, h6⟩ := hc
  subst h0 h00 h1 h2 h3 h4 h5 h6
  rfl

theorem addEvs_unnamed (st : Stream) (evs : List Ev) (h : st.builder.trace.name = "") : st.addEvs evs = (st, []) := by
  simp [Stream.addEvs, addAll_unnamed st.builder evs h]

theorem specMsgs_nil (c : DCfg) : specMsgs c [] = [] := by
  unfold specMsgs
  split
  · simp [specMsgsAux]
  · simp

theorem dataFlush_fst (s : DSt) : (dataFlush s).1 = DSt.init := rfl

theorem reqCfg_isReq (e : Expect) : e.reqCfg.isReq = true := rfl

theorem BSum_transfer {b b' : Builder} {rm pm : List Msg} {re rs : Bool} (h : BSum b rm pm re rs)
    (h1 : b'.trace.name = b.trace.name) (h2 : b'.trace.err = b.trace.err) (h3 : b'.trace.events = b.trace.events)
    (h4 : b'.reqCount = b.reqCount) (h5 : b'.respCount = b.respCount) : BSum b' rm pm re rs := by
  have e : oevs b' = oevs b := by simp [oevs, h3]
  exact ⟨by rw [h1]; exact h.named, by rw [h2]; exact h.err, by rw [e]; exact h.head, by rw [e]; exact h.reqMsgs,
    by rw [e, h4]; exact h.reqIdx, by rw [e]; exact h.respMsgs, by rw [e, h5]; exact h.respIdx, by rw [e]; exact h.reqEnd,
    by rw [e]; exact h.respStart⟩

theorem body_eqs {e' : Expect} {f : Fields} {rb : Bytes} {re : Bool} {r : Option Fields} {pb : Bytes} {tr : Option Fields}
    (hb : e'.body = (f, rb, re, r, pb, tr)) :
    e'.fields = f ∧ e'.reqBody = rb ∧ e'.reqEnded = re ∧ e'.resp = r ∧ e'.respBody = pb ∧ e'.respTrailers = tr := by
  simpa [Expect.body] using hb

theorem name_of_fields {e e' : Expect} (h : e'.fields = e.fields) : e'.name = e.name := by simp [Expect.name, h]
theorem reqCfg_of_fields {e e' : Expect} (h : e'.fields = e.fields) : e'.reqCfg = e.reqCfg := by simp [Expect.reqCfg, h]
theorem respCfg_of_resp {e e' : Expect} (h : e'.resp = e.resp) : e'.respCfg = e.respCfg := by simp [Expect.respCfg, h]

/-! ### DATA -/

theorem dataUpdate_req {e e' : Expect} {st : Stream} (h : SRel e st) (hre : e.reqEnded = false) (p : Bytes)
    (hb : e'.body = (e.fields, e.reqBody ++ p, false, e.resp, e.respBody, e.respTrailers)) :
    (dataUpdate st true p).2 = [] ∧ SRel e' (dataUpdate st true p).1 := by
  obtain ⟨b1, b2, b3, b4, b5, b6⟩ := body_eqs hb
  have n1 := name_of_fields b1
  have c1 := reqCfg_of_fields b1
  have c2 := respCfg_of_resp b4
  have happ := dataTrace_append e.reqCfg DSt.init DInv_init e.reqBody p
  have hdt : st.reqDT = (dataTrace e.reqCfg DSt.init e.reqBody).1 := by rw [h.reqDT, hre]; simp
  have hall := (req_traced_data e.reqCfg rfl (e.reqBody ++ p)).1
  rw [happ] at hall
  simp only [Machine.comb] at hall
  have hnew : ∀ d ∈ (dataTrace st.reqCfg st.reqDT p).2, d.isData = true := by
    intro d hd; rw [h.reqCfg, hdt] at hd; exact hall d (List.mem_append_right _ hd)
  have hst1 : (dataTrace e.reqCfg DSt.init (e.reqBody ++ p)).1 = (dataTrace st.reqCfg st.reqDT p).1 := by
    rw [happ, h.reqCfg, hdt]; rfl
  have hst2 : (dataTrace e.reqCfg DSt.init (e.reqBody ++ p)).2 =
      (dataTrace e.reqCfg DSt.init e.reqBody).2 ++ (dataTrace st.reqCfg st.reqDT p).2 := by
    rw [happ, h.reqCfg, hdt]; rfl
  have hdt' : (dataTrace st.reqCfg st.reqDT p).1 = if e'.reqEnded then DSt.init else (dataTrace e'.reqCfg DSt.init e'.reqBody).1 := by
    rw [b3, c1, b2]; simp only [Bool.false_eq_true, if_false]; exact hst1.symm
  have hrespDT : st.respDT = (dataTrace e'.respCfg DSt.init e'.respBody).1 := by rw [c2, b5]; exact h.respDT
  have hnb : e'.resp = none → e'.respBody = [] := by rw [b4, b5]; exact h.nobody
  by_cases hn : e.name = ""
  · have hn' : st.builder.trace.name = "" := by rw [h.name]; exact hn
    have hu := addEvs_unnamed { st with reqDT := (dataTrace st.reqCfg st.reqDT p).1 } ((dataTrace st.reqCfg st.reqDT p).2.map reqEv) hn'
    simp only [dataUpdate, if_true]
    rw [hu]
    exact ⟨rfl, ⟨by rw [n1]; exact h.name, by rw [b4]; exact h.got, by rw [c1]; exact h.reqCfg, by rw [c2]; exact h.respCfg,
      hdt', hrespDT, hnb, fun hx => absurd (n1.trans hn) hx⟩⟩
  · have hbr := h.b hn
    have ha := addAll_req (dataTrace st.reqCfg st.reqDT p).2 st.builder hbr.sum hnew
    simp only [dataUpdate, if_true, Stream.addEvs]
    refine ⟨ha.1, ⟨by rw [n1]; exact ha.2.2.1.trans h.name, by rw [b4]; exact h.got, by rw [c1]; exact h.reqCfg,
      by rw [c2]; exact h.respCfg, hdt', hrespDT, hnb, fun _ => ?_⟩⟩
    refine ⟨by rw [b1]; exact ha.2.2.2.1.trans hbr.req, by rw [b4]; exact ha.2.2.2.2.1.trans hbr.resp,
      by rw [b6]; exact ha.2.2.2.2.2.trans hbr.trl, ?_⟩
    have := ha.2.1
    simp only [reqShown, respShown, hre, Bool.false_eq_true, if_false] at this
    simp only [reqShown, respShown, b3, b4, c1, c2, b2, b5, Bool.false_eq_true, if_false]
    rw [hst2, List.map_append]
    exact this

theorem dataUpdate_resp {e e' : Expect} {st : Stream} (h : SRel e st) (hr : e.resp ≠ none) (p : Bytes)
    (hb : e'.body = (e.fields, e.reqBody, e.reqEnded, e.resp, e.respBody ++ p, e.respTrailers)) :
    (dataUpdate st false p).2 = [] ∧ SRel e' (dataUpdate st false p).1 := by
  obtain ⟨b1, b2, b3, b4, b5, b6⟩ := body_eqs hb
  have n1 := name_of_fields b1
  have c1 := reqCfg_of_fields b1
  have c2 := respCfg_of_resp b4
  have happ := dataTrace_append e.respCfg DSt.init DInv_init e.respBody p
  have hdt : st.respDT = (dataTrace e.respCfg DSt.init e.respBody).1 := h.respDT
  have hst1 : (dataTrace e.respCfg DSt.init (e.respBody ++ p)).1 = (dataTrace st.respCfg st.respDT p).1 := by
    rw [happ, h.respCfg, hdt]; rfl
  have hst2 : (dataTrace e.respCfg DSt.init (e.respBody ++ p)).2 =
      (dataTrace e.respCfg DSt.init e.respBody).2 ++ (dataTrace st.respCfg st.respDT p).2 := by
    rw [happ, h.respCfg, hdt]; rfl
  have hdt' : (dataTrace st.respCfg st.respDT p).1 = (dataTrace e'.respCfg DSt.init e'.respBody).1 := by
    rw [c2, b5]; exact hst1.symm
  have hreqDT : st.reqDT = if e'.reqEnded then DSt.init else (dataTrace e'.reqCfg DSt.init e'.reqBody).1 := by
    rw [b3, c1, b2]; exact h.reqDT
  have hnb : e'.resp = none → e'.respBody = [] := by rw [b4]; intro hx; exact absurd hx hr
  by_cases hn : e.name = ""
  · have hn' : st.builder.trace.name = "" := by rw [h.name]; exact hn
    have hu := addEvs_unnamed { st with respDT := (dataTrace st.respCfg st.respDT p).1 } ((dataTrace st.respCfg st.respDT p).2.map respEv) hn'
    simp only [dataUpdate, Bool.false_eq_true, if_false]
    rw [hu]
    exact ⟨rfl, ⟨by rw [n1]; exact h.name, by rw [b4]; exact h.got, by rw [c1]; exact h.reqCfg, by rw [c2]; exact h.respCfg,
      hreqDT, hdt', hnb, fun hx => absurd (n1.trans hn) hx⟩⟩
  · have hbr := h.b hn
    have ha := addAll_resp (dataTrace st.respCfg st.respDT p).2 st.builder hbr.sum
    simp only [dataUpdate, Bool.false_eq_true, if_false, Stream.addEvs]
    refine ⟨ha.1, ⟨by rw [n1]; exact ha.2.2.1.trans h.name, by rw [b4]; exact h.got, by rw [c1]; exact h.reqCfg,
      by rw [c2]; exact h.respCfg, hreqDT, hdt', hnb, fun _ => ?_⟩⟩
    refine ⟨by rw [b1]; exact ha.2.2.2.1.trans hbr.req, by rw [b4]; exact ha.2.2.2.2.1.trans hbr.resp,
      by rw [b6]; exact ha.2.2.2.2.2.trans hbr.trl, ?_⟩
    have := ha.2.1
    simp only [reqShown, respShown] at this
    simp only [reqShown, respShown, b3, b4, c1, c2, b2, b5]
    rw [hst2, List.map_append]
    exact this

/-! ### HEADERS on an open stream -/

theorem headersUpdate_false_got {st : Stream} (hgot : st.gotResponse = true) (fields : Fields) :
    headersUpdate st false fields =
      if st.builder.trace.resp.isSome then
        ({ st with builder := { st.builder with trace := { st.builder.trace with respTrailers := some (regular fields) } } }, [])
      else (st, []) := by
  unfold headersUpdate
  rw [if_neg (by simp [hgot]), if_neg (by simp)]

theorem headersUpdate_false_first {st : Stream} (hgot : st.gotResponse = false) (fields : Fields) :
    headersUpdate st false fields = st.receiveResponse fields := by
  unfold headersUpdate
  rw [if_pos (by simp [hgot])]

theorem headersUpdate_true {st : Stream} (fields : Fields) :
    headersUpdate st true fields =
      ({ st with builder := { st.builder with trace := { st.builder.trace with reqTrailers := some (regular fields) } } }, []) := by
  unfold headersUpdate
  rw [if_neg (by simp), if_pos rfl]

/-- first response HEADERS -/
theorem headers_resp_first {e e' : Expect} {st : Stream} (h : SRel e st) (hr : e.resp = none) (fields : Fields)
    (hb : e'.body = (e.fields, e.reqBody, e.reqEnded, some fields, e.respBody, e.respTrailers)) :
    (headersUpdate st false fields).2 = [] ∧ SRel e' (headersUpdate st false fields).1 := by
  obtain ⟨b1, b2, b3, b4, b5, b6⟩ := body_eqs hb
  have n1 := name_of_fields b1
  have c1 := reqCfg_of_fields b1
  have hgot : st.gotResponse = false := by rw [h.got, hr]; rfl
  have hbody : e.respBody = [] := h.nobody hr
  have c2 : e'.respCfg = { isReq := false, isStream := (propsOf fields).1, dec := (propsOf fields).2 } := by
    simp [Expect.respCfg, b4]
  have hrespDT0 : st.respDT = DSt.init := by rw [h.respDT, hbody, dataTrace_nil]
  have hrespDT : st.respDT = (dataTrace e'.respCfg DSt.init e'.respBody).1 := by rw [b5, hbody, dataTrace_nil]; exact hrespDT0
  have hreqDT : st.reqDT = if e'.reqEnded then DSt.init else (dataTrace e'.reqCfg DSt.init e'.reqBody).1 := by
    rw [b3, c1, b2]; exact h.reqDT
  have hnb : e'.resp = none → e'.respBody = [] := by rw [b4]; intro hx; cases hx
  have hshown : respShown e' = respShown e := by
    simp only [respShown, b5, hbody, dataTrace_nil]
  by_cases hn : e.name = ""
  · have hn' : st.builder.trace.name = "" := by rw [h.name]; exact hn
    have hu := addEvs_unnamed { st with gotResponse := true, respCfg := { isReq := false, isStream := (propsOf fields).1, dec := (propsOf fields).2 } }
      [.respStart fields] hn'
    rw [headersUpdate_false_first hgot]
    simp only [Stream.receiveResponse]
    rw [hu]
    exact ⟨rfl, ⟨by rw [n1]; exact h.name, by rw [b4]; rfl, by rw [c1]; exact h.reqCfg, c2.symm,
      hreqDT, hrespDT, hnb, fun hx => absurd (n1.trans hn) hx⟩⟩
  · have hbr := h.b hn
    have ha := add_respStart hbr.sum fields
    rw [headersUpdate_false_first hgot]
    simp only [Stream.receiveResponse, Stream.addEvs, Builder.addAll, ha.1, Option.toList, List.append_nil]
    refine ⟨trivial, ⟨by rw [n1]; exact ha.2.2.1.trans h.name, by rw [b4]; rfl, by rw [c1]; exact h.reqCfg,
      c2.symm, hreqDT, hrespDT, hnb, fun _ => ?_⟩⟩
    refine ⟨by rw [b1]; exact ha.2.2.2.1.trans hbr.req, by rw [b4]; exact ha.2.2.2.2.1,
      by rw [b6]; exact ha.2.2.2.2.2.trans hbr.trl, ?_⟩
    have := ha.2.1
    rw [hshown, b3, b4]
    simp only [reqShown, b3, c1, b2] at this ⊢
    exact this

/-- later response HEADERS: trailers -/
theorem headers_resp_trailers {e e' : Expect} {st : Stream} (h : SRel e st) (hr : e.resp ≠ none) (fields : Fields)
    (hb : e'.body = (e.fields, e.reqBody, e.reqEnded, e.resp, e.respBody, some fields)) :
    (headersUpdate st false fields).2 = [] ∧ SRel e' (headersUpdate st false fields).1 := by
  have hgot : st.gotResponse = true := by
    rw [h.got]; cases hx : e.resp with
    | none => exact absurd hx hr
    | some _ => rfl
  by_cases hn : e.name = ""
  · have hsame : SRel e' st := by
      have n1 := name_of_fields (body_eqs hb).1
      obtain ⟨b1, b2, b3, b4, b5, b6⟩ := body_eqs hb
      exact ⟨by rw [n1]; exact h.name, by rw [b4]; exact h.got, by rw [reqCfg_of_fields b1]; exact h.reqCfg,
        by rw [respCfg_of_resp b4]; exact h.respCfg, by rw [b3, reqCfg_of_fields b1, b2]; exact h.reqDT,
        by rw [respCfg_of_resp b4, b5]; exact h.respDT, by rw [b4, b5]; exact h.nobody, fun hx => absurd (n1.trans hn) hx⟩
    rw [headersUpdate_false_got hgot]
    split
    · refine ⟨rfl, ?_⟩
      exact ⟨hsame.name, hsame.got, hsame.reqCfg, hsame.respCfg, hsame.reqDT, hsame.respDT, hsame.nobody,
        fun hx => absurd ((name_of_fields (body_eqs hb).1).trans hn) hx⟩
    · exact ⟨rfl, hsame⟩
  · have hbr := h.b hn
    obtain ⟨b1, b2, b3, b4, b5, b6⟩ := body_eqs hb
    have n1 := name_of_fields b1
    have hsome : st.builder.trace.resp.isSome = true := by
      rw [hbr.resp]; cases hx : e.resp with
      | none => exact absurd hx hr
      | some _ => rfl
    rw [headersUpdate_false_got hgot, if_pos hsome]
    refine ⟨rfl, ⟨by rw [n1]; exact h.name, by rw [b4]; exact h.got, by rw [reqCfg_of_fields b1]; exact h.reqCfg,
        by rw [respCfg_of_resp b4]; exact h.respCfg, by rw [b3, reqCfg_of_fields b1, b2]; exact h.reqDT,
        by rw [respCfg_of_resp b4, b5]; exact h.respDT, by rw [b4, b5]; exact h.nobody, fun _ => ?_⟩⟩
    refine ⟨by rw [b1]; exact hbr.req, by rw [b4]; exact hbr.resp, by rw [b6]; rfl, ?_⟩
    have hs : BSum st.builder (reqShown e') (respShown e') e'.reqEnded e'.resp.isSome := by
      have := hbr.sum
      simp only [reqShown, respShown, b3, b4, reqCfg_of_fields b1, respCfg_of_resp b4, b2, b5] at this ⊢
      exact this
    exact BSum_transfer hs rfl rfl rfl rfl rfl

/-- request HEADERS on an open stream (trailers): nothing the property looks at changes -/
theorem headers_req_trailers {e e' : Expect} {st : Stream} (h : SRel e st) (fields : Fields)
    (hb : e'.body = e.body) :
    (headersUpdate st true fields).2 = [] ∧ SRel e' (headersUpdate st true fields).1 := by
  have h' : SRel e' st := SRel_congr h hb.symm
  rw [headersUpdate_true]
  refine ⟨rfl, ⟨h'.name, h'.got, h'.reqCfg, h'.respCfg, h'.reqDT, h'.respDT, h'.nobody, fun hn => ?_⟩⟩
  have hbr := h'.b hn
  exact ⟨hbr.req, hbr.resp, hbr.trl, BSum_transfer hbr.sum rfl rfl rfl rfl rfl⟩

/-! ### flushing the message tracers (`emitUnfinished`) -/

theorem flushReq_named {e : Expect} {st : Stream} (h : SRel e st) (hn : e.name ≠ "") :
    st.flushReq.2 = [] ∧
    BSum st.flushReq.1.builder (specMsgs e.reqCfg e.reqBody) (respShown e) e.reqEnded e.resp.isSome ∧
    sameHdr st.builder st.flushReq.1.builder ∧ st.flushReq.1.gotResponse = st.gotResponse ∧
    st.flushReq.1.respDT = st.respDT ∧ st.flushReq.1.reqDT = DSt.init := by
  have hbr := h.b hn
  cases hre : e.reqEnded with
  | true =>
    have hdt : st.reqDT = DSt.init := by rw [h.reqDT, hre]; rfl
    have hs : BSum st.builder (specMsgs e.reqCfg e.reqBody) (respShown e) true e.resp.isSome := by
      have := hbr.sum; simp only [reqShown, hre, if_true] at this; exact this
    simp only [Stream.flushReq, hdt, flush_init, List.map_nil, Stream.addEvs, Builder.addAll]
    exact ⟨by trivial, hs, sameHdr_refl _, by trivial, by trivial, by trivial⟩
  | false =>
    have hdt : st.reqDT = (dataTrace e.reqCfg DSt.init e.reqBody).1 := by rw [h.reqDT, hre]; simp
    have hdata := (req_traced_data e.reqCfg rfl e.reqBody).2
    rw [← hdt] at hdata
    have hs : BSum st.builder ((dataTrace e.reqCfg DSt.init e.reqBody).2.map DEv.msg) (respShown e) false e.resp.isSome := by
      have := hbr.sum; simp only [reqShown, hre, Bool.false_eq_true, if_false] at this; exact this
    have ha := addAll_req (dataFlush st.reqDT).2 st.builder hs hdata
    have hspec := tracedMsgs_eq_spec e.reqCfg e.reqBody
    unfold tracedMsgs at hspec
    rw [← hdt] at hspec
    rw [hspec] at ha
    simp only [Stream.flushReq, Stream.addEvs]
    exact ⟨ha.1, ha.2.1, ha.2.2, by trivial, by trivial, by trivial⟩

theorem flushResp_named {e : Expect} {st : Stream} {rm : List Msg} {re rs : Bool}
    (hs : BSum st.builder rm (respShown e) re rs) (hgot : st.gotResponse = e.resp.isSome)
    (hdt : st.respDT = (dataTrace e.respCfg DSt.init e.respBody).1) (hnb : e.resp = none → e.respBody = []) :
    st.flushResp.2 = [] ∧ BSum st.flushResp.1.builder rm (specMsgs e.respCfg e.respBody) re rs ∧
    sameHdr st.builder st.flushResp.1.builder := by
  cases hr : e.resp with
  | none =>
    have hg : st.gotResponse = false := by rw [hgot, hr]; rfl
    have hb := hnb hr
    have : respShown e = specMsgs e.respCfg e.respBody := by
      simp only [respShown, hb, dataTrace_nil, specMsgs_nil, List.map_nil]
    rw [this] at hs
    simp only [Stream.flushResp, hg, Bool.false_eq_true, if_false]
    exact ⟨by trivial, hs, sameHdr_refl _⟩
  | some f =>
    have hg : st.gotResponse = true := by rw [hgot, hr]; rfl
    have ha := addAll_resp (dataFlush st.respDT).2 st.builder hs
    have hspec := tracedMsgs_eq_spec e.respCfg e.respBody
    unfold tracedMsgs at hspec
    rw [← hdt] at hspec
    simp only [respShown] at ha
    rw [hspec] at ha
    simp only [Stream.flushResp, hg, if_true, Stream.addEvs]
    exact ⟨ha.1, ha.2.1, ha.2.2⟩

/-! ### the stream leaves the table -/

/-- a completed trace that the property accepts for `e` -/
def TRel (isServer : Bool) (e : Expect) (t : Trace) : Prop :=
  t.name = e.name ∧ t.err = e.ending.err e.id ∧ traceOK isServer e t.obs = true

theorem TRel_congr {isServer : Bool} {e e' : Expect} {t : Trace} (h : TRel isServer e t) (hc : e.core = e'.core) :
    TRel isServer e' t := by
  have hc' := hc
  simp only [Expect.core, Prod.mk.injEq] at hc'
  obtain ⟨h1, h2, h3⟩ := hc'
  have hf : e'.fields = e.fields := (body_eqs h3.symm).1.symm ▸ rfl
  refine ⟨by rw [name_of_fields hf]; exact h.1, by rw [← h1, ← h2]; exact h.2.1, ?_⟩
  rw [← traceOK_congr isServer t.obs hc]; exact h.2.2

theorem core_eqs {e e' : Expect} {en : Ending} (hc : e'.core = (e.id, en, e.body)) :
    e'.id = e.id ∧ e'.ending = en ∧ e'.fields = e.fields ∧ e'.reqBody = e.reqBody ∧ e'.reqEnded = e.reqEnded ∧
    e'.resp = e.resp ∧ e'.respBody = e.respBody ∧ e'.respTrailers = e.respTrailers := by
  simpa [Expect.core, Expect.body] using hc

theorem msgsOK_spec (en : Ending) (c : DCfg) (body : Bytes) : msgsOK en c body (specMsgs c body) = true := by
  simp [msgsOK]

theorem msgsOK_complete (en : Ending) (hen : en ≠ .done) (c : DCfg) (body : Bytes) : msgsOK en c body (completeMsgs c body) = true := by
  cases en <;> simp_all [msgsOK]

/-- END_STREAM on the response, RST_STREAM from the server, GOAWAY, connection loss on the
server side: `closeStreamLocked(stream, false, err)` -/
theorem close_resp_named (isServer : Bool) {e e' : Expect} {st : Stream} (h : SRel e st) (hn : e.name ≠ "") (err : Err) (en : Ending)
    (hc : e'.core = (e.id, en, e.body)) (hen : en.err e.id = err) (hlast : e'.lastEv isServer = .respEnd err) :
    ∃ t, (st.close false err).2 = [t] ∧ TRel isServer e' t := by
  obtain ⟨c0, c00, c1, c2, c3, c4, c5, c6⟩ := core_eqs hc
  have hbr := h.b hn
  have f1 := flushReq_named h hn
  have f2 := flushResp_named (e := e) f1.2.1 (f1.2.2.2.1.trans h.got) (f1.2.2.2.2.1.trans h.respDT) h.nobody
  have f3 := add_respEnd f2.2.1 err
  have hh := sameHdr_trans f1.2.2.1 f2.2.2
  refine ⟨finTrace st.flushReq.1.flushResp.1.builder (.respEnd err) err, ?_, ?_⟩
  · simp only [Stream.close, Bool.false_eq_true, if_false, f1.1, f2.1, List.nil_append, Stream.addEvs, Builder.addAll, f3.1,
      Option.toList, List.append_nil]
  · have n1 := name_of_fields c1
    have hname : (finTrace st.flushReq.1.flushResp.1.builder (.respEnd err) err).name = e'.name := by
      rw [n1]; exact hh.1.trans h.name
    refine ⟨hname, by rw [c0, c00, hen]; rfl, ?_⟩
    refine traceOK_intro isServer e' _ (specMsgs e.reqCfg e.reqBody) (specMsgs e.respCfg e.respBody) hname
      (by rw [c1]; exact hh.2.1.trans hbr.req) (by rw [c4]; exact hh.2.2.1.trans hbr.resp)
      (by rw [c6]; exact hh.2.2.2.trans hbr.trl) (by rw [c0, c00, hen]; rfl) ?_ ?_ ?_
    · rw [c3, c4, hlast]; exact f3.2
    · rw [reqCfg_of_fields c1, c2]; exact msgsOK_spec _ _ _
    · rw [respCfg_of_resp c4, c5]; exact msgsOK_spec _ _ _

/-- RST_STREAM from the client: `closeStreamLocked(stream, true, err)` with an error -/
theorem close_req_named (isServer : Bool) {e e' : Expect} {st : Stream} (h : SRel e st) (hn : e.name ≠ "") (err : Err) (hne : err ≠ .none)
    (en : Ending) (hc : e'.core = (e.id, en, e.body)) (hen : en.err e.id = err) (hnd : en ≠ .done)
    (hlast : e'.lastEv isServer = .reqEnd err) :
    ∃ t, (st.close true err).2 = [t] ∧ TRel isServer e' t ∧
      (st.flushReq.1.builder.add (.reqEnd err)).1.trace.name = "" ∧
      (st.flushReq.1.builder.add (.reqEnd err)).2 = some t := by
  obtain ⟨c0, c00, c1, c2, c3, c4, c5, c6⟩ := core_eqs hc
  have hbr := h.b hn
  have f1 := flushReq_named h hn
  have f3 := add_reqEndErr f1.2.1 err hne
  have hh := f1.2.2.1
  refine ⟨finTrace st.flushReq.1.builder (.reqEnd err) err, ?_, ?_, f3.2.1, f3.1⟩
  · simp only [Stream.close, if_true, f1.1, List.nil_append, Stream.addEvs, Builder.addAll, f3.1, Option.toList, List.append_nil]
  · have n1 := name_of_fields c1
    have hname : (finTrace st.flushReq.1.builder (.reqEnd err) err).name = e'.name := by
      rw [n1]; exact hh.1.trans h.name
    refine ⟨hname, by rw [c0, c00, hen]; rfl, ?_⟩
    refine traceOK_intro isServer e' _ (specMsgs e.reqCfg e.reqBody) (respShown e) hname
      (by rw [c1]; exact hh.2.1.trans hbr.req) (by rw [c4]; exact hh.2.2.1.trans hbr.resp)
      (by rw [c6]; exact hh.2.2.2.trans hbr.trl) (by rw [c0, c00, hen]; rfl) ?_ ?_ ?_
    · rw [c3, c4, hlast]; exact f3.2.2
    · rw [reqCfg_of_fields c1, c2]; exact msgsOK_spec _ _ _
    · rw [respCfg_of_resp c4, c5, c00]
      simp only [respShown, traced_eq_complete]
      exact msgsOK_complete en hnd _ _

/-- connection loss on the client side: `cancelAll` -/
theorem cancelClient_named {e e' : Expect} {st : Stream} (h : SRel e st) (hn : e.name ≠ "") (err : Err) (hne : err ≠ .none)
    (hc : e'.core = (e.id, .lost err, e.body)) :
    ∃ t, (st.cancelClient err).2 = [t] ∧ TRel false e' t := by
  obtain ⟨t, _, ht, hclr, hadd⟩ := close_req_named false h hn err hne (.lost err) hc rfl (by simp)
    (by simp [Expect.lastEv, (core_eqs hc).2.1])
  refine ⟨t, ?_, ht⟩
  have f1 := flushReq_named h hn
  simp only [Stream.cancelClient, f1.1, List.nil_append, Stream.addEvs, Builder.addAll, hadd, Option.toList,
    add_unnamed _ .canceled hclr, List.append_nil]

theorem close_unnamed {e : Expect} {st : Stream} (h : SRel e st) (hn : e.name = "") (isReq : Bool) (err : Err) :
    (st.close isReq err).2 = [] := by
  have := (close_count st isReq err).1
  have hn' : st.name = "" := by simp only [Stream.name]; rw [h.name]; exact hn
  simp only [hn', ne_eq, not_true_eq_false, false_and, if_false] at this
  exact List.eq_nil_of_length_eq_zero this

theorem cancelClient_unnamed {e : Expect} {st : Stream} (h : SRel e st) (hn : e.name = "") (err : Err) :
    (st.cancelClient err).2 = [] := by
  have := cancelClient_count st err
  have hn' : st.name = "" := by simp only [Stream.name]; rw [h.name]; exact hn
  simp only [hn', ne_eq, not_true_eq_false, if_false] at this
  exact List.eq_nil_of_length_eq_zero this

/-! ### END_STREAM on the request; a new stream -/

theorem flushReq_fields (st : Stream) :
    st.flushReq.1.reqCfg = st.reqCfg ∧ st.flushReq.1.respCfg = st.respCfg ∧ st.flushReq.1.gotResponse = st.gotResponse ∧
    st.flushReq.1.respDT = st.respDT ∧ st.flushReq.1.reqDT = DSt.init := by
  simp [Stream.flushReq, Stream.addEvs, dataFlush_fst]

theorem addEvs_fields (st : Stream) (evs : List Ev) :
    (st.addEvs evs).1.reqCfg = st.reqCfg ∧ (st.addEvs evs).1.respCfg = st.respCfg ∧ (st.addEvs evs).1.gotResponse = st.gotResponse ∧
    (st.addEvs evs).1.respDT = st.respDT ∧ (st.addEvs evs).1.reqDT = st.reqDT := by
  simp [Stream.addEvs]

theorem close_reqEnd {e e' : Expect} {st : Stream} (h : SRel e st) (hre : e.reqEnded = false)
    (hb : e'.body = (e.fields, e.reqBody, true, e.resp, e.respBody, e.respTrailers)) :
    (st.close true .none).2 = [] ∧ SRel e' (st.close true .none).1 := by
  obtain ⟨b1, b2, b3, b4, b5, b6⟩ := body_eqs hb
  have n1 := name_of_fields b1
  have c1 := reqCfg_of_fields b1
  have c2 := respCfg_of_resp b4
  have ff := flushReq_fields st
  have fa := addEvs_fields st.flushReq.1 [.reqEnd .none]
  have hclose : st.close true .none = ((st.flushReq.1.addEvs [.reqEnd .none]).1, st.flushReq.2 ++ (st.flushReq.1.addEvs [.reqEnd .none]).2) := by
    simp [Stream.close]
  rw [hclose]
  have k1 : (st.flushReq.1.addEvs [.reqEnd .none]).1.gotResponse = e'.resp.isSome := by rw [fa.2.2.1, ff.2.2.1, b4]; exact h.got
  have k2 : (st.flushReq.1.addEvs [.reqEnd .none]).1.reqCfg = e'.reqCfg := by rw [fa.1, ff.1, c1]; exact h.reqCfg
  have k3 : (st.flushReq.1.addEvs [.reqEnd .none]).1.respCfg = e'.respCfg := by rw [fa.2.1, ff.2.1, c2]; exact h.respCfg
  have k4 : (st.flushReq.1.addEvs [.reqEnd .none]).1.reqDT = if e'.reqEnded then DSt.init else (dataTrace e'.reqCfg DSt.init e'.reqBody).1 := by
    rw [fa.2.2.2.2, ff.2.2.2.2, b3]; rfl
  have k5 : (st.flushReq.1.addEvs [.reqEnd .none]).1.respDT = (dataTrace e'.respCfg DSt.init e'.respBody).1 := by
    rw [fa.2.2.2.1, ff.2.2.2.1, c2, b5]; exact h.respDT
  have k6 : e'.resp = none → e'.respBody = [] := by rw [b4, b5]; exact h.nobody
  by_cases hn : e.name = ""
  · have hn' : st.name = "" := by simp only [Stream.name]; rw [h.name]; exact hn
    have q1 := flushReq_quiet st
    have q2 := (addEvs_single st.flushReq.1 (.reqEnd .none)).1 (q1.2.trans hn')
    refine ⟨by rw [q1.1, q2.1]; rfl, ⟨?_, k1, k2, k3, k4, k5, k6, fun hx => absurd (n1.trans hn) hx⟩⟩
    rw [n1, hn]; exact q2.2
  · have hbr := h.b hn
    have f1 := flushReq_named h hn
    have f2 := add_reqEndNone f1.2.1
    have hh := sameHdr_trans f1.2.2.1 f2.2.2
    have hev : st.flushReq.1.addEvs [.reqEnd .none] = ({ st.flushReq.1 with builder := (st.flushReq.1.builder.add (.reqEnd .none)).1 }, []) := by
      simp [Stream.addEvs, Builder.addAll, f2.1]
    rw [hev] at k1 k2 k3 k4 k5 ⊢
    refine ⟨by rw [f1.1]; rfl, ⟨by rw [n1]; exact hh.1.trans h.name, k1, k2, k3, k4, k5, k6, fun _ => ?_⟩⟩
    refine ⟨by rw [b1]; exact hh.2.1.trans hbr.req, by rw [b4]; exact hh.2.2.1.trans hbr.resp,
      by rw [b6]; exact hh.2.2.2.trans hbr.trl, ?_⟩
    have := f2.2.1
    simp only [reqShown, respShown, b3, b4, c1, c2, b2, b5, if_true]
    simp only [respShown] at this
    exact this

theorem newStream_rel {e0 : Expect} (fields : Fields) (hb : e0.body = (fields, [], false, none, [], none)) :
    SRel e0 (newStream fields) := by
  obtain ⟨b1, b2, b3, b4, b5, b6⟩ := body_eqs hb
  have hname : e0.name = getHeader fields testNameHeader := by simp [Expect.name, b1]
  have c1 : e0.reqCfg = { isReq := true, isStream := (propsOf fields).1, dec := (propsOf fields).2 } := by simp [Expect.reqCfg, b1]
  have c2 : e0.respCfg = { isReq := false, isStream := false, dec := .broken } := by simp [Expect.respCfg, b4]
  refine ⟨by rw [hname]; rfl, by rw [b4]; rfl, c1.symm, c2.symm, ?_, ?_, fun _ => b5, fun hn => ?_⟩
  · rw [b3, b2, dataTrace_nil]; rfl
  · rw [b5, dataTrace_nil]; rfl
  · refine ⟨b1.symm, b4.symm, by rw [b6]; rfl, ?_⟩
    have hs : reqShown e0 = [] := by simp [reqShown, b3, b2, dataTrace_nil]
    have hp : respShown e0 = [] := by simp [respShown, b5, dataTrace_nil]
    rw [hs, hp, b3, b4]
    refine ⟨by show getHeader fields testNameHeader ≠ ""; rw [← hname]; exact hn, rfl, rfl, rfl, rfl, rfl, rfl, ?_, rfl⟩
    simp [oevs, newStream, Ev.obs]

end ConfModel.H2
