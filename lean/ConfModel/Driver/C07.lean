import ConfModel.Driver.Common
import ConfModel.Model.Library
import ConfModel.Spec.Library
import ConfModel.Model.EchoLoad
import ConfModel.Driver.C02
namespace ConfModel.Driver.C07
open Lean ConfModel.Driver ConfModel.Config ConfModel.Library

def testOf (j : Json) : Test :=
  { name := str (field j "name"), st := ST.ofNum (nat (field j "st")),
    service := str (field j "service"), method := str (field j "method"),
    rawRequest := bool (field j "rawReq"), rawResponse := bool (field j "rawResp"),
    hasExpected := bool (field j "expected") }

def suiteOf (j : Json) : Suite :=
  { name := str (field j "name"), mode := Mode.ofNum (nat (field j "mode")),
    protocols := (natList (field j "protocols")).map Proto.ofNum,
    versions := (natList (field j "versions")).map Ver.ofNum,
    codecs := (natList (field j "codecs")).map Codec.ofNum,
    comps := (natList (field j "comps")).map Comp.ofNum,
    cvm := CVM.ofNum (nat (field j "cvm")),
    reliesOnTls := bool (field j "tls"), reliesOnCerts := bool (field j "certs"),
    reliesOnGet := bool (field j "get"), reliesOnLimit := bool (field j "limit"),
    tests := (arr (field j "tests")).map testOf }

def sortedDistinct (l : List Nat) : List Nat :=
  let a := l.toArray.qsort (· < ·)
  (a.foldl (fun (acc : Array Nat) x => if acc.back? == some x then acc else acc.push x) #[]).toList

/-- membership bitmap over case codes (Go: `configCaseSet` map lookup) -/
def bitmap (codes : List Nat) : ByteArray :=
  codes.foldl (fun (b : ByteArray) c => if c < b.size then b.set! c 1 else b) (ByteArray.mk (Array.replicate 129024 0))

def b01 (b : Bool) : String := if b then "1" else "0"

/-- canonical line of a permutation: the observables property C07 names -/
def permLine (q : Perm) : String :=
  s!"{q.fullName}|{q.simpleName}|{q.v.num}|{q.p.num}|{q.c.num}|{q.z.num}|{q.st.num}|{b01 q.serverCert}|{b01 q.clientCreds}|{q.service}|{q.method}|{q.certText}|{q.credsText}"

def implPermLine (j : Json) : String :=
  let g (k : String) := field j k
  s!"{str (g "name")}|{str (g "simple")}|{nat (g "v")}|{nat (g "p")}|{nat (g "c")}|{nat (g "z")}|{nat (g "st")}|{b01 (bool (g "cert"))}|{b01 (bool (g "creds"))}|{str (g "service")}|{str (g "method")}|{str (g "certText")}|{str (g "credsText")}"

/-- model ↔ implementation only (the property does not name the receive limit): the line plus
`Request.MessageReceiveLimit` -/
def permLineA (q : Perm) : String := permLine q ++ s!"|{q.recvLimit}"
def implPermLineA (j : Json) : String := implPermLine j ++ s!"|{nat (field j "limit")}"

/-- which of the four checks of `expandSuite` makes a suite misconfigured (first that applies) -/
def misconfiguredWhy (s : Suite) : String :=
  if s.reliesOnCerts && !s.reliesOnTls then "certs-without-tls"
  else if s.reliesOnGet && !only s.protocols .connect then "get"
  else if s.cvm = .ignore && !only s.protocols .connect then "cvm-ignore"
  else if s.cvm = .require && !only s.protocols .connect then "cvm-require" else "?"

def keyLine (k : ServerKey) (names : List String) : String :=
  s!"{k.p.num}|{k.v.num}|{b01 k.tls}|{b01 k.certs}|" ++ "\n".intercalate (sortStrings names)

/-- the branch of the model that rejected the input (evidence class label) -/
def errName : LibErr → String
  | .suiteNoName => "suite-no-name" | .suiteNoTests => "suite-no-tests" | .suiteDuplicate _ => "suite-duplicate"
  | .misconfigured _ => "misconfigured" | .testNoName _ => "test-no-name" | .testNoStreamType _ => "test-no-stream-type"
  | .methodWithoutService _ => "method-without-service" | .serviceWithoutMethod _ => "service-without-method"
  | .duplicateName _ => "duplicate-name" | .noTestCases => "no-test-cases"

def handle : Handler := fun op inp impl =>
  if !(isNull (field impl "panic")) then
    { agree := false, holds := false, why := "panic: " ++ str (field impl "panic") } else
  match op with
  | "lib" | "corpus" =>
    let suites := (arr (field inp "suites")).map suiteOf
    let codes := sortedDistinct (natList (field inp "cases"))
    let cases := codes.map Case.ofCode
    let mode := Mode.ofNum (nat (field inp "mode"))
    let bm := bitmap codes
    let inCases : Case → Bool := fun c => bm.get! c.code == 1
    -- implementation
    let implErr := str (field impl "err")
    let implOk := implErr == ""
    let stable := bool (field impl "stable")
    let implPermsJ := arr (field impl "perms")
    let implPerms := sortStrings (implPermsJ.map implPermLine)
    let implPermsA := sortStrings (implPermsJ.map implPermLineA)
    let keysConsistent := implPermsJ.all fun j => str (field j "name") == str (field j "key")
    let implGroupsJ := arr (field impl "groups")
    let implGroups : List (ServerKey × List String) := implGroupsJ.map fun j =>
      (⟨Proto.ofNum (nat (field j "p")), Ver.ofNum (nat (field j "v")), bool (field j "tls"), bool (field j "certs")⟩,
        strList (field j "names"))
    let implGroupLines := sortStrings (implGroups.map fun g => keyLine g.1 g.2)
    let implAll := ["allFT", "allTF", "allTT"].map fun k => strList (field impl k)
    -- model
    let m := newLibrary pathJoin suites inCases mode
    let agree := match m with
      | .error _ => !implOk
      | .ok lib =>
        implOk && implPermsA == sortStrings (lib.map permLineA) &&
        implGroupLines == sortStrings ((group lib).map fun g => keyLine g.1 (g.2.map (·.fullName))) &&
        implAll == [(false, true), (true, false), (true, true)].map fun (cl, sv) =>
          sortStrings ((allPermutations cl sv lib).map (·.fullName))
    -- the property, on the implementation's output
    let wf := decide (WellFormed pathJoin suites cases mode)
    let specPerms := if wf then specList pathJoin suites cases mode else []
    let spec := sortStrings (specPerms.map permLine)
    let specAll := [(false, true), (true, false), (true, true)].map fun (cl, sv) =>
      sortStrings (specAllNames cl sv specPerms)
    let implKeyed : List (String × ServerKey) := implPermsJ.map fun j =>
      (str (field j "name"),
        ⟨Proto.ofNum (nat (field j "p")), Ver.ofNum (nat (field j "v")), bool (field j "cert"), bool (field j "creds")⟩)
    let grouped := decide (GroupedOnce implKeyed implGroups)
    -- `duplicate_error_genuine` on the implementation's verdict: with clean names and no
    -- duplicated definition a duplicate-definition error needs a relevant list repeating a used value
    let namesOk := decide (NamesClean suites ∧ DefinitionsDistinct suites)
    let repeats := suites.any fun s => cases.any fun c =>
      decide (Admits s mode c ∧ (∃ t ∈ s.tests, t.st = c.s) ∧ ¬ NoRepeat s c)
    let (holds, why) : Bool × String :=
      if !stable then (false, "unstable: repeated expansion of the same input gave different results")
      else if implErr == "dup-name" && namesOk && !repeats then
        (false, "spurious-duplicate: duplicate-definition error although all names are clean, no suite or test name is repeated and no relevant list repeats a value in use")
      else if !wf then (true, "")
      else if spec.isEmpty then (!implOk, if implOk then "extra: permutations returned although none is specified" else "")
      else if !implOk then (false, s!"rejected ({implErr}) although the suites are well-formed and {spec.length} permutation(s) are specified")
      else if implPerms != spec then
        (false, s!"wrong-permutations: returned {implPerms.length}, specified {spec.length}; missing {(spec.filter (!implPerms.contains ·)).take 3}, extra {(implPerms.filter (!spec.contains ·)).take 3}")
      else if !keysConsistent then (false, "map-key: a test case is stored under a key different from its name")
      else if !grouped then (false, "grouping: a permutation is not in exactly one server-instance bucket with its own key")
      else if implAll != specAll then (false, "grpc-peers: allPermutations does not return the library plus the marked applicable permutations")
      else (true, "")
    { agree := agree, holds := holds, nontrivial := wf && !spec.isEmpty,
      model := match m with
        | .error e => Json.mkObj [("err", toString (repr e))]
        | .ok lib => Json.mkObj [("perms", toJson lib.length)],
      why := why,
      cls := match m with
        | .error e => (if !wf then "ill-formed:" else if spec.isEmpty then "empty:" else "UNEXPECTED-REJECT:") ++ errName e ++
            (match e with
              | .misconfigured n => ":" ++ ((suites.find? (·.name == n)).map misconfiguredWhy).getD "?"
              | .duplicateName _ =>
                if !namesOk then (if decide (DefinitionsDistinct suites) then ":names-not-clean" else ":definition-repeated")
                else if repeats then ":relevant-list-repeats" else ":UNEXPECTED"
              | _ => "")
        | .ok _ =>
          if !wf then "UNEXPECTED-ACCEPT"
          else if suites.any (fun s => decide (ModeAdmits s mode) &&
              !(decide (s.protocols.Nodup ∧ s.versions.Nodup ∧ s.codecs.Nodup ∧ s.comps.Nodup))) then "ok:relevant-list-repeats-unused-value"
          else if namesOk then "ok:names-clean" else "ok:names-not-clean" }
  | "parse" =>
    let suites := (arr (field inp "suites")).map suiteOf
    let implErr := str (field impl "err")
    let m := parseSuites suites
    let ok := decide (RawPayloadsOk suites)
    let holds := (implErr == "") == ok
    { agree := (implErr == "") == m.isNone, holds := holds, nontrivial := !ok || suites.any (fun s => s.tests.any fun t => t.rawRequest || t.rawResponse),
      model := toJson (toString (repr m)),
      why := if holds then "" else if ok then s!"rejected ({implErr}) although raw payloads are used where allowed" else "accepted: a raw payload is used where it is not allowed",
      cls := if ok then "ok" else "rejected" }
  | "rawload" =>
    -- suites described by shape through the real parseTestSuites + newTestCaseLibrary; the model of
    -- the validation is C02's (`EchoLoad.load`); the property's predicate — the mode-specific payload
    -- restrictions — is evaluated on the implementation's verdict
    let shapes := (arr (field inp "shapes")).map ConfModel.Driver.C02.lsuiteOf
    let mode := match str (field inp "mode") with | "client" => 1 | "server" => 2 | _ => 0
    let m := EchoLoad.loadErr EchoLoad.cfgApplies mode shapes
    let want := match m with | none => "ok" | some _ => "error"
    let cls := str (field impl "class")
    let rawOk := shapes.all fun s => s.cases.all fun c =>
      (!c.rawRequest || s.mode == 2) && (!EchoLoad.hasRaw c || (s.mode == 1 && c.explicit))
    let holds := cls != "ok" || rawOk
    { agree := cls == want, holds := holds, nontrivial := shapes.any (fun s => s.cases.any fun c => c.rawRequest || EchoLoad.hasRaw c),
      model := Json.mkObj [("class", want), ("branch", match m with | none => "" | some e => toString (repr e))],
      why := if !holds then "loaded: a raw request outside a server-mode suite, or a raw response outside a client-mode suite or without an explicit expected response"
        else if cls == want then "" else "load verdict " ++ cls ++ ", the model of the validation says " ++ want,
      cls := (match m with | none => "accepted" | some e => "rejected:" ++ toString (repr e)) }
  | "join" =>
    let elems := strList (field inp "elems")
    let impl' := str (field impl "joined")
    let m := pathJoin elems
    -- `segments_pathJoin` on the implementation's output: clean components keep their segments
    let clean := !elems.isEmpty && elems.all fun x => decide (CleanName x)
    let holds := !clean || segments impl' == elems.flatMap segments
    { agree := m == impl', holds := holds, nontrivial := clean || impl' != "/".intercalate elems,
      model := toJson m,
      why := if holds then "" else "path.Join changed the segments of clean components",
      cls := if elems.all (· == "") then "empty"
        else if clean then "clean"
        else if impl' == "/".intercalate (elems.filter (· != "")) then "unclean-but-unchanged"
        else if impl'.startsWith "/" then "rewritten:rooted"
        else if impl'.startsWith ".." then "rewritten:leading-dotdot"
        else if impl' == "." then "rewritten:to-dot" else "rewritten" }
  | "runmode" =>
    -- the real Run with recording peers: which names were handed to the client, for which commands
    let cCmd := bool (field impl "clientCmd")
    let sCmd := bool (field impl "serverCmd")
    let m := runMode cCmd sCmd
    let mNum := match m with | .unspec => "0" | .client => "1" | .server => "2"
    let sent := strList (field impl "sent")
    let lib (k : String) := strList (field (field impl "lib") k)
    let suites : List (String × Mode) := (arr (field inp "suites")).map fun s => (str (field s "name"), Mode.ofNum (nat (field s "suiteMode")))
    -- the property: nothing of a suite whose mode does not admit the run mode, everything else of the library
    let foreign := sent.filter fun n => suites.any fun (sn, sm) => n.startsWith (sn ++ "/") && !(sm == .unspec || sm == m)
    let runErr := str (field impl "runErr")
    let holds := foreign.isEmpty && (sent == lib mNum || runErr != "")
    { agree := sent == lib mNum && runErr == "" && str (field impl "loadErr") == "", holds := holds,
      nontrivial := lib "0" != lib "1" || lib "0" != lib "2",
      model := Json.mkObj [("mode", mNum)],
      why := if !foreign.isEmpty then "permutations of a suite whose mode does not admit this run were handed to the client: " ++ toString (foreign.take 3)
        else if !holds then "the client was handed " ++ toString sent.length ++ " permutations, the library for run mode " ++ mNum ++ " has " ++ toString (lib mNum).length
        else "",
      cls := "runmode:" ++ mNum }
  | _ => bad ("C07: unknown op " ++ op)

end ConfModel.Driver.C07
