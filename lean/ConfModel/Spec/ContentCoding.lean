/-
Declarative side of the compressed-response part of C13: which content coding a header value
(`Content-Encoding`, `Connect-Content-Encoding`, `Grpc-Encoding`) announces.

RFC 9110 §8.4.1: "All content codings are case-insensitive".  An absent or empty value
announces no coding (identity).  The codings are the six of
`connectrpc.conformance.v1.Compression`, in the order of that enum.
-/
namespace ConfModel.ContentCoding

def lowerChar (c : Char) : Char :=
  if 'A' ≤ c ∧ c ≤ 'Z' then Char.ofNat (c.toNat + 32) else c

/-- ASCII lower-casing (`strings.ToLower` on the ASCII names that matter here) -/
def lower (s : String) : String := String.ofList (s.toList.map lowerChar)

def codings : List String := ["identity", "gzip", "br", "zstd", "deflate", "snappy"]

/-- the coding (index into `codings`) a header value announces; `none`: an unknown coding -/
def codingOf (v : Option String) : Option Nat :=
  match v with
  | none => some 0
  | some s => if lower s == "" then some 0 else codings.findIdx? (· == lower s)

/-- The examiner must see the plain payload: the unary body is coded with `applied` and the
header announces exactly that coding; an enveloped end-stream message is coded only when its
compressed flag is set. -/
def payloadReachesExaminer (stream : Bool) (flag : Bool) (applied : Nat) (enc : Option String) : Bool :=
  if stream && !flag then true else codingOf enc == some applied

end ConfModel.ContentCoding
