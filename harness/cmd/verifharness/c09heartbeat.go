package main

import (
	"sync/atomic"
	"time"
)

// Operations that look at real time (time-out windows, a writer's patience, "did not return") must
// not depend on a quiet machine: a heartbeat goroutine measures the longest time the process was
// not scheduled (machine overloaded, swapped out, stopped). If that gap could have decided an
// observation the operation is repeated once; if the machine stalls again the observation carries
// the gap (frozenMs) and the driver sets the scenario aside (counted in the evidence).

type c09Heartbeat struct {
	stop chan struct{}
	done chan struct{}
	max  atomic.Int64
}

const c09HeartbeatTick = 50 * time.Millisecond

func c09StartHeartbeat() *c09Heartbeat {
	h := &c09Heartbeat{stop: make(chan struct{}), done: make(chan struct{})}
	go func() {
		defer close(h.done)
		last := time.Now()
		t := time.NewTicker(c09HeartbeatTick)
		defer t.Stop()
		for {
			select {
			case <-h.stop:
				return
			case <-t.C:
			}
			now := time.Now()
			if gap := int64(now.Sub(last) - c09HeartbeatTick); gap > h.max.Load() {
				h.max.Store(gap)
			}
			last = now
		}
	}()
	return h
}

// gap stops the heartbeat and returns the longest scheduling gap seen.
func (h *c09Heartbeat) gap() time.Duration {
	close(h.stop)
	<-h.done
	return time.Duration(h.max.Load())
}

// c09Steady runs f, up to twice, until the process was not stalled for thresh or more while it ran;
// it returns f's result and the gap of the last run in milliseconds (0 if below thresh).
func c09Steady[T any](thresh time.Duration, f func() T) (T, int64) {
	var out T
	for attempt := 0; ; attempt++ {
		h := c09StartHeartbeat()
		out = f()
		g := h.gap()
		if g < thresh {
			return out, 0
		}
		if attempt == 1 {
			return out, g.Milliseconds()
		}
	}
}
