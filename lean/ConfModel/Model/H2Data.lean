/-
C15 — the per-stream `dataTracer` (internal/tracer/reader.go) as run by the HTTP/2
connection tracer on DATA payloads: envelope prefix (5 bytes), message accumulation,
response end-stream capture, `emitUnfinished`.  Same loop shape as the frame tracer, so it
is an instance of `Machine`.  Only the identity and the "broken" decompressor are modelled
(the generator negotiates no compression for C15; compression is C14's subject).
-/
import ConfModel.Model.H2Trace
namespace ConfModel.H2

inductive DecKind
  | identity    -- GetDecompressor("" | "identity")
  | broken      -- brokenDecompressor: every content reads as empty
deriving DecidableEq, Repr, Inhabited

structure DCfg where
  isReq : Bool
  isStream : Bool
  dec : DecKind
deriving DecidableEq, Repr, Inhabited

structure DSt where
  pfx : Bytes
  env : Option Env
  expecting : Nat
  actual : Nat
  eos : Option Bytes      -- endStream buffer
deriving DecidableEq, Repr, Inhabited

def DSt.init : DSt := { pfx := [], env := none, expecting := 0, actual := 0, eos := none }

inductive DEv
  | data (env : Option Env) (len : Nat)
  | eos (content : Bytes)
deriving DecidableEq, Repr, Inhabited

def be32 (b : Bytes) : Nat := b.foldl (fun acc x => acc * 256 + x.toNat) 0

/-- `(flags & 0x82) != 0` -/
def isEndFlag (f : Nat) : Bool := f / 128 % 2 == 1 || f / 2 % 2 == 1

def DecKind.content (k : DecKind) (raw : Bytes) : Bytes :=
  match k with
  | .identity => raw
  | .broken => []

/-- end-stream content as reported: raw unless the message's compressed flag (bit 0) is set, in
which case it goes through the negotiated decompressor (repaired code, F09) -/
def DecKind.contentF (k : DecKind) (flags : Nat) (raw : Bytes) : Bytes :=
  if flags % 2 == 1 then k.content raw else raw

def two32 : Nat := 4294967296

/-- `int(d.expecting - uint32(d.actual))` with Go's uint32 wrap-around -/
def dNeed (s : DSt) : Nat :=
  if s.expecting = 0 then 5 - s.pfx.length
  else (s.expecting + two32 - s.actual % two32) % two32

def dAbsorb (s : DSt) (d : Bytes) : DSt :=
  if s.expecting = 0 then { s with pfx := s.pfx ++ d }
  else { s with actual := s.actual + d.length, eos := s.eos.map (· ++ d) }

def dComplete (c : DCfg) (s : DSt) (d : Bytes) : DSt × List DEv :=
  if s.expecting = 0 then
    -- tracePrefixLocked
    let p := s.pfx ++ d
    let e : Env := { flags := (p.headD 0).toNat, len := be32 (p.drop 1) }
    if e.len = 0 then ({ s with pfx := [], env := none, expecting := 0 }, [DEv.data (some e) 0])
    else
      ({ s with pfx := [], env := some e, expecting := e.len,
                eos := if !c.isReq && isEndFlag e.flags then some [] else s.eos }, [])
  else
    -- traceMessageLocked
    let evs := [DEv.data s.env s.expecting]
    let evs2 := match s.eos with
      | none => []
      | some buf =>
        let content := c.dec.contentF ((s.env.map (·.flags)).getD 0) (buf ++ d)
        if content.isEmpty then [] else [DEv.eos content]
    ({ s with env := none, expecting := 0, actual := 0, eos := none }, evs ++ evs2)

def dataMachine (c : DCfg) : Machine DSt DEv :=
  { stopped := fun _ => false, need := dNeed, absorb := dAbsorb, complete := dComplete c }

/-- `dataTracer.trace(data)` -/
def dataTrace (c : DCfg) (s : DSt) (data : Bytes) : DSt × List DEv :=
  if !c.isStream then ({ s with actual := s.actual + data.length }, [])
  else if data.isEmpty then (s, [])
  else if dNeed s = 0 then
    -- only reachable with a stale `actual` (response DATA traced before the response HEADERS)
    Machine.comb (dComplete c s []) (fun s' => (dataMachine c).run s' data)
  else (dataMachine c).run s data

/-- `dataTracer.emitUnfinished` -/
def dataFlush (s : DSt) : DSt × List DEv :=
  let unfinished := if s.expecting = 0 ∧ s.pfx.length > 0 then s.pfx.length else s.actual
  (DSt.init, if unfinished > 0 then [DEv.data s.env unfinished] else [])

end ConfModel.H2
