/-
On a direction's byte string that *is* a sequence of frames (after the client preface on the
request direction), the reassembly hands exactly those frames to the decoder, in order,
header blocks joined — `specFrames`.
-/
import ConfModel.Lemmas.H2Frame
import ConfModel.Spec.H2
set_option linter.unusedSimpArgs false
set_option linter.unusedVariables false
namespace ConfModel.H2
open Machine

variable {σ : Type}

/-- a call with exactly the missing bytes completes the unit -/
theorem run_exact {S O : Type} {m : Machine S O} {Inv : S → Prop} (law : Lawful m Inv) (s : S) (d : Bytes)
    (hi : Inv s) (hs : m.stopped s = false) (hl : d.length = m.need s) : m.run s d = m.complete s d := by
  have hpos := law.need_pos s hi hs
  have hd : d ≠ [] := by intro h; subst h; simp at hl; omega
  rw [run_full law s d hi hs hd (by omega)]
  have e1 : d.take (m.need s) = d := List.take_of_length_le (by omega)
  have e2 : d.drop (m.need s) = [] := List.drop_of_length_le (by omega)
  rw [e1, e2, run_nil]
  simp

/-- the tracer sits at a frame boundary (past the preface, nothing pending but `buf`) -/
def AtB (s : FSt σ) : Prop :=
  ¬ InPreface s ∧ s.broken = false ∧ s.pfx = [] ∧ s.expecting = 0 ∧ s.actual = 0

theorem AtB_inv (s : FSt σ) (h : AtB s) : FInv s := by
  obtain ⟨_, _, h3, h4, h5⟩ := h
  refine ⟨by simp [h3, frameHeaderLen], fun _ => h5, fun hne => absurd h4 hne⟩

theorem header_length (f : RawFrame) (h : f.ok) : f.header.length = 9 := by
  simp [RawFrame.header, h.1]

theorem hdrLen_header (f : RawFrame) (h : f.ok) (rest : Bytes) : hdrLen (f.header ++ rest) = f.payload.length := by
  have := h.2
  simp only [RawFrame.header, List.cons_append, hdrLen, UInt8.toNat_ofNat']
  omega

theorem hdrTyp_header (f : RawFrame) (rest : Bytes) : hdrTyp (f.header ++ rest) = f.typ.toNat := by
  simp [RawFrame.header, hdrTyp]

theorem hdrFlags_header (f : RawFrame) (rest : Bytes) : hdrFlags (f.header ++ rest) = f.flags.toNat := by
  simp [RawFrame.header, hdrFlags]

/-- the state in which `emitFrame` runs once frame `f` is complete -/
def afterFrame (s : FSt σ) (f : RawFrame) : FSt σ :=
  { s with pfx := [], typ := f.typ.toNat, flags := f.flags.toNat, buf := s.buf ++ f.enc, expecting := 0, actual := 0 }

/-- the state after the 9-byte header of `f` -/
def afterHdr (s : FSt σ) (f : RawFrame) : FSt σ :=
  { s with pfx := [], typ := f.typ.toNat, flags := f.flags.toNat, buf := s.buf ++ f.header, expecting := f.payload.length }

theorem complete_header (dec : Bytes → σ → Option (Frame × σ)) (s : FSt σ) (hs : AtB s) (f : RawFrame) (hf : f.ok) :
    fComplete dec s f.header = if f.payload.length = 0 then emit dec (afterHdr s f) else (afterHdr s f, []) := by
  obtain ⟨hp, hb, h3, h4, h5⟩ := hs
  have e0 : f.header = f.header ++ [] := by simp
  have hl : hdrLen f.header = f.payload.length := by rw [e0]; exact hdrLen_header f hf []
  have ht : hdrTyp f.header = f.typ.toNat := by rw [e0]; exact hdrTyp_header f []
  have hfl : hdrFlags f.header = f.flags.toNat := by rw [e0]; exact hdrFlags_header f []
  unfold fComplete
  rw [if_neg hp, if_pos h4]
  simp only [h3, List.nil_append, hl, ht, hfl]
  rfl

theorem afterHdr_empty (s : FSt σ) (hs : AtB s) (f : RawFrame) (hz : f.payload.length = 0) :
    afterHdr s f = afterFrame s f := by
  have hnil : f.payload = [] := List.eq_nil_of_length_eq_zero hz
  simp [afterHdr, afterFrame, RawFrame.enc, hnil, hs.2.2.2.2]

theorem complete_payload (dec : Bytes → σ → Option (Frame × σ)) (s : FSt σ) (hs : AtB s) (f : RawFrame)
    (hz : f.payload.length ≠ 0) : fComplete dec (afterHdr s f) f.payload = emit dec (afterFrame s f) := by
  obtain ⟨hp, hb, h3, h4, h5⟩ := hs
  have hp1 : ¬ InPreface (afterHdr s f) := hp
  unfold fComplete
  rw [if_neg hp1, if_neg (by simpa [afterHdr] using hz)]
  simp [afterHdr, afterFrame, RawFrame.enc, List.append_assoc]

theorem run_one_frame (dec : Bytes → σ → Option (Frame × σ)) (s : FSt σ) (hs : AtB s) (f : RawFrame) (hf : f.ok) :
    frameTrace dec s f.enc = emit dec (afterFrame s f) := by
  have hi := AtB_inv s hs
  have law := frame_lawful dec
  have hlen := header_length f hf
  have hs' := hs
  obtain ⟨hp, hb, h3, h4, h5⟩ := hs
  have hneed : (frameMachine dec).need s = 9 := by
    show fNeed s = 9
    simp [fNeed, hp, h4, h3, frameHeaderLen]
  have hrunH : (frameMachine dec).run s f.header = fComplete dec s f.header :=
    run_exact law s f.header hi hb (by rw [hneed, hlen])
  unfold frameTrace RawFrame.enc
  rw [run_append law s f.header f.payload hi, hrunH, complete_header dec s hs' f hf]
  by_cases hz : f.payload.length = 0
  · have hnil : f.payload = [] := List.eq_nil_of_length_eq_zero hz
    rw [if_pos hz, afterHdr_empty s hs' f hz, hnil]
    simp [comb, run_nil]
  · rw [if_neg hz]
    have hi1 : FInv (afterHdr s f) :=
      ⟨by simp [afterHdr, frameHeaderLen], fun h => absurd h hz, fun _ => by simp [afterHdr, h5]; omega⟩
    have hp1 : ¬ InPreface (afterHdr s f) := hp
    have hneed1 : (frameMachine dec).need (afterHdr s f) = f.payload.length := by
      show fNeed (afterHdr s f) = _
      rw [fNeed, if_neg hp1, if_neg (by simpa [afterHdr] using hz)]
      simp [afterHdr, h5]
    have hrunP : (frameMachine dec).run (afterHdr s f) f.payload = fComplete dec (afterHdr s f) f.payload :=
      run_exact law _ f.payload hi1 hb (by rw [hneed1])
    simp only [comb, List.nil_append]
    rw [hrunP, complete_payload dec s hs' f hz]

/-- `emitFrame` leaves the tracer at a frame boundary (or broken) -/
theorem emit_AtB (dec : Bytes → σ → Option (Frame × σ)) (s : FSt σ) (hs : AtB s) (f : RawFrame) :
    (emit dec (afterFrame s f)).1.broken = true ∨ AtB (emit dec (afterFrame s f)).1 := by
  obtain ⟨hp, hb, h3, h4, h5⟩ := hs
  unfold emit
  split
  · right; exact ⟨hp, hb, rfl, rfl, rfl⟩
  · split
    · left; rfl
    · right; exact ⟨hp, hb, rfl, rfl, rfl⟩

/-- the frames of a whole direction, from a frame boundary -/
theorem run_frames (dec : Bytes → σ → Option (Frame × σ)) : ∀ (fs : List RawFrame) (s : FSt σ), AtB s →
    (∀ f ∈ fs, f.ok) →
    (frameTrace dec s (fs.map RawFrame.enc).flatten).2 = (specFrames dec s.buf s.hp fs).1 ∧
    (frameTrace dec s (fs.map RawFrame.enc).flatten).1.broken = (specFrames dec s.buf s.hp fs).2
  | [], s, hs, _ => by
    constructor
    · simp [frameTrace, run_nil, specFrames]
    · simp [frameTrace, run_nil, specFrames, hs.2.1]
  | f :: fs, s, hs, hok => by
    have hf := hok f (by simp)
    have hok' : ∀ g ∈ fs, g.ok := fun g hg => hok g (by simp [hg])
    have law := frame_lawful dec
    have h1 := run_one_frame dec s hs f hf
    simp only [List.map_cons, List.flatten_cons]
    unfold frameTrace at h1 ⊢
    rw [run_append law s f.enc _ (AtB_inv s hs), h1]
    simp only [comb]
    have hB := emit_AtB dec s hs f
    -- case analysis on what emitFrame does
    unfold specFrames
    by_cases hh : holdBlock f.typ.toNat f.flags.toNat = true
    · -- header block continues: nothing emitted, buffer kept
      have he : emit dec (afterFrame s f) = (afterFrame s f, []) := by
        unfold emit; rw [if_pos (by simpa [afterFrame] using hh)]
      rw [if_pos hh]
      rw [he] at hB ⊢
      have hs2 : AtB (afterFrame s f) := ⟨hs.1, hs.2.1, rfl, rfl, rfl⟩
      have ih := run_frames dec fs (afterFrame s f) hs2 hok'
      unfold frameTrace at ih
      simpa [afterFrame] using ih
    · rw [if_neg hh]
      cases hd : dec (s.buf ++ f.enc) s.hp with
      | none =>
        have he : emit dec (afterFrame s f) = ({ afterFrame s f with broken := true, buf := [] }, []) := by
          unfold emit; rw [if_neg (by simpa [afterFrame] using hh)]
          simp [afterFrame, hd]
        rw [he]
        simp [run_stopped, frameMachine]
      | some r =>
        obtain ⟨fr, hp'⟩ := r
        have he : emit dec (afterFrame s f) = ({ afterFrame s f with buf := [], hp := hp' }, [fr]) := by
          unfold emit; rw [if_neg (by simpa [afterFrame] using hh)]
          simp [afterFrame, hd]
        rw [he]
        have hs2 : AtB ({ afterFrame s f with buf := [], hp := hp' } : FSt σ) := ⟨hs.1, hs.2.1, rfl, rfl, rfl⟩
        have ih := run_frames dec fs _ hs2 hok'
        unfold frameTrace at ih
        simp only [List.singleton_append]
        exact ⟨by rw [ih.1], ih.2⟩

/-- the client preface in front of the request direction -/
theorem run_preface (dec : Bytes → σ → Option (Frame × σ)) (hp : σ) :
    frameTrace dec (FSt.init true hp) clientPreface = ({ FSt.init true hp with preface := clientPreface }, []) := by
  have law := frame_lawful dec
  have hi := FInv_init true hp
  have hneed : (frameMachine dec).need (FSt.init true hp) = 24 := by
    show fNeed (FSt.init true hp) = 24
    simp [fNeed, FSt.init, prefaceLen]
  unfold frameTrace
  rw [run_exact law _ clientPreface hi rfl (by rw [hneed]; rfl)]
  show fComplete dec (FSt.init true hp) clientPreface = _
  unfold fComplete
  have hin : InPreface (FSt.init true hp) := ⟨rfl, by simp [FSt.init, prefaceLen]⟩
  rw [if_pos hin]
  simp [FSt.init]

end ConfModel.H2
