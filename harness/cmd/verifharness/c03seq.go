package main

import (
	"encoding/json"

	cc "connectrpc.com/conformance/internal/app/connectconformance"
	conformancev1 "connectrpc.com/conformance/internal/gen/proto/go/connectrpc/conformance/v1"
	"connectrpc.com/conformance/internal/verifharness/gen"
)

// C03 — op "seqassert": what assert PUBLISHES.  A sequence of calls on ONE testResults accumulator
// with repeated names (assert of a pair, failed, setOutcome, failedToStart, failRemaining,
// recordSideband), then report() with a capturing printer.
//
// in = {pool: names, pairs: [{st, other, exp, act, mut, expect}], total,
//       calls: [{k, ns, pair, msg}]}   (k = assert: ns[0] is compared with pairs[pair])
// impl = {outcomes: per name (sorted) the stored outcome before report: setup flag, kind, the
//         discrepancy classes; listed: the names report prints as FAILED; ok, total, passed,
//         failed, notRun: report's verdict and summary}.

func init() {
	gen.RegisterOp("c03", "seqassert", func(_ *gen.Ctx, raw json.RawMessage) any {
		in := gen.Into[c03SeqIn](raw)
		return c03Seq(in)
	})
}

type c03SeqCall struct {
	K    string   `json:"k"`
	Ns   []string `json:"ns"`
	Pair int      `json:"pair"`
	Msg  string   `json:"msg"`
}

type c03SeqIn struct {
	Pool  []string     `json:"pool"`
	Pairs []c03In      `json:"pairs"`
	Total int          `json:"total"`
	Calls []c03SeqCall `json:"calls"`
}

type c03SeqOutcome struct {
	N     string   `json:"n"`
	Setup bool     `json:"setup"`
	Kind  string   `json:"kind"`
	Errs  []string `json:"errs"`
}

type c03SeqOut struct {
	Outcomes   []c03SeqOutcome `json:"outcomes"`
	Listed     []string        `json:"listed"`
	OK         bool            `json:"ok"`
	Total      int             `json:"total"`
	Passed     int             `json:"passed"`
	Failed     int             `json:"failed"`
	NotRun     int             `json:"notRun"`
	OtherLines int             `json:"otherLines"`
}

func c03Seq(in c03SeqIn) c03SeqOut {
	calls := make([]cc.VerifC03SeqCall, 0, len(in.Calls))
	for _, c := range in.Calls {
		call := cc.VerifC03SeqCall{K: c.K, Ns: c.Ns, Msg: c.Msg}
		if c.K == "assert" {
			p := in.Pairs[c.Pair]
			def := &conformancev1.TestCase{
				Request:          &conformancev1.ClientCompatRequest{TestName: c.Ns[0], StreamType: conformancev1.StreamType(p.St)},
				ExpectedResponse: c03ToProto(p.Exp),
			}
			for _, o := range p.Other {
				def.OtherAllowedErrorCodes = append(def.OtherAllowedErrorCodes, conformancev1.Code(o))
			}
			call.Def, call.Act = def, c03ToProto(p.Act)
		}
		calls = append(calls, call)
	}
	obs := cc.VerifC03Seq(in.Total, calls)
	out := c03SeqOut{Outcomes: []c03SeqOutcome{}, Listed: obs.Listed, OK: obs.ReportOK, Total: obs.Total, Passed: obs.Passed,
		Failed: obs.Failed, NotRun: obs.NotRun, OtherLines: obs.OtherLines}
	for _, o := range obs.Outcomes {
		so := c03SeqOutcome{N: o.Name, Setup: o.Setup, Kind: o.Kind, Errs: []string{}}
		for _, t := range o.Texts {
			so.Errs = append(so.Errs, c03Classify(t))
		}
		out.Outcomes = append(out.Outcomes, so)
	}
	return out
}

func runC03Seq(c *gen.Ctx, g0 *c03Gen) error {
	r := g0.r.Fork()
	g := &c03Gen{r: r, grace: g0.grace}
	pool := []string{"s/a", "s/b", "s/c"}

	// (a) bounded-exhaustive: every sequence of up to 3 (thorough 4) calls over two names and a
	// conforming / a deviating pair (the third payload differs)
	p3 := func(last string) []c03Payload { return []c03Payload{{D: "01"}, {D: "02"}, {D: last}} }
	exp := c03Result{H: []c03Hdr{}, T: []c03Hdr{}, P: p3("03")}
	good := c03In{St: 3, Other: []int{}, Exp: exp, Act: c03Result{H: []c03Hdr{{N: "x-extra", V: []string{"1"}}}, T: []c03Hdr{}, P: p3("03")}, Mut: "extra-entry"}
	bad := c03In{St: 3, Other: []int{}, Exp: exp, Act: c03Result{H: []c03Hdr{}, T: []c03Hdr{}, P: p3("04")}, Mut: "flip-payload-byte@2", Expect: "payloadData:3"}
	var alphabet []c03SeqCall
	for _, n := range pool[:2] {
		alphabet = append(alphabet,
			c03SeqCall{K: "assert", Ns: []string{n}, Pair: 0}, c03SeqCall{K: "assert", Ns: []string{n}, Pair: 1},
			c03SeqCall{K: "setup", Ns: []string{n}}, c03SeqCall{K: "sideband", Ns: []string{n}, Msg: "peer feedback"})
	}
	alphabet = append(alphabet, c03SeqCall{K: "remaining", Ns: pool[:2]}, c03SeqCall{K: "failed", Ns: []string{"s/a"}})
	maxLen := 3
	if c.Thorough() {
		maxLen = 4
	}
	var ins []any
	var rec func(prefix []c03SeqCall)
	rec = func(prefix []c03SeqCall) {
		if len(prefix) > 0 {
			ins = append(ins, c03SeqIn{Pool: pool, Pairs: []c03In{good, bad}, Total: 2, Calls: append([]c03SeqCall{}, prefix...)})
			c.E.Count("seq:exhaustive")
		}
		if len(prefix) == maxLen {
			return
		}
		for _, a := range alphabet {
			rec(append(prefix[:len(prefix):len(prefix)], a))
		}
	}
	rec(nil)
	c.DoParallel("seqassert", ins, 8)

	// (b) random: 2-5 comparisons (generated expected results, the identical result / a rewrite / a
	// deviation at some position) on three names, mixed with the other calls
	nSeq := 1200
	if c.Thorough() {
		nSeq = 20000
	}
	ins = ins[:0]
	for i := 0; i < nSeq; i++ {
		e, st, other := g.result()
		vs := g.variants(e, st, other)
		in := c03SeqIn{Pool: pool, Pairs: []c03In{}, Total: r.Range(0, 4), Calls: []c03SeqCall{}}
		nAssert := r.Range(2, 5)
		for k := 0; k < nAssert; k++ {
			v := vs[0] // identical
			if !r.Chance(1, 3) {
				v = gen.Pick(r, vs)
			}
			in.Pairs = append(in.Pairs, c03In{St: st, Other: other, Exp: e, Act: v.act, Mut: v.mut, Expect: v.expect})
			// mostly the same name again
			name := pool[0]
			if r.Chance(1, 3) {
				name = gen.Pick(r, pool)
			}
			if r.Chance(1, 3) {
				switch r.Intn(6) {
				case 0:
					in.Calls = append(in.Calls, c03SeqCall{K: "failed", Ns: []string{gen.Pick(r, pool)}})
				case 1:
					in.Calls = append(in.Calls, c03SeqCall{K: "neither", Ns: []string{gen.Pick(r, pool)}})
				case 2:
					in.Calls = append(in.Calls, c03SeqCall{K: "setup", Ns: []string{gen.Pick(r, pool)}})
				case 3:
					in.Calls = append(in.Calls, c03SeqCall{K: "start", Ns: pool[:r.Range(1, 3)]})
				case 4:
					in.Calls = append(in.Calls, c03SeqCall{K: "remaining", Ns: pool[:r.Range(1, 3)]})
				default:
					in.Calls = append(in.Calls, c03SeqCall{K: "sideband", Ns: []string{gen.Pick(r, pool)}, Msg: gen.Pick(r, []string{"peer feedback", "x: y"})})
				}
			}
			in.Calls = append(in.Calls, c03SeqCall{K: "assert", Ns: []string{name}, Pair: k})
			c.E.Count("seq-mut:" + c03MutKind(v.mut))
		}
		if r.Chance(1, 2) {
			in.Calls = append(in.Calls, c03SeqCall{K: "remaining", Ns: pool})
		}
		ins = append(ins, in)
		c.E.Count("seq:random")
	}
	c.DoParallel("seqassert", ins, 8)
	return nil
}
