import ConfModel.Driver.Common
import ConfModel.Model.Expand
import ConfModel.Spec.Padding
namespace ConfModel.Driver.C19
open Lean ConfModel.Driver ConfModel.Expand ConfModel.Padding

/-- error class as the harness reports it (`negLen` is worded "can't pad ..." too) -/
def clsOf : Out → String
  | .ok _ => "ok"
  | .range => "range"
  | .negLen => "cantPad"
  | .cantPad _ => "cantPad"
  | .panic => "panic"

structure Dir where
  r : Nat
  l0 : Nat
  off : Option Int

/-- `expandRequestData` over the directives: stops at the first error; messages before it
keep their new padding, the failing one and those after it are untouched -/
def run (limit : Nat) : List Dir → String × List Nat
  | [] => ("ok", [])
  | d :: ds =>
    match d.off with
    | none => let (c, ls) := run limit ds; (c, d.l0 :: ls)
    | some off =>
      match expand limit d.r d.l0 off with
      | .ok L => let (c, ls) := run limit ds; (c, L :: ls)
      | o => (clsOf o, d.l0 :: ds.map (·.l0))

/-- the error class of `parseTestSuites` on one suite (first failing case, first failing
directive), `"ok"` exactly when `parseSuite` accepts -/
def suiteClass (limit : Nat) (protoOnly : Bool) : List SuiteCase → String
  | [] => "ok"
  | c :: cs =>
    if c.hasDirectives && !protoOnly then "codecs"
    else if c.tooMany then "count"
    else match (run limit (c.msgs.map fun d => ⟨d.r, d.l0, d.off⟩)).1 with
      | "ok" => suiteClass limit protoOnly cs
      | e => e

def handle : Handler := fun op inp impl =>
  match op with
  | "expand" =>
    let cls := str (field impl "class")
    if cls == "panic" then
      { agree := false, holds := false, cls := "panic",
        why := "panic in expandRequestData (neither padded nor an error)" } else
    let limit := nat (field impl "limit")
    let ims := arr (field impl "msgs")
    let inMsgs := arr (field inp "msgs")
    let extra := int (field inp "extra")
    let nDir : Int := (inMsgs.length : Int) + extra
    let offs : List (Option Int) := inMsgs.zipIdx.map (fun (m, i) =>
      if (i : Int) < nDir && !(isNull (field m "off")) then some (int (field m "off")) else none)
    let dirs : List Dir := (ims.zip offs).map (fun (o, off) => ⟨nat (field o "r"), nat (field o "l0"), off⟩)
    let (mCls, mLs) : String × List Nat :=
      if nDir > inMsgs.length then ("count", dirs.map (·.l0)) else run limit dirs
    let iLs := ims.map (fun o => nat (field o "l"))
    let rest := bool (field impl "restEqual")
    -- the property: accepted => every expanded message has exactly limit+off bytes and only
    -- its padding field changed, the others are untouched; otherwise an error was returned
    let perMsg := (ims.zip offs).all (fun (o, off) =>
      match off with
      | some off => holdsExpand limit off true false (nat (field o "size")) (bool (field o "others"))
      | none => bool (field o "unchanged"))
    let holds := if cls == "ok" then perMsg && rest else true
    let zero := ims.all (fun o => bool (field o "zeroPad"))
    { agree := cls == mCls && iLs == mLs && zero && ims.length == inMsgs.length,
      holds := holds,
      nontrivial := offs.any (·.isSome),
      cls := cls,
      model := Json.mkObj [("class", mCls), ("l", toJson mLs)],
      why := if holds then "" else
        s!"expand: accepted but sizes {ims.map (fun o => nat (field o "size"))} for offsets {offs.map (·.getD 0)} at limit {limit}, others/unchanged/rest flags {ims.map (fun o => bool (field o "others"))} {ims.map (fun o => bool (field o "unchanged"))} {rest}" }
  | "suite" =>
    let cls := str (field impl "class")
    if cls == "panic" then
      { agree := false, holds := false, cls := "suite:panic",
        why := "panic while loading the suite (neither padded nor an error)" } else
    let limit := nat (field impl "limit")
    let relies := bool (field inp "relies")
    let protoOnly := natList (field inp "codecs") == [1]
    let inCases := arr (field inp "cases")
    -- the directive of message i of a case (as the file states it)
    let offsOf (c : Json) : List (Option Int) :=
      let ms := arr (field c "msgs")
      let nDir : Int := (ms.length : Int) + int (field c "extra")
      ms.zipIdx.map fun (m, i) =>
        if (i : Int) < nDir && !(isNull (field m "off")) then some (int (field m "off")) else none
    let nDirOf (c : Json) : Nat := ((arr (field c "msgs")).length + int (field c "extra")).toNat
    let icases := arr (field impl "cases")
    let rl : List (List (Nat × Nat)) := (arr (field impl "rl")).map fun c => (arr c).map fun m => (nat (field m "r"), nat (field m "l0"))
    let cases : List SuiteCase := (inCases.zip rl).map fun (c, rls) =>
      { directives := nDirOf c,
        msgs := ((offsOf c).zip rls).map fun (off, r, l0) => { r := r, l0 := l0, off := off } }
    let anyDirective := cases.any (·.hasDirectives)
    let m := parseSuite limit protoOnly relies cases
    let mCls := suiteClass limit protoOnly cases
    if cls != "ok" then
      -- conservative reading: a rejected suite satisfies the property; which error it is, is
      -- compared with the model
      { agree := cls == mCls && m.isNone && rl.length == inCases.length, holds := true, nontrivial := anyDirective,
        cls := "suite:" ++ cls, model := Json.mkObj [("class", mCls)] } else
    let implLs : List (List Nat) := icases.map fun c => (arr (field c "msgs")).map fun x => nat (field x "l")
    -- the property on the parsed suite …
    let parsedOk := icases.length == inCases.length && (inCases.zip icases).all fun (c, ic) =>
      let ms := arr (field ic "msgs")
      ms.length == (offsOf c).length && ((offsOf c).zip ms).all fun (off, o) =>
        msgPadded limit off (nat (field o "size")) (bool (field o "others")) (bool (field o "unchanged"))
    -- … and on every permutation the library hands out (clones of the parsed cases)
    let perms := arr (field impl "perms")
    let libErr := str (field impl "libErr")
    let permsOk := perms.all fun p =>
      let ci := nat (field p "case")
      let offs := offsOf (inCases.getD ci Json.null)
      let parsedMs := arr (field (icases.getD ci Json.null) "msgs")
      let ms := arr (field p "msgs")
      ms.length == offs.length && ((offs.zip ms).zip parsedMs).all fun ((off, o), po) =>
        msgPadded limit off (nat (field o "size")) (bool (field o "others"))
          (bool (field po "unchanged") && nat (field o "size") == nat (field po "size") && bool (field o "others"))
    let holds := parsedOk && permsOk
    let permsAgree := perms.all fun p =>
      let ci := nat (field p "case")
      (arr (field p "msgs")).map (fun o => nat (field o "l")) == implLs.getD ci []
    let zero := icases.all fun c => (arr (field c "msgs")).all fun o => bool (field o "zeroPad")
    { agree := m == some implLs && mCls == "ok" && permsAgree && zero &&
        (libErr == "" && !perms.isEmpty && nat (field impl "grouped") == perms.length || libErr == "none-apply"),
      holds := holds,
      nontrivial := anyDirective,
      cls := "suite:ok" ++ (if relies then "+relies" else "") ++ (if libErr == "" then "" else "+" ++ libErr),
      model := toJson (m.getD []),
      why := if holds then "" else
        s!"suite (reliesOnMessageReceiveLimit={relies}, mode {nat (field inp "mode")}) was accepted, but a request with a directive does not have limit+offset bytes (or another request / field changed): offsets {inCases.map fun c => (offsOf c).map (·.getD 0)}, sizes in the parsed suite {icases.map fun c => (arr (field c "msgs")).map fun o => nat (field o "size")}, in the library's permutations {perms.map fun p => (arr (field p "msgs")).map fun o => nat (field o "size")}, limit {limit}" }
  | "sharp" =>
    -- end to end, implementation half only: the real reference server / client enforce the
    -- limit through connect-go; the predicate is the property's sentence itself
    let limit := nat (field impl "limit")
    let size := nat (field impl "size")
    let outcome := str (field impl "outcome")
    let got := nat (field impl "got")
    let echo := nat (field impl "echo")
    let n := if isNull (field inp "n") then 1 else nat (field inp "n")
    let want := if accepts limit size then "ok" else "resource_exhausted"
    let holds := holdsSharp limit size (outcome == "ok") (outcome == "resource_exhausted") n got echo
      && size > 0
    { agree := holds, holds := holds, nontrivial := true,
      cls := str (field inp "side") ++ ":" ++ str (field inp "stream") ++ ":" ++ outcome,
      model := Json.mkObj [("outcome", want)],
      why := if holds then "" else
        s!"limit not sharp: message of {size} bytes (position {nat (field inp "pos")} of {n}) against limit {limit} gave {outcome} with {got} messages handed on, the tested one with {echo} bytes ({str (field impl "detail")}); want {want}" }
  | "srvlimit" =>
    -- the limit the real runTestCasesForServer configures a server process with, against the
    -- padding of the real expandRequestData on a probe request
    let inst := field inp "inst"
    let i : Instance := { protocol := nat (field inst "protocol"), httpVersion := nat (field inst "http"),
                          useTLS := bool (field inst "tls"), clientCerts := bool (field inst "certs"),
                          isRef := bool (field inst "isRef") }
    let d := int (field (field inp "probe") "off")
    let got := bool (field impl "got")
    let sent := nat (field impl "sent")
    let const := nat (field impl "const")
    let base := nat (field impl "base")
    let cls := str (field impl "class")
    let sz := nat (field impl "size")
    -- the model: the constant for every instance; the instance is passed on as it is
    let mSent := limitSent const i
    let echoed := nat (field impl "protocol") == i.protocol && nat (field impl "http") == i.httpVersion &&
      bool (field impl "tls") == i.useTLS && bool (field impl "creds") == i.useTLS &&
      bool (field impl "clientCert") == i.clientCerts
    -- the property: a request accepted with offset d is beyond the CONFIGURED limit iff d > 0
    let holds := if got && cls == "ok" then holdsConfigured sent sz d else true
    { agree := got && sent == mSent && base == const && echoed &&
        (cls != "ok" || (sz : Int) == (const : Int) + d),
      holds := holds,
      nontrivial := got && cls == "ok",
      cls := s!"srvlimit:{i.protocol}:" ++ (if got then cls else "norequest"),
      model := Json.mkObj [("sent", toJson mSent)],
      why := if holds then "" else
        s!"server instance (protocol {i.protocol}, HTTP version {i.httpVersion}, tls {i.useTLS}, reference server {i.isRef}) is configured with message_receive_limit {sent}, but a request with size_relative_to_limit {d} is padded to {sz} bytes (offset 0 gives {base}): it must be beyond the server's limit iff the offset is positive" }
  | _ => bad ("unknown op " ++ op)

end ConfModel.Driver.C19
