/-
The per-stream `dataTracer` machine is lawful, hence chunk independent: cutting a body into
DATA frames differently does not change the message events.
-/
import ConfModel.Model.H2Data
import ConfModel.Lemmas.H2Block
set_option linter.unusedSimpArgs false
set_option linter.unusedVariables false
namespace ConfModel.H2
open Machine

/-- state invariant of `dataTracer` (enveloped protocols) -/
def DInv (s : DSt) : Prop :=
  s.pfx.length < 5 ∧ (s.expecting = 0 → s.actual = 0) ∧ (s.expecting ≠ 0 → s.actual < s.expecting ∧ s.expecting < two32)

theorem DInv_init : DInv DSt.init := by simp [DInv, DSt.init]

theorem be32_lt (b : Bytes) (h : b.length = 4) : be32 b < two32 := by
  match b, h with
  | [a, b, c, d], _ =>
    have := a.toNat_lt; have := b.toNat_lt; have := c.toNat_lt; have := d.toNat_lt
    simp only [be32, List.foldl, two32]
    omega

theorem dNeed_eq (s : DSt) (h : DInv s) (he : s.expecting ≠ 0) : dNeed s = s.expecting - s.actual := by
  have := h.2.2 he
  simp only [dNeed, if_neg he, two32] at *
  omega

theorem data_lawful (c : DCfg) : Lawful (dataMachine c) DInv where
  need_pos := by
    intro s hi _
    show 0 < dNeed s
    by_cases he : s.expecting = 0
    · simp only [dNeed, if_pos he]; have := hi.1; omega
    · rw [dNeed_eq s hi he]; have := hi.2.2 he; omega
  inv_absorb := by
    intro s d hi _ hl
    change d.length < dNeed s at hl
    show DInv (dAbsorb s d)
    by_cases he : s.expecting = 0
    · simp only [dNeed, if_pos he] at hl
      simp only [dAbsorb, if_pos he]
      refine ⟨?_, hi.2.1, hi.2.2⟩
      simp only [List.length_append]; omega
    · rw [dNeed_eq s hi he] at hl
      simp only [dAbsorb, if_neg he]
      have := hi.2.2 he
      refine ⟨hi.1, fun h => absurd h he, fun _ => ⟨?_, this.2⟩⟩
      show s.actual + d.length < s.expecting
      omega
  inv_complete := by
    intro s d hi _ hl
    change d.length = dNeed s at hl
    show DInv (dComplete c s d).1
    by_cases he : s.expecting = 0
    · simp only [dNeed, if_pos he] at hl
      simp only [dComplete, if_pos he]
      have ha := hi.2.1 he
      split
      · exact ⟨by simp, fun _ => ha, fun h => absurd rfl h⟩
      · rename_i hne
        refine ⟨by simp, fun h => absurd h hne, fun _ => ⟨?_, ?_⟩⟩
        · show s.actual < be32 ((s.pfx ++ d).drop 1); omega
        · show be32 ((s.pfx ++ d).drop 1) < two32
          apply be32_lt
          have := hi.1
          simp only [List.length_drop, List.length_append]; omega
    · simp only [dComplete, if_neg he]
      exact ⟨hi.1, fun _ => rfl, fun h => absurd rfl h⟩
  stopped_absorb := by intro s d _ _ _; rfl
  need_absorb := by
    intro s d hi _ hl
    change d.length < dNeed s at hl
    show dNeed (dAbsorb s d) = dNeed s - d.length
    by_cases he : s.expecting = 0
    · simp only [dNeed, if_pos he] at hl ⊢
      simp only [dAbsorb, if_pos he, List.length_append]; omega
    · have hi2 : DInv (dAbsorb s d) := by
        have hd := dNeed_eq s hi he
        rw [hd] at hl
        simp only [dAbsorb, if_neg he]
        have := hi.2.2 he
        exact ⟨hi.1, fun h => absurd h he, fun _ => ⟨by show s.actual + d.length < s.expecting; omega, this.2⟩⟩
      have he2 : (dAbsorb s d).expecting ≠ 0 := by simp only [dAbsorb, if_neg he]; exact he
      rw [dNeed_eq s hi he] at hl ⊢
      rw [dNeed_eq _ hi2 he2]
      simp only [dAbsorb, if_neg he]
      omega
  absorb_absorb := by
    intro s a b hi _ hl
    show dAbsorb (dAbsorb s a) b = dAbsorb s (a ++ b)
    by_cases he : s.expecting = 0
    · simp only [dAbsorb, if_pos he, List.append_assoc]
    · simp only [dAbsorb, if_neg he, List.length_append, Nat.add_assoc]
      cases s.eos <;> simp [List.append_assoc]
  complete_absorb := by
    intro s a b hi _ hl hb
    show dComplete c (dAbsorb s a) b = dComplete c s (a ++ b)
    by_cases he : s.expecting = 0
    · simp only [dAbsorb, dComplete, if_pos he, List.append_assoc]
    · simp only [dAbsorb, dComplete, if_neg he]
      cases s.eos <;> simp [List.append_assoc]

/-- under the invariant the wrapper `dataTrace` is the machine's `run` -/
theorem dataTrace_eq_run (c : DCfg) (hc : c.isStream = true) (s : DSt) (hi : DInv s) (d : Bytes) :
    dataTrace c s d = (dataMachine c).run s d := by
  unfold dataTrace
  simp only [hc, Bool.not_true, Bool.false_eq_true, if_false]
  by_cases hd : d.isEmpty = true
  · have : d = [] := by cases d <;> simp_all
    subst this; simp [run_nil]
  · simp only [hd, if_false]
    have hpos := (data_lawful c).need_pos s hi rfl
    change 0 < dNeed s at hpos
    have hne : ¬ dNeed s = 0 := by omega
    rw [if_neg hne]
    simp

theorem DInv_dataTrace (c : DCfg) (s : DSt) (hi : DInv s) (hz : c.isStream = false → s = s) (d : Bytes)
    (hc : c.isStream = true) : DInv (dataTrace c s d).1 := by
  rw [dataTrace_eq_run c hc s hi d]
  exact inv_run' (data_lawful c) s d hi

/-- **Chunk independence of the message tracer**: the payloads of two consecutive DATA frames
give the events of the single DATA frame carrying both. -/
theorem dataTrace_append (c : DCfg) (s : DSt) (hi : DInv s) (a b : Bytes) :
    dataTrace c s (a ++ b) = comb (dataTrace c s a) (fun s' => dataTrace c s' b) := by
  by_cases hc : c.isStream = true
  · rw [dataTrace_eq_run c hc s hi, dataTrace_eq_run c hc s hi, run_append (data_lawful c) s a b hi]
    simp only [comb]
    rw [dataTrace_eq_run c hc _ (inv_run' (data_lawful c) s a hi)]
  · have hc' : c.isStream = false := by simpa using hc
    simp [dataTrace, hc', comb, Nat.add_assoc]

end ConfModel.H2
