/-
C18 — Error, metadata and message conversions are lossless.
Property theorems only; helper lemmas live in `ConfModel.Lemmas.Convert`.

Everything is stated for all errors / header lists / byte strings (no bound on sizes).
base64 and the protobuf (un)marshallers are parameters: the statements about `-bin` values
hold for every `B64` (where needed: every lawful one, `dec (enc x) = some x`), the codec
statements for every `Codec`.
-/
import ConfModel.Lemmas.Convert
import ConfModel.Lemmas.Base64
import ConfModel.Lemmas.GetQuery
import ConfModel.Spec.GetQuery
import ConfModel.Generated.C18Facts
import ConfModel.Lemmas.ProtoWire
namespace ConfModel.Props.C18
open ConfModel.Convert ConfModel.ConvertSpec

/-! ## errors -/

/-- proto → Connect → proto returns the error (code, message, every detail with type URL and
bytes) when the detail type URLs carry the default prefix. -/
theorem error_roundtrip_connect (e : ProtoErr) (h : DefaultPrefixed e = true) :
    connectToProto (protoToConnect e) = e.normalize := by
  unfold DefaultPrefixed at h
  simp only [connectToProto, protoToConnect, ProtoErr.normalize, restore_details e.details h]

example : DefaultPrefixed ⟨5, some "not found", [⟨"type.googleapis.com/a.b.C".toList, [1, 2]⟩]⟩ = true := by decide

/-- proto → gRPC status → proto returns the error for every non-OK code, whatever the type
URLs are. -/
theorem error_roundtrip_grpc (e : ProtoErr) (h : e.code ≠ 0) :
    grpcToProto (protoToGrpc e) = some e.normalize := by
  have : (e.code == 0) = false := by simpa using h
  simp [protoToGrpc, grpcToProto, this, ProtoErr.normalize]

/-- code 0 is the one value that does not survive: grpc-go turns an OK status into "no error". -/
theorem error_grpc_ok_is_nil (e : ProtoErr) (h : e.code = 0) : grpcToProto (protoToGrpc e) = none := by
  simp [protoToGrpc, grpcToProto, h]

/-- both forms, one after the other, in either order -/
theorem error_roundtrip_both (e : ProtoErr) (h : DefaultPrefixed e = true) (hc : e.code ≠ 0) :
    (grpcToProto (protoToGrpc (connectToProto (protoToConnect e))) = some e.normalize) ∧
    ((grpcToProto (protoToGrpc e)).map (fun e' => connectToProto (protoToConnect e')) = some e.normalize) := by
  have hn : DefaultPrefixed e.normalize = true := h
  have hcn : e.normalize.code ≠ 0 := hc
  have hnn : e.normalize.normalize = e.normalize := rfl
  constructor
  · rw [error_roundtrip_connect e h, error_roundtrip_grpc _ hcn, hnn]
  · rw [error_roundtrip_grpc e hc, Option.map_some, error_roundtrip_connect _ hn, hnn]

/-- In the property's words: code, message and details are preserved. -/
theorem error_roundtrip (e : ProtoErr) (h : DefaultPrefixed e = true) :
    sameError (connectToProto (protoToConnect e)) e = true ∧
    (e.code ≠ 0 → (grpcToProto (protoToGrpc e)).map (sameError · e) = some true) := by
  constructor
  · rw [error_roundtrip_connect e h]; simp [sameError, ProtoErr.normalize, ProtoErr.getMessage]
  · intro hc
    rw [error_roundtrip_grpc e hc]; simp [sameError, ProtoErr.normalize, ProtoErr.getMessage]

/-- …and for EVERY type URL - any prefix, several slashes, none - the Connect form keeps code,
message, the bytes of every detail and the type its URL names (the text after the last slash);
only the prefix is normalised to the default one. -/
theorem error_roundtrip_any_prefix (e : ProtoErr) :
    sameErrorTypes (connectToProto (protoToConnect e)) e = true := by
  simp [sameErrorTypes, connectToProto, protoToConnect, ProtoErr.getMessage, details_restored]

example : sameErrorTypes ⟨5, some "m", [⟨"type.googleapis.com/a.B".toList, [1]⟩]⟩
    ⟨5, some "m", [⟨"example.com/x/a.B".toList, [1]⟩]⟩ = true ∧
    sameErrorTypes ⟨5, some "m", [⟨"type.googleapis.com/x/a.B".toList, [1]⟩]⟩
    ⟨5, some "m", [⟨"example.com/x/a.B".toList, [1]⟩]⟩ = false := by decide

/-- `ConvertErrorToProtoError` looks through wrapping and never loses a Connect error. -/
theorem error_any (e : ConnectErr) :
    errorToProto (some (.wrapped e)) = some (connectToProto e) ∧
    errorToProto (some (.connect e)) = some (connectToProto e) ∧ errorToProto none = none :=
  ⟨rfl, rfl, rfl⟩

/-- `ConvertErrorToConnectError` and `ConvertErrorToProtoError` agree on every error - nil, plain,
Connect, wrapped Connect: the second is the first followed by the Connect → proto conversion;
nil stays nil in every converter; a Connect error, wrapped or not, is handed on unchanged. -/
theorem error_to_connect (g : Option GoErr) :
    errorToProto g = (errorToConnect g).map connectToProto ∧
    (errorToConnect g = none ↔ g = none) ∧
    (∀ e, errorToConnect (some (.wrapped e)) = some e ∧ errorToConnect (some (.connect e)) = some e) ∧
    grpcToProto none = none := by
  refine ⟨?_, ?_, fun e => ⟨rfl, rfl⟩, rfl⟩
  · cases g with
    | none => rfl
    | some x => cases x <;> simp [errorToProto, errorToConnect, connectToProto, codeUnknown]
  · cases g with
    | none => simp [errorToConnect]
    | some x => cases x <;> simp [errorToConnect]

/-- the prefix the model restores is the repository's `DefaultAnyResolverPrefix` -/
theorem any_prefix_fact : Generated.C18Facts.anyPrefix.toList = anyPrefix := by decide

/-! ## header lists ↔ metadata -/

/-- Every key (up to letter case), every value, in order — also when a key is repeated in
several entries or in different case; `-bin` values are decoded once. -/
theorem md_preserves (c : B64) (hs : List Header) :
    preserves lower (decIfBin c) hs (headersToMD c hs) = true :=
  collect_preserves lower (decIfBin c) hs

/-- the same, key by key -/
theorem md_get (c : B64) (hs : List Header) (k : Str) :
    mdGet (headersToMD c hs) k = valuesFor lower (decIfBin c) hs k := by
  have := collectInto_get lower (decIfBin c) [] hs k
  simpa [mdGet_nil, headersToMD, collect] using this

/-- `http.Header` built by `AddHeaders` / `AddTrailers`: the same law with net/http's
canonical key instead of the lower-cased one, values verbatim (an entry without values
adds no key: `Add` is called once per value). -/
theorem headers_preserve (hs : List Header) :
    preservesValues canon (fun _ v => v) hs (addHeaders hs) = true ∧
    preservesValues trailerNorm (fun _ v => v) hs (addTrailers hs) = true :=
  ⟨addPairs_preserves canon id (fun _ v => v) hs, addPairs_preserves canon (trailerPrefix ++ ·) (fun _ v => v) hs⟩

/-- a `-bin` value as it appears in a header list: the encoding of its decoding -/
def canonicalBin (c : B64) (hs : List Header) : Prop :=
  ∀ h ∈ hs, isBin (lower h.name) = true → ∀ v ∈ h.values, (c.dec v).map c.enc = some v

/-- headers → metadata → headers is the header list grouped by lower-cased name: every
`-bin` value is decoded once and encoded once, so it comes back unchanged. -/
theorem bin_once (c : B64) (hs : List Header) (hcan : canonicalBin c hs) :
    mdToHeaders c (headersToMD c hs) = convertToProtoHeader (collect lower (fun _ v => v) hs) := by
  rw [mdToHeaders_eq, headersToMD, collect, mapVals_collectInto]
  congr 1
  apply collectInto_congr
  intro x hx v hv
  simp only [encIfBin, decIfBin]
  by_cases hb : isBin (lower x.name) = true
  · have := hcan x hx hb v hv
    simp only [hb, if_true, decVal]
    cases hd : c.dec v with
    | none => rw [hd] at this; cases this
    | some d => rw [hd] at this; simpa using this
  · simp [hb]

/-- the encoder really is applied once: each output header is the metadata entry with the
`-bin` values passed through `enc` a single time -/
theorem encoded_once (c : B64) (md : MD) : encodedOnce c md (mdToHeaders c md) = true := by
  unfold encodedOnce
  simp only [Bool.and_eq_true, beq_iff_eq, List.all_eq_true, List.any_eq_true]
  refine ⟨by simp [mdToHeaders], ?_⟩
  intro kv hkv
  exact ⟨_, List.mem_map_of_mem (f := fun kv => ({ name := kv.1, values := kv.2.map (encIfBin c kv.1) } : Header)) hkv, rfl, rfl⟩

/-- metadata → headers → metadata is the identity (gRPC metadata: lower-case distinct keys),
for every lawful base64. -/
theorem md_roundtrip (c : B64) (hc : c.Lawful) (md : MD)
    (hlow : ∀ kv ∈ md, lower kv.1 = kv.1) (hnd : (mdKeys md).Nodup) :
    headersToMD c (mdToHeaders c md) = md := by
  unfold headersToMD collect
  rw [collectInto_distinct]
  · simp only [List.nil_append, mdToHeaders, List.map_map]
    conv => rhs; rw [← List.map_id md]
    apply List.map_congr_left
    intro kv _
    obtain ⟨k, vs⟩ := kv
    simp only [Function.comp, id]
    congr 1
    conv => rhs; rw [← List.map_id vs]
    rw [List.map_map]
    apply List.map_congr_left
    intro v _
    simp only [Function.comp, decIfBin, encIfBin, id]
    by_cases hb : isBin k = true
    · simp [hb, decVal, hc v]
    · simp [hb]
  · intro h hh
    simp only [mdToHeaders, List.mem_map] at hh
    obtain ⟨kv, hkv, rfl⟩ := hh
    exact hlow kv hkv
  · simpa [mdToHeaders, List.map_map, Function.comp_def, mdKeys] using hnd
  · intro h _; simp [mdKeys]

example : ∀ kv ∈ ([("x-a".toList, [[1]]), ("x-bin".toList, [[2], [3]])] : MD), lower kv.1 = kv.1 := by decide

/-- What grpc-go receives from `AppendToOutgoingContext` is what
`ConvertProtoHeaderToMetadata` would build: in particular `-bin` values are handed over
*decoded* (grpc-go encodes them on the wire). -/
theorem outgoing_get (c : B64) (hs : List Header) (k : Str) :
    mdGet (fromOutgoing (appendOutgoing c hs)) k = mdGet (headersToMD c hs) k := by
  rw [md_get]
  have := addPairs_get_aux lower id (decIfBin c) [] hs k
  simpa [mdGet_nil, fromOutgoing, addPairs, appendOutgoing, pairsOf] using this

theorem outgoing_preserves (c : B64) (hs : List Header) :
    preservesValues lower (decIfBin c) hs (fromOutgoing (appendOutgoing c hs)) = true :=
  addPairs_preserves lower id (decIfBin c) hs

/-- The conversion does not alter its argument, hence converting the same metadata twice
gives the same headers. -/
theorem md_input_untouched (c : B64) (md : MD) :
    (mdToHeadersSt c md).2 = md ∧
    (mdToHeadersSt c (mdToHeadersSt c md).2).1 = (mdToHeadersSt c md).1 := ⟨rfl, rfl⟩

/-- The base64 instance the driver runs the model with (`Model/Base64.lean`: unpadded
standard alphabet out, padded or unpadded in — connect's binary-header encoding) is lawful, so
`md_roundtrip` applies to it. -/
theorem connect_b64_lawful : (⟨ConfModel.Base64.encode, ConfModel.Base64.decode⟩ : B64).Lawful :=
  ConfModel.Base64.decode_encode

/-! ### witnesses of the repaired defects (the code as it was) -/

/-- a toy lawful base64: `enc x = '!' :: x` -/
def toy : B64 :=
  { enc := fun x => 33 :: x, dec := fun v => match v with | 33 :: x => some x | _ => none }

theorem toy_lawful : toy.Lawful := fun _ => rfl

/-- F11: `md[key] = vals` kept only the last entry of a repeated key -/
theorem f11_witness :
    mdGet (headersToMDOld toy [⟨"X-A".toList, [[1]]⟩, ⟨"x-a".toList, [[2]]⟩]) "x-a".toList = [[2]] ∧
    mdGet (headersToMD toy [⟨"X-A".toList, [[1]]⟩, ⟨"x-a".toList, [[2]]⟩]) "x-a".toList = [[1], [2]] := by
  decide

/-- F12: the pairs given to grpc-go carried the still-encoded value -/
theorem f12_witness :
    appendOutgoingOld [⟨"x-bin".toList, [toy.enc [7]]⟩] = [("x-bin".toList, [33, 7])] ∧
    appendOutgoing toy [⟨"x-bin".toList, [toy.enc [7]]⟩] = [("x-bin".toList, [7])] := by
  decide

/-- F13: encoding in place made a second conversion of the same metadata double-encoded -/
theorem f13_witness :
    (mdToHeadersStOld toy (mdToHeadersStOld toy [("x-bin".toList, [[7]])]).2).1 = [⟨"x-bin".toList, [[33, 33, 7]]⟩] ∧
    (mdToHeadersSt toy (mdToHeadersSt toy [("x-bin".toList, [[7]])]).2).1 = [⟨"x-bin".toList, [[33, 7]]⟩] := by
  decide

/-! ## percent-encoding -/

set_option maxRecDepth 100000 in
/-- `ShouldEscapeByteInMessage`, called on all 256 bytes of the current tree, is the model's
predicate (complete table). -/
theorem escape_table :
    Generated.C18Facts.shouldEscape = (List.range 256).map (fun n => shouldEscape (UInt8.ofNat n)) := by
  decide

theorem percent_printable (bs : Bytes) : (percentEncode bs).all printable = true := by
  induction bs with
  | nil => rfl
  | cons b t ih =>
    have hb := percent_byte_printable b
    unfold percentEncode
    by_cases he : shouldEscape b = true
    · simp only [he, if_true, List.all_cons, Bool.and_eq_true, List.all_nil, Bool.and_true] at hb ⊢
      exact ⟨hb.1, hb.2.1, hb.2.2, ih⟩
    · simp only [he, Bool.false_eq_true, if_false, List.all_cons, Bool.and_eq_true, List.all_nil, Bool.and_true] at hb ⊢
      exact ⟨hb, ih⟩

/-- percent-decoding what `PercentEncodeMessage` wrote returns the original bytes -/
theorem percent_roundtrip (bs : Bytes) : percentDecode (percentEncode bs) = some bs := by
  induction bs with
  | nil => rfl
  | cons b t ih =>
    unfold percentEncode
    by_cases he : shouldEscape b = true
    · obtain ⟨h1, h2, h3⟩ := percent_byte_decode b he
      simp only [he, if_true]
      unfold percentDecode
      simp [h1, h2, h3, ih]
    · have he' : shouldEscape b = false := by simpa using he
      have hp := percent_byte_plain b he'
      simp only [he', Bool.false_eq_true, if_false]
      unfold percentDecode
      simp [hp, ih]

/-- the encoding is injective (a consequence worth stating: two different messages never
share an encoding) -/
theorem percent_injective (a b : Bytes) (h : percentEncode a = percentEncode b) : a = b := by
  have := percent_roundtrip a
  rw [h, percent_roundtrip b] at this
  exact (Option.some.inj this).symm

/-! ## the reference server's own status trailers (raw gRPC / gRPC-Web error responses) -/

theorem status_trailers_read (code : Int) (msg : Bytes) (ds : List Detail)
    (h : ds.all (fun d => defaultPrefixed d.url) = true) :
    readStatusTrailers (statusTrailersOf code msg ds) = some { code := code, message := msg, details := ds } := by
  cases ds with
  | nil => simp [readStatusTrailers, statusTrailersOf, percent_roundtrip]
  | cons d t =>
    have := restore_details (d :: t) h
    simp only [readStatusTrailers, statusTrailersOf, List.isEmpty_cons, Bool.false_eq_true, if_false, this]

theorem status_trailers_preserve (code : Int) (msg : Bytes) (ds : List Detail)
    (h : ds.all (fun d => defaultPrefixed d.url) = true) :
    trailersPreserve code msg ds (statusTrailersOf code msg ds) = true := by
  have hp := percent_printable msg
  cases ds with
  | nil =>
    simp only [trailersPreserve, statusTrailersOf, percent_roundtrip, hp, List.isEmpty_nil, if_true, beq_self_eq_true,
      Bool.and_self]
  | cons d t =>
    have hr := restore_details (d :: t) h
    simp only [trailersPreserve, statusTrailersOf, percent_roundtrip, hp, List.isEmpty_cons, Bool.false_eq_true, if_false,
      hr, beq_self_eq_true, Bool.and_self]

/-- proto → Connect → status trailers (`grpcStatusTrailers`) → read back as a gRPC peer does:
code, message and every detail are those of the error, for every message (also one with bytes
that `grpc-message` must escape) and every list of default-prefixed details. -/
theorem error_roundtrip_trailers (e : ProtoErr) (h : DefaultPrefixed e = true) :
    readStatusTrailers (grpcStatusTrailers (protoToConnect e)) =
      some { code := e.code, message := e.getMessage.toUTF8.toList, details := e.details } :=
  status_trailers_read e.code _ e.details h

/-- both carriers agree: the spec predicate the driver evaluates on the implementation's
trailers holds of the model's, so a peer that ignores `grpc-status-details-bin` reads the same
code and message as one that prefers it. -/
theorem trailers_preserve (e : ProtoErr) (h : DefaultPrefixed e = true) :
    trailersPreserve e.code e.getMessage.toUTF8.toList e.details (grpcStatusTrailers (protoToConnect e)) = true :=
  status_trailers_preserve e.code _ e.details h

/-- "100%" with one detail: `grpc-message` is escaped, the message inside the status is not -/
example : statusTrailersOf 5 [0x31, 0x30, 0x30, 0x25] [⟨"type.googleapis.com/a.B".toList, [1]⟩] =
    { status := 5, message := [0x31, 0x30, 0x30, 0x25, 0x32, 0x35],
      bin := some { code := 5, message := [0x31, 0x30, 0x30, 0x25], details := [⟨"type.googleapis.com/a.B".toList, [1]⟩] } } := by
  decide

/-! ## every decoder of the repository inverts the encoder it undoes

`PercentEncodeMessage` / `grpcStatusTrailers` write the status trailers; the repository's own
reader of them is the reference client's `checkGRPCStatus` (`url.PathUnescape` on `grpc-message`,
compared with the message inside `grpc-status-details-bin`).  Losslessness needs both ends. -/

/-- The reference client's decoder returns the message for EVERY encoding the gRPC
specification allows - any byte escaped or not (unless it must be), hex digits in either case. -/
theorem client_decodes_any_encoding (cs : List (UInt8 × Esc)) (h : conformant cs = true) :
    pathUnescape (encodeWith cs) = some (cs.map (·.1)) := pathUnescape_encodeWith cs h

/-- non-vacuity: "+%" written as `+%25`, as `%2b%25` and as `%2B%25` -/
example : conformant [(0x2B, .plain), (0x25, .upper)] = true ∧ conformant [(0x2B, .lower), (0x25, .lower)] = true ∧
    encodeWith [(0x2B, .plain), (0x25, .upper)] = [0x2B, 0x25, 0x32, 0x35] ∧
    encodeWith [(0x2B, .lower), (0x25, .upper)] = [0x25, 0x32, 0x62, 0x25, 0x32, 0x35] ∧
    conformant [(0x25, .plain)] = false := by decide

/-- …in particular it is the inverse of the repository's encoder, for every byte string. -/
theorem client_decoder_inverts_encoder (m : Bytes) : pathUnescape (percentEncode m) = some m := by
  rw [percentEncode_own, pathUnescape_encodeWith _ (ownChoice_conformant m), ownChoice_bytes]

/-- The reference client finds no disagreement in the status trailers the reference server
writes, for every code, message and detail list. -/
theorem client_accepts_server_trailers (code : Int) (msg : Bytes) (ds : List Detail) :
    readBackAgrees (clientCheckStatus (statusTrailersOf code msg ds)) = true := by
  cases ds with
  | nil => rfl
  | cons d t =>
    simp [readBackAgrees, clientCheckStatus, statusTrailersOf, client_decoder_inverts_encoder]

/-- …nor in those of any other server that encodes `grpc-message` as the specification allows
and sends the same code and message in `grpc-status-details-bin`. -/
theorem client_accepts_conformant_trailers (code : Int) (cs : List (UInt8 × Esc)) (ds : List Detail)
    (h : conformant cs = true) :
    readBackAgrees (clientCheckStatus
      { status := code, message := encodeWith cs,
        bin := some { code := code, message := cs.map (·.1), details := ds } }) = true := by
  simp [readBackAgrees, clientCheckStatus, pathUnescape_encodeWith cs h]

/-- …and it does report a message that differs (the comparison is not vacuous). -/
theorem client_reports_other_message (code : Int) (cs : List (UInt8 × Esc)) (other : Bytes) (ds : List Detail)
    (h : conformant cs = true) (hne : cs.map (·.1) ≠ other) :
    (clientCheckStatus
      { status := code, message := encodeWith cs,
        bin := some { code := code, message := other, details := ds } }).message = true := by
  simp [clientCheckStatus, pathUnescape_encodeWith cs h, hne]

example : conformant [(0x61, .plain)] = true ∧ [((0x61 : UInt8), Esc.plain)].map (·.1) ≠ [0x62] := by decide

/-- Witness that the statement discriminates: the decoder of net/url's other escaping mode
(`QueryUnescape`, `+` = space) is not an inverse of the encoder - "1+1" comes back as "1 1". -/
theorem query_unescape_witness :
    queryUnescape (percentEncode [0x31, 0x2B, 0x31]) = some [0x31, 0x20, 0x31] ∧
    pathUnescape (percentEncode [0x31, 0x2B, 0x31]) = some [0x31, 0x2B, 0x31] := by decide

/-- metadata → header list (`-bin` values encoded) → grpc-go's outgoing context: the peer is
handed the metadata's own bytes under every key, for every lawful base64. -/
theorem md_outgoing_roundtrip (c : B64) (hc : c.Lawful) (md : MD)
    (hlow : ∀ kv ∈ md, lower kv.1 = kv.1) (hnd : (mdKeys md).Nodup) (k : Str) :
    mdGet (fromOutgoing (appendOutgoing c (mdToHeaders c md))) k = mdGet md k := by
  rw [outgoing_get, md_roundtrip c hc md hlow hnd]

/-- What `ConvertMetadataToProtoHeader` writes for a `-bin` key is accepted by the repository's
validator of binary metadata (`checkBinaryMetadata`: unpadded standard base64). -/
theorem bin_values_decode (md : MD) :
    ∀ h ∈ mdToHeaders ⟨ConfModel.Base64.encode, ConfModel.Base64.decode⟩ md, isBin h.name = true →
      ∀ v ∈ h.values, ∃ x, ConfModel.Base64.decodeRaw v = some x := by
  intro h hh hb v hv
  simp only [mdToHeaders, List.mem_map] at hh
  obtain ⟨kv, _, rfl⟩ := hh
  simp only [List.mem_map] at hv
  obtain ⟨x, _, rfl⟩ := hv
  exact ⟨x, by simp [encIfBin, hb, ConfModel.Base64.decodeRaw_encode]⟩

/-- `http.Header` → `ConvertToProtoHeader` → `AddHeaders` into an empty `http.Header`: every
key holds its values again (keys as net/http stores them: canonical, distinct). -/
theorem http_header_roundtrip (md : MD) (hcan : ∀ kv ∈ md, canon kv.1 = kv.1) (hnd : (mdKeys md).Nodup) (k : Str) :
    mdGet (addHeaders (convertToProtoHeader md)) k = mdGet md k := by
  have := addPairs_get_aux canon id (fun _ v => v) [] (convertToProtoHeader md) k
  simp only [mdGet_nil, List.nil_append, id] at this
  unfold addHeaders addPairs pairsOf
  rw [show (fun (h : Header) => h.values.map (fun v => (h.name, v))) =
      (fun (h : Header) => h.values.map (fun v => (h.name, (fun _ v => v) (canon h.name) v))) from rfl]
  rw [this, valuesFor_convert canon md hcan hnd]

example : ∀ kv ∈ ([("X-A".toList, [[1]]), ("Content-Type".toList, [[2], [3]])] : MD), canon kv.1 = kv.1 := by decide

/-- The `message` parameter of a Connect GET as the reference client's raw request sender writes
it (`base64.URLEncoding`: URL-safe alphabet, padded) reads back to the message bytes: padding
removed, alphabet mapped back, decoded - for every byte string. -/
theorem get_message_roundtrip (x : Bytes) :
    ConfModel.Base64.decodeURLPadded (ConfModel.Base64.encodeURLPadded x) = some x :=
  ConfModel.Base64.decodeURLPadded_encode x

/-! ### the GET `message` parameter through the library's own (strict) decoders and the query string

`Model/Base64.lean` (URL-safe alphabet as a table of its own, padded and raw encoders, the strict
decoders, connect-go's `binaryQueryValueReader`), `Model/GetQuery.lean` (`url.QueryEscape`,
`url.QueryUnescape`, the path of the parameter from raw_request.go to the handler). -/

section GetQuery
open ConfModel.Base64 ConfModel.GetQuery

/-- `base64.RawURLEncoding`: decoding an encoding returns the bytes, for every byte string. -/
theorem url_raw_roundtrip (x : List UInt8) : decodeURLRaw (encodeURLRaw x) = some x :=
  decodeURLRaw_encodeURLRaw x

/-- `base64.URLEncoding` (padded, strict: length a multiple of four, at most two `=` at the end,
only the URL-safe alphabet): decoding an encoding returns the bytes, for every byte string. -/
theorem url_padded_roundtrip (x : List UInt8) : decodePaddedWith decCharURL (encodeURL x) = some x :=
  decodePadded_encodeURL x

/-- connect-go's reader of the parameter (`binaryQueryValueReader`: raw when the length is not a
multiple of four, padded otherwise) returns the message bytes for BOTH encodings in use: the
padded one of the reference client's raw request sender and the raw one of connect-go's client. -/
theorem get_reader_inverts_both_encoders (x : List UInt8) :
    binaryQueryRead (encodeURL x) = some x ∧ binaryQueryRead (encodeURLRaw x) = some x :=
  ⟨binaryQueryRead_encodeURL x, binaryQueryRead_encodeURLRaw x⟩

/-- The standard and the URL-safe encoding of the same bytes have the same length and differ at
most where the standard one has `+` (URL: `-`) or `/` (URL: `_`); the URL-safe one contains neither
`+` nor `/`, the standard one neither `-` nor `_`. -/
theorem std_url_differ_only_on_two (x : List UInt8) :
    (encodeURLRaw x).length = (encode x).length ∧
    (∀ (i : Nat) (c d : UInt8), (encode x)[i]? = some c → (encodeURLRaw x)[i]? = some d →
      c = d ∨ (c = 43 ∧ d = 45) ∨ (c = 47 ∧ d = 95)) ∧
    (∀ d ∈ encodeURLRaw x, d ≠ 43 ∧ d ≠ 47) ∧ (∀ c ∈ encode x, c ≠ 45 ∧ c ≠ 95) := by
  refine ⟨by simp [encodeURLRaw, encode], ?_, ?_, ?_⟩
  · intro i c d hc hd
    simp only [encode, encodeURLRaw, List.getElem?_map, Option.map_eq_some_iff] at hc hd
    obtain ⟨s, hs, rfl⟩ := hc
    obtain ⟨s', hs', rfl⟩ := hd
    have : s = s' := by rw [hs] at hs'; exact Option.some.inj hs'
    subst this
    have hlt := sextets_lt _ (toNat_lt x) s (List.mem_of_getElem? hs)
    rcases (alphabets_differ ⟨s, hlt⟩).1 with h | ⟨_, h1, h2⟩ | ⟨_, h1, h2⟩
    · exact Or.inl h.symm
    · exact Or.inr (Or.inl ⟨h1, h2⟩)
    · exact Or.inr (Or.inr ⟨h1, h2⟩)
  · intro d hd
    simp only [encodeURLRaw, List.mem_map] at hd
    obtain ⟨s, hs, rfl⟩ := hd
    have := (alphabets_differ ⟨s, sextets_lt _ (toNat_lt x) s hs⟩).2
    exact ⟨this.1, this.2.1⟩
  · intro c hc
    simp only [encode, List.mem_map] at hc
    obtain ⟨s, hs, rfl⟩ := hc
    have := (alphabets_differ ⟨s, sextets_lt _ (toNat_lt x) s hs⟩).2
    exact ⟨this.2.2.1, this.2.2.2⟩

/-- ... and that difference matters: the two alphabets are not interchangeable (a reader over the
standard alphabet refuses what raw_request.go writes for the bytes FB FF, and the URL-safe
reader refuses the standard encoding of the same bytes). -/
theorem alphabet_witness :
    encodeURL [0xFB, 0xFF] = [45, 95, 56, 61] ∧ encodeStdPadded [0xFB, 0xFF] = [43, 47, 56, 61] ∧
    binaryQueryRead (encodeURL [0xFB, 0xFF]) = some [0xFB, 0xFF] ∧
    binaryQueryReadStd (encodeURL [0xFB, 0xFF]) = none ∧
    binaryQueryRead (encodeStdPadded [0xFB, 0xFF]) = none := by decide

/-- `url.QueryUnescape (url.QueryEscape s) = s` for every byte string. -/
theorem query_escape_roundtrip (s : List UInt8) : queryUnescape (queryEscape s) = some s :=
  queryUnescape_queryEscape s

/-- What `url.QueryEscape` writes contains no byte that ends or splits a `key=value` pair
(`&` `=` `;` `#`) and no space; a `+` or `%` in it is one it wrote itself. -/
theorem query_escape_safe (s : List UInt8) :
    ∀ c ∈ queryEscape s, c ≠ 0x26 ∧ c ≠ 0x3D ∧ c ≠ 0x3B ∧ c ≠ 0x23 ∧ c ≠ 0x20 := by
  intro c hc
  rcases queryEscape_bytes s c hc with h | rfl | rfl
  · have := (plain_byte c h).2.2.2
    refine ⟨?_, ?_, ?_, ?_, ?_⟩ <;> (intro e; subst e; revert this; decide)
  · decide
  · decide

/-- The URL-safe alphabet is what its name says: an unpadded URL-safe encoding passes
`url.QueryEscape` unchanged (only the padding of raw_request.go's padded form is escaped). -/
theorem url_alphabet_query_safe (x : List UInt8) :
    queryEscape (encodeURLRaw x) = encodeURLRaw x ∧
    queryEscape (encodeURL x) = encodeURLRaw x ++ queryEscape (padding (encodeURLRaw x).length) := by
  have h := queryEscape_plain _ (encodeURLRaw_plain x)
  refine ⟨h, ?_⟩
  unfold encodeURL
  rw [queryEscape_append, h]

/-- THE ROUND TRIP OF THE PARAMETER: for every message (any bytes), with and without base64, the
value raw_request.go puts into the URI (`base64.URLEncoding` if asked, then `vals.Encode()`) is
read by the server (`url.ParseQuery`, then connect-go's reader) as the message. -/
theorem get_wire_roundtrip (b64 : Bool) (msg : List UInt8) : getRead b64 (getWire b64 msg) = some msg := by
  unfold getRead getWire
  rw [queryUnescape_queryEscape]
  cases b64 with
  | false => rfl
  | true => exact binaryQueryRead_encodeURL msg

/-- without base64 the parser's reading of `+` matters (protojson writes `bytes` fields in the
STANDARD alphabet): `+ & = %` and the space are written `%2B %26 %3D %25 +`, and a `+` that was
NOT escaped would be read as a space. -/
theorem get_plus_witness :
    getWire false [0x2B, 0x26, 0x3D, 0x25, 0x20] =
      [0x25, 0x32, 0x42, 0x25, 0x32, 0x36, 0x25, 0x33, 0x44, 0x25, 0x32, 0x35, 0x2B] ∧
    getRead false [0x2B] = some [0x20] := by decide

/-- The two definitions of the padded URL-safe encoder (alphabet table of its own / standard
alphabet with the two characters swapped) are the same function. -/
theorem encodeURL_eq_swapped (x : List UInt8) : encodeURL x = encodeURLPadded x := by
  unfold encodeURL encodeURLPadded padding
  rw [encodeURLRaw_eq_map]
  rfl

/-- What the driver evaluates on the implementation's output (`Spec/GetQuery.lean`: the value on
the wire reads back to the message as the specification reads it, stays inside its `key=value`
pair, and the handler received the message) holds of the model for every message. -/
theorem get_spec_of_model (b64 : Bool) (msg : List UInt8) :
    GetQuerySpec.getHolds b64 msg (getWire b64 msg) (getRead b64 (getWire b64 msg)) = true := by
  have hclosed : GetQuerySpec.wireClosed (getWire b64 msg) = true := by
    unfold GetQuerySpec.wireClosed getWire
    rw [List.all_eq_true]
    intro c hc
    obtain ⟨h1, h2, h3, h4, h5⟩ := query_escape_safe _ c hc
    simp [h1, h2, h3, h4, h5]
  have hreads : GetQuerySpec.wireReads b64 msg (getWire b64 msg) = true := by
    unfold GetQuerySpec.wireReads getWire
    rw [queryUnescape_queryEscape]
    cases b64 with
    | false => simp [getParam]
    | true =>
      simp only [getParam, ↓reduceIte, encodeURL_eq_swapped, decodeURLPadded_encode]
      simp
  unfold GetQuerySpec.getHolds GetQuerySpec.received
  rw [hreads, hclosed, get_wire_roundtrip]
  simp

/-- The decoding end, for whatever wrote the value: a parameter that is the padded or the raw
URL-safe encoding of `x` (or, without base64, `x` itself) is read as `x`. -/
theorem get_reader_spec (b64 : Bool) (p x : List UInt8) (h : GetQuerySpec.encodes b64 p x = true) :
    readParam b64 p = some x := by
  unfold GetQuerySpec.encodes at h
  cases b64 with
  | false => simp only [Bool.false_eq_true, ↓reduceIte, beq_iff_eq] at h; simp [readParam, h]
  | true =>
    simp only [↓reduceIte, Bool.or_eq_true, beq_iff_eq] at h
    rcases h with rfl | rfl
    · exact binaryQueryRead_encodeURL x
    · exact binaryQueryRead_encodeURLRaw x

example : GetQuerySpec.encodes true [45, 95, 56, 61] [0xFB, 0xFF] = true ∧
    GetQuerySpec.encodes true [45, 95, 56] [0xFB, 0xFF] = true := by decide

set_option maxRecDepth 100000 in
/-- the alphabets and the escaping of the model are the library's: both encoders called on all 64
sextets, `url.QueryEscape` called on all 256 bytes (complete tables, regenerated from the tree) -/
theorem get_tables :
    Generated.C18Facts.urlAlphabet = (List.range 64).map (fun n => (encCharURL n).toNat) ∧
    Generated.C18Facts.stdAlphabet = (List.range 64).map (fun n => (encChar n).toNat) ∧
    Generated.C18Facts.queryEscapeByte =
      (List.range 256).map (fun n => (queryEscapeByte (UInt8.ofNat n)).map (·.toNat)) := by
  decide

end GetQuery

/-! ## strict codecs (relative to the underlying marshaller) -/

theorem strict_codec_roundtrip {M} (c : Codec M) (h : c.RoundTrips) (m : M) (d : Bytes)
    (hm : strictMarshal c m = some d) : strictUnmarshal c d = .ok m := by
  unfold strictMarshal at hm
  simp [strictUnmarshal, h m d hm]

/-- unknown fields are an error, never a silently shorter message -/
theorem strict_rejects_unknown {M} (c : Codec M) (d : Bytes) (m : M) (unk : Bytes)
    (hd : c.dec d = some (m, unk)) (hu : unk ≠ []) : strictUnmarshal c d = .unknownFields := by
  simp [strictUnmarshal, hd, hu]

theorem strict_ok_iff {M} (c : Codec M) (d : Bytes) (m : M) :
    strictUnmarshal c d = .ok m ↔ c.dec d = some (m, []) := by
  unfold strictUnmarshal
  cases hd : c.dec d with
  | none => simp
  | some p =>
    obtain ⟨m', unk⟩ := p
    cases unk with
    | nil => simp
    | cons x t => simp

/-- non-vacuity: a small lawful codec over `Nat` lists (tag byte, then the payload) -/
example : ∃ c : Codec Bytes, c.RoundTrips ∧ strictUnmarshal c [0, 5, 6] = .ok [5, 6] ∧
    strictUnmarshal c [1, 9] = .unknownFields :=
  ⟨{ enc := fun m => some (0 :: m),
     dec := fun d => match d with | 0 :: m => some (m, []) | 1 :: u => some ([], u) | _ => none },
   by intro m d h; cases h; rfl, rfl, rfl⟩

/-! ## the strict binary codec on arbitrary bytes: the top-level wire walk

`Model/ProtoWire.lean`: varints (at most ten bytes), tags (field number 1 .. 2^29-1, wire types
0-5), values by wire type, groups up to their matching end-group; relative to ANY table of the
message type's field numbers and accepted wire types (the correspondence run regenerates it from
the descriptor for every case). -/
section Wire
open ConfModel.ProtoWire

/-- The top level alone (the code before the repair of F30 looked no further): accepted exactly
when the bytes split into well-formed fields every one of which the message type knows. -/
theorem strict_top_accepts_iff (k : Known) (b : ProtoWire.Bytes) :
    strictTop k b = .ok ↔ ∃ fs, fields b = some fs ∧ ∀ f ∈ fs, isKnown k f = true := by
  unfold strictTop
  cases hf : fields b with
  | none => simp
  | some fs =>
    simp only [Option.some.injEq, exists_eq_left']
    cases hu : unknownFields k fs with
    | nil =>
      simp only [true_iff]
      intro f hfm
      cases hk : isKnown k f with
      | true => rfl
      | false =>
        have : f ∈ unknownFields k fs := by simp [unknownFields, hfm, hk]
        rw [hu] at this; cases this
    | cons g t =>
      simp only [reduceCtorEq, false_iff]
      intro hall
      have hg : g ∈ unknownFields k fs := by rw [hu]; simp
      simp only [unknownFields, List.mem_filter, Bool.not_eq_true'] at hg
      rw [hall g hg.1] at hg; cases hg.2

/-- …and when it refuses a well-formed message it names a field the type does not know. -/
theorem strict_top_reports_unknown (k : Known) (b : ProtoWire.Bytes) (num wt : Nat) (h : strictTop k b = .unknown num wt) :
    ∃ fs f, fields b = some fs ∧ f ∈ fs ∧ f.num = num ∧ f.wt = wt ∧ isKnown k f = false := by
  unfold strictTop at h
  cases hf : fields b with
  | none => simp [hf] at h
  | some fs =>
    simp only [hf] at h
    cases hu : unknownFields k fs with
    | nil => simp [hu] at h
    | cons g t =>
      simp only [hu, Outcome.unknown.injEq] at h
      have hg : g ∈ unknownFields k fs := by rw [hu]; simp
      simp only [unknownFields, List.mem_filter, Bool.not_eq_true'] at hg
      exact ⟨fs, g, rfl, hg.1, h.1, h.2, hg.2⟩

/-- non-vacuity: `UnaryRequest`-like table {1: bytes, 2: bytes}; an unknown varint field 1999, a
known number with the wrong wire type, an unknown group with a nested group, a truncated value,
an end-group without start, wire type 6, field number 0 -/
example :
    let k : Known := [(1, [2]), (2, [2])]
    strictTop k [0x0a, 0x01, 0x41, 0x12, 0x00] = .ok ∧
    strictTop k [0x0a, 0x01, 0x41, 0xf8, 0x7c, 0xac, 0x02] = .unknown 1999 0 ∧
    strictTop k [0x08, 0x01] = .unknown 1 0 ∧
    strictTop k [0xfb, 0x7c, 0x08, 0x01, 0xfb, 0x7c, 0xfc, 0x7c, 0xfc, 0x7c] = .unknown 1999 3 ∧
    strictTop k [0x0a, 0x05, 0x41] = .malformed ∧
    strictTop k [0xfc, 0x7c] = .malformed ∧
    strictTop k [0x0e] = .malformed ∧
    strictTop k [0x00, 0x01] = .malformed := by decide

/-! ### nested messages (the repaired codec, F30)

`Tables`: one field table per message type reachable from the root, regenerated from the
descriptor for every case; message-typed fields (singular, repeated, map entries and their
values) name the table of their type; `google.protobuf.Any` has a string and a bytes field - its
`value` is opaque.  Theorems for EVERY list of tables. -/

/-- **The strict codec accepts exactly when the wire is well formed and every field number at
every depth of message-typed fields is known** (with the wire type the field accepts). -/
theorem strict_accepts_iff (T : Tables) (b : ProtoWire.Bytes) :
    strictDeep T b = .ok ↔ ConfModel.ProtoWireSpec.allKnown (b.length + 2) T 0 b = true := by
  rw [← unknownsIn_nil_iff]
  unfold strictDeep
  cases h : unknownsIn (b.length + 2) T 0 b with
  | none => simp
  | some us =>
    cases us with
    | nil => simp
    | cons x t => obtain ⟨n, w⟩ := x; simp

/-- **The field it names is an unknown field of the message itself or of one nested message**:
a field of the message that its table does not know, or a field the same walk finds in the
message held by one of its message-typed fields. -/
theorem strict_reports_unknown (T : Tables) (b : ProtoWire.Bytes) (num wt : Nat)
    (h : strictDeep T b = .unknown num wt) :
    ∃ fuel t fs, T[0]? = some t ∧ fields b = some fs ∧
      ((t.lenient = false ∧ ∃ f ∈ fs, f.num = num ∧ f.wt = wt ∧ knownIn t f = false) ∨
       (∃ f ∈ fs, ∃ sub payload us, descend t f = some (sub, payload) ∧
          unknownsIn fuel T sub payload = some us ∧ (num, wt) ∈ us)) := by
  unfold strictDeep at h
  cases hu : unknownsIn (b.length + 2) T 0 b with
  | none => simp [hu] at h
  | some us =>
    cases us with
    | nil => simp [hu] at h
    | cons x rest =>
      obtain ⟨n, w⟩ := x
      simp only [hu, Outcome.unknown.injEq] at h
      obtain ⟨rfl, rfl⟩ := h
      have hu' := hu
      unfold unknownsIn at hu'
      cases ht : T[0]? with
      | none => simp [ht] at hu'
      | some t =>
        cases hf : fields b with
        | none => simp [ht, hf] at hu'
        | some fs =>
          simp only [ht, hf] at hu'
          cases hn : nestedUnknowns (unknownsIn (b.length + 1) T) t fs with
          | none => simp [hn] at hu'
          | some ns =>
            simp only [hn, Option.some.injEq] at hu'
            refine ⟨b.length + 1, t, fs, rfl, rfl, ?_⟩
            have hmem : (n, w) ∈ (if t.lenient = true then [] else
                (fs.filter (fun f => !knownIn t f)).map (fun f => (f.num, f.wt))) ++ ns := by
              rw [hu']; simp
            rcases List.mem_append.mp hmem with hown | hnest
            · left
              cases hl : t.lenient with
              | true => simp [hl] at hown
              | false =>
                simp only [hl, Bool.false_eq_true, if_false, List.mem_map, List.mem_filter, Bool.not_eq_true',
                  Prod.mk.injEq] at hown
                obtain ⟨f, ⟨hfm, hk⟩, hn1, hn2⟩ := hown
                exact ⟨rfl, f, hfm, hn1, hn2, hk⟩
            · right
              exact nested_mem _ t fs ns hn (n, w) hnest

/-- F30, the witness: `UnaryRequest { response_definition { <unknown varint field 1999> } }`
passes the top-level walk and is refused by the walk into nested messages. -/
theorem f30_witness :
    let T : Tables := [⟨false, [⟨1, [2], true, 1⟩, ⟨2, [2], false, 0⟩]⟩, ⟨false, [⟨1, [2], false, 0⟩, ⟨2, [2], false, 0⟩]⟩]
    let b : ProtoWire.Bytes := [0x12, 0x00, 0x0a, 0x04, 0xf8, 0x7c, 0xac, 0x02]
    strictTop [(1, [2]), (2, [2])] b = .ok ∧ strictDeep T b = .unknown 1999 0 ∧
    strictDeep T [0x12, 0x00, 0x0a, 0x02, 0x0a, 0x00] = .ok ∧
    -- a malformed nested message; an unknown field inside a map-entry-like lenient table is skipped
    strictDeep T [0x0a, 0x02, 0x0a, 0x05] = .malformed ∧
    strictDeep [⟨false, [⟨1, [2], true, 1⟩]⟩, ⟨true, [⟨1, [2], false, 0⟩]⟩] [0x0a, 0x02, 0x18, 0x01] = .ok := by
  decide

end Wire

/-! ## strict codecs over sequences of calls: a result is a value -/

/-- **Later calls never change an earlier result**: whatever calls follow, the bytes a call
returned are the bytes it returned. -/
theorem seq_results_kept {M} (c : Codec M) (pre post : List (Call M)) (i : Nat) (hi : i < pre.length) :
    (runCalls c (pre ++ post) {}).bufs[i]? = (runCalls c pre {}).bufs[i]? := by
  rw [runCalls_append]
  apply runCalls_keeps
  rw [runCalls_bufs_length]; simpa using hi

/-- **Decode what they encode, in any sequence of calls**: for a round-tripping marshaller, the
encoding the `i`-th call returned for message `m` (`snap`) is, after all later calls of any
kind, still that encoding (`final = snap`) and decodes strictly to `m` — the property's
predicate `encodingKept` holds of every encode call of every sequence. -/
theorem seq_codec_roundtrip {M} [DecidableEq M] (c : Codec M) (h : c.RoundTrips)
    (pre post : List (Call M)) (m : M) (snap : Bytes)
    (hs : (runCalls c (pre ++ [.encode m]) {}).bufs[pre.length]? = some (some snap)) :
    ∃ final, (runCalls c (pre ++ [.encode m] ++ post) {}).bufs[pre.length]? = some (some final) ∧
      encodingKept snap final (strictUnmarshal c final == .ok m) = true := by
  have hkeep := seq_results_kept c (pre ++ [Call.encode m]) post pre.length (by simp)
  refine ⟨snap, ?_, ?_⟩
  · rw [hkeep, hs]
  · have hm : strictMarshal c m = some snap := by
      rw [runCalls_encode_last] at hs
      simpa using hs
    simp [encodingKept, strict_codec_roundtrip c h m snap hm]

/-- … and an `Unmarshal` of that result at any later point of the sequence returns `m`. -/
theorem seq_decode_any_time {M} (c : Codec M) (h : c.RoundTrips)
    (pre mid post : List (Call M)) (m : M) (d : Bytes) (hm : strictMarshal c m = some d) :
    (runCalls c (pre ++ [.encode m] ++ mid ++ [.decode pre.length] ++ post) {}).msgs[pre.length + 1 + mid.length]? =
      some (some (.ok m)) := by
  have hb : (runCalls c (pre ++ [Call.encode m] ++ mid) {}).bufs[pre.length]? = some (some d) := by
    rw [seq_results_kept c (pre ++ [Call.encode m]) mid pre.length (by simp), runCalls_encode_last, hm]
  have hl : (runCalls c (pre ++ [Call.encode m] ++ mid) {}).msgs.length = pre.length + 1 + mid.length := by
    rw [runCalls_msgs_length]; simp; omega
  rw [runCalls_append c (pre ++ [Call.encode m] ++ mid ++ [Call.decode pre.length]) post]
  rw [runCalls_msgs_keeps]
  · rw [runCalls_append c (pre ++ [Call.encode m] ++ mid) [Call.decode pre.length]]
    simp only [runCalls, callStep]
    rw [List.getElem?_append_right (by omega), hl, hb]
    simp [strict_codec_roundtrip c h m d hm]
  · rw [runCalls_msgs_length]; simp; omega

/-- Witness that the statement discriminates: were the encoding compacted into a pooled
scratch buffer whose bytes are handed out, the second encode call would overwrite the first
result, and decoding the first result would yield the second message. -/
theorem pooled_buffer_witness :
    let c : Codec Bytes := { enc := fun m => some (0 :: m),
                             dec := fun d => match d with | 0 :: m => some (m, []) | _ => none }
    (runCallsPooled c [.encode [1], .encode [2], .decode 0] {}).msgs[2]? = some (some (.ok [2])) ∧
    (runCalls c [.encode [1], .encode [2], .decode 0] {}).msgs[2]? = some (some (.ok [1])) := by
  decide

/-! ## strict codecs over the history of one message object: an encoding is a function of the
current value -/

/-- **Every encode call returns the encoding of the object's current value**: whatever was done
with the object before (`pre`: encode calls through any entry point, `proto.Size`, changes of
nested or top-level fields, `proto.Clone`) and whatever follows (`post`), the encode call at
position `pre.length` returned `Marshal` of the value the caller's changes have produced. -/
theorem hist_encode_current {M} (c : Codec M) (pre post : List (HStep M)) (v : M) :
    (runHist c (pre ++ [.encode] ++ post) { value := v }).outs[pre.length]? =
      some (some (strictMarshal c (valueAfter pre v))) := by
  have hl : (runHist c pre { value := v }).outs.length = pre.length := by
    rw [runHist_outs_length]; simp
  rw [runHist_append, runHist_outs_keeps]
  · rw [runHist_append]
    simp only [runHist, histStep]
    rw [List.getElem?_append_right (by omega), hl, runHist_value]
    simp
  · rw [runHist_append, runHist_outs_length, hl]; simp

/-- **History independence**: the result of an encode call is the one the same call returns when
nothing but the caller's changes happened to the object before - every earlier encode call,
every `proto.Size` and every `proto.Clone` can be removed from the history without changing it
(so nothing such a call leaves in the object, a cached size for instance, may be consulted). -/
theorem hist_independent {M} (c : Codec M) (pre post : List (HStep M)) (v : M) :
    (runHist c (pre ++ [.encode] ++ post) { value := v }).outs[pre.length]? =
      (runHist c (mutationsOf pre ++ [.encode]) { value := v }).outs[(mutationsOf pre).length]? := by
  have h := hist_encode_current c (mutationsOf pre) [] v
  rw [List.append_nil] at h
  rw [hist_encode_current, h, valueAfter_mutationsOf]

/-- Two histories that leave the object with the same value yield the same encoding. -/
theorem hist_same_value_same_encoding {M} (c : Codec M) (pre₁ pre₂ post₁ post₂ : List (HStep M)) (v₁ v₂ : M)
    (hv : valueAfter pre₁ v₁ = valueAfter pre₂ v₂) :
    (runHist c (pre₁ ++ [.encode] ++ post₁) { value := v₁ }).outs[pre₁.length]? =
      (runHist c (pre₂ ++ [.encode] ++ post₂) { value := v₂ }).outs[pre₂.length]? := by
  rw [hist_encode_current, hist_encode_current, hv]

example : valueAfter [HStep.encode, .mutate (· + 1), .size] 1 = valueAfter [HStep.mutate (· * 2), .clone] (1 : Nat) := by decide

/-- **Decode what they encode, at every point of an object's history**: for a round-tripping
marshaller the bytes an encode call returned decode strictly to the value the object had at that
call - also when the object was encoded or sized before and changed since. -/
theorem hist_codec_roundtrip {M} (c : Codec M) (h : c.RoundTrips) (pre post : List (HStep M)) (v : M) (d : Bytes)
    (hd : (runHist c (pre ++ [.encode] ++ post) { value := v }).outs[pre.length]? = some (some (some d))) :
    strictUnmarshal c d = .ok (valueAfter pre v) := by
  rw [hist_encode_current] at hd
  have hm : strictMarshal c (valueAfter pre v) = some d := by simpa using hd
  exact strict_codec_roundtrip c h _ d hm

example :
    let c : Codec Bytes := { enc := fun m => some (0 :: m),
                             dec := fun d => match d with | 0 :: m => some (m, []) | _ => none }
    (runHist c ([.encode, .mutate (fun m => 7 :: m), .size] ++ [.encode] ++ [.clone]) { value := [1] }).outs[3]? =
      some (some (some [0, 7, 1])) := by decide

/-- … and an encode call never fails on a value the marshaller encodes, whatever the history. -/
theorem hist_encode_succeeds {M} (c : Codec M) (pre post : List (HStep M)) (v : M) (d : Bytes)
    (he : c.enc (valueAfter pre v) = some d) :
    (runHist c (pre ++ [.encode] ++ post) { value := v }).outs[pre.length]? = some (some (some d)) := by
  rw [hist_encode_current, strictMarshal, he]

example :
    let c : Codec Bytes := { enc := fun m => some (0 :: m), dec := fun _ => none }
    c.enc (valueAfter [HStep.size, .mutate (fun m => 7 :: m)] [1]) = some [0, 7, 1] := by decide

/-- Witness that the statements discriminate: were the nested sizes an earlier call computed kept
in the object and trusted by a later encode call (`UseCachedSize`), the history encode - change -
encode would fail at its second call, while a fresh copy of the same value encodes. -/
theorem cached_size_witness :
    let c : Codec Bytes := { enc := fun m => some (0 :: m),
                             dec := fun d => match d with | 0 :: m => some (m, []) | _ => none }
    (runHistCached c [.encode, .mutate (fun m => 7 :: m), .encode] { value := [1] }).outs[2]? = some (some none) ∧
    (runHistCached c [.encode, .mutate (fun m => 7 :: m), .clone, .encode] { value := [1] }).outs[3]? = some (some (some [0, 7, 1])) ∧
    (runHist c [.encode, .mutate (fun m => 7 :: m), .encode] { value := [1] }).outs[2]? = some (some (some [0, 7, 1])) := by
  decide

end ConfModel.Props.C18
