/-
Declarative side of C02's "load" half: what a loadable set of suites looks like
(`Loadable`), against which `Props/C02.lean` proves `load_accepts_iff` / `load_rejects_iff`.
-/
import ConfModel.Model.EchoLoad
namespace ConfModel.EchoLoad

/-! ### the declarative side: what a loadable set of suites looks like -/

/-- what `parseTestSuites` wants of a test case: a raw request only in a server-mode suite; a raw
response only in a client-mode suite and with an explicit expected response; expand-requests
directives only when the suite's relevant codecs are exactly `[CODEC_PROTO]`, no more directives than
messages, and every directive that gives a size meets a message with a `request_data` field and a
size the padding can reach -/
def ParseOk (s : Suite) (c : Case) : Prop :=
  (c.rawRequest = true → s.mode = 2) ∧
  (hasRaw c = true → s.mode = 1 ∧ c.explicit = true) ∧
  (c.expand ≠ [] → s.codecs = [1]) ∧
  c.expand.length ≤ c.msgs.length ∧
  (∀ dm ∈ c.expand.zip c.msgs, dm.1 ≠ .misfit ∧ (dm.1 = .fits → dm.2.hasData = true))

def Runnable (c : Case) : Prop := 1 ≤ c.st ∧ c.st ≤ 5

/-- service and method are given together or not at all -/
def SvcOk (c : Case) : Prop := c.service = c.method

/-- an expectation is given, or can be derived: no request message at all, or a first message of the
family the stream type's generator looks for (a `UnaryResponseDefinition` carrier for unary and
client-stream, a `StreamResponseDefinition` carrier otherwise) — later messages are not looked at -/
def PopulateOk (c : Case) : Prop :=
  c.explicit = true ∨
  match c.msgs with
  | [] => True
  | m :: _ => if c.st = 1 ∨ c.st = 2 then m.unaryDefiner = true else m.streamDefiner = true

/-- the relevant protocols are Connect and nothing else -/
def OnlyConnect (s : Suite) : Prop := s.protos ≠ [] ∧ ∀ p ∈ s.protos, p = 1

/-- client certificates without TLS; GET or a Connect version mode with other protocols in play -/
def Misconfigured (s : Suite) : Prop :=
  (s.certs = true ∧ s.tls = false) ∨ ((s.get = true ∨ s.cvm = 1 ∨ s.cvm = 2) ∧ ¬ OnlyConnect s)

def Admitted (mode : Nat) (s : Suite) : Prop := s.mode = 0 ∨ s.mode = mode

def CasesOk (s : Suite) : Prop :=
  (∀ c ∈ s.cases, c.name ≠ "" ∧ c.st ≠ 0 ∧ (Runnable c → SvcOk c ∧ PopulateOk c)) ∧
  ((s.cases.filter runnable).map (·.name)).Nodup

/-- the suites load: every case passes the parser's checks; every suite has a name of its own and
test cases; every suite of the run's mode is configured consistently and — if the configuration has
cases for it at all — its test cases are named, typed, given service and method together, named
differently when they can run, and have an expectation given or derivable; and something runs -/
def Loadable (applies : Suite → Bool) (mode : Nat) (ss : List Suite) : Prop :=
  (∀ s ∈ ss, ∀ c ∈ s.cases, ParseOk s c) ∧
  (∀ s ∈ ss, s.name ≠ "" ∧ s.cases ≠ []) ∧
  (ss.map (·.name)).Nodup ∧
  (∀ s ∈ ss, Admitted mode s → ¬ Misconfigured s ∧ (applies s = true → CasesOk s)) ∧
  (∃ s ∈ ss, Admitted mode s ∧ applies s = true ∧ ∃ c ∈ s.cases, Runnable c)

end ConfModel.EchoLoad
