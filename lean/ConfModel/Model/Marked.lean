/-
C08 — the known-failing / known-flaky tries *at work*: `testResults` (results.go) asks the two
tries about a test name whenever it stores an outcome (`setOutcomeLocked`:
`knownFailing.match(strings.Split(name, "/"))`), from every path that stores one — `setOutcome`,
`assert`, `failed`, `failedToStart`, `failRemaining`, and `processSidebandInfoLocked` (peer feedback
for a name without an outcome) — and `report` decides FAILED / INFO from the stored flags.  Peer
feedback for a name *with* an outcome rewrites that outcome's error only.

The model is `ConfModel.Report` (the model of results.go of property C04) with the `Marks`
instantiated by the trie model of C08; the sequence of API calls is an input (`Op` list): any number
of calls, any order, names repeated.

Core Lean only.
-/
import ConfModel.Model.Report
import ConfModel.Model.Trie
namespace ConfModel.Marked
open ConfModel.Report ConfModel.Trie

/-- one call of the `testResults` API -/
inductive Op where
  /-- `setOutcome(n, setup, err)` — also `assert` / `failed`, which end in it -/
  | outcome (n : String) (setup : Bool) (f : Fail)
  /-- `failedToStart(cases, err)` -/
  | start (ns : List String)
  /-- `failRemaining(cases, err)` -/
  | remaining (ns : List String)
  /-- `recordSideband(n, msg)` -/
  | sideband (n : String) (msg : String)
  deriving Repr, Inhabited

/-- `strings.Split(s, "/")` on the characters of `s`; `acc` = the component being read, reversed
(structural, so that the kernel can evaluate it) -/
def splitChars : List Char → List Char → List String
  | [], acc => [String.ofList acc.reverse]
  | c :: cs, acc => if c = '/' then String.ofList acc.reverse :: splitChars cs [] else splitChars cs (c :: acc)

/-- `strings.Split(testCase, "/")` -/
def splitName (n : String) : List String := splitChars n.toList []

/-- the two tries of `testResults` built from the `--known-failing` / `--known-flaky` pattern lists
(each pattern already split at `/`; an empty list is Run's `&testTrie{}`) -/
def marks (failing flaky : Node) : Marks :=
  { failing := fun n => trieMatch failing (splitName n)
    flaky := fun n => trieMatch flaky (splitName n) }

def step (mk : Marks) (st : Outcomes × Sideband) : Op → Outcomes × Sideband
  | .outcome n s f => (setOutcome mk st.1 n s f, st.2)
  | .start ns => (failedToStart mk st.1 ns .other, st.2)
  | .remaining ns => (failRemaining mk st.1 ns .other, st.2)
  | .sideband n msg => (st.1, recordSideband st.2 n msg)

def runOps (mk : Marks) (ops : List Op) : Outcomes × Sideband := ops.foldl (step mk) ([], [])

/-- the outcome map `report` classifies: everything recorded, peer feedback merged in -/
def finalOutcomes (failing flaky : Node) (ops : List Op) : Outcomes :=
  processSideband (marks failing flaky) (runOps (marks failing flaky) ops).1 (runOps (marks failing flaky) ops).2

/-- `report()` after the calls `ops` on `newResults(total, failing, flaky, nil)` -/
def markedReport (failing flaky : Node) (total : Nat) (ops : List Op) : Report :=
  report (marks failing flaky) total (runOps (marks failing flaky) ops).1 (runOps (marks failing flaky) ops).2

end ConfModel.Marked
