import ConfModel.Driver.Common
import ConfModel.Model.RawBody
import ConfModel.Spec.RawBody
import ConfModel.Model.Convert
import ConfModel.Model.Base64
import ConfModel.Model.RawMerge
import ConfModel.Model.RawSeq
import ConfModel.Spec.RawSeq
import ConfModel.Model.RawRetry
import ConfModel.Model.RawStack
import ConfModel.Spec.RawStack
import ConfModel.Model.RawRace
import ConfModel.Spec.RawRace
namespace ConfModel.Driver.C17
open Lean ConfModel.Driver ConfModel.RawBody ConfModel.RawBodySpec

/-- the compression parameter, instantiated with what the real compressors wrote for the
payloads of this definition (`oracle` of the harness line) -/
structure EncRow where
  comp : Nat
  data : Bytes
  enc : Option Bytes
  rt : Bool

def parseOracle (j : Json) : List EncRow :=
  (arr j).map fun e =>
    let enc := if isNull (field e "enc") then none else some (unhex (str (field e "enc")))
    EncRow.mk (nat (field e "comp")) (unhex (str (field e "data"))) enc (bool (field e "rt"))

def compressOf (rows : List EncRow) : Compress := fun c d =>
  match rows.find? (fun r => r.comp == c && r.data == d) with
  | some r => r.enc
  | none => none

def parsePayload (j : Json) : Option Contents :=
  if isNull j then none else
  let kind := str (field j "kind")
  some (Contents.mk (if kind == "none" then none else some (unhex (str (field j "data")))) (nat (field j "comp")))

def parseItems (j : Json) : List Item :=
  (arr j).map fun it =>
    let len := if isNull (field it "length") then none else some (nat (field it "length"))
    Item.mk (nat (field it "flags")) len (parsePayload (field it "payload"))

def parseOp (j : Json) : Op :=
  match str (field j "k") with
  | "w" => .write (unhex (str (field j "data")))
  | "h" => .writeHeader (nat (field j "code"))
  | "f" => .flush
  | _ => .setRaw ⟨nat (field j "status"), unhex (str (field j "body"))⟩

def evStr : Ev → String
  | .header c => "h:" ++ toString c
  | .body b => "w:" ++ hex b
  | .flush => "f"

def resStr : Res → String
  | .passed => "handler" | .swallowed => "handler" | .accepted => "accepted" | .refused => "refused"

/-- the recorder does not log empty writes -/
def wireStr (evs : List Ev) : List String := (evs.filter (fun e => e != .body [])).map evStr

structure Hdr where
  name : String
  values : List String

def parseHdrs (j : Json) : List Hdr := (arr j).map fun h => ⟨str (field h "n"), strList (field h "v")⟩

def canonS (s : String) : String := String.ofList (ConfModel.Convert.canon s.toList)

/-- all values given for a (canonical) name, in order -/
def givenFor (hs : List Hdr) (k : String) : List String :=
  (hs.filter (fun h => canonS h.name == k)).flatMap (·.values)

def valuesOf (hs : List Hdr) (k : String) : List String :=
  (hs.filter (fun h => h.name == k)).flatMap (·.values)

/-- the body a raw definition specifies: model (with error threading) and declarative -/
def bodyModel (compress : Compress) (body : Json) : Bytes × Bool :=
  match str (field body "kind") with
  | "unary" => match writeMessage compress (parsePayload (field body "unary")) with
    | some b => (b, false) | none => ([], true)
  | "stream" => let w := writeStream compress (parseItems (field body "stream")); (w.bytes, w.failed)
  | _ => ([], false)

def bodySpec (compress : Compress) (body : Json) : Option Bytes :=
  match str (field body "kind") with
  | "unary" => payloadOf compress (parsePayload (field body "unary"))
  | "stream" =>
    let items := parseItems (field body "stream")
    if items.all (itemOk compress) then some (streamBytes compress items) else none
  | _ => some []


/-! ### histories and the status range -/

open ConfModel.RawSeq ConfModel.RawSeqSpec in
def parseBody (body : Json) : RawSeq.Body :=
  match str (field body "kind") with
  | "unary" => .unary (parsePayload (field body "unary"))
  | "stream" => .stream (parseItems (field body "stream"))
  | _ => .unary none

def optNat (j : Json) : Option Nat := if isNull j then none else some (nat j)

def parseSeqStep (j : Json) : RawSeq.Step :=
  if bool (field j "unary") then ⟨.unary (parsePayload (field j "msg")), optNat (field j "budget")⟩
  else ⟨.stream (parseItems (field j "items")), optNat (field j "budget")⟩

def obsJson (o : RawSeq.Obs) : Json := Json.mkObj [("out", hex o.out), ("err", o.err)]

def protoOf (s : String) : RawSeq.Proto := if s == "h2c" then .h2 else .h1

/-- index of the first `false` -/
def firstBad (l : List Bool) : Nat := (l.takeWhile id).length

def panicked (impl : Json) : Bool := !(isNull (field impl "panic"))

def handle : Handler := fun op inp impl =>
  if panicked impl then { agree := false, holds := false, why := "panic: " ++ str (field impl "panic") } else
  match op with
  | "msg" =>
    let rows := parseOracle (field impl "oracle")
    let compress := compressOf rows
    let p := parsePayload (field inp "payload")
    let out := unhex (str (field impl "out"))
    let err := bool (field impl "err")
    let m := writeMessage compress p
    let spec := payloadOf compress p
    -- exactly the data under the requested compression (which the real decompressor turns back
    -- into the data); an unsupported compression is an error and writes nothing
    let holds := (match spec with | some b => !err && out == b | none => err && out.isEmpty) && rows.all (fun r => r.enc.isNone || r.rt)
    { agree := (match m with | some b => !err && out == b | none => err && out.isEmpty), holds := holds,
      nontrivial := (p.bind (·.data)).isSome, model := (match m with | some b => Json.str (hex b) | none => Json.null),
      why := if holds then "" else "message body is not the specified data under the specified compression" }
  | "stream" =>
    let rows := parseOracle (field impl "oracle")
    let compress := compressOf rows
    let items := parseItems (field inp "items")
    let out := unhex (str (field impl "out"))
    let err := bool (field impl "err")
    let m := writeStream compress items
    let allOk := items.all (itemOk compress)
    let honest := lengthsHonest compress items
    let spec := streamBytes compress items
    -- exactly the specified envelopes; decodable back into the specified frames when lengths are honest;
    -- malformed definitions are refused with everything before the bad item written
    let holds :=
      (if allOk then !err && out == spec && (!honest || decodeStream out == some (framesOf compress items))
       else err && (streamBytes compress (goodPrefix compress items)).isPrefixOf out)
      && rows.all (fun r => r.enc.isNone || r.rt)
    { agree := out == m.bytes && err == m.failed, holds := holds,
      nontrivial := items.length > 0 && allOk, model := Json.mkObj [("out", hex m.bytes), ("err", m.failed)],
      cls := if !allOk then "malformed" else if honest then "honest" else "lying-length",
      why := if holds then "" else "stream body is not the specified sequence of envelopes" }
  | "arb" =>
    let ops := (arr (field inp "ops")).map parseOp
    let implWire := strList (field impl "wire")
    let implRes := strList (field impl "results")
    let (s, rs) := run {} ops
    let mWire := wireStr (finish s)
    let specWire := wireStr (wireSpec ops)
    let specRes := (resultsSpec ops).map resStr
    let holds := implWire == specWire && implRes == specRes
    { agree := implWire == mWire && implRes == rs.map resStr, holds := holds,
      nontrivial := ops.any (fun o => !isHandler o) && ops.any isHandler, model := toJson mWire,
      cls := match ops with | [] => "empty" | o :: _ => if isHandler o then "normal" else "raw",
      why := if holds then "" else "wire is neither exactly the handler's output nor exactly the raw response" }
  | "rawresp" =>
    let rows := parseOracle (field impl "oracle")
    let compress := compressOf rows
    let pre := (arr (field inp "pre")).map parseOp
    let post := (arr (field inp "post")).map parseOp
    let rawMode := pre.isEmpty
    let implErr := str (field impl "err")
    let status := nat (field impl "status")
    let hdrs := parseHdrs (field impl "headers")
    let trls := parseHdrs (field impl "trailers")
    let body := unhex (str (field impl "body"))
    let given := parseHdrs (field inp "headers")
    let givenT := parseHdrs (field inp "trailers")
    let handlerH := parseHdrs (field inp "handler")
    let (mBody, mFailed) := bodyModel compress (field inp "body")
    let results := strList (field impl "results")
    if rawMode then
      let wantStatus := if nat (field inp "status") == 0 then 200 else nat (field inp "status")
      let hdrOk := given.all (fun h => valuesOf hdrs (canonS h.name) == givenFor given (canonS h.name))
      let trlOk := givenT.all (fun h => valuesOf trls (canonS h.name) == givenFor givenT (canonS h.name))
      -- nothing the handler set (unless the definition itself gives that name)
      let noHandler := handlerH.all (fun h => given.any (fun g => canonS g.name == canonS h.name) || (valuesOf hdrs (canonS h.name)).isEmpty)
      let bodyOk := match bodySpec compress (field inp "body") with
        | some b => body == b
        | none => true   -- malformed stream definition: whatever was written before the bad item
      let accepted := results == ["accepted"] ++ post.map (fun _ => "handler")
      let holds := implErr == "" && status == wantStatus && hdrOk && trlOk && noHandler && bodyOk && accepted
      { agree := implErr == "" && body == mBody && status == wantStatus && accepted, holds := holds,
        nontrivial := !given.isEmpty || !givenT.isEmpty, cls := "raw:" ++ str (field inp "proto"),
        model := Json.mkObj [("status", wantStatus), ("body", hex mBody), ("bodyFailed", mFailed)],
        why := if holds then "" else
          if implErr != "" then "raw response could not be read: " ++ implErr
          else if status != wantStatus then "status"
          else if !hdrOk then "a given header does not carry exactly the given values"
          else if !trlOk then "a given trailer does not carry exactly the given values"
          else if !noHandler then "a handler-set header reached the wire"
          else if !bodyOk then "body is not the given body" else "raw response not accepted" }
    else
      -- the handler had started its own response: the raw response must be refused and the wire
      -- must carry the handler's output only
      let handlerBody := (pre ++ post).flatMap (fun o => match o with | .write b => b | _ => [])
      let refused := results == pre.map (fun _ => "handler") ++ ["refused"] ++ post.map (fun _ => "handler")
      let noRaw := given.all (fun h => handlerH.any (fun g => canonS g.name == canonS h.name) || (valuesOf hdrs (canonS h.name)).all (fun v => !h.values.contains v))
      let handlerKept := handlerH.all (fun h => valuesOf hdrs (canonS h.name) == givenFor handlerH (canonS h.name))
      let holds := implErr == "" && refused && body == handlerBody && noRaw && handlerKept
      { agree := holds, holds := holds, nontrivial := true, cls := "normal:" ++ str (field inp "proto"),
        model := Json.mkObj [("body", hex handlerBody)],
        why := if holds then "" else "handler had started but the response is not exactly the handler's" }
  | "rawreq" =>
    let rows := parseOracle (field impl "oracle")
    let compress := compressOf rows
    let implErr := str (field impl "err")
    let (mBody, _) := bodyModel compress (field inp "body")
    let body := unhex (str (field impl "body"))
    let hdrs := parseHdrs (field impl "headers")
    let given := parseHdrs (field inp "headers")
    let uri := str (field inp "uri")
    let path := ((uri.splitOn "?").headD "")
    -- query: the URI's own parameters, then the raw ones, then the encoded ones (base64url if asked)
    let uriQ : List (String × String) := match uri.splitOn "?" with
      | [_, q] => (q.splitOn "&").map (fun kv => match kv.splitOn "=" with | [k, v] => (k, hex v.toUTF8.toList) | _ => (kv, ""))
      | _ => []
    let listedRaw := parseHdrs (field inp "rawq")
    let rawQ := listedRaw.flatMap (fun h => h.values.map (fun v => (h.name, hex v.toUTF8.toList)))
    let encB : List (String × List UInt8) := (arr (field inp "encq")).map fun p =>
      let bytes := (payloadOf compress (parsePayload (field p "value"))).getD []
      (str (field p "n"), if bool (field p "base64") then ConfModel.Base64.encodeURLPadded bytes else bytes)
    let encQ := encB.map fun p => (p.1, hex p.2)
    -- the code rebuilds the URI iff a parameter is *listed* (even one without values)
    let noExtra := listedRaw.isEmpty && encB.isEmpty
    let hasQ := !rawQ.isEmpty || !encQ.isEmpty
    let allQ := uriQ ++ rawQ ++ encQ
    let keys := asSet (allQ.map (·.1))
    let wantQ : List (String × List String) := keys.map (fun k => (k, (allQ.filter (·.1 == k)).map (·.2)))
    let implQ := (parseHdrs (field impl "query")).map (fun h => (h.name, h.values))
    let unescapedPath := if path == "/a%20b" then "/a b" else path
    let hdrOk := given.all (fun h => valuesOf hdrs (canonS h.name) == givenFor given (canonS h.name))
    let noStub := (valuesOf hdrs "X-Stub").isEmpty
    -- the request target: the given URI verbatim when no parameter is listed; else the model's
    -- rebuilt URI (`url.Parse` on the simple URIs generated for this branch: split at ? & =)
    let target := str (field impl "target")
    let simpleParse : String → String × List (String × List UInt8) := fun u =>
      ((u.splitOn "?").headD "", match u.splitOn "?" with
        | [_, q] => (q.splitOn "&").map (fun kv => match kv.splitOn "=" with | [k, v] => (k, v.toUTF8.toList) | _ => (kv, []))
        | _ => [])
    let mTarget := ConfModel.RawMerge.requestTarget simpleParse uri
      (listedRaw.map fun h => (h.name, h.values.map (·.toUTF8.toList))) encB
    let targetOk := !noExtra || target == uri
    let queryOk := noExtra || implQ == wantQ
    let holds := implErr == "" && str (field impl "method") == str (field inp "verb") && str (field impl "path") == unescapedPath
      && targetOk && queryOk && hdrOk && noStub && body == mBody && bool (field impl "drained")
    { agree := holds && target == mTarget, holds := holds, nontrivial := hasQ || !given.isEmpty || uri.contains '?',
      cls := (if noExtra then (if uri.contains '?' then "verbatim-query:" else "verbatim:") else "merged:") ++ str (field inp "proto"),
      model := Json.mkObj [("body", hex mBody), ("query", toJson wantQ), ("target", mTarget)],
      why := if holds then "" else
        if implErr != "" then "raw request failed: " ++ implErr
        else if !targetOk then s!"no extra query parameters are listed, but the request target {target.quote} is not the given URI {uri.quote}"
        else if !queryOk then "query parameters differ"
        else if !hdrOk then "a listed header does not carry exactly the given values"
        else if body != mBody then "body is not the given body"
        else if !bool (field impl "drained") then "the stub's request was not drained and closed"
        else "method, path or stub header" }
  | "rawsrv" =>
    let rows := parseOracle (field impl "oracle")
    let compress := compressOf rows
    let implErr := str (field impl "err")
    let status := nat (field impl "status")
    let hdrs := parseHdrs (field impl "headers")
    let trls := parseHdrs (field impl "trailers")
    let base := parseHdrs (field impl "base")
    let body := unhex (str (field impl "body"))
    let given := parseHdrs (field inp "headers")
    let givenT := parseHdrs (field inp "trailers")
    let (mBody, mFailed) := bodyModel compress (field inp "body")
    let wantStatus := if nat (field inp "status") == 0 then 200 else nat (field inp "status")
    -- headers net/http computes itself (not part of the middleware snapshot)
    let auto := ["Content-Type", "Content-Length", "Date", "Transfer-Encoding", "Trailer", "Connection"]
    -- the stack in front of the raw responder: CORS
    let stack := ["Vary", "Access-Control-Allow-Origin", "Access-Control-Allow-Credentials", "Access-Control-Expose-Headers"]
    let names := asSet (given.map (fun h => canonS h.name))
    -- every given header with its values in order; anything else under that name is the stack's
    let hdrOk := names.all fun k => givenHonoured (valuesOf hdrs k) (givenFor given k) (valuesOf base k)
    let trlOk := givenT.all (fun h => valuesOf trls (canonS h.name) == givenFor givenT (canonS h.name))
    -- nothing the handler (connect-go's error response) produced: only given names and stack names
    let noForeign := hdrs.all fun h => names.contains h.name || auto.contains h.name || stack.contains h.name
    let bodyOk := match bodySpec compress (field inp "body") with
      | some b => body == b
      | none => true
    let holds := implErr == "" && status == wantStatus && hdrOk && trlOk && noForeign && bodyOk
    -- the model of `finish`: snapshot (what the middleware had set) then the given values
    let snap : ConfModel.RawMerge.Values String :=
      (base.filter (fun h => !auto.contains h.name)).map fun h => (h.name, h.values)
    let mHdrs := ConfModel.RawMerge.finishHeaders canonS [] snap (given.map fun h => (h.name, h.values))
      (givenT.map fun h => (h.name, h.values))
    let modelOk := names.all fun k => k == "Trailer" || k == "Date" || valuesOf hdrs k == ConfModel.RawMerge.get mHdrs k
    -- the arbitration model with both producers of raw responses: the recorder stores the prescribed
    -- one; the handler (which would answer the rest of the definition, for a unary gRPC / gRPC-Web
    -- error with response headers by a raw response of its own) does not run
    let extra := field inp "extra"
    let rpc := str (field inp "rpc")
    let synth := !isNull extra && !isNull (field extra "error") && !(arr (field extra "headers")).isEmpty
      && (rpc == "grpc" || rpc == "grpcweb") && str (field inp "proc") == "Unary"
    let handlerOps : List Op :=
      if isNull extra then [] else if synth then [.setRaw ⟨200, []⟩] else [.writeHeader 200, .write [104], .flush]
    let (arbStatus, arbBody) := match finish (run {} (recorded (some ⟨nat (field inp "status"), mBody⟩) handlerOps)).1 with
      | [.header c, .body b] => (c, b)
      | _ => (0, [])
    { agree := implErr == "" && status == arbStatus && body == arbBody && modelOk, holds := holds,
      nontrivial := names.any (fun k => !(valuesOf base k).isEmpty) || !isNull extra,
      cls := str (field inp "proc") ++ ":" ++ str (field inp "proto") ++ (if str (field inp "origin") == "" then "" else ":origin")
        ++ (if isNull extra then "" else ":" ++ rpc ++ (if synth then ":definition-with-error-and-headers" else ":definition-with-more")),
      model := Json.mkObj [("status", wantStatus), ("body", hex mBody), ("bodyFailed", mFailed),
        ("headers", toJson (names.map fun k => (k, ConfModel.RawMerge.get mHdrs k)))],
      why := if holds then "" else
        if implErr != "" then "raw response could not be read: " ++ implErr
        else if status != wantStatus then "status"
        else if !hdrOk then
          let bad := names.filter fun k => !givenHonoured (valuesOf hdrs k) (givenFor given k) (valuesOf base k)
          s!"given header(s) {bad} do not reach the wire with the given values in order: " ++
            toString (bad.map fun k => s!"{k}: given {givenFor given k}, on the wire {valuesOf hdrs k}, set by the stack {valuesOf base k}")
        else if !trlOk then "a given trailer does not carry exactly the given values"
        else if !noForeign then "a header that is neither given nor the stack's reached the wire"
        else "body is not the given body" }
  | "seq" =>
    let rows := parseOracle (field impl "oracle")
    let compress := compressOf rows
    let steps := (arr (field inp "steps")).map parseSeqStep
    let obs : List RawSeq.Obs := (arr (field impl "steps")).map fun o => ⟨unhex (str (field o "out")), bool (field o "err")⟩
    -- the model: the history threaded through the scratch buffer
    let m := (RawSeq.runHist compress [] steps).2
    -- the property: every write shows its own specified bytes (cut where its destination failed)
    let oks := (steps.zip obs).map fun p => RawSeqSpec.stepHolds compress p.1 p.2
    let holds := obs.length == steps.length && oks.all id && rows.all (fun r => r.enc.isNone || r.rt)
    { agree := obs == m, holds := holds,
      nontrivial := steps.length > 1 && steps.any (fun st => st.budget.isSome),
      model := toJson (m.map obsJson),
      cls := if steps.any (fun st => st.budget.isSome) then "with-failed-writes" else "all-sound",
      why := if holds then "" else
        s!"write #{firstBad oks + 1} of the history does not show its own specified bytes (cut where its destination failed)" }
  | "respseq" =>
    let rows := parseOracle (field impl "oracle")
    let compress := compressOf rows
    let stepsJ := arr (field inp "steps")
    let seen := arr (field impl "steps")
    let judge := (stepsJ.zip seen).map fun p =>
      let st := p.1
      let o := p.2
      let err := str (field o "err")
      let status := nat (field o "status")
      let info := natList (field o "info")
      let body := unhex (str (field o "body"))
      let c := nat (field st "status")
      let head := str (field st "method") == "HEAD"
      let clen := optNat (field st "clen")
      let b := parseBody (field st "body")
      let mBody := (RawSeq.obsOf compress ⟨b, none⟩).out
      let law := RawSeq.statusOnWire (protoOf (str (field st "proto"))) c
      let statusOk := RawSeqSpec.statusHonoured c info status
      -- a body the peer cannot get in full: HEAD, a bodyless status, a listed Content-Length that is
      -- not the body's length - what arrives is a (possibly empty) beginning of the specified body
      let partialOnly := head || RawSeqSpec.bodyless status || RawSeqSpec.bodyless c || (match clen with | some n => n != mBody.length | none => false)
      let holds :=
        if partialOnly then err == "do" || (statusOk && body.isPrefixOf mBody)
        else err == "" && statusOk && RawSeqSpec.stepBytesHold compress ⟨b, none⟩ body
      let agree :=
        if partialOnly then holds && (match law with
          | some w => err == "do" || (status == w.final && (w.bodyAllowed && !head || body.isEmpty))
          | none => err == "do")
        else (match law with
          | some w => err == "" && status == w.final && info == w.info && body == mBody
          | none => err == "do")
      (agree, holds)
    let holds := seen.length == stepsJ.length && (judge.map (·.2)).all id
    { agree := seen.length == stepsJ.length && (judge.map (·.1)).all id, holds := holds, nontrivial := stepsJ.length > 1,
      cls := "refused-then-sent", model := Json.null,
      why := if holds then "" else
        s!"response #{firstBad (judge.map (·.2)) + 1} of the sequence does not carry its own specified status and body" }
  | "reqseq" =>
    let rows := parseOracle (field impl "oracle")
    let compress := compressOf rows
    let stepsJ := arr (field inp "steps")
    let seen := arr (field impl "steps")
    let steps : List RawSeq.Step := stepsJ.map fun st => ⟨parseBody (field st "body"), optNat (field st "close")⟩
    let m := (RawSeq.runHist compress [] steps).2
    let bodies := seen.map fun o => unhex (str (field o "body"))
    let oks := (steps.zip seen).map fun p =>
      str (field p.2 "err") == "" && RawSeqSpec.stepBytesHold compress p.1 (unhex (str (field p.2 "body")))
    let holds := seen.length == stepsJ.length && oks.all id
    { agree := bodies == m.map (·.out) && seen.all (fun o => str (field o "err") == ""), holds := holds,
      nontrivial := steps.any (fun st => st.budget.isSome), cls := "closed-pipes",
      model := toJson (m.map fun o => hex o.out),
      why := if holds then "" else
        s!"request #{firstBad oks + 1} of the sequence does not carry its own specified body (cut where the transport closed the pipe)" }
  | "status" =>
    let rows := parseOracle (field impl "oracle")
    let compress := compressOf rows
    let c := nat (field inp "status")
    let err := str (field impl "err")
    let status := nat (field impl "status")
    let info := natList (field impl "info")
    let body := unhex (str (field impl "body"))
    let b := parseBody (field inp "body")
    let mBody := (RawSeq.obsOf compress ⟨b, none⟩).out
    let law := RawSeq.statusOnWire (protoOf (str (field inp "proto"))) c
    let transmittable := c == 0 || (100 ≤ c && c ≤ 999)
    let statusOk := RawSeqSpec.statusHonoured c info status
    let bodyOk := RawSeqSpec.bodyless status || RawSeqSpec.stepBytesHold compress ⟨b, none⟩ body
    -- a status HTTP cannot carry leaves nothing to demand
    let holds := !transmittable || (err == "" && statusOk && bodyOk)
    { agree := (match law with
        | some w => err == "" && status == w.final && info == w.info && body == (if w.bodyAllowed then mBody else [])
        | none => err == "do"),
      holds := holds, nontrivial := transmittable && c != 0 && c != 200,
      cls := str (field inp "proto") ++ ":" ++
        (if c == 0 then "unset" else if c < 100 then "below" else if c ≤ 199 then "1xx" else if c ≤ 599 then "2xx-5xx" else if c ≤ 999 then "6xx-9xx" else "above"),
      model := (match law with
        | some w => Json.mkObj [("info", toJson w.info), ("status", w.final), ("body", hex (if w.bodyAllowed then mBody else []))]
        | none => Json.str "aborted"),
      why := if holds then "" else
        if err != "" then s!"raw response with status {c} could not be read"
        else if !statusOk then s!"raw response prescribes status {c}, the wire carries {status} (informational: {info})"
        else "body is not the given body" }
  | "rawretry" =>
    let rows := parseOracle (field impl "oracle")
    let compress := compressOf rows
    let verb := str (field inp "verb")
    let uri := str (field inp "uri")
    let given := parseHdrs (field inp "headers")
    let fault := str (field inp "fault")
    let b := parseBody (field inp "body")
    let mBody := (RawSeq.obsOf compress ⟨b, none⟩).out
    let exercised := bool (field impl "exercised")
    let attempts := arr (field impl "attempts")
    let sub := field impl "sub"
    -- the model: the substitute request RoundTrip makes, through the transport law
    let env : ConfModel.RawRetry.Env :=
      ⟨str (field inp "proto") == "h2c", ["GET", "HEAD", "OPTIONS", "TRACE"].contains verb,
       given.any (fun h => canonS h.name == "Idempotency-Key" || canonS h.name == "X-Idempotency-Key")⟩
    let orig : ConfModel.RawRetry.Orig := ⟨unhex (str (field inp "orig")), bool (field inp "origGetBody")⟩
    let faults := if fault == "none" then 0 else 1
    let mReq := ConfModel.RawRetry.roundTripReq mBody 0 orig
    let mWire := ConfModel.RawRetry.wire env mReq faults
    let bodies := attempts.map fun a => unhex (str (field a "body"))
    -- the property: every request that reached the peer - any connection, any attempt - is the prescribed one
    let oks := attempts.map fun a =>
      let hdrs := parseHdrs (field a "headers")
      str (field a "method") == verb && str (field a "target") == uri
        && given.all (fun h => valuesOf hdrs (canonS h.name) == givenFor given (canonS h.name))
        && RawSeqSpec.stepBytesHold compress ⟨b, none⟩ (unhex (str (field a "body")))
    let holds := oks.all id
    let agree := !exercised ||
      (bodies == mWire && bool (field sub "getBody") == mReq.getBody.isSome && bool (field sub "bodyPipe")
        && bool (field impl "err") == (faults > 0 && !ConfModel.RawRetry.canReplay env mReq))
    { agree := agree, holds := holds, nontrivial := exercised && faults > 0,
      cls := str (field inp "proto") ++ ":" ++ fault ++ (if exercised then "" else ":not-exercised"),
      model := Json.mkObj [("attempts", toJson (mWire.map hex)), ("getBody", mReq.getBody.isSome)],
      why := if holds then "" else
        s!"request #{firstBad oks + 1} of those the peer received for the raw request is not the prescribed one (method, target, listed headers, body)" }
  | "stackseq" =>
    let rows := parseOracle (field impl "oracle")
    let compress := compressOf rows
    let stepsJ := arr (field inp "steps")
    let seen := arr (field impl "steps")
    let pairs := fun (j : Json) => (parseHdrs j).map fun h => (h.name, h.values)
    let stackNames := ["Vary", "Access-Control-Allow-Origin", "Access-Control-Allow-Credentials", "Access-Control-Expose-Headers"]
    -- the exchanges as the model sees them
    let exchOf : Json → ConfModel.RawStack.Exch := fun st =>
      let origin := if str (field st "origin") == "" then none else some (str (field st "origin"))
      if bool (field st "normal") then
        ⟨origin, none, pairs (field st "respHdrs"), [.writeHeader 200, .write (unhex (str (field st "data")))], none⟩
      else
        let c := nat (field st "status")
        let d : ConfModel.RawStack.RawDef := ⟨c, pairs (field st "headers"), pairs (field st "trailers"), parseBody (field st "body")⟩
        let extra := field st "extra"
        let rpc := str (field st "rpc")
        let synth := !isNull extra && !isNull (field extra "error") && !(arr (field extra "headers")).isEmpty
          && (rpc == "grpc" || rpc == "grpcweb") && str (field st "proc") == "Unary"
        let handlerOps : List Op :=
          if isNull extra then [] else if synth then [.setRaw ⟨200, []⟩] else [.writeHeader 200, .write [104], .flush]
        -- net/http refuses the body of a status that cannot have one
        ⟨origin, some d, if isNull extra then [] else pairs (field extra "headers"), handlerOps,
          if RawSeqSpec.bodyless (RawSeq.finishStatus c) then some 0 else none⟩
    let exchs := stepsJ.map exchOf
    -- the model: the whole history through one process
    let m := (ConfModel.RawStack.serveHist compress canonS {} exchs).2
    let judge := (stepsJ.zip (seen.zip (exchs.zip m))).map fun p =>
      let st := p.1
      let o := p.2.1
      let x := p.2.2.1
      let ms := p.2.2.2
      let err := str (field o "err")
      let status := nat (field o "status")
      let hdrs := pairs (field o "headers")
      let trls := pairs (field o "trailers")
      let base := pairs (field o "base")
      let body := unhex (str (field o "body"))
      match x.prescribed with
      | some d =>
        let holds := err == "" && ConfModel.RawStackSpec.rawHolds compress canonS d status hdrs base trls body
        let names := ConfModel.RawStackSpec.namesOf canonS d.headers ++ stackNames
        let agree := err == "" && ms.raw && status == ms.status && body == ms.body
          && (names.all fun k => k == "Trailer" || k == "Date" || (ConfModel.RawStackSpec.suppressed status).contains k || ConfModel.RawMerge.get hdrs k == ConfModel.RawMerge.get ms.headers k)
          && (RawSeqSpec.bodyless status || (ConfModel.RawStackSpec.namesOf canonS ms.trailers).all fun k =>
                ConfModel.RawMerge.get trls k == ConfModel.RawMerge.listed (ConfModel.RawStackSpec.canonList canonS ms.trailers) k)
        (agree, holds)
      | none =>
        let data := unhex (str (field st "data"))
        let got := unhex (str (field o "data"))
        let holds := err == "" && ConfModel.RawStackSpec.normalHolds canonS data x.handlerHdrs status hdrs base (bool (field o "decoded")) got
        let names := ConfModel.RawStackSpec.namesOf canonS x.handlerHdrs ++ stackNames
        let agree := err == "" && !ms.raw && status == ms.status && got == ms.body
          && (names.all fun k => ConfModel.RawMerge.get hdrs k == ConfModel.RawMerge.get ms.headers k)
        (agree, holds)
    let holds := str (field impl "err") == "" && seen.length == stepsJ.length && (judge.map (·.2)).all id
    { agree := seen.length == stepsJ.length && (judge.map (·.1)).all id, holds := holds,
      nontrivial := stepsJ.length > 1,
      cls := if stepsJ.any (fun st => bool (field st "normal")) then "raw-and-normal" else "raw-only",
      model := toJson (m.map fun s => Json.mkObj [("raw", s.raw), ("status", s.status), ("body", hex s.body), ("headers", toJson s.headers)]),
      why := if holds then "" else
        s!"exchange #{firstBad (judge.map (·.2)) + 1} of the sequence does not show what its own response definition prescribes (status, given headers and trailers, no foreign header, body)" }
  | "rawrace" =>
    -- two goroutines on one rawResponseWriter: both pure outcomes are admissible in any proportion
    -- (raw_xor_normal_concurrent); the verdict depends on `mixed == 0` only
    let rounds := nat (field inp "rounds")
    let nRaw := nat (field impl "allRaw")
    let nNormal := nat (field impl "allNormal")
    let mixed := nat (field impl "mixed")
    let holds := ConfModel.RawRaceSpec.countsHold rounds nRaw nNormal mixed
    let hs := (arr (field inp "handler")).map parseOp
    let r : Raw := ⟨nat (field inp "status"), unhex (str (field inp "body"))⟩
    -- the model's two outcomes: the raw goroutine first, the handler first
    let rawFirst := wireStr (finish (ConfModel.RawRace.mrun {} ((Op.setRaw r :: hs).map .op)).1.s)
    let normalFirst := wireStr (finish (ConfModel.RawRace.mrun {} ((hs ++ [Op.setRaw r]).map .op)).1.s)
    { agree := holds, holds := holds, nontrivial := nRaw > 0 && nNormal > 0,
      cls := match hs with | .write _ :: _ => "Write" | .writeHeader _ :: _ => "WriteHeader" | .flush :: _ => "Flush" | _ => "other",
      model := Json.mkObj [("allRaw", toJson rawFirst), ("allNormal", toJson normalFirst)],
      why := if holds then "" else
        s!"{mixed} of {rounds} rounds MIXED (first: round {nat (field impl "firstRound")}, setRawResponse {str (field impl "firstResult")}, wire {strList (field impl "firstWire")}, headers {strList (field impl "firstHeaders")}): with the handler starting the normal response while another goroutine records a raw response, the wire is neither exactly the handler's output nor exactly the raw response" }
  | _ => bad ("C17: unknown op " ++ op)

end ConfModel.Driver.C17
