package main

// C17, two goroutines arbitrating ONE rawResponseWriter (op `rawrace`).
//
// Every other C17 op calls the writer's methods one after the other. Here, for N rounds per line
// and on a fresh writer each round (real rawResponder around the handler, recording ResponseWriter
// below), the handler goroutine starts the normal response - by Write, WriteHeader, Flush, or
// several of them - at the same instant at which a second goroutine calls the real
// setRawResponse(ctx, raw); both are released by a spin barrier with a small per-round skew.
// A round is all-raw (setRawResponse accepted and the underlying writer saw the prescribed status,
// header and body and nothing else), all-normal (refused with errNonRawResponseStarted and the
// underlying writer saw exactly the handler's output) or MIXED. Both pure outcomes are admissible
// in any proportion; the verdict depends on `mixed == 0` only.

import (
	"encoding/hex"
	"encoding/json"
	"fmt"

	"connectrpc.com/conformance/internal/app/referenceserver"
	conformancev1 "connectrpc.com/conformance/internal/gen/proto/go/connectrpc/conformance/v1"
	"connectrpc.com/conformance/internal/verifharness/gen"
)

type c17RaceIn struct {
	Rounds  int      `json:"rounds"`
	Handler []c17OpJ `json:"handler"` // w | h | f only; the first one starts the normal response
	Status  uint32   `json:"status"`  // raw
	Body    string   `json:"body"`    // raw: hex of a unary binary body (non-empty)
}

type c17RaceOut struct {
	Rounds    int `json:"rounds"`
	AllRaw    int `json:"allRaw"`
	AllNormal int `json:"allNormal"`
	Mixed     int `json:"mixed"`
	// the first mixed round, for the replay
	FirstRound   int      `json:"firstRound"`
	FirstResult  string   `json:"firstResult"`
	FirstWire    []string `json:"firstWire"`
	FirstHeaders []string `json:"firstHeaders"`
}

func init() {
	gen.RegisterOp("c17", "rawrace", func(_ *gen.Ctx, raw json.RawMessage) any { return c17RawRace(gen.Into[c17RaceIn](raw)) })
}

func c17RawRace(in c17RaceIn) c17RaceOut {
	body, _ := hex.DecodeString(in.Body)
	rawResp := &conformancev1.RawHTTPResponse{
		StatusCode: in.Status,
		Headers:    []*conformancev1.Header{{Name: "X-Raw", Value: []string{"yes"}}},
		Body: &conformancev1.RawHTTPResponse_Unary{
			Unary: &conformancev1.MessageContents{Data: &conformancev1.MessageContents_Binary{Binary: body}}},
	}
	status := in.Status
	if status == 0 {
		status = 200
	}
	wantWire := []string{fmt.Sprintf("h:%d", status), "w:" + in.Body}
	o := referenceserver.VerifC17Race(in.Rounds, c17Ops(in.Handler), rawResp, wantWire, []string{"X-Raw: yes"})
	return c17RaceOut{Rounds: o.Rounds, AllRaw: o.AllRaw, AllNormal: o.AllNormal, Mixed: o.Mixed,
		FirstRound: o.FirstRound, FirstResult: o.FirstResult, FirstWire: nn(o.FirstWire), FirstHeaders: nn(o.FirstHeaders)}
}

// runC17Race: generator (o). Every way of starting the normal response (the three entry points,
// alone and followed by the others) against raw responses with an unset and with a set status.
func runC17Race(c *gen.Ctx) {
	r := c.R.Fork()
	w := func() c17OpJ { return c17OpJ{K: "w", Data: hex.EncodeToString(append([]byte("normal-"), r.Bytes(r.Range(1, 6))...))} }
	h := func() c17OpJ { return c17OpJ{K: "h", Code: []int{200, 201, 404, 500}[r.Intn(4)]} }
	f := c17OpJ{K: "f"}
	shapes := [][]c17OpJ{
		{w()}, {h()}, {f}, {h(), w()}, {f, w()}, {w(), f}, {h(), f, w()}, {w(), w()}, {h()}, {w()},
	}
	rounds := 20000
	if c.Thorough() {
		rounds = 300000
	}
	var jobs []any
	for i, sh := range shapes {
		for _, status := range []uint32{0, []uint32{201, 418, 503, 799}[r.Intn(4)]} {
			jobs = append(jobs, c17RaceIn{Rounds: rounds, Handler: sh, Status: status,
				Body: hex.EncodeToString(append([]byte("RAW-"), r.Bytes(r.Range(1, 8))...))})
			c.E.Count(fmt.Sprintf("rawrace:first-%s", shapes[i][0].K))
		}
	}
	c.E.Add("rawrace-lines", len(jobs))
	c.E.Add("rawrace-rounds", len(jobs)*rounds)
	// two goroutines per line
	c.DoParallel("rawrace", jobs, 4)
}
