import ConfModel.Lemmas.H2Body
import ConfModel.Model.H2DataFrame
namespace ConfModel.DataTracer

theorem u8_ofNat_toNat (n : Nat) (h : n < 256) : (UInt8.ofNat n).toNat = n := by
  simp [UInt8.toNat_ofNat', Nat.mod_eq_of_lt h]

/-- the framer gives back exactly the data the sender put into the frame -/
theorem data_wire (d : PData) (h : d.wellFormed = true) : d.wire.data = some d.data := by
  obtain ⟨data, pad⟩ := d
  cases pad with
  | none => simp [PData.wire, DFrame.data]
  | some p =>
    have hp : p.length < 256 := by simpa [PData.wellFormed] using h
    simp only [PData.wire, DFrame.data, readByte, if_true, Option.map_some, u8_ofNat_toNat _ hp,
      List.length_append]
    have h1 : ¬ (p.length > data.length + p.length) := by omega
    simp only [h1, if_false]
    have h2 : data.length + p.length - p.length = data.length := by omega
    rw [h2, List.take_left']
    rfl

theorem decode_wire (o : PadOp) (h : o.wellFormed = true) : o.wire.decode = some o.plain := by
  cases o with
  | reqData d => simp [PadOp.wire, WOp.decode, PadOp.plain, data_wire d (by simpa [PadOp.wellFormed] using h)]
  | respData d => simp [PadOp.wire, WOp.decode, PadOp.plain, data_wire d (by simpa [PadOp.wellFormed] using h)]
  | reqEnd => rfl
  | reqAbort => rfl
  | respEnd => rfl

theorem decodeOps_wire : ∀ (ops : List PadOp), (∀ o ∈ ops, o.wellFormed = true) →
    decodeOps (ops.map PadOp.wire) = some (ops.map PadOp.plain)
  | [], _ => rfl
  | o :: t, h => by
    have ho := decode_wire o (h o (by simp))
    have ht := decodeOps_wire t (fun x hx => h x (by simp [hx]))
    simp [decodeOps, ho, ht]

theorem unpadded_wellFormed (o : PadOp) : o.unpadded.wellFormed = true := by
  cases o <;> simp [PadOp.unpadded, PadOp.wellFormed, PData.wellFormed]

theorem unpadded_plain (o : PadOp) : o.unpadded.plain = o.plain := by
  cases o <;> rfl

/-- every frame the framer accepts is a (well-formed) padded form of the data it yields -/
theorem data_some (f : DFrame) (x : Bytes) (h : f.data = some x) :
    ∃ d : PData, d.wellFormed = true ∧ d.wire = f ∧ d.data = x := by
  obtain ⟨padded, payload⟩ := f
  cases padded with
  | false =>
    refine ⟨⟨x, none⟩, rfl, ?_, rfl⟩
    simp [DFrame.data] at h
    simp [PData.wire, h]
  | true =>
    cases payload with
    | nil => simp [DFrame.data, readByte] at h
    | cons b rest =>
      simp only [DFrame.data, readByte, if_true, Option.map_some] at h
      by_cases hb : b.toNat > rest.length
      · simp [hb] at h
      · simp only [hb, if_false, Option.some.injEq] at h
        have hlt := b.toNat_lt
        have hle : b.toNat ≤ rest.length := by omega
        refine ⟨⟨x, some (rest.drop (rest.length - b.toNat))⟩, ?_, ?_, rfl⟩
        · simp [PData.wellFormed]; omega
        · have hl : (rest.drop (rest.length - b.toNat)).length = b.toNat := by simp; omega
          simp only [PData.wire, hl]
          rw [← h, List.take_append_drop]
          simp

end ConfModel.DataTracer
