import ConfModel.Driver.Common
namespace ConfModel.Driver.C09
open Lean ConfModel.Driver

def handle : Handler := fun op _inp _impl => bad ("C09: unknown op " ++ op)

end ConfModel.Driver.C09
