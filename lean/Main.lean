import ConfModel.Driver.Common
import ConfModel.Driver.C01
import ConfModel.Driver.C02
import ConfModel.Driver.C03
import ConfModel.Driver.C04
import ConfModel.Driver.C05
import ConfModel.Driver.C06
import ConfModel.Driver.C07
import ConfModel.Driver.C08
import ConfModel.Driver.C09
import ConfModel.Driver.C10
import ConfModel.Driver.C11
import ConfModel.Driver.C12
import ConfModel.Driver.C13
import ConfModel.Driver.C14
import ConfModel.Driver.C15
import ConfModel.Driver.C16
import ConfModel.Driver.C17
import ConfModel.Driver.C18
import ConfModel.Driver.C19
import ConfModel.Driver.C20
open ConfModel.Driver

def handlers : List (String × Handler) := [
  ("c01", ConfModel.Driver.C01.handle),
  ("c02", ConfModel.Driver.C02.handle),
  ("c03", ConfModel.Driver.C03.handle),
  ("c04", ConfModel.Driver.C04.handle),
  ("c05", ConfModel.Driver.C05.handle),
  ("c06", ConfModel.Driver.C06.handle),
  ("c07", ConfModel.Driver.C07.handle),
  ("c08", ConfModel.Driver.C08.handle),
  ("c09", ConfModel.Driver.C09.handle),
  ("c10", ConfModel.Driver.C10.handle),
  ("c11", ConfModel.Driver.C11.handle),
  ("c12", ConfModel.Driver.C12.handle),
  ("c13", ConfModel.Driver.C13.handle),
  ("c14", ConfModel.Driver.C14.handle),
  ("c15", ConfModel.Driver.C15.handle),
  ("c16", ConfModel.Driver.C16.handle),
  ("c17", ConfModel.Driver.C17.handle),
  ("c18", ConfModel.Driver.C18.handle),
  ("c19", ConfModel.Driver.C19.handle),
  ("c20", ConfModel.Driver.C20.handle)
]

def main (args : List String) : IO UInt32 := do
  match args with
  | [area] =>
    match handlers.lookup area with
    | some h =>
      loop h (← IO.getStdin) (← IO.getStdout)
      return 0
    | none => IO.eprintln s!"unknown area {area}"; return 2
  | _ => IO.eprintln "usage: confdriver <area> < lines.jsonl"; return 2
