package main

import (
	"bytes"
	"context"
	"encoding/binary"
	"encoding/json"
	"fmt"
	"io"
	"net"
	"net/http"
	"net/http/httputil"
	"net/url"
	"os"
	"os/exec"
	"path/filepath"
	"sort"
	"strconv"
	"strings"
	"sync"
	"syscall"
	"time"

	"connectrpc.com/conformance/internal"
	cc "connectrpc.com/conformance/internal/app/connectconformance"
	"connectrpc.com/conformance/internal/app/referenceserver"
	conformancev1 "connectrpc.com/conformance/internal/gen/proto/go/connectrpc/conformance/v1"
	"connectrpc.com/conformance/internal/verifharness/gen"
)

// C04, ops "srvloop" / "srvcli": the real Run (srvloop) and the real command (srvcli) in mode SERVER —
// a server command under test, the RPCs issued by the in-process REFERENCE CLIENT, whose examination
// of the wire travels back to the runner in the Feedback field of its results.
//
// The server under test is this binary itself (`verifharness c04srvpeer <dir>`): the stock reference
// server of the tree (referenceserver.Run, in-process) behind a reverse proxy.  A file tamper.json in
// the scenario's directory (test-name suffix -> kind) makes the proxy DEVIATE on the wire for those
// cases in a way that leaves the decoded result exactly what the case expects, so that only the
// reference client's wire examination has something to say about them:
//   errkey       an unknown key ("zz") is inserted into the JSON body of a Connect unary error
//                ("connect error JSON: invalid key")
//   httptrailer  an HTTP trailer is added to the response ("response included 1 HTTP trailers …")
//   webmsg       a "grpc-message" is added to the in-body trailers of a gRPC-Web response whose status
//                is 0 ("trailers include a non-empty 'grpc-message' value with zero/okay 'grpc-status'")
// The proxy logs every test name it served and every response it really altered (srv-<pid>.log); the
// op reports both, so that the judge knows for which cases the reference client had a reason to
// complain, whatever the interleaving of the batches was.
//
// in  = {layout (1: Connect over HTTP/1.1; 3: + gRPC-Web), maxServers, cases ([r|w][u|f|k][o|e]:
//       expectation right / wrong, marking, the response is a message / an error), tamper, quiet}
// impl = {ok, err, batches, served, tampered, totals, failedNames, infoNames}

func init() {
	rawCommands["c04srvpeer"] = c04SrvPeer
	gen.RegisterOp("c04", "srvloop", func(c *gen.Ctx, raw json.RawMessage) any {
		return c04SrvLoop(c, gen.Into[c04SrvIn](raw), false)
	})
	gen.RegisterOp("c04", "srvcli", func(c *gen.Ctx, raw json.RawMessage) any {
		return c04SrvLoop(c, gen.Into[c04SrvIn](raw), true)
	})
}

type c04SrvIn struct {
	Layout     int      `json:"layout"`
	MaxServers int      `json:"maxServers"`
	Cases      []string `json:"cases"`
	Tamper     []string `json:"tamper,omitempty"`
	Quiet      bool     `json:"quiet,omitempty"`
}

type c04SrvOut struct {
	OK          bool       `json:"ok"`
	Err         string     `json:"err"`
	Invalid     bool       `json:"invalid,omitempty"`
	Batches     [][]string `json:"batches"`
	Served      []string   `json:"served"`
	Tampered    []string   `json:"tampered"`
	Total       int        `json:"total"`
	Passed      int        `json:"passed"`
	Failed      int        `json:"failed"`
	NotRun      int        `json:"notRun"`
	Expected    int        `json:"expected"`
	FailedNames []string   `json:"failedNames"`
	InfoNames   []string   `json:"infoNames"`
}

var c04SrvLogMu sync.Mutex

func c04SrvLog(path, line string) {
	c04SrvLogMu.Lock()
	defer c04SrvLogMu.Unlock()
	if f, err := os.OpenFile(path, os.O_APPEND|os.O_CREATE|os.O_WRONLY, 0o644); err == nil {
		f.WriteString(line + "\n")
		f.Close()
	}
}

// c04SrvPeer: the server under test.  args = [dir].
func c04SrvPeer(args []string) int {
	if len(args) < 1 {
		return 2
	}
	dir := args[0]
	tamper := map[string]string{}
	if data, err := os.ReadFile(filepath.Join(dir, "tamper.json")); err == nil {
		_ = json.Unmarshal(data, &tamper)
	}
	tamperOf := func(testName string) string {
		best, kind := -1, ""
		for suffix, k := range tamper {
			if strings.HasSuffix(testName, "/"+suffix) && len(suffix) > best {
				best, kind = len(suffix), k
			}
		}
		return kind
	}
	logPath := filepath.Join(dir, fmt.Sprintf("srv-%d.log", os.Getpid()))
	var req conformancev1.ServerCompatRequest
	if err := internal.ReadDelimitedMessage(os.Stdin, &req, "runner", time.Hour, 16<<20); err != nil {
		return 4
	}
	inReader, inWriter := io.Pipe()
	outReader, outWriter := io.Pipe()
	go func() {
		if err := referenceserver.Run(context.Background(), []string{"server", "-bind", "127.0.0.1", "-port", "0"}, inReader, outWriter, os.Stderr); err != nil {
			fmt.Fprintln(os.Stderr, "c04srvpeer: "+err.Error())
			os.Exit(5)
		}
	}()
	if err := internal.WriteDelimitedMessage(inWriter, &req); err != nil {
		return 4
	}
	var resp conformancev1.ServerCompatResponse
	if err := internal.ReadDelimitedMessage(outReader, &resp, "server", time.Minute, 16<<20); err != nil {
		return 4
	}
	target, err := url.Parse("http://" + net.JoinHostPort(resp.Host, strconv.Itoa(int(resp.Port))))
	if err != nil {
		return 4
	}
	proxy := httputil.NewSingleHostReverseProxy(target)
	proxy.ModifyResponse = func(r *http.Response) error {
		name := r.Request.Header.Get("x-test-case-name")
		c04SrvLog(logPath, name)
		kind := tamperOf(name)
		ctype := r.Header.Get("Content-Type")
		replaceBody := func(body []byte) {
			r.Body = io.NopCloser(bytes.NewReader(body))
			r.ContentLength = int64(len(body))
			r.Header.Set("Content-Length", strconv.Itoa(len(body)))
		}
		switch kind {
		case "errkey":
			if r.StatusCode == http.StatusOK || ctype != "application/json" || r.Header.Get("Content-Encoding") != "" {
				return nil
			}
			body, err := io.ReadAll(r.Body)
			_ = r.Body.Close()
			if err != nil {
				return err
			}
			if idx := bytes.IndexByte(body, '{'); idx >= 0 {
				body = append(body[:idx+1:idx+1], append([]byte(`"zz":1,`), body[idx+1:]...)...)
				c04SrvLog(logPath, "#"+name)
			}
			replaceBody(body)
		case "httptrailer":
			if r.Trailer == nil {
				r.Trailer = http.Header{}
			}
			r.Trailer.Set("X-Zz", "1")
			// trailers need a chunked body on HTTP/1.1
			r.Header.Del("Content-Length")
			r.ContentLength = -1
			c04SrvLog(logPath, "#"+name)
		case "webmsg":
			if !strings.HasPrefix(ctype, "application/grpc-web") {
				return nil
			}
			body, err := io.ReadAll(r.Body)
			_ = r.Body.Close()
			if err != nil {
				return err
			}
			var out []byte
			changed := false
			for i := 0; i+5 <= len(body); {
				flag := body[i]
				n := int(binary.BigEndian.Uint32(body[i+1 : i+5]))
				if i+5+n > len(body) {
					out = append(out, body[i:]...)
					break
				}
				payload := body[i+5 : i+5+n]
				if flag&0x80 != 0 && bytes.Contains(payload, []byte("grpc-status: 0\r\n")) && !bytes.Contains(payload, []byte("grpc-message")) {
					payload = append(append([]byte{}, payload...), []byte("grpc-message: zz\r\n")...)
					changed = true
				}
				var hdr [5]byte
				hdr[0] = flag
				binary.BigEndian.PutUint32(hdr[1:], uint32(len(payload)))
				out = append(append(out, hdr[:]...), payload...)
				i += 5 + n
			}
			if changed {
				c04SrvLog(logPath, "#"+name)
			}
			replaceBody(out)
		}
		return nil
	}
	lis, err := net.Listen("tcp", "127.0.0.1:0")
	if err != nil {
		return 4
	}
	go func() { _ = http.Serve(lis, proxy) }()
	tcpAddr, _ := lis.Addr().(*net.TCPAddr)
	resp.Host = "127.0.0.1"
	resp.Port = uint32(tcpAddr.Port)
	if err := internal.WriteDelimitedMessage(os.Stdout, &resp); err != nil {
		return 4
	}
	select {} // serve until the runner terminates this process
}

func c04SrvCodeOK(code string) bool {
	return len(code) == 3 && (code[0] == 'r' || code[0] == 'w') && (code[1] == 'u' || code[1] == 'f' || code[1] == 'k') && (code[2] == 'o' || code[2] == 'e')
}

func c04SrvSuite(cases []string) (string, []string, []string) {
	var sb strings.Builder
	sb.WriteString("name: V\ntestCases:\n")
	var failing, flaky []string
	for i, code := range cases {
		name := fmt.Sprintf("c%d", i)
		fmt.Fprintf(&sb, "- request:\n    testName: %s\n    streamType: STREAM_TYPE_UNARY\n    requestMessages:\n    - \"@type\": type.googleapis.com/connectrpc.conformance.v1.UnaryRequest\n      requestData: \"eHg=\"\n      responseDefinition:\n", name)
		if code[2] == 'e' {
			sb.WriteString("        error:\n          code: CODE_ABORTED\n          message: \"boom\"\n")
		} else {
			sb.WriteString("        responseData: \"dGVzdA==\"\n")
		}
		if code[0] == 'w' {
			sb.WriteString("  expectedResponse:\n    payloads:\n    - data: \"b3RoZXI=\"\n")
		}
		switch code[1] {
		case 'f':
			failing = append(failing, "V/**/"+name)
		case 'k':
			flaky = append(flaky, "V/**/"+name)
		}
	}
	return sb.String(), failing, flaky
}

func c04SrvLoop(c *gen.Ctx, in c04SrvIn, viaCommand bool) c04SrvOut {
	valid := (in.Layout == 1 || in.Layout == 3) && in.MaxServers >= 1 && len(in.Cases) > 0 &&
		(len(in.Tamper) == 0 || len(in.Tamper) == len(in.Cases))
	for _, code := range in.Cases {
		if !c04SrvCodeOK(code) {
			valid = false
		}
	}
	for _, t := range in.Tamper {
		switch t {
		case "", "errkey", "httptrailer", "webmsg":
		default:
			valid = false
		}
	}
	if !valid || (viaCommand && c.BinDir == "") {
		return c04SrvOut{Invalid: true}
	}
	suite, failing, flaky := c04SrvSuite(in.Cases)
	cfg := c04LoopCfg(in.Layout)
	dir := filepath.Join(c.WorkDir, fmt.Sprintf("c04srv-%d-%d", os.Getpid(), c04RunSeq.Add(1)))
	if err := os.MkdirAll(dir, 0o755); err != nil {
		panic(err)
	}
	defer os.RemoveAll(dir)
	out := c04SrvOut{Total: -1, Served: []string{}, Tampered: []string{}, FailedNames: []string{}, InfoNames: []string{}}
	tm := map[string]string{}
	for i, t := range in.Tamper {
		if t != "" {
			tm[fmt.Sprintf("c%d", i)] = t
		}
	}
	data, _ := json.Marshal(tm)
	if err := os.WriteFile(filepath.Join(dir, "tamper.json"), data, 0o644); err != nil {
		panic(err)
	}
	suitePath, cfgPath := filepath.Join(dir, "suite.yaml"), filepath.Join(dir, "config.yaml")
	batches, err := cc.VerifC04SrvBatches(suitePath, suite, cfg)
	if err != nil {
		out.Err = "load: " + err.Error()
		return out
	}
	out.Batches = batches
	self, _ := os.Executable()
	serverCmd := []string{self, "c04srvpeer", dir}
	atoi := func(s string) int { v, _ := strconv.Atoi(s); return v }
	if !viaCommand {
		ok, errText, lines, errLines := cc.VerifC04SrvRun(dir, serverCmd, suite, cfg, failing, flaky, uint(in.MaxServers), !in.Quiet)
		if os.Getenv("VERIF_C04_DEBUG") != "" {
			fmt.Fprintf(os.Stderr, "c04 srvloop %+v ok=%v err=%q\nlog: %q\nstderr: %q\n", in, ok, errText, lines, errLines)
		}
		out.OK, out.Err = ok, errText
		for _, m := range lines {
			if !strings.HasSuffix(m, "\n") {
				m += "\n"
			}
			switch {
			case c04LoopReFailedUP.MatchString(m):
				out.FailedNames = append(out.FailedNames, c04LoopReFailedUP.FindStringSubmatch(m)[1])
			case c04LoopReFailed.MatchString(m):
				out.FailedNames = append(out.FailedNames, c04LoopReFailed.FindStringSubmatch(m)[1])
			case c04LoopReInfo.MatchString(m):
				out.InfoNames = append(out.InfoNames, c04LoopReInfo.FindStringSubmatch(m)[1])
			case c04ReTotal.MatchString(m) && out.Total < 0:
				g := c04ReTotal.FindStringSubmatch(m)
				out.Total, out.Passed, out.Failed = atoi(g[1]), atoi(g[2]), atoi(g[3])
			case c04ReNotRun.MatchString(m) && out.NotRun == 0:
				out.NotRun = atoi(c04ReNotRun.FindStringSubmatch(m)[1])
			case c04ReExpected.MatchString(m) && out.Expected == 0:
				out.Expected = atoi(c04ReExpected.FindStringSubmatch(m)[1])
			}
		}
	} else {
		if err := os.WriteFile(suitePath, []byte(suite), 0o600); err != nil {
			panic(err)
		}
		if err := os.WriteFile(cfgPath, []byte(cfg), 0o600); err != nil {
			panic(err)
		}
		args := []string{"--mode", "server", "--conf", cfgPath, "--test-file", suitePath, "--max-servers", strconv.Itoa(in.MaxServers)}
		if !in.Quiet {
			args = append(args, "-v")
		}
		for _, p := range failing {
			args = append(args, "--known-failing", p)
		}
		for _, p := range flaky {
			args = append(args, "--known-flaky", p)
		}
		args = append(append(args, "--"), serverCmd...)
		cmd := exec.Command(filepath.Join(c.BinDir, "connectconformance"), args...)
		var stdout, stderr bytes.Buffer
		cmd.Stdout, cmd.Stderr = &stdout, &stderr
		cmd.SysProcAttr = &syscall.SysProcAttr{Setpgid: true}
		if err := cmd.Start(); err != nil {
			out.Err = "start: " + err.Error()
			return out
		}
		done := make(chan error, 1)
		go func() { done <- cmd.Wait() }()
		var werr error
		select {
		case werr = <-done:
		case <-time.After(150 * time.Second):
			_ = syscall.Kill(-cmd.Process.Pid, syscall.SIGKILL)
			<-done
			out.Err = "the command did not end within 150 s"
			return out
		}
		code := 0
		if werr != nil {
			if ee, ok := werr.(*exec.ExitError); ok {
				code = ee.ExitCode()
			} else {
				code = -2
			}
		}
		out.OK = code == 0
		text := stdout.String()
		if code != 0 && code != 1 {
			out.Err = fmt.Sprintf("exit status %d: %s", code, c04Tail(stderr.String(), 300))
		} else if code == 1 && !c04CliReTotal.MatchString(text) {
			out.Err = "exit status 1 without a report: " + c04Tail(stderr.String(), 300)
		}
		for _, g := range c04CliReFailedUP.FindAllStringSubmatch(text, -1) {
			out.FailedNames = append(out.FailedNames, g[1])
		}
		for _, g := range c04CliReFailed.FindAllStringSubmatch(text, -1) {
			out.FailedNames = append(out.FailedNames, g[1])
		}
		for _, g := range c04CliReInfo.FindAllStringSubmatch(text, -1) {
			out.InfoNames = append(out.InfoNames, g[1])
		}
		if g := c04CliReTotal.FindStringSubmatch(text); g != nil {
			out.Total, out.Passed, out.Failed = atoi(g[1]), atoi(g[2]), atoi(g[3])
		}
		if g := c04CliReNotRun.FindStringSubmatch(text); g != nil {
			out.NotRun = atoi(g[1])
		}
		if g := c04CliReExpected.FindStringSubmatch(text); g != nil {
			out.Expected = atoi(g[1])
		}
	}
	logs, _ := filepath.Glob(filepath.Join(dir, "srv-*.log"))
	for _, l := range logs {
		data, _ := os.ReadFile(l)
		for _, n := range strings.Split(string(data), "\n") {
			switch {
			case strings.HasPrefix(n, "#"):
				out.Tampered = append(out.Tampered, n[1:])
			case n != "":
				out.Served = append(out.Served, n)
			}
		}
	}
	sort.Strings(out.Served)
	sort.Strings(out.Tampered)
	sort.Strings(out.FailedNames)
	sort.Strings(out.InfoNames)
	return out
}

// c04SrvGen: every tampering x every protocol it applies to x every marking, untampered controls,
// tamperings that do not apply to the case (no deviation, no feedback), wrong expectations, through
// the real Run; a cut of them through the real command.
func c04SrvGen(c *gen.Ctx) {
	if c.BinDir == "" {
		return
	}
	r := c.R
	var ins, cli []any
	add := func(in c04SrvIn) {
		ins = append(ins, in)
		c.E.Count("srvloop:" + strings.Join(in.Tamper, ","))
	}
	addCli := func(in c04SrvIn) {
		cli = append(cli, in)
		c.E.Count("srvcli:" + strings.Join(in.Tamper, ","))
	}
	// controls: nothing deviates
	add(c04SrvIn{Layout: 1, MaxServers: 1, Cases: []string{"ruo", "rue"}})
	add(c04SrvIn{Layout: 3, MaxServers: 4, Cases: []string{"ruo", "rue", "wfo", "rke"}, Quiet: true})
	// fixed points: one deviation of each kind on an unmarked, otherwise passing case
	add(c04SrvIn{Layout: 1, MaxServers: 1, Cases: []string{"ruo", "rue"}, Tamper: []string{"", "errkey"}})
	add(c04SrvIn{Layout: 1, MaxServers: 1, Cases: []string{"ruo", "rue"}, Tamper: []string{"httptrailer", ""}, Quiet: true})
	add(c04SrvIn{Layout: 3, MaxServers: 1, Cases: []string{"ruo", "ruo"}, Tamper: []string{"webmsg", ""}})
	add(c04SrvIn{Layout: 3, MaxServers: 4, Cases: []string{"rue", "ruo"}, Tamper: []string{"httptrailer", "httptrailer"}, Quiet: r.Bool()})
	// a deviation on a known-failing / known-flaky case that otherwise passes: the expected failure
	add(c04SrvIn{Layout: 3, MaxServers: gen.Pick(r, []int{1, 4}), Cases: []string{"rfe", "rko", "ruo"}, Tamper: []string{"errkey", gen.Pick(r, []string{"httptrailer", "webmsg"}), ""}})
	// tamperings that do not apply (errkey on a message, webmsg on an error): no deviation, all pass
	add(c04SrvIn{Layout: 3, MaxServers: 1, Cases: []string{"ruo", "rue"}, Tamper: []string{"errkey", "webmsg"}, Quiet: r.Bool()})
	kinds := []string{"errkey", "httptrailer", "webmsg", ""}
	codes := []string{"ruo", "rue", "ruo", "rue", "rfo", "rke", "wuo", "wfe", "wke"}
	nRand := 4
	if c.Thorough() {
		nRand = 60
	}
	for i := 0; i < nRand; i++ {
		in := c04SrvIn{Layout: gen.Pick(r, []int{1, 3, 3}), MaxServers: gen.Pick(r, []int{1, 4}), Quiet: r.Bool()}
		for j, n := 0, r.Range(1, 4); j < n; j++ {
			in.Cases = append(in.Cases, gen.Pick(r, codes))
			in.Tamper = append(in.Tamper, kinds[(i+j+r.Intn(2))%len(kinds)])
		}
		add(in)
	}
	// the real command
	addCli(c04SrvIn{Layout: 3, MaxServers: 1, Cases: []string{"ruo", "rue"}})
	addCli(c04SrvIn{Layout: 3, MaxServers: 4, Cases: []string{"ruo", "rue", "rfe"}, Tamper: []string{gen.Pick(r, []string{"httptrailer", "webmsg"}), gen.Pick(r, []string{"errkey", "httptrailer"}), "errkey"}, Quiet: true})
	if c.Thorough() {
		for i := 0; i < 12; i++ {
			in := c04SrvIn{Layout: gen.Pick(r, []int{1, 3}), MaxServers: gen.Pick(r, []int{1, 4}), Quiet: r.Bool()}
			for j, n := 0, r.Range(1, 3); j < n; j++ {
				in.Cases = append(in.Cases, gen.Pick(r, codes))
				in.Tamper = append(in.Tamper, gen.Pick(r, kinds))
			}
			addCli(in)
		}
	}
	c.DoParallel("srvloop", ins, 8)
	c.DoParallel("srvcli", cli, 4)
}
