//go:build verif

package connectconformance

import (
	"context"
	"crypto/tls"
	"fmt"
	"io"
	"net"
	"net/http"
	"sort"
	"sync"
	"sync/atomic"
	"time"

	"connectrpc.com/conformance/internal/app/referenceserver"
	conformancev1 "connectrpc.com/conformance/internal/gen/proto/go/connectrpc/conformance/v1"
	"golang.org/x/net/http2"
	"google.golang.org/protobuf/proto"
)

// C11 op "refhang": "the batch ends in bounded time whatever goes wrong", with the REAL in-process
// reference server (referenceserver.RunInReferenceMode behind runInProcess / localProcess, as the
// runner starts it) and a client that reports a result for every case but leaves requests HANGING in
// the server at the end of the batch:
//
//	h1-partial-body   an HTTP/1.1 POST with Content-Length 100 of which 10 bytes are sent, connection kept open
//	h1-chunked-open   an HTTP/1.1 POST with chunked body, one chunk sent, never terminated
//	h2-open-stream    an HTTP/2 (prior knowledge) stream whose request body is never closed
//	none              nothing left hanging (for contrast)
//
// The handler of such a request blocks reading the body and can never finish. The batch must still
// end within the documented grace periods (the server's 5 s graceful shutdown, localProcess's 5 s),
// with one outcome per case keeping the client's verdicts, and the server function must have returned.
type VerifC11RefHangSpec struct {
	N     int    `json:"n"`
	Hang  string `json:"hang"`
	Each  bool   `json:"each"`  // a hanging request for every case (otherwise for the first only)
	IsRef bool   `json:"isRef"` // runner told that this is a reference server (reads its stderr)
	DogS  int    `json:"dogS"`  // watchdog, in seconds of received ticks
}

type VerifC11RefHangObs struct {
	Outcomes       [][2]string `json:"outcomes"`
	Hang           bool        `json:"hang"`
	ElapsedMs      int64       `json:"elapsedMs"`
	ServerReturned bool        `json:"serverReturned"`
	Hanging        int         `json:"hanging"` // requests left hanging
	SetupErr       string      `json:"setupErr"`
}

type verifC11RefHangClient struct {
	spec    *VerifC11RefHangSpec
	cases   []*conformancev1.TestCase
	mu      sync.Mutex
	calls   int
	closers []io.Closer
	hanging int
	errs    []string
}

const verifC11RefHangPath = "/connectrpc.conformance.v1.ConformanceService/Unary"

func (c *verifC11RefHangClient) hang(host string, port uint32) error {
	addr := net.JoinHostPort(host, fmt.Sprint(port))
	switch c.spec.Hang {
	case "h1-partial-body", "h1-chunked-open":
		conn, err := net.DialTimeout("tcp", addr, 5*time.Second)
		if err != nil {
			return err
		}
		c.closers = append(c.closers, conn)
		head := "POST " + verifC11RefHangPath + " HTTP/1.1\r\nHost: " + addr + "\r\nContent-Type: application/proto\r\n" +
			"Connect-Protocol-Version: 1\r\nX-Test-Case-Name: verif/left-hanging\r\n"
		if c.spec.Hang == "h1-partial-body" {
			head += "Content-Length: 100\r\n\r\n0123456789"
		} else {
			head += "Transfer-Encoding: chunked\r\n\r\n5\r\nabcde\r\n"
		}
		_, err = conn.Write([]byte(head))
		return err
	case "h2-open-stream":
		tr := &http2.Transport{AllowHTTP: true, DialTLSContext: func(ctx context.Context, network, a string, _ *tls.Config) (net.Conn, error) {
			var d net.Dialer
			return d.DialContext(ctx, network, a)
		}}
		pr, pw := io.Pipe()
		c.closers = append(c.closers, pw)
		req, err := http.NewRequest(http.MethodPost, "http://"+addr+verifC11RefHangPath, pr)
		if err != nil {
			return err
		}
		req.Header.Set("Content-Type", "application/proto")
		req.Header.Set("Connect-Protocol-Version", "1")
		req.Header.Set("X-Test-Case-Name", "verif/left-hanging")
		go func() {
			resp, err := tr.RoundTrip(req)
			if err == nil {
				_, _ = io.Copy(io.Discard, resp.Body)
				_ = resp.Body.Close()
			}
			tr.CloseIdleConnections()
		}()
		_, err = pw.Write([]byte("0123456789"))
		return err
	}
	return nil
}

func (c *verifC11RefHangClient) sendRequest(req *conformancev1.ClientCompatRequest, whenDone func(string, *conformancev1.ClientCompatResponse, error)) error {
	c.mu.Lock()
	i := c.calls
	c.calls++
	if c.spec.Hang != "none" && (i == 0 || c.spec.Each) {
		if err := c.hang(req.Host, req.Port); err != nil {
			c.errs = append(c.errs, err.Error())
		} else {
			c.hanging++
		}
	}
	last := i == len(c.cases)-1
	c.mu.Unlock()
	if last {
		// give the server a moment to take the hanging requests into their handlers before the
		// last result is reported (and the batch ends)
		time.Sleep(400 * time.Millisecond)
	}
	whenDone(req.TestName, &conformancev1.ClientCompatResponse{TestName: req.TestName, Result: &conformancev1.ClientCompatResponse_Response{
		Response: proto.Clone(c.cases[i].ExpectedResponse).(*conformancev1.ClientResponseResult), //nolint:forcetypeassert
	}}, nil)
	return nil
}

func (c *verifC11RefHangClient) closeSend()              {}
func (c *verifC11RefHangClient) waitForResponses() error { return nil }
func (c *verifC11RefHangClient) isRunning() bool         { return true }
func (c *verifC11RefHangClient) stop()                   {}

func VerifC11RefHang(spec VerifC11RefHangSpec) VerifC11RefHangObs {
	obs := VerifC11RefHangObs{Outcomes: [][2]string{}}
	cases := make([]*conformancev1.TestCase, spec.N)
	for i := range cases {
		cases[i] = &conformancev1.TestCase{
			Request:          &conformancev1.ClientCompatRequest{TestName: fmt.Sprintf("Hang/case%d", i)},
			ExpectedResponse: &conformancev1.ClientResponseResult{Payloads: []*conformancev1.ConformancePayload{{Data: []byte("data")}}},
		}
	}
	results := newResults(spec.N, &testTrie{}, &testTrie{}, nil)
	var serverReturned atomic.Bool
	starter := runInProcess([]string{"reference-server", "-port", "0", "-bind", "127.0.0.1"},
		func(ctx context.Context, args []string, in io.ReadCloser, out, errW io.WriteCloser) error {
			defer serverReturned.Store(true)
			return referenceserver.RunInReferenceMode(ctx, args, in, out, errW, nil)
		})
	client := &verifC11RefHangClient{spec: &spec, cases: cases}
	version := conformancev1.HTTPVersion_HTTP_VERSION_1
	if spec.Hang == "h2-open-stream" {
		version = conformancev1.HTTPVersion_HTTP_VERSION_2
	}
	meta := serverInstance{protocol: conformancev1.Protocol_PROTOCOL_CONNECT, httpVersion: version}
	done := make(chan struct{})
	t0 := time.Now()
	go func() {
		defer close(done)
		runTestCasesForServer(context.Background(), false, spec.IsRef, meta, cases, nil, nil, starter,
			verifNopPrinter{}, verifNopPrinter{}, results, client, nil, false)
	}()
	dog := VerifNewDog(spec.DogS)
	select {
	case <-done:
	case <-dog.C:
		obs.Hang = true
	}
	dog.Stop()
	obs.ElapsedMs = time.Since(t0).Milliseconds()
	obs.ServerReturned = serverReturned.Load()
	client.mu.Lock()
	obs.Hanging = client.hanging
	for _, e := range client.errs {
		obs.SetupErr += e + "; "
	}
	for _, cl := range client.closers {
		_ = cl.Close()
	}
	client.mu.Unlock()
	results.mu.Lock()
	for name, o := range results.outcomes {
		obs.Outcomes = append(obs.Outcomes, [2]string{name, verifC11Class(o)})
	}
	results.mu.Unlock()
	sort.Slice(obs.Outcomes, func(i, j int) bool { return obs.Outcomes[i][0] < obs.Outcomes[j][0] })
	return obs
}
