//go:build verif

package connectconformance

import (
	"strings"
	"bytes"
	"context"
	"encoding/binary"
	"errors"
	"fmt"
	"io"
	"sort"
	"sync"
	"time"

	"connectrpc.com/conformance/internal"
	conformancev1 "connectrpc.com/conformance/internal/gen/proto/go/connectrpc/conformance/v1"
	"google.golang.org/protobuf/proto"
)

// VerifC11Case is the scripted client's behaviour for the i-th sendRequest call.
//
//	refuse                  sendRequest returns an error (client pipe closed)
//	pass|mismatch|error|neither|noresult  the request is accepted and its callback is invoked
//	                        (synchronously, or from another goroutine when Async) with: the
//	                        expected response / a different response / a ClientErrorResult /
//	                        a response with neither / a failedToGetResultError
type VerifC11Case struct {
	K     string `json:"k"`
	Async bool   `json:"async,omitempty"`
}

// VerifC11Spec is the fault script of one batch.
type VerifC11Spec struct {
	Names   []string       `json:"names"`
	Cases   []VerifC11Case `json:"cases"` // same length as Names
	IsRef   bool           `json:"isRef"`
	UseTLS  bool           `json:"useTLS"`
	Start   string         `json:"start"`   // ok | err
	Write   string         `json:"write"`   // ok | prefix | body   (which Write of the server request fails)
	Close   string         `json:"close"`   // ok | err            (closing the server's stdin)
	Resp    string         `json:"resp"`    // ok | okcert | garbage | oversize | zero | cut | never
	Cut     int            `json:"cut"`     // resp=cut: only the first Cut bytes of the well-formed response (without certificate), then EOF
	RespLen int            `json:"respLen"` // length of that well-formed response as the generator believes it (checked)
	KnownFailing []string  `json:"knownFailing,omitempty"` // patterns marking cases known-failing (used by C04's batch ops)
	RawReq  bool           `json:"rawReq,omitempty"`  // the test cases carry a raw HTTP request (server-mode suites)
	ExitNil bool           `json:"exitNil,omitempty"` // the server process ends with a nil result (exit status 0) instead of an error
	Dies    int            `json:"dies"`    // -1: never; k >= 0: the server process dies once k requests were handed to the client
	Stderr  string         `json:"stderr"`  // what a reference server prints on stderr
	Chunk   int            `json:"chunk"`   // stderr is delivered in reads of at most Chunk bytes (0: all at once)
	Creds   bool           `json:"creds,omitempty"` // the runner holds server and client TLS credentials for this batch (as run() does for TLS instances)
}

// verifC11Creds: what run() hands to runTestCasesForServer for a TLS server instance.
func verifC11Creds(on bool) (server, client *conformancev1.TLSCreds) {
	if !on {
		return nil, nil
	}
	return &conformancev1.TLSCreds{Cert: []byte("runner-server-cert"), Key: []byte("runner-server-key")},
		&conformancev1.TLSCreds{Cert: []byte("runner-client-cert"), Key: []byte("runner-client-key")}
}

// VerifC11Req describes one request as the client received it.
type VerifC11Req struct {
	Name        string   `json:"name"`
	HdrName     []string `json:"hdrName"`    // values of x-test-case-name in request_headers
	Raw         bool     `json:"raw"`        // the request carries a raw HTTP request
	RawHdrName  []string `json:"rawHdrName"` // values of x-test-case-name in raw_request.headers
	Host        string   `json:"host"`
	Port        int      `json:"port"`
	HasCert     bool     `json:"hasCert"`
	ExpectHdrs  int      `json:"expectHdrs"`    // number of x-expect-* headers in request_headers
	RawExpected int      `json:"rawExpectHdrs"` // number of x-expect-* headers in raw_request.headers
}

type VerifC11Obs struct {
	Outcomes  [][2]string `json:"outcomes"`  // sorted (name, class): pass | fail | setup | norun | noresult
	Aborts    int         `json:"aborts"`    // abort() calls on the server process
	Started   bool        `json:"started"`   // a process was created
	Forwarded []string    `json:"forwarded"` // lines passed to the error printer (prefix "referenceserver")
	BadPrefix int         `json:"badPrefix"` // forwarded with another prefix, or through Printf
	Sideband  [][2]string `json:"sideband"`  // sorted (name, message)
	Hang      bool        `json:"hang"`      // runTestCasesForServer did not return within 15 s
	StderrEOF bool        `json:"stderrEOF"` // the stderr stream was read to its end (reference server only)
	// Reqs: what was handed to the client for each request, as far as C05 names it
	Reqs []VerifC11Req `json:"reqs"`
	// AfterMerge: the outcome classes once the recorded reference-server feedback has been merged
	// into the outcomes (what report() does first): a set-up error must stay a set-up error
	AfterMerge [][2]string `json:"afterMerge"`
}

func VerifC11RespLen() int { return len(verifC11RespBytes(false)) }

func VerifC11MaxServerResponseSize() int { return maxServerResponseSize }

func verifC11RespBytes(cert bool) []byte {
	resp := &conformancev1.ServerCompatResponse{Host: "127.0.0.1", Port: 12345}
	if cert {
		resp.PemCert = []byte("cert")
	}
	var buf bytes.Buffer
	if err := internal.WriteDelimitedMessage(&buf, resp); err != nil {
		panic(err)
	}
	return buf.Bytes()
}

// verifC11BigResp is a framed, decodable ServerCompatResponse whose message is exactly size bytes
// (a long host name).
func verifC11BigResp(size int) []byte {
	for pad := size - 16; pad <= size; pad++ {
		host := bytes.Repeat([]byte{'h'}, pad)
		data, err := proto.Marshal(&conformancev1.ServerCompatResponse{Host: string(host), Port: 1})
		if err != nil {
			panic(err)
		}
		if len(data) == size {
			out := make([]byte, 4+len(data))
			binary.BigEndian.PutUint32(out, uint32(len(data)))
			copy(out[4:], data)
			return out
		}
	}
	panic("c11: cannot build a response of the requested size")
}

type verifC11Proc struct {
	exitNil bool
	mu      sync.Mutex
	done    bool
	doneCh  chan struct{}
	actions []func(error)
	aborts  int
}

func (p *verifC11Proc) exitErr() error {
	if p.exitNil {
		return nil
	}
	return errors.New("verif server process ended")
}

func (p *verifC11Proc) stop() {
	p.mu.Lock()
	if p.done {
		p.mu.Unlock()
		return
	}
	p.done = true
	acts := p.actions
	p.actions = nil
	close(p.doneCh)
	p.mu.Unlock()
	for _, a := range acts {
		a(p.exitErr())
	}
}

func (p *verifC11Proc) result() error {
	<-p.doneCh
	return p.exitErr()
}

func (p *verifC11Proc) abort() {
	p.mu.Lock()
	p.aborts++
	p.mu.Unlock()
	p.stop()
}

func (p *verifC11Proc) whenDone(action func(error)) {
	p.mu.Lock()
	if p.done {
		p.mu.Unlock()
		action(p.exitErr())
		return
	}
	p.actions = append(p.actions, action)
	p.mu.Unlock()
}

type verifC11Stdin struct {
	spec  *VerifC11Spec
	calls int
}

func (w *verifC11Stdin) Write(b []byte) (int, error) {
	w.calls++
	if (w.spec.Write == "prefix" && w.calls == 1) || (w.spec.Write == "body" && w.calls == 2) {
		return 0, errors.New("verif: stdin write error")
	}
	return len(b), nil
}

func (w *verifC11Stdin) Close() error {
	if w.spec.Close == "err" {
		return errors.New("verif: stdin close error")
	}
	return nil
}

// verifC11Stdout serves the scripted server response one byte per Read, then EOF.
type verifC11Stdout struct {
	data   []byte
	offs   int
	never  bool
	proc   *verifC11Proc
	atLast func() // called just before the last byte is handed out
}

func (r *verifC11Stdout) Read(b []byte) (int, error) {
	if r.never {
		<-r.proc.doneCh
		return 0, io.EOF
	}
	if r.offs >= len(r.data) || len(b) == 0 {
		return 0, io.EOF
	}
	if r.offs == len(r.data)-1 && r.atLast != nil {
		r.atLast()
	}
	if rest := len(r.data) - r.offs; rest > 64 {
		// bulk of a large message: in blocks (the last 64 bytes still come one by one)
		n := copy(b, r.data[r.offs:len(r.data)-64])
		r.offs += n
		return n, nil
	}
	b[0] = r.data[r.offs]
	r.offs++
	return 1, nil
}

type verifC11Stderr struct {
	data  []byte
	chunk int
	eof   chan struct{}
	once  sync.Once
}

func (r *verifC11Stderr) Read(b []byte) (int, error) {
	if len(r.data) == 0 {
		r.once.Do(func() { close(r.eof) })
		return 0, io.EOF
	}
	n := len(r.data)
	if r.chunk > 0 && n > r.chunk {
		n = r.chunk
	}
	if n > len(b) {
		n = len(b)
	}
	copy(b, r.data[:n])
	r.data = r.data[n:]
	return n, nil
}

type verifC11Printer struct {
	mu        sync.Mutex
	forwarded []string
	bad       int
}

func (p *verifC11Printer) Printf(string, ...any) {
	p.mu.Lock()
	p.bad++
	p.mu.Unlock()
}

func (p *verifC11Printer) PrefixPrintf(prefix, msg string, args ...any) {
	p.mu.Lock()
	defer p.mu.Unlock()
	if prefix != "referenceserver" {
		p.bad++
		return
	}
	p.forwarded = append(p.forwarded, fmt.Sprintf(msg, args...))
}

type verifC11Client struct {
	spec     *VerifC11Spec
	cases    []*conformancev1.TestCase
	calls    int
	proc     func() *verifC11Proc
	async    sync.WaitGroup
	overflow int
	reqs     []VerifC11Req
}

func (c *verifC11Client) sendRequest(req *conformancev1.ClientCompatRequest, whenDone func(string, *conformancev1.ClientCompatResponse, error)) error {
	i := c.calls
	c.calls++
	defer func() {
		if c.spec.Dies >= 0 && c.calls == c.spec.Dies {
			if p := c.proc(); p != nil {
				p.stop()
			}
		}
	}()
	if i >= len(c.spec.Cases) {
		c.overflow++
		return errors.New("verif: more requests than cases")
	}
	{
		rec := VerifC11Req{Name: req.TestName, Host: req.Host, Port: int(req.Port), HasCert: len(req.ServerTlsCert) > 0, Raw: req.RawRequest != nil,
			HdrName: []string{}, RawHdrName: []string{}}
		for _, h := range req.RequestHeaders {
			if strings.EqualFold(h.Name, "x-test-case-name") {
				rec.HdrName = append(rec.HdrName, h.Value...)
			}
			if strings.HasPrefix(strings.ToLower(h.Name), "x-expect-") {
				rec.ExpectHdrs++
			}
		}
		if req.RawRequest != nil {
			for _, h := range req.RawRequest.Headers {
				if strings.EqualFold(h.Name, "x-test-case-name") {
					rec.RawHdrName = append(rec.RawHdrName, h.Value...)
				}
				if strings.HasPrefix(strings.ToLower(h.Name), "x-expect-") {
					rec.RawExpected++
				}
			}
		}
		c.reqs = append(c.reqs, rec)
	}
	k := c.spec.Cases[i]
	if k.K == "refuse" {
		return errClosed
	}
	name := req.TestName
	var resp *conformancev1.ClientCompatResponse
	var cbErr error
	switch k.K {
	case "pass":
		resp = &conformancev1.ClientCompatResponse{TestName: name, Result: &conformancev1.ClientCompatResponse_Response{
			Response: proto.Clone(c.cases[i].ExpectedResponse).(*conformancev1.ClientResponseResult), //nolint:forcetypeassert
		}}
	case "mismatch":
		resp = &conformancev1.ClientCompatResponse{TestName: name, Result: &conformancev1.ClientCompatResponse_Response{
			Response: &conformancev1.ClientResponseResult{Payloads: []*conformancev1.ConformancePayload{{Data: []byte("other")}}},
		}}
	case "error":
		resp = &conformancev1.ClientCompatResponse{TestName: name, Result: &conformancev1.ClientCompatResponse_Error{
			Error: &conformancev1.ClientErrorResult{Message: "client says no"},
		}}
	case "neither":
		resp = &conformancev1.ClientCompatResponse{TestName: name}
	case "noresult":
		cbErr = &failedToGetResultError{errNoOutcome}
	default:
		panic("c11: unknown case kind " + k.K)
	}
	if k.Async {
		c.async.Add(1)
		go func() {
			defer c.async.Done()
			whenDone(name, resp, cbErr)
		}()
	} else {
		whenDone(name, resp, cbErr)
	}
	return nil
}

func (c *verifC11Client) closeSend()              {}
func (c *verifC11Client) waitForResponses() error { return nil }
func (c *verifC11Client) isRunning() bool         { return true }
func (c *verifC11Client) stop()                   {}

func verifC11Class(o testOutcome) string {
	var noRun *couldNotRunError
	var noResult *failedToGetResultError
	switch {
	case errors.As(o.actualFailure, &noRun):
		if !o.setupError {
			return "norun-not-setup"
		}
		return "norun"
	case errors.As(o.actualFailure, &noResult):
		if !o.setupError {
			return "noresult-not-setup"
		}
		return "noresult"
	case o.setupError && o.actualFailure != nil:
		return "setup"
	case o.setupError:
		return "setup-nil"
	case o.actualFailure == nil:
		return "pass"
	default:
		return "fail"
	}
}

// VerifC11Run runs the real runTestCasesForServer on a scripted server process and a scripted
// client runner.
func VerifC11Run(spec VerifC11Spec) VerifC11Obs {
	obs, _ := verifC11Run(spec)
	return obs
}

func verifC11Run(spec VerifC11Spec) (VerifC11Obs, *testResults) {
	cases := make([]*conformancev1.TestCase, len(spec.Names))
	for i, n := range spec.Names {
		req := &conformancev1.ClientCompatRequest{TestName: n}
		if spec.RawReq {
			req.RawRequest = &conformancev1.RawHTTPRequest{Verb: "POST", Uri: "/verif", Headers: []*conformancev1.Header{{Name: "content-type", Value: []string{"application/proto"}}}}
		}
		cases[i] = &conformancev1.TestCase{
			Request:          req,
			ExpectedResponse: &conformancev1.ClientResponseResult{Payloads: []*conformancev1.ConformancePayload{{Data: []byte("data")}}},
		}
	}
	kf := parsePatterns(spec.KnownFailing)
	if kf == nil {
		kf = &testTrie{}
	}
	results := newResults(len(cases), kf, &testTrie{}, nil)
	printer := &verifC11Printer{}
	var procMu sync.Mutex
	var proc *verifC11Proc
	stderr := &verifC11Stderr{data: []byte(spec.Stderr), chunk: spec.Chunk, eof: make(chan struct{})}
	starter := func(_ context.Context, _ bool) (*process, error) {
		if spec.Start == "err" {
			return nil, errors.New("verif: cannot start")
		}
		p := &verifC11Proc{doneCh: make(chan struct{}), exitNil: spec.ExitNil}
		procMu.Lock()
		proc = p
		procMu.Unlock()
		out := &verifC11Stdout{proc: p}
		switch spec.Resp {
		case "ok":
			out.data = verifC11RespBytes(false)
		case "okcert":
			out.data = verifC11RespBytes(true)
		case "garbage":
			out.data = []byte{0, 0, 0, 3, 0xff, 0xff, 0xff}
		case "overshort": // only the prefix of an oversized message
			out.data = make([]byte, 4)
			binary.BigEndian.PutUint32(out.data, uint32(maxServerResponseSize+1))
		case "oversize": // a complete, well-formed message of limit+1 bytes
			out.data = verifC11BigResp(maxServerResponseSize + 1)
		case "limit": // a complete, well-formed message of exactly the limit
			out.data = verifC11BigResp(maxServerResponseSize)
		case "zero":
			out.data = []byte{0, 0, 0, 0}
		case "cut":
			b := verifC11RespBytes(false)
			if len(b) != spec.RespLen {
				panic(fmt.Sprintf("c11: response length is %d, generator said %d", len(b), spec.RespLen))
			}
			if spec.Cut < len(b) {
				b = b[:spec.Cut]
			}
			out.data = b
		case "never":
			out.never = true
		default:
			panic("c11: unknown response kind " + spec.Resp)
		}
		if spec.Dies == 0 {
			out.atLast = p.stop
		}
		return &process{processController: p, stdin: &verifC11Stdin{spec: &spec}, stdout: out, stderr: stderr}, nil
	}
	client := &verifC11Client{spec: &spec, cases: cases, proc: func() *verifC11Proc {
		procMu.Lock()
		defer procMu.Unlock()
		return proc
	}}
	meta := serverInstance{
		protocol:    conformancev1.Protocol_PROTOCOL_CONNECT,
		httpVersion: conformancev1.HTTPVersion_HTTP_VERSION_1,
		useTLS:      spec.UseTLS,
	}
	done := make(chan struct{})
	go func() {
		defer close(done)
		serverCreds, clientCreds := verifC11Creds(spec.Creds)
		runTestCasesForServer(context.Background(), !spec.IsRef, spec.IsRef, meta, cases, serverCreds, clientCreds, starter,
			verifNopPrinter{}, printer, results, client, nil, false)
	}()
	var obs VerifC11Obs
	select {
	case <-done:
	case <-time.After(15 * time.Second):
		obs.Hang = true
		if p := client.proc(); p != nil {
			p.stop()
		}
		return obs, results
	}
	client.async.Wait()
	p := client.proc()
	obs.Started = p != nil
	if p != nil && spec.IsRef {
		select {
		case <-stderr.eof:
			obs.StderrEOF = true
		case <-time.After(2 * time.Second):
		}
		if n := len(spec.Stderr); n > 0 && spec.Stderr[n-1] != '\n' {
			// the unterminated last line is handled after the read that reported EOF
			time.Sleep(20 * time.Millisecond)
		}
	}
	if p != nil {
		p.mu.Lock()
		obs.Aborts = p.aborts
		p.mu.Unlock()
	}
	results.mu.Lock()
	for name, o := range results.outcomes {
		obs.Outcomes = append(obs.Outcomes, [2]string{name, verifC11Class(o)})
	}
	for name, msg := range results.serverSideband {
		obs.Sideband = append(obs.Sideband, [2]string{name, msg})
	}
	results.mu.Unlock()
	sort.Slice(obs.Outcomes, func(i, j int) bool { return obs.Outcomes[i][0] < obs.Outcomes[j][0] })
	sort.Slice(obs.Sideband, func(i, j int) bool { return obs.Sideband[i][0] < obs.Sideband[j][0] })
	printer.mu.Lock()
	obs.Forwarded = append([]string{}, printer.forwarded...)
	obs.BadPrefix = printer.bad
	printer.mu.Unlock()
	if obs.Outcomes == nil {
		obs.Outcomes = [][2]string{}
	}
	if obs.Sideband == nil {
		obs.Sideband = [][2]string{}
	}
	obs.Reqs = append([]VerifC11Req{}, client.reqs...)
	// merge the feedback on a copy of the bookkeeping (callers may still call report() on results)
	merged := newResults(len(cases), &testTrie{}, &testTrie{}, nil)
	results.mu.Lock()
	for name, o := range results.outcomes {
		merged.outcomes[name] = o
	}
	for name, msg := range results.serverSideband {
		merged.serverSideband[name] = msg
	}
	results.mu.Unlock()
	merged.mu.Lock()
	merged.processSidebandInfoLocked()
	for name, o := range merged.outcomes {
		obs.AfterMerge = append(obs.AfterMerge, [2]string{name, verifC11Class(o)})
	}
	merged.mu.Unlock()
	sort.Slice(obs.AfterMerge, func(i, j int) bool { return obs.AfterMerge[i][0] < obs.AfterMerge[j][0] })
	if obs.AfterMerge == nil {
		obs.AfterMerge = [][2]string{}
	}
	return obs, results
}
