/-
End-to-end (C15), builder part: what the events recorded by a stream's trace builder look
like through the property's observation functions (`reqMsgsOf`, `respMsgsOf`, the indices,
first and last event), event by event.
-/
import ConfModel.Lemmas.H2E2EData
import ConfModel.Lemmas.H2Once
set_option linter.unusedSimpArgs false
set_option linter.unusedVariables false
namespace ConfModel.H2

/-- the observed events of the trace under construction -/
def oevs (b : Builder) : List OEv := b.trace.events.map Ev.obs

/-- summary of a named builder that has not finished: request messages `rm`, response
messages `pm`, request ended regularly `re`, response started `rs` -/
structure BSum (b : Builder) (rm pm : List Msg) (re rs : Bool) : Prop where
  named : b.trace.name ≠ ""
  err : b.trace.err = .none
  head : (oevs b).head? = some .reqStart
  reqMsgs : reqMsgsOf (oevs b) = rm
  reqIdx : reqIdxOf (oevs b) = List.range b.reqCount
  respMsgs : respMsgsOf (oevs b) = pm
  respIdx : respIdxOf (oevs b) = List.range b.respCount
  reqEnd : (oevs b).contains (.reqEnd .none) = re
  respStart : (oevs b).any OEv.isRespStart = rs

/-- the parts of the trace that events do not touch -/
def sameHdr (b b' : Builder) : Prop :=
  b'.trace.name = b.trace.name ∧ b'.trace.req = b.trace.req ∧ b'.trace.resp = b.trace.resp ∧
  b'.trace.respTrailers = b.trace.respTrailers

theorem sameHdr_refl (b : Builder) : sameHdr b b := ⟨rfl, rfl, rfl, rfl⟩
theorem sameHdr_trans {a b c : Builder} (h1 : sameHdr a b) (h2 : sameHdr b c) : sameHdr a c :=
  ⟨h2.1.trans h1.1, h2.2.1.trans h1.2.1, h2.2.2.1.trans h1.2.2.1, h2.2.2.2.trans h1.2.2.2⟩

theorem head_append_of_head {l : List OEv} {x : OEv} (h : l.head? = some x) (l' : List OEv) : (l ++ l').head? = some x := by
  cases l with
  | nil => simp at h
  | cons a l => simpa using h

theorem add_reqData {b : Builder} {rm pm : List Msg} {re rs : Bool} (h : BSum b rm pm re rs) (env : Option Env) (len i : Nat) :
    (b.add (.reqData env len i)).2 = none ∧ BSum (b.add (.reqData env len i)).1 (rm ++ [Msg.data env len]) pm re rs ∧
    sameHdr b (b.add (.reqData env len i)).1 := by
  have hn := h.named
  refine ⟨by simp [Builder.add, hn], ?_, by simp [Builder.add, hn, Builder.push, sameHdr]⟩
  have e : oevs (b.add (.reqData env len i)).1 = oevs b ++ [OEv.reqData env len b.reqCount] := by
    simp [Builder.add, hn, Builder.push, oevs, Ev.obs]
  have c1 : (b.add (.reqData env len i)).1.reqCount = b.reqCount + 1 := by simp [Builder.add, hn, Builder.push]
  have c2 : (b.add (.reqData env len i)).1.respCount = b.respCount := by simp [Builder.add, hn, Builder.push]
  refine ⟨by simp [Builder.add, hn, Builder.push], by simpa [Builder.add, hn, Builder.push] using h.err, ?_, ?_, ?_, ?_, ?_, ?_, ?_⟩
  · rw [e]; exact head_append_of_head h.head _
  · rw [e]; simpa [reqMsgsOf, List.filterMap_append] using h.reqMsgs
  · rw [e, c1, List.range_succ]; simpa [reqIdxOf, List.filterMap_append] using h.reqIdx
  · rw [e]; simpa [respMsgsOf, List.filterMap_append] using h.respMsgs
  · rw [e, c2]; simpa [respIdxOf, List.filterMap_append] using h.respIdx
  · rw [e]; simpa [List.contains_append] using h.reqEnd
  · rw [e]; simpa [List.any_append, OEv.isRespStart] using h.respStart

theorem add_respData {b : Builder} {rm pm : List Msg} {re rs : Bool} (h : BSum b rm pm re rs) (env : Option Env) (len i : Nat) :
    (b.add (.respData env len i)).2 = none ∧ BSum (b.add (.respData env len i)).1 rm (pm ++ [Msg.data env len]) re rs ∧
    sameHdr b (b.add (.respData env len i)).1 := by
  have hn := h.named
  refine ⟨by simp [Builder.add, hn], ?_, by simp [Builder.add, hn, Builder.push, sameHdr]⟩
  have e : oevs (b.add (.respData env len i)).1 = oevs b ++ [OEv.respData env len b.respCount] := by
    simp [Builder.add, hn, Builder.push, oevs, Ev.obs]
  have c1 : (b.add (.respData env len i)).1.reqCount = b.reqCount := by simp [Builder.add, hn, Builder.push]
  have c2 : (b.add (.respData env len i)).1.respCount = b.respCount + 1 := by simp [Builder.add, hn, Builder.push]
  refine ⟨by simp [Builder.add, hn, Builder.push], by simpa [Builder.add, hn, Builder.push] using h.err, ?_, ?_, ?_, ?_, ?_, ?_, ?_⟩
  · rw [e]; exact head_append_of_head h.head _
  · rw [e]; simpa [reqMsgsOf, List.filterMap_append] using h.reqMsgs
  · rw [e, c1]; simpa [reqIdxOf, List.filterMap_append] using h.reqIdx
  · rw [e]; simpa [respMsgsOf, List.filterMap_append] using h.respMsgs
  · rw [e, c2, List.range_succ]; simpa [respIdxOf, List.filterMap_append] using h.respIdx
  · rw [e]; simpa [List.contains_append] using h.reqEnd
  · rw [e]; simpa [List.any_append, OEv.isRespStart] using h.respStart

theorem add_respEos {b : Builder} {rm pm : List Msg} {re rs : Bool} (h : BSum b rm pm re rs) (c : Bytes) :
    (b.add (.respEos c)).2 = none ∧ BSum (b.add (.respEos c)).1 rm (pm ++ [Msg.eos c]) re rs ∧
    sameHdr b (b.add (.respEos c)).1 := by
  have hn := h.named
  refine ⟨by simp [Builder.add, hn], ?_, by simp [Builder.add, hn, Builder.push, sameHdr]⟩
  have e : oevs (b.add (.respEos c)).1 = oevs b ++ [OEv.respEos c] := by
    simp [Builder.add, hn, Builder.push, oevs, Ev.obs]
  have c1 : (b.add (.respEos c)).1.reqCount = b.reqCount := by simp [Builder.add, hn, Builder.push]
  have c2 : (b.add (.respEos c)).1.respCount = b.respCount := by simp [Builder.add, hn, Builder.push]
  refine ⟨by simp [Builder.add, hn, Builder.push], by simpa [Builder.add, hn, Builder.push] using h.err, ?_, ?_, ?_, ?_, ?_, ?_, ?_⟩
  · rw [e]; exact head_append_of_head h.head _
  · rw [e]; simpa [reqMsgsOf, List.filterMap_append] using h.reqMsgs
  · rw [e, c1]; simpa [reqIdxOf, List.filterMap_append] using h.reqIdx
  · rw [e]; simpa [respMsgsOf, List.filterMap_append] using h.respMsgs
  · rw [e, c2]; simpa [respIdxOf, List.filterMap_append] using h.respIdx
  · rw [e]; simpa [List.contains_append] using h.reqEnd
  · rw [e]; simpa [List.any_append, OEv.isRespStart] using h.respStart

theorem add_reqEndNone {b : Builder} {rm pm : List Msg} {re rs : Bool} (h : BSum b rm pm re rs) :
    (b.add (.reqEnd .none)).2 = none ∧ BSum (b.add (.reqEnd .none)).1 rm pm true rs ∧
    sameHdr b (b.add (.reqEnd .none)).1 := by
  have hn := h.named
  have he := h.err
  refine ⟨by simp [Builder.add, hn], ?_, by simp [Builder.add, hn, Builder.push, sameHdr]⟩
  have e : oevs (b.add (.reqEnd .none)).1 = oevs b ++ [OEv.reqEnd .none] := by
    simp [Builder.add, hn, Builder.push, oevs, Ev.obs]
  have c1 : (b.add (.reqEnd .none)).1.reqCount = b.reqCount := by simp [Builder.add, hn, Builder.push]
  have c2 : (b.add (.reqEnd .none)).1.respCount = b.respCount := by simp [Builder.add, hn, Builder.push]
  refine ⟨by simp [Builder.add, hn, Builder.push], by simp [Builder.add, hn, Builder.push, he], ?_, ?_, ?_, ?_, ?_, ?_, ?_⟩
  · rw [e]; exact head_append_of_head h.head _
  · rw [e]; simpa [reqMsgsOf, List.filterMap_append] using h.reqMsgs
  · rw [e, c1]; simpa [reqIdxOf, List.filterMap_append] using h.reqIdx
  · rw [e]; simpa [respMsgsOf, List.filterMap_append] using h.respMsgs
  · rw [e, c2]; simpa [respIdxOf, List.filterMap_append] using h.respIdx
  · rw [e]; simp [List.contains_append]
  · rw [e]; simpa [List.any_append, OEv.isRespStart] using h.respStart

theorem add_respStart {b : Builder} {rm pm : List Msg} {re rs : Bool} (h : BSum b rm pm re rs) (f : Fields) :
    (b.add (.respStart f)).2 = none ∧ BSum (b.add (.respStart f)).1 rm pm re true ∧
    (b.add (.respStart f)).1.trace.name = b.trace.name ∧ (b.add (.respStart f)).1.trace.req = b.trace.req ∧
    (b.add (.respStart f)).1.trace.resp = some f ∧ (b.add (.respStart f)).1.trace.respTrailers = b.trace.respTrailers := by
  have hn := h.named
  refine ⟨by simp [Builder.add, hn], ?_, by simp [Builder.add, hn, Builder.push]⟩
  have e : oevs (b.add (.respStart f)).1 = oevs b ++ [OEv.respStart (statusOf f)] := by
    simp [Builder.add, hn, Builder.push, oevs, Ev.obs]
  have c1 : (b.add (.respStart f)).1.reqCount = b.reqCount := by simp [Builder.add, hn, Builder.push]
  have c2 : (b.add (.respStart f)).1.respCount = b.respCount := by simp [Builder.add, hn, Builder.push]
  refine ⟨by simp [Builder.add, hn, Builder.push], by simpa [Builder.add, hn, Builder.push] using h.err, ?_, ?_, ?_, ?_, ?_, ?_, ?_⟩
  · rw [e]; exact head_append_of_head h.head _
  · rw [e]; simpa [reqMsgsOf, List.filterMap_append] using h.reqMsgs
  · rw [e, c1]; simpa [reqIdxOf, List.filterMap_append] using h.reqIdx
  · rw [e]; simpa [respMsgsOf, List.filterMap_append] using h.respMsgs
  · rw [e, c2]; simpa [respIdxOf, List.filterMap_append] using h.respIdx
  · rw [e]; simpa [List.contains_append] using h.reqEnd
  · rw [e]; simp [List.any_append, OEv.isRespStart]

/-- the message events of a request-direction flush / trace call -/
theorem addAll_req {rm pm : List Msg} {re rs : Bool} : ∀ (devs : List DEv) (b : Builder), BSum b rm pm re rs →
    (∀ d ∈ devs, d.isData = true) →
    (b.addAll (devs.map reqEv)).2 = [] ∧ BSum (b.addAll (devs.map reqEv)).1 (rm ++ devs.map DEv.msg) pm re rs ∧
    sameHdr b (b.addAll (devs.map reqEv)).1
  | [], b, h, _ => by simpa [Builder.addAll] using ⟨h, sameHdr_refl b⟩
  | d :: devs, b, h, hd => by
    cases d with
    | eos c => have := hd (.eos c) (by simp); simp [DEv.isData] at this
    | data env len =>
      have h1 := add_reqData h env len 0
      have ih := addAll_req devs (b.add (.reqData env len 0)).1 h1.2.1 (fun d hd' => hd d (by simp [hd']))
      simp only [List.map_cons, reqEv, Builder.addAll, h1.1, Option.toList, List.nil_append, DEv.msg]
      refine ⟨ih.1, ?_, sameHdr_trans h1.2.2 ih.2.2⟩
      simpa [List.append_assoc] using ih.2.1

/-- the message events of a response-direction flush / trace call -/
theorem addAll_resp {rm pm : List Msg} {re rs : Bool} : ∀ (devs : List DEv) (b : Builder), BSum b rm pm re rs →
    (b.addAll (devs.map respEv)).2 = [] ∧ BSum (b.addAll (devs.map respEv)).1 rm (pm ++ devs.map DEv.msg) re rs ∧
    sameHdr b (b.addAll (devs.map respEv)).1
  | [], b, h => by simpa [Builder.addAll] using ⟨h, sameHdr_refl b⟩
  | d :: devs, b, h => by
    cases d with
    | eos c =>
      have h1 := add_respEos h c
      have ih := addAll_resp devs (b.add (.respEos c)).1 h1.2.1
      simp only [List.map_cons, respEv, Builder.addAll, h1.1, Option.toList, List.nil_append, DEv.msg]
      refine ⟨ih.1, ?_, sameHdr_trans h1.2.2 ih.2.2⟩
      simpa [List.append_assoc] using ih.2.1
    | data env len =>
      have h1 := add_respData h env len 0
      have ih := addAll_resp devs (b.add (.respData env len 0)).1 h1.2.1
      simp only [List.map_cons, respEv, Builder.addAll, h1.1, Option.toList, List.nil_append, DEv.msg]
      refine ⟨ih.1, ?_, sameHdr_trans h1.2.2 ih.2.2⟩
      simpa [List.append_assoc] using ih.2.1

/-- what the property reads off a finished trace -/
structure FinSum (t : Trace) (rm pm : List Msg) (re rs : Bool) (last : OEv) : Prop where
  head : (t.events.map Ev.obs).head? = some .reqStart
  reqMsgs : reqMsgsOf (t.events.map Ev.obs) = rm
  reqIdx : reqIdxOf (t.events.map Ev.obs) = List.range (reqIdxOf (t.events.map Ev.obs)).length
  respMsgs : respMsgsOf (t.events.map Ev.obs) = pm
  respIdx : respIdxOf (t.events.map Ev.obs) = List.range (respIdxOf (t.events.map Ev.obs)).length
  reqEnd : (t.events.map Ev.obs).contains (.reqEnd .none) = re
  respStart : (t.events.map Ev.obs).any OEv.isRespStart = rs
  last : (t.events.map Ev.obs).getLast? = some last

/-- the finished trace: the error is recorded, the last event appended -/
def finTrace (b : Builder) (ev : Ev) (err : Err) : Trace :=
  { b.trace with err := err, events := b.trace.events ++ [ev] }

theorem finTrace_sum {b : Builder} {rm pm : List Msg} {re rs : Bool} (h : BSum b rm pm re rs) (ev : Ev) (err : Err)
    (h1 : reqMsgsOf [ev.obs] = []) (h2 : reqIdxOf [ev.obs] = []) (h3 : respMsgsOf [ev.obs] = []) (h4 : respIdxOf [ev.obs] = [])
    (h5 : ev.obs ≠ .reqEnd .none) (h6 : ev.obs.isRespStart = false) :
    FinSum (finTrace b ev err) rm pm re rs ev.obs := by
  have e : (finTrace b ev err).events.map Ev.obs = oevs b ++ [ev.obs] := by simp [finTrace, oevs]
  have h5' : ¬ (OEv.reqEnd Err.none = ev.obs) := fun x => h5 x.symm
  refine ⟨?_, ?_, ?_, ?_, ?_, ?_, ?_, ?_⟩
  · rw [e]; exact head_append_of_head h.head _
  · rw [e]; unfold reqMsgsOf at h1 ⊢; rw [List.filterMap_append, h1]; simpa [reqMsgsOf] using h.reqMsgs
  · rw [e]
    have : reqIdxOf (oevs b ++ [ev.obs]) = reqIdxOf (oevs b) := by
      unfold reqIdxOf at h2 ⊢; rw [List.filterMap_append, h2]; simp
    rw [this, h.reqIdx, List.length_range]
  · rw [e]; unfold respMsgsOf at h3 ⊢; rw [List.filterMap_append, h3]; simpa [respMsgsOf] using h.respMsgs
  · rw [e]
    have : respIdxOf (oevs b ++ [ev.obs]) = respIdxOf (oevs b) := by
      unfold respIdxOf at h4 ⊢; rw [List.filterMap_append, h4]; simp
    rw [this, h.respIdx, List.length_range]
  · rw [e]; simpa [List.contains_append, h5'] using h.reqEnd
  · rw [e]; simpa [List.any_append, h6] using h.respStart
  · rw [e]; simp

theorem add_respEnd {b : Builder} {rm pm : List Msg} {re rs : Bool} (h : BSum b rm pm re rs) (err : Err) :
    (b.add (.respEnd err)).2 = some (finTrace b (.respEnd err) err) ∧
    FinSum (finTrace b (.respEnd err) err) rm pm re rs (.respEnd err) := by
  have hn := h.named
  have he := h.err
  refine ⟨by simp [Builder.add, hn, Builder.push, finTrace, he], ?_⟩
  exact finTrace_sum h (.respEnd err) err (by simp [Ev.obs, reqMsgsOf]) (by simp [Ev.obs, reqIdxOf]) (by simp [Ev.obs, respMsgsOf])
    (by simp [Ev.obs, respIdxOf]) (by simp [Ev.obs]) (by simp [Ev.obs, OEv.isRespStart])

theorem add_reqEndErr {b : Builder} {rm pm : List Msg} {re rs : Bool} (h : BSum b rm pm re rs) (err : Err) (hne : err ≠ .none) :
    (b.add (.reqEnd err)).2 = some (finTrace b (.reqEnd err) err) ∧ (b.add (.reqEnd err)).1.trace.name = "" ∧
    FinSum (finTrace b (.reqEnd err) err) rm pm re rs (.reqEnd err) := by
  have hn := h.named
  have he := h.err
  refine ⟨by simp [Builder.add, hn, hne, Builder.push, finTrace, he], by simp [Builder.add, hn, hne, Builder.clear, Trace.empty], ?_⟩
  exact finTrace_sum h (.reqEnd err) err (by simp [Ev.obs, reqMsgsOf]) (by simp [Ev.obs, reqIdxOf]) (by simp [Ev.obs, respMsgsOf])
    (by simp [Ev.obs, respIdxOf]) (by simp [Ev.obs]; exact hne) (by simp [Ev.obs, OEv.isRespStart])

end ConfModel.H2
